#!/bin/sh
# usage: seed_verify.sh Cnn [worktree]  -- confirm a seeded change in a scratch worktree:
#   suite passes with the change, demo fails with it and passes without it; then store it under /verif/seeded/Cnn.
#   (no git stash: the stash is shared by all worktrees of a repository)
id=$1; wt=${2:-/tmp/seed/$id}; out=/verif/seeded/$id
mkdir -p "$out"
if [ ! -d "$wt" ]; then   # re-verification from the stored patch
  git -C /repo worktree add --detach "$wt" HEAD >/dev/null 2>&1 || exit 2
  (cd "$wt" && git apply "$out/patch.diff" && cp "$out/demo.py" demo.py) || { echo "$id: stored patch does not apply"; exit 3; }
  made=1
fi
cd "$wt" || exit 2
git diff -- xeofs > "$out/patch.diff.new"
[ -s "$out/patch.diff.new" ] || { echo "$id: empty patch"; exit 3; }
mv "$out/patch.diff.new" "$out/patch.diff"
cp demo.py "$out/demo.py" 2>/dev/null; cp NOTE.md "$out/NOTE.md" 2>/dev/null
PYTHONPATH=$wt timeout 600 /venv/bin/python demo.py > "$out/demo_changed.log" 2>&1; rc_changed=$?
PYTHONPATH=$wt timeout 2400 /venv/bin/python -m pytest -q -p no:cacheprovider --timeout=900 > "$out/suite.log" 2>&1; rc_suite=$?
git apply -R "$out/patch.diff"
PYTHONPATH=$wt timeout 600 /venv/bin/python demo.py > "$out/demo_unchanged.log" 2>&1; rc_unchanged=$?
git apply "$out/patch.diff"
tail -1 "$out/suite.log"
echo "$id demo_changed=$rc_changed demo_unchanged=$rc_unchanged suite=$rc_suite"
echo "{\"demo_changed_rc\": $rc_changed, \"demo_unchanged_rc\": $rc_unchanged, \"suite_rc\": $rc_suite, \"suite_summary\": \"$(tail -1 $out/suite.log | tr -d '=\"')\"}" > "$out/confirm.json"
[ -n "$made" ] && { cd /; git -C /repo worktree remove --force "$wt"; }
