#!/bin/sh
# usage: seed_verify.sh Cnn   -- confirm a seeded change in its scratch worktree /tmp/seed/Cnn:
#   suite passes with the change, demo fails with it and passes without it; then store it under /verif/seeded/Cnn
id=$1; wt=/tmp/seed/$id; out=/verif/seeded/$id
[ -d "$wt" ] || { echo "no worktree $wt"; exit 2; }
mkdir -p "$out"
cd "$wt" || exit 2
git diff -- xeofs > "$out/patch.diff"
[ -s "$out/patch.diff" ] || { echo "$id: empty patch"; exit 3; }
cp demo.py "$out/demo.py" 2>/dev/null; cp NOTE.md "$out/NOTE.md" 2>/dev/null
PYTHONPATH=$wt timeout 300 /venv/bin/python demo.py > "$out/demo_changed.log" 2>&1; rc_changed=$?
git stash -q
PYTHONPATH=$wt timeout 300 /venv/bin/python demo.py > "$out/demo_unchanged.log" 2>&1; rc_unchanged=$?
git stash pop -q
PYTHONPATH=$wt timeout 2400 /venv/bin/python -m pytest -q -p no:cacheprovider --timeout=900 > "$out/suite.log" 2>&1; rc_suite=$?
tail -1 "$out/suite.log"
echo "$id demo_changed=$rc_changed demo_unchanged=$rc_unchanged suite=$rc_suite"
echo "{\"demo_changed_rc\": $rc_changed, \"demo_unchanged_rc\": $rc_unchanged, \"suite_rc\": $rc_suite, \"suite_summary\": \"$(tail -1 $out/suite.log | tr -d '=\"')\"}" > "$out/confirm.json"
