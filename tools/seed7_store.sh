#!/bin/sh
# usage: seed3_store.sh Cnn -- store the round-7 seed from /tmp/seed7/Cnn under /verif/seeded7/Cnn, rebased on /repo's HEAD, and verify it there
id=$1; wt=/tmp/seed7/$id; out=/verif/seeded7/$id
mkdir -p "$out"; cd "$wt" || exit 2
git diff -- xeofs > "$out/patch.diff"; [ -s "$out/patch.diff" ] || { echo "$id: empty patch"; exit 3; }
head=$(git -C /repo rev-parse HEAD)
if [ "$(git rev-parse HEAD)" != "$head" ]; then
  git apply -R "$out/patch.diff" && git checkout -q --detach "$head" || { echo "$id: cannot move worktree"; exit 4; }
  git apply --3way "$out/patch.diff" 2> "$out/rebase.log" || { echo "$id: patch does not apply on $head"; exit 5; }
  git reset -q; git diff -- xeofs > "$out/patch.diff"
fi
cp demo.py "$out/demo.py"; cp NOTE.md "$out/NOTE.md" 2>/dev/null
PYTHONPATH=$wt timeout 900 /venv/bin/python demo.py > "$out/demo_changed.log" 2>&1; rc_changed=$?
PYTHONPATH=$wt timeout 2400 /venv/bin/python -m pytest -q -p no:cacheprovider --timeout=900 -n 6 > "$out/suite.log" 2>&1; rc_suite=$?
git apply -R "$out/patch.diff"
PYTHONPATH=$wt timeout 900 /venv/bin/python demo.py > "$out/demo_unchanged.log" 2>&1; rc_unchanged=$?
git apply "$out/patch.diff"
echo "$id demo_changed=$rc_changed demo_unchanged=$rc_unchanged suite=$rc_suite $(tail -1 $out/suite.log)"
echo "{\"demo_changed_rc\": $rc_changed, \"demo_unchanged_rc\": $rc_unchanged, \"suite_rc\": $rc_suite, \"suite_summary\": \"$(tail -1 $out/suite.log | tr -d '=\"')\"}" > "$out/confirm.json"
