#!/usr/bin/env python3
"""print python source without docstrings/comments (reading aid)"""
import ast, sys
for fn in sys.argv[1:]:
    t = ast.parse(open(fn).read())
    for n in ast.walk(t):
        if isinstance(n, (ast.FunctionDef, ast.ClassDef, ast.Module, ast.AsyncFunctionDef)):
            if n.body and isinstance(n.body[0], ast.Expr) and isinstance(getattr(n.body[0], 'value', None), ast.Constant) and isinstance(n.body[0].value.value, str):
                n.body = n.body[1:] or [ast.Pass()]
    print("#### ", fn)
    print(ast.unparse(t))
