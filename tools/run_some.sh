#!/bin/sh
# usage: run_some.sh tier seed Cnn [Cnn ...]  -- like run_all.sh for the listed checks
tier=$1; seed=$2; shift 2
cd "$(dirname "$0")/.." || exit 2
./check --setup > /dev/null 2>&1
for id in "$@"; do
  VERIF_SEED=$seed ./check $id --tier $tier 2>&1 | grep -E "^(PASS|FAIL|VIOLATION|  broken)" | cut -c1-300
done
