#!/usr/bin/env python3
"""writes /verif/MANIFEST.json from the table below (kept valid at all times)"""
import json, os
ROOT = os.path.dirname(os.path.dirname(os.path.abspath(__file__)))
props = [json.loads(l) for l in open(os.path.join(ROOT, "properties.jsonl"))]
CLAIMED = {
 "C07": dict(
   text="Coq theorems (oracle-relative, any field with conjugation, all sizes): a permutation of the features maps every admissible SVD answer (U,s,Vt) of X to the admissible answer (U,s,Vt Pi) of X Pi and leaves scores, norms and explained variances unchanged while permuting the component rows; a permutation of the samples maps it to (Sigma U,s,Vt) and permutes the scores identically, nothing else; the sign rule sees a row of Vt only through its maximum and minimum and is permutation invariant (real instance). Uniqueness of the SVD for simple spectra is not proved (partial). Oracle on the implementation: pairs of fits on transposed / feature-permuted / sample-permuted / split-into-list copies and with other sample_name/feature_name for every single-set class, their rotator and bootstrapper, and cross-set classes; complex modes compared up to a unit phase, SparsePCA/OPA up to sign.",
   note="Trusted: Coq kernel; Coq.Reals axioms in C07_sign_rule_perm; spectral gap in generated data; N-d re-layout = column permutation is validated by the C02 stacking correspondence.",
   technique="Coq proof (equivariance of the SVD specification under Permutation) + differential oracle on re-laid-out inputs", ref="4/C07"),
 "C05": dict(
   text="Coq theorems, all sizes: the composition scaler-with-fitted-statistics then projection on the components commutes with row concatenation and with row selection; the rotator's transform tail (divide, rotate, re-sort, re-scale, re-sign) commutes with row concatenation in both the sorted and unsorted state; dropping entirely missing samples commutes with concatenation. Source tie (regenerated on every run): every transform/predict implementation back-transforms scores through the unseen-data path, on which no transformer re-indexes to the fit samples and the MultiIndex is restored from the transform call. Oracle on the implementation: own sample labels, no spurious NaN, EVERY split point of the new data, subsets of the training samples, two sample dimensions and a sample MultiIndex, for single-set, rotated, cross-set and multi-set models.",
   note="Trusted: Coq kernel; translator T7unseen/T4; xarray concat/sel; SparsePCA, POP and cross-set transforms are covered by the API oracle, not by a theorem.",
   technique="Coq proof (row-wise maps commute with vstack/selection) + source-regenerated call-path table + exhaustive split-point oracle", ref="4/C05"),
 "C02": dict(
   text="Coq theorems on the index arithmetic of stacking, for any number of dimensions, any sizes and any dimension order: row-major flatten/unflatten are mutually inverse (mixed radix); stacking along any permutation of the dimensions (sample dimensions first) and unstacking returns at every in-range multi-index the value the input holds there; concatenating per-item feature blocks and splitting by the recorded sizes returns every block (lists/Datasets, any number of items). Correspondence (exact, integer-valued data): the stacking model vs the Preprocessor's 2-D matrix on every enumerated layout; oracle: container type, variable names, dimensions, label sets and values at every label after the round trip, dims of components/scores/reconstructions through EOF. xarray's own primitives are modelled, not verified. Known findings (Datasets with different dimension sets, list items with different auxiliary coordinates, Dataset with a MultiIndex sample dimension) are listed in known_findings.json.",
   note="Trusted: Coq kernel; xarray stack/unstack/to_stacked_array semantics as modelled (row-major product order, variable-major concatenation) and validated by enumeration at sizes 2-3; duplicate-free coordinates assumed. Reconstruction dimension ORDER through a model is not constrained (values are compared by label).",
   technique="Coq proof (induction over dimension lists, Permutation) + exact correspondence on enumerated layouts", ref="4/C02"),
 "C04": dict(
   text="Coq theorems (any field with conjugation): for the EOF model transform(X_fit) = scores with the model's own sign convention; for the rotator model, before compute() and after (sorted by any index list), project-divide-rotate-sort-rescale-resign of the training matrix equals the fitted rotated scores (premise: retained singular values non-zero). Rotator step order and formulas are proved equal to the definitions regenerated from eof_rotator.py. Correspondence: rotation model at binary64/complex vs EOFRotator/ComplexEOFRotator (power 1-3). Oracle at the public API on every transform-capable class (EOF, ComplexEOF, SparsePCA, POP, CPCCA/MCA/CCA/RDA + complex, their rotators, multi.CCA): values, dims, sample labels, mode order. SparsePCA/POP/cross/multi are oracle-only (partial).",
   note="Trusted: Coq kernel; translator T3/T5eof/T5rot; SVD and rotation matrix as oracles (residuals checked); SparsePCA, POP, CPCCA-family and multi.CCA transform-vs-scores rest on the API-level oracle, not a theorem.",
   technique="Coq proof on EOF/rotator models + float correspondence + API-level differential oracle", ref="4/C04"),
 "C11": dict(
   text="Coq theorems: every Varimax iterate is unitary (induction over an unbounded number of iterations, inner SVD an oracle); for any invertible R with RinvT = R^{-H} and any power the reconstruction from rotated scores/components equals the unrotated k-mode reconstruction (abstract field with square-root hypotheses; discharged for real data with D_j > 0 over Coq's reals); sorting all mode arrays by one permutation preserves the reconstruction (sum invariance under Permutation); power 1: rotated normalised scores stay orthonormal. Model formulas and step lists proved equal to those regenerated from eof_rotator.py. Correspondence: rotation model vs EOFRotator/ComplexEOFRotator; API-level oracles (recon equality, descending order, sign convention, unitary R, orthonormal scores, conserved variance, Varimax criterion) on EOF-, Hilbert- and CPCCA-family rotators. Varimax ascent is stated, not proved (partial).",
   note="Trusted: Coq kernel; translator T5rot/T5eof/T3; rotation matrix oracle (inverse re-checked in Coq); Kaiser stabiliser eps treated as 0; Coq.Reals axioms in C11_recon_equal_real; cross-set rotator algebra oracle-only.",
   technique="Coq proof (induction over iterations, matrix algebra, Permutation) + float correspondence + API oracle", ref="4/C11"),
 "C03": dict(
   text="Coq theorems (any field with conjugation): the inverse operation list regenerated from Scaler.inverse_transform_data undoes the list regenerated from Scaler.transform element by element for all flag combinations (forced hypotheses: std, coslat weight, user weight non-zero); with all modes kept the model's scores reconstruct the decomposed matrix exactly; transform(inverse_transform(S)) = S for every score matrix S of any sample count; the normalized switches (regenerated from base_model_single_set.py) differ from the default exactly by the norms. Correspondence: the scaler model at binary64 vs Scaler on all 16 flag/weight combinations; oracles at the public API for EOF/ComplexEOF/HilbertEOF and the CPCCA family (full-mode reconstruction in physical units, transform o inverse on arbitrary scores and coordinates, normalized switches).",
   note="Trusted: Coq kernel; translator T4/T5eof/T3; xarray broadcasting of per-feature statistics (modelled as per-column parameters); SVD oracle; cross-set reconstruction is covered by oracle+correspondence here and by the CPCCA theorems of C09/C16.",
   technique="Coq proof over source-regenerated scaler op lists and EOF model + float correspondence", ref="4/C03"),
 "C01": dict(
   text="Coq theorems, for every field with an involutive conjugation (so real and complex data at once) and every shape/spectrum/k: from the SVD oracle's specification the model's components are orthonormal, scores are mutually orthogonal with norms the leading singular values, (X^H X/(n-1)) v_i = (s_i^2/(n-1)) v_i, X^H X = V diag(s^2) V^H over all modes, the k-mode reconstruction error equals the discarded squared singular values, and with centred columns the ddof=1 total variance is the sum of all s_i^2/(n-1); at the real instance: explained variances non-negative and descending, ratios in [0,1] summing to one. The normalisation constants, conjugations, sign rule and stored names in the model are proved equal to the definitions regenerated from eof.py/decomposer.py/xarray_utils.py on every run. Correspondence: the same Gallina model run at binary64 (real and complex) against EOF/ComplexEOF/HilbertEOF/ExtendedEOF fits, SVD oracle residuals re-checked inside Coq. Eckart-Young over arbitrary rank-k matrices is stated, not proved (partial); randomised solvers are tested only.",
   note="Trusted: Coq kernel/vm_compute; translator T3/T3b/T5eof; numpy SVD as oracle with checked residuals; Hilbert transform opaque (the decomposed matrix is data['input_data']); Coq.Reals axioms in the three order theorems; rounding gap float vs field (rtol 1e-8).",
   technique="Coq proof over abstract field from SVD oracle spec + source-regenerated constants + float-instance correspondence", ref="4/C01"),
 "C15": dict(
   text="Coq theorems over the definitions regenerated from decomposer.py/_svd.py/xarray_utils.py on every run: the variance-threshold formula keeps the least sufficient number of modes (all list lengths, all non-negative spectra), 'auto' only selects what 'full' or 'randomized' select, unknown solvers and over-rank n_modes are refused, the sign rule makes a largest-magnitude loading positive (forced hypothesis: not a constant negative column, refuted otherwise), every site forwarding solver_kwargs hands them on intact. Correspondence: generated decision functions vs Decomposer.fit/_SVD.fit_transform on an enumerated decision grid, bit-exact threshold counts on prescribed spectra, sign rule on columns incl. ties. Exact-vs-randomised agreement and seed reproducibility are tests.",
   note="Trusted: Coq kernel/vm_compute; translator T3/T3b/T8 (Python ast, fail-closed); Coq.Reals axioms in order theorems; PrimFloat primitives in generated float expressions; numpy/sklearn/scipy/dask solvers behind the policy are not modelled (tests only).",
   technique="Coq proof over source-regenerated decision functions + differential correspondence (vm_compute)", ref="4/C15"),
}
checks = []
for p in props:
    pid = p["id"]
    if pid in CLAIMED:
        c = CLAIMED[pid]
        checks.append(dict(property_id=pid, quick_cmd="./check %s --tier quick" % pid,
                           thorough_cmd="./check %s --tier thorough" % pid,
                           evidence_file="/verif/evidence/%s.json" % pid,
                           replay_cmd_template="./check %s --replay {path}" % pid,
                           engine="coq-xv",
                           level_claimed=dict(category="proof", text=c["text"], design_ref="DESIGN.md section " + c["ref"]),
                           level_note=c["note"], technique=c["technique"]))
na = [dict(property_id=p["id"], reason="check not built yet (work in progress; see DESIGN.md section 8) - not a claim that the technique cannot apply")
      for p in props if p["id"] not in CLAIMED]
m = dict(version=1, setup_cmd="./check --setup",
         hooks=dict(guard="XEOFS_VERIF", enable="no source hooks are needed; checks run /repo's working tree with PYTHONPATH=/repo and XEOFS_VERIF=1 (unused by the source)",
                    baseline_off_cmd="cd /repo && /venv/bin/python -m pytest -ra -q -p no:cacheprovider --timeout=900 --continue-on-collection-errors",
                    source_commits=[], add_only=True),
         engines=[dict(name="coq-xv", path="/verif/coq", serves_properties=sorted(CLAIMED),
                       kind_free_text="Coq 8.16.1 development (Base/Model/Proofs/Props) + Python-ast translator (tools/py2coq -> coq/Gen) + differential correspondence harness (tools/harness, tools/props)")],
         checks=checks, not_applicable=na,
         notes="fix: commits in /repo are listed in known_findings.json (status fixed).")
json.dump(m, open(os.path.join(ROOT, "MANIFEST.json"), "w"), indent=1)
print("claimed:", sorted(CLAIMED))
