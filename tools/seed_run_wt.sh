#!/bin/sh
# usage: SEEDED=/verif/seededN seed_run_wt.sh Cnn [check ids...]
# apply $SEEDED/Cnn/patch.diff to a scratch worktree of /repo's HEAD (never to /repo itself) and run the checks against that
# tree through VERIF_REPO; the worktree is removed afterwards
id=$1; shift; checks=${*:-$id}; S=${SEEDED:-/verif/seeded}
wt=/tmp/seedrun_$id
git -C /repo worktree remove --force $wt 2>/dev/null
git -C /repo worktree add --detach -q $wt HEAD || { echo "cannot create worktree"; exit 2; }
git -C $wt apply $S/$id/patch.diff || { echo "patch does not apply"; git -C /repo worktree remove --force $wt; exit 3; }
for c in $checks; do
  (cd /verif && VERIF_REPO=$wt ./check $c --tier quick > $S/$id/check_$c.log 2>&1; echo "$id -> $c rc=$? : $(grep -c '^VIOLATION' $S/$id/check_$c.log) violation line(s)"; grep '^VIOLATION' $S/$id/check_$c.log | head -3 | cut -c1-260)
done
git -C /repo worktree remove --force $wt; git -C /repo worktree prune
