"""C14 — a model's answers depend only on its last fit, never on call history."""
import copy

import numpy as np

from harness import common as C
from harness import zoo as Z

ANCHORS = ["T7hist", "T7mic", "T7inplace", "T5flag", "T7chain", "T9text"]
MODELS = ["Mic", "MicCase", "FlagCase"]
RULE = ("random operation histories over {fit(D_i), transform(D_j), inverse_transform, components, scores, metrics, compute, serialize, "
        "rotator.fit(model), bootstrapper.fit(model)} applied to one model object (length <= 12 quick, <= 40 thorough), data sets of equal and "
        "different structure, every model class; after each history the answers are compared with a fresh model fitted on the last data set; "
        "inputs are deep-copied before and compared after; non-trivial: the history contains >= 2 fits or a fit after queries; distinct by history hash")
PARTIAL = ["Python attribute semantics are abstracted to the per-method write/read tables extracted by T7hist"]
REFUTED = []
TRUSTED = ["translator T7hist (which attributes each method assigns, appends to or updates)"]
ASSUMES = []


def datasets(rng, cplx=False, red=False, cross=False):
    """a few data sets of equal and different structure"""
    import xarray as xr
    out = []
    for (n, shp, dims) in ((10, (4,), ("x",)), (12, (4,), ("x",)), (9, (2, 3), ("lat", "lon")), (11, (5,), ("x",))):
        X = rng.standard_normal((n,) + shp)
        if red:
            X = np.cumsum(X, axis=0) * 0.4 + 0.3 * rng.standard_normal((n,) + shp)
        if cplx:
            X = X + 1j * rng.standard_normal((n,) + shp)
        X = X + rng.standard_normal(shp)
        coords = {"time": np.arange(n)}
        coords.update({d: np.arange(s) * 1.0 for d, s in zip(dims, shp)})
        out.append(xr.DataArray(X, dims=("time",) + dims, coords=coords, attrs={"units": "K", "note": "set%d" % len(out)}))
    ds = xr.Dataset({"a": out[0].rename("a"), "b": (out[0] * 2 + 1).rename("b")})
    out.append(ds)
    out.append([out[0], out[1].isel(time=slice(0, 10)).assign_coords(time=np.arange(10)).rename({"x": "y"})])
    return out


def answers(m, kind, probe, probe2=None):
    """the observable answers of a fitted model, as plain arrays"""
    res = {}

    def put(name, f):
        try:
            v = f()
            res[name] = canon(v)
        except NotImplementedError:
            res[name] = "NotImplemented"
        except Exception as e:
            res[name] = "error:" + C.errkind(e)
    # every accessor without arguments first, in the state the history left (transform of the probe comes after them)
    for acc in C.ACCESSORS:
        if acc in ("components", "scores", "get_params") or not hasattr(m, acc):
            continue
        put(acc + "()", getattr(m, acc))
    if kind == "cross":
        put("components", lambda: m.components())
        put("scores", lambda: m.scores())
        put("singular_values", lambda: m.data["singular_values"])
        put("transform", lambda: m.transform(probe, probe2))
        put("inverse", lambda: m.inverse_transform(*m.scores()))
        put("scf", lambda: m.squared_covariance_fraction())
    else:
        put("components", lambda: m.components())
        put("scores", lambda: m.scores())
        put("transform", lambda: m.transform(probe))
        put("inverse", lambda: m.inverse_transform(m.scores()))
        if hasattr(m, "explained_variance"):
            put("explained_variance", lambda: m.explained_variance())
    return res


def canon(v):
    import xarray as xr
    if isinstance(v, (list, tuple)):
        return [canon(x) for x in v]
    if isinstance(v, xr.Dataset):
        return {k: canon(v[k]) for k in v.data_vars}
    if isinstance(v, xr.DataArray):
        dims = sorted(v.dims)
        w = v.transpose(*dims)
        w = w.sortby([d for d in dims if d in w.coords and w[d].ndim == 1 and w.indexes.get(d) is not None and not hasattr(w.indexes[d], "levels")])
        # the labels along every indexed dimension are part of the answer (an answer at other labels is another answer)
        labels = {d: [repr(tuple(e) if isinstance(e, tuple) else e) for e in w.indexes[d].tolist()] for d in dims if d in w.indexes}
        return dict(dims=dims, name=v.name, values=np.asarray(w.values), labels=labels)
    return v


def equal(a, b, tol=1e-9):
    if type(a) is not type(b):
        return False
    if isinstance(a, dict):
        if set(a) != set(b):
            return False
        return all(equal(a[k], b[k], tol) for k in a)
    if isinstance(a, list):
        return len(a) == len(b) and all(equal(x, y, tol) for x, y in zip(a, b))
    if isinstance(a, np.ndarray):
        return a.shape == b.shape and bool(np.allclose(a, b, rtol=tol, atol=tol * max(1.0, float(np.nanmax(np.abs(a))) if a.size else 1.0), equal_nan=True))
    return a == b


def first_diff(a, b):
    for k in a:
        if k not in b or not equal(a[k], b[k]):
            return k
    return "?"


def identical_inputs(before, after):
    import xarray as xr
    if isinstance(before, list):
        return len(before) == len(after) and all(identical_inputs(x, y) for x, y in zip(before, after))
    return before.identical(after)


def run_histories(ctx, rng, N, maxlen):
    import xeofs as xe
    specs = Z.specs()
    names = ["EOF", "ComplexEOF", "HilbertEOF", "ExtendedEOF", "SparsePCA", "POP", "OPA", "MCA", "CPCCA"]
    for i in range(N):
        name = names[i % len(names)]
        sp = specs[name]
        kind = sp.kind
        dsets = datasets(rng, cplx=sp.cplx, red=sp.ordered)
        if kind == "cross" or name in ("POP", "OPA", "ExtendedEOF", "HilbertEOF", "ComplexEOF", "SparsePCA"):
            dsets = dsets[:4]            # plain DataArrays of different shapes / structures
        # exact solver and a fixed seed: two fits of equal data must be comparable
        pca_kw = dict(use_pca=True, n_pca_modes="all") if (i // len(names)) % 2 else dict(use_pca=False)
        make = (lambda: sp.make(2, solver="full", random_state=7, **pca_kw)) if kind == "cross" else (lambda: sp.make(2, solver="full", random_state=7))
        m = make()
        L = int(rng.integers(3, maxlen + 1))
        hist = []
        last = None
        originals = [copy.deepcopy(d) for d in dsets]
        fits = 0
        aborted = False
        for step in range(L):
            ops = ["fit"] if last is None else ["fit", "fit", "transform", "inverse", "components", "scores", "metric", "compute", "serialize", "rotator", "bootstrap"]
            op = str(rng.choice(ops))
            j = int(rng.integers(0, len(dsets)))
            hist.append((op, j))
            try:
                if op == "fit":
                    if kind == "cross":
                        j2 = j
                        m.fit(dsets[j], dsets[j2] * 0.5 + 1.0 if not isinstance(dsets[j], list) else dsets[j2], "time")
                    else:
                        m.fit(dsets[j], "time")
                    last = j
                    fits += 1
                elif op == "transform":
                    if kind == "cross":
                        m.transform(dsets[last], dsets[last] * 0.5 + 1.0)
                    else:
                        # data of the last fit's structure, other sample count
                        m.transform(dsets[last].isel(time=slice(0, 5)) if not isinstance(dsets[last], list) else [d.isel(time=slice(0, 5)) for d in dsets[last]])
                elif op == "inverse":
                    m.inverse_transform(*m.scores()) if kind == "cross" else m.inverse_transform(m.scores())
                elif op == "components":
                    m.components()
                    # the non-default variants of the accessors are queries as well
                    for kwv in (dict(normalized=False), dict(normalized=True)):
                        try:
                            m.components(**kwv)
                            m.scores(**kwv)
                        except TypeError:
                            pass
                elif op == "scores":
                    m.scores()
                elif op == "metric":
                    (m.squared_covariance_fraction() if kind == "cross" else getattr(m, "explained_variance_ratio", m.scores)())
                elif op == "compute":
                    m.compute()
                elif op == "serialize":
                    m.serialize()
                elif op == "rotator":
                    rc = Z.rotator_for(name)
                    if rc is not None:
                        try:
                            rc(n_modes=2, max_iter=2000).fit(m)
                        except RuntimeError:
                            pass
                elif op == "bootstrap":
                    if name == "EOF":
                        xe.validation.EOFBootstrapper(n_bootstraps=2, seed=1).fit(m)
            except NotImplementedError:
                pass
            except Exception as e:
                ctx.violation("C14:%s:history-error:%s:%s" % (name, op, C.errkind(e)),
                              "%s: operation %s in history %r raised %r" % (name, op, hist, e), dict(kind="history", cls=name, history=hist))
                aborted = True
                break
        ctx.case(("hist", name, tuple(hist)), nontrivial=fits >= 2 or (fits == 1 and hist[0][0] != "fit"), tag="%s/len%d/fits%d" % (name, len(hist), fits),
                 sample=dict(cls=name, history=hist))
        if aborted or last is None:
            continue
        # inputs untouched
        for j, (d0, d1) in enumerate(zip(originals, dsets)):
            if not identical_inputs(d0, d1):
                ctx.violation("C14:%s:input-modified" % name, "%s: the user's input object %d was modified by history %r" % (name, j, hist), dict(kind="history", cls=name, history=hist))
        # answers equal a fresh model fitted on the last data
        fresh = make()
        probe = dsets[last]
        if kind == "cross":
            fresh.fit(dsets[last], dsets[last] * 0.5 + 1.0, "time")
            a, b = answers(m, kind, probe, probe * 0.5 + 1.0), answers(fresh, kind, probe, probe * 0.5 + 1.0)
        else:
            fresh.fit(dsets[last], "time")
            a, b = answers(m, kind, probe), answers(fresh, kind, probe)
        if not equal(a, b):
            which = first_diff(b, a)
            refit = "refit" if fits >= 2 else "queries"
            ctx.violation("C14:%s:%s:%s" % (name, refit, which),
                          "%s: after history %r the answer %r differs from a fresh model fitted on the last data set" % (name, hist, which),
                          dict(kind="history", cls=name, history=hist, differs=which))
        ctx.traces += 1


def run_histories_stacked(ctx, rng, N, maxlen):
    """histories on models whose sample axis is stacked from two dimensions or is a user MultiIndex: transforms of
    OTHER data (same and different sample counts, other labels) between fit and the queries"""
    import pandas as pd
    import xarray as xr
    import xeofs as xe

    def mk(kind, years, p):
        if kind == "two-dims":
            return xr.DataArray(rng.standard_normal((len(years), 3, p)), dims=("year", "month", "x"),
                                coords={"year": years, "month": [1, 2, 3], "x": np.arange(p)})
        mi = pd.MultiIndex.from_product([years, [1, 2, 3]], names=("yy", "mm"))
        return xr.DataArray(rng.standard_normal((len(mi), p)), dims=("time", "x"), coords={"x": np.arange(p)}).assign_coords(
            xr.Coordinates.from_pandas_multiindex(mi, "time"))

    for i in range(N):
        kind = ["two-dims", "multiindex"][i % 2]
        name = ["EOF", "MCA", "ComplexEOF", "MCA"][(i // 2) % 4]
        cross = name == "MCA"
        dim = ("year", "month") if kind == "two-dims" else "time"
        p = int(rng.integers(3, 5))
        make = (lambda: xe.cross.MCA(n_modes=2, use_pca=False, solver="full", random_state=7)) if cross else \
            (lambda: getattr(xe.single, name)(n_modes=2, solver="full", random_state=7))
        pool = [mk(kind, [2000 + 10 * j + q for q in range(4 if j < 3 else 3)], p) for j in range(4)]
        if i % 3 == 1:
            # one of the other data sets has an entirely missing sample (legitimate input for fit and for transform)
            pool[1] = pool[1].copy()
            if kind == "two-dims":
                pool[1].values[1, 0, :] = np.nan
            else:
                pool[1].values[2, :] = np.nan
        m = make()
        hist, last, fits = [], None, 0
        aborted = False
        for step in range(int(rng.integers(3, maxlen + 1))):
            op = "fit" if last is None else str(rng.choice(["fit", "transform", "transform", "scores", "inverse"]))
            j = int(rng.integers(0, len(pool)))
            hist.append((op, j))
            try:
                if op == "fit":
                    m.fit(pool[j], pool[j] * 0.5 + 1.0, dim) if cross else m.fit(pool[j], dim)
                    last = j
                    fits += 1
                elif op == "transform":
                    if cross:
                        # both fields, or one field alone (every third / fourth transform)
                        way = ["both", "both", "X-alone", "Y-alone"][int(rng.integers(0, 4))]
                        hist[-1] = (op + ":" + way, j)
                        if way == "both":
                            m.transform(pool[j], pool[j] * 0.5 + 1.0)
                        elif way == "X-alone":
                            m.transform(X=pool[j])
                        else:
                            m.transform(Y=pool[j] * 0.5 + 1.0)
                    else:
                        m.transform(pool[j])
                elif op == "scores":
                    m.scores()
                else:
                    m.inverse_transform(*m.scores()) if cross else m.inverse_transform(m.scores())
            except NotImplementedError:
                pass
            except Exception as e:
                ctx.violation("C14:%s:%s:history-error:%s:%s" % (name, kind, op, C.errkind(e)), "%s (%s): operation %s in history %r raised %r" % (name, kind, op, hist, e),
                              dict(kind="history-stacked", cls=name, structure=kind, history=hist))
                aborted = True
                break
        ctx.case(("hist-stacked", name, kind, tuple(hist)), nontrivial=len(hist) >= 3, tag="%s/%s/len%d" % (name, kind, len(hist)),
                 sample=dict(cls=name, structure=kind, history=hist))
        if aborted:
            continue
        fresh = make()
        probe = pool[last]
        if cross:
            fresh.fit(probe, probe * 0.5 + 1.0, dim)
            a, b = answers(m, "cross", probe, probe * 0.5 + 1.0), answers(fresh, "cross", probe, probe * 0.5 + 1.0)
        else:
            fresh.fit(probe, dim)
            a, b = answers(m, "single", probe), answers(fresh, "single", probe)
        if cross and equal(a, b) and labels_equal(m, fresh, cross):
            # one field alone, on data the model has not seen: values AND labels of the answer, used model against fresh model
            # (the fresh model has transformed nothing but its training data)
            unseen = mk(kind, [2100, 2101, 2102, 2103], p) * 0.5 + 1.0
            try:
                ta, tb = m.transform(Y=unseen), fresh.transform(Y=unseen)
                lab = lambda x: {d: [tuple(e) if isinstance(e, tuple) else e for e in x.indexes[d].tolist()] for d in x.dims if d in x.indexes}   # noqa
                if lab(ta) != lab(tb) or not equal({"t": canon(ta)}, {"t": canon(tb)}):
                    ctx.violation("C14:%s:%s:queries:transform-of-the-second-field-alone" % (name, kind),
                                  "%s (%s): after history %r the transform of the second field alone (unseen data) differs from a fresh model's: labels %r vs %r" % (
                                      name, kind, hist, str(lab(ta))[:80], str(lab(tb))[:80]),
                                  dict(kind="history-stacked", cls=name, structure=kind, history=hist, differs="transform(Y=unseen)"))
            except Exception as e:
                ctx.violation("C14:%s:%s:queries:transform-of-the-second-field-alone:error:%s" % (name, kind, C.errkind(e)),
                              "%s (%s): after history %r the transform of the second field alone raised %r" % (name, kind, hist, e),
                              dict(kind="history-stacked", cls=name, structure=kind, history=hist))
        if not equal(a, b) or not labels_equal(m, fresh, cross):
            which = first_diff(b, a) if not equal(a, b) else "labels"
            ctx.violation("C14:%s:%s:%s:%s" % (name, kind, "refit" if fits >= 2 else "queries", which),
                          "%s (%s): after history %r the answer %r differs from a fresh model fitted on the last data set" % (name, kind, hist, which),
                          dict(kind="history-stacked", cls=name, structure=kind, history=hist, differs=which))
        ctx.traces += 1


def labels_equal(m, fresh, cross):
    """sample labels of the fitted scores and of the reconstruction, entry by entry (canon() compares values only)"""
    def lab(v):
        out = []
        for x in (v if isinstance(v, (list, tuple)) else [v]):
            out.append({d: [tuple(e) if isinstance(e, tuple) else e for e in x.indexes[d].tolist()] for d in x.dims if d in x.indexes})
        return out
    try:
        if lab(m.scores()) != lab(fresh.scores()):
            return False
        ra = m.inverse_transform(*m.scores()) if cross else m.inverse_transform(m.scores())
        rb = fresh.inverse_transform(*fresh.scores()) if cross else fresh.inverse_transform(fresh.scores())
        return lab(ra) == lab(rb)
    except NotImplementedError:
        return True


def run_rotator_leaves_model(ctx, rng, N):
    """fitting a rotator or bootstrapper leaves the model's own results and labels intact"""
    import xeofs as xe
    specs = Z.specs()
    for i in range(N):
        name = ["EOF", "ComplexEOF", "HilbertEOF", "MCA", "CPCCA"][i % 5]
        sp = specs[name]
        d = datasets(rng, cplx=sp.cplx, red=sp.ordered)[0]
        if sp.kind == "cross":
            m = sp.make(2, use_pca=False, solver="full")
            m.fit(d, d * 0.5 + 1.0, "time")
        else:
            m = sp.make(2, solver="full")
            m.fit(d, "time")
        before = {k: (v.name, dict(v.attrs), np.asarray(v.values).copy(), v.dims) for k, v in m.data.items()}
        ans0 = answers(m, sp.kind, d, d * 0.5 + 1.0 if sp.kind == "cross" else None)
        ctx.case(("rotleave", name, i), nontrivial=True, tag="%s/rotator-leaves-model" % name)
        try:
            Z.rotator_for(name)(n_modes=2, max_iter=2000).fit(m)
            if name == "EOF":
                xe.validation.EOFBootstrapper(n_bootstraps=2, seed=0).fit(m)
        except RuntimeError:
            continue
        for k, (nm, at, vals, dims) in before.items():
            v = m.data[k]
            if v.name != nm:
                ctx.violation("C14:%s:rotator-renames-model-array" % name, "%s: after rotator/bootstrapper fit the model's array %r is named %r" % (name, k, v.name), dict(kind="rotleave", cls=name, key=k))
            if dict(v.attrs) != at:
                ctx.violation("C14:%s:rotator-overwrites-model-attrs" % name, "%s: after rotator/bootstrapper fit the attributes of the model's array %r changed" % (name, k), dict(kind="rotleave", cls=name, key=k))
            if not np.array_equal(np.asarray(v.values), vals, equal_nan=True) or v.dims != dims:
                ctx.violation("C14:%s:rotator-changes-model-values" % name, "%s: after rotator/bootstrapper fit the values of the model's array %r changed" % (name, k), dict(kind="rotleave", cls=name, key=k))
        ans1 = answers(m, sp.kind, d, d * 0.5 + 1.0 if sp.kind == "cross" else None)
        if not equal(ans0, ans1):
            ctx.violation("C14:%s:rotator-changes-model-answers" % name, "%s: answers of the model changed after a rotator/bootstrapper was fitted on it (%s)" % (name, first_diff(ans0, ans1)),
                          dict(kind="rotleave", cls=name))


def run_rotator_histories(ctx, rng, N):
    """one rotator / bootstrapper OBJECT fitted several times (on the same and on other base models): its answers equal those
    of a fresh object fitted on the last base model"""
    import xarray as xr
    import xeofs as xe
    specs = Z.specs()
    for i in range(N):
        name = ["EOF", "ComplexEOF", "MCA"][i % 3]
        sp = specs[name]
        cross = sp.kind == "cross"
        pool = []
        for j in range(3):
            n, p = int(rng.integers(12, 18)), int(rng.integers(5, 8))
            X = rng.standard_normal((n, p)) @ np.diag(np.linspace(2.0, 0.5, p)) @ rng.standard_normal((p, p))
            if sp.cplx:
                X = X + 1j * rng.standard_normal((n, p))
            d = xr.DataArray(X, dims=("time", "x"), coords={"time": np.arange(n), "x": np.arange(p)})
            m = sp.make(4, use_pca=False, solver="full") if cross else sp.make(4, solver="full")
            m.fit(d, d * 0.5 + 1.0, "time") if cross else m.fit(d, "time")
            pool.append((m, d))
        power = int(rng.integers(1, 3))
        mk = lambda: Z.rotator_for(name)(n_modes=4, power=power, max_iter=5000, rtol=1e-10)  # noqa
        R = mk()
        hist = [int(rng.integers(0, 3)) for _ in range(int(rng.integers(2, 5)))]
        try:
            for j in hist:
                R.fit(pool[j][0])
                if rng.random() < 0.5:
                    (R.transform(pool[j][1], pool[j][1] * 0.5 + 1.0) if cross else R.transform(pool[j][1]))
            F = mk()
            F.fit(pool[hist[-1]][0])
        except RuntimeError as e:
            if "converge" in str(e):
                ctx.dist["rotation-did-not-converge"] += 1
                continue
            raise
        d = pool[hist[-1]][1]
        ctx.case(("rot-hist", name, power, tuple(hist), i), nontrivial=len(hist) >= 2, tag="%sRotator/refit-len%d" % (name, len(hist)), sample=dict(cls=name + "Rotator", history=hist, power=power))
        a = answers(R, sp.kind, d, d * 0.5 + 1.0 if cross else None)
        b = answers(F, sp.kind, d, d * 0.5 + 1.0 if cross else None)
        if not equal(a, b):
            ctx.violation("C14:%sRotator:refit:%s" % (name, first_diff(b, a)), "%sRotator(power=%d) fitted on base models %r in turn: the answer %r differs from a fresh rotator fitted on the last one" % (
                name, power, hist, first_diff(b, a)), dict(kind="rotator-history", cls=name, history=hist, power=power))


def run(ctx):
    C.setup_impl_env(prior_use=0)
    rng = ctx.rng.child("c14").np
    run_histories(ctx, rng, ctx.n(45, 900), ctx.n(8, 40))
    run_histories_stacked(ctx, rng, ctx.n(24, 300), ctx.n(7, 20))
    run_rotator_leaves_model(ctx, rng, ctx.n(10, 100))
    run_rotator_histories(ctx, rng, ctx.n(12, 200))
    from harness import mic
    mic.run(ctx, "C14", ctx.n(150, 1500))
    from harness import flag
    flag.run(ctx, "C14", ctx.n(30, 300))
    ctx.oblige("oracle:answers after any history equal a fresh model fitted on the last data; inputs and model untouched", "oracle", not ctx.violations)


def search(ctx):
    ctx.widen(run)


def replay(ctx, rp):
    run(ctx)
