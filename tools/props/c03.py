"""C03 — full-mode inverse_transform restores the data; transform(inverse_transform(s)) = s;
normalized switches."""
import itertools

import numpy as np

from harness import common as C
from harness import eofgen as G

ANCHORS = ["T3", "T3b", "T4", "T5eof", "T5hil", "T7chain", "T7inplace", "T7hist", "T9text"]
MODELS = ["ScalerCase", "EofCase", "HilbertCase"]
RULE = ("scaler: all 16 flag/weight combinations x random shapes and scales; models: EOF/ComplexEOF/HilbertEOF (and the CPCCA family) with all "
        "modes kept x flags x weights/coslat; arbitrary score arrays with arbitrary sample coordinates for transform o inverse; "
        "non-trivial: >= 2 samples, >= 2 distinct values, numeric comparison performed; distinct by input hash")
PARTIAL = ["cross-set reconstruction is checked by the implementation-side oracle and the correspondence; its theorem lives with the CPCCA model (C09/C16)"]
REFUTED = []
TRUSTED = ["xarray broadcasting of per-feature statistics against the data (modelled as per-column parameters)",
           "SVD oracle as in C01"]
ASSUMES = ["std, coslat weight and user weight are non-zero (the code clips std at float32 eps; |lat| = 90 gives weight 0 and is reported separately)"]
RT = 1e-8


def scaler_cases(ctx):
    import xarray as xr
    from xeofs.preprocessing.scaler import Scaler
    rng = ctx.rng.child("scaler").np
    out = []
    reps = ctx.n(4, 40)
    for (c, s, cl, w), rep in itertools.product(itertools.product([False, True], repeat=4), range(reps)):
        n = int(rng.integers(2, 9))
        nlat, nlon = int(rng.integers(1, 4)), int(rng.integers(1, 4))
        p = nlat * nlon
        scale = float(10.0 ** rng.integers(-6, 7))
        X = rng.standard_normal((n, nlat, nlon)) * scale + rng.standard_normal((nlat, nlon)) * scale * 5
        lats = np.sort(rng.uniform(-89, 89, nlat))
        if cl and rng.random() < 0.4:
            lats[0 if rng.random() < 0.5 else -1] = -90.0 if lats[0] < 0 and rng.random() < 0.5 else 90.0
            lats = np.sort(lats)
        da = xr.DataArray(X, dims=("time", "lat", "lon"), coords={"time": np.arange(n), "lat": lats, "lon": np.arange(nlon)})
        wd = None
        if w:
            wd = xr.DataArray(0.25 + rng.random((nlat, nlon)), dims=("lat", "lon"), coords={"lat": lats, "lon": np.arange(nlon)})
        sc = Scaler(with_center=c, with_std=s, with_coslat=cl)
        fwd = sc.fit_transform(da, ("time",), ("lat", "lon"), wd)
        back = sc.inverse_transform_data(fwd)

        def flat(a, default):
            if a is None or a.ndim == 0:
                return [default] * p
            return np.asarray(a.broadcast_like(da.isel(time=0, drop=True)).transpose("lat", "lon").values, dtype=float).ravel().tolist()
        rec = dict(n=n, p=p, flags=(c, s, cl), mean=flat(sc.mean_ if c else None, 0.0), std=flat(sc.std_ if s else None, 1.0),
                   coslat=flat(sc.coslat_weights_ if cl else None, 1.0), weights=flat(sc.weights_, 1.0),
                   X=X.reshape(n, p), fwd=np.asarray(fwd.transpose("time", "lat", "lon").values).reshape(n, p),
                   back=np.asarray(back.transpose("time", "lat", "lon").values).reshape(n, p), lats=lats.tolist(), has_w=w)
        out.append(rec)
        ctx.case(("scaler", c, s, cl, w, rep, n, p), nontrivial=n >= 2, tag="scaler:c%d s%d l%d w%d" % (c, s, cl, w),
                 sample=dict(kind="scaler", flags=dict(center=c, std=s, coslat=cl, weights=w), shape=[n, p], scale=scale))
        # independent oracle for statistics and the round trip
        Xf = X.reshape(n, p)
        exp = Xf.copy()
        if c:
            exp = exp - Xf.mean(axis=0)
        if s:
            exp = exp / np.clip(Xf.std(axis=0), np.finfo(np.float32).eps, None)
        if cl:
            exp = exp * np.repeat(np.sqrt(np.clip(np.cos(np.deg2rad(lats)), 0, 1)), nlon)
        if w:
            exp = exp * np.asarray(wd.values).ravel()
        if not np.allclose(rec["fwd"], exp, rtol=1e-9, atol=1e-9 * np.abs(exp).max()):
            ctx.violation("C03:scaler-forward", "Scaler.transform is not (X - mean)/std * sqrt(cos lat) * weights for flags %r" % ((c, s, cl, w),),
                          dict(kind="scaler", flags=(c, s, cl, w), X=Xf, lats=lats))
        if not np.allclose(rec["back"], Xf, rtol=1e-9, atol=1e-9 * np.abs(Xf).max()):
            ctx.violation("C03:scaler-roundtrip", "Scaler.inverse_transform_data(transform(X)) != X for flags %r" % ((c, s, cl, w),),
                          dict(kind="scaler", flags=(c, s, cl, w), X=Xf, lats=lats))
    return out


def run_scaler(ctx):
    cases = scaler_cases(ctx)
    items = []
    for r in cases:
        c, s, cl = r["flags"]
        items.append("mkSC %d %d (mkFlags %s %s %s) %s %s %s %s %s %s %s" % (
            r["n"], r["p"], C.cbool(c), C.cbool(s), C.cbool(cl), C.cvec(r["mean"]), C.cvec(r["std"]), C.cvec(r["coslat"]),
            C.cvec(r["weights"]), C.cmat(r["X"]), C.cmat(r["fwd"]), C.cmat(r["back"])))
    files, per = [], 80
    for sh in range(0, len(items), per):
        body = [C.COQ_HEADER, "From XV Require Import Base.Scalar Base.Mat Base.Instances Model.ScalerLib Gen.T4 Model.ScalerCase.\n",
                "Definition cases := [\n" + ";\n".join(items[sh:sh + per]) + "].\n", "Eval vm_compute in check_scalers %s cases.\n" % C.cf(RT)]
        files.append(C.write_case_file("C03", "sc%d" % (sh // per), "\n".join(body)))
    res = C.coq_eval_files(files)
    nbad, ok = 0, True
    for f in files:
        rc, out = res[f]
        if rc != 0:
            ok = False
            ctx.oblige("correspondence:%s" % f.split("/")[-1], "correspondence", False, out[-600:])
            continue
        pairs = C.parse_pairs((C.parse_evals(out) or [""])[0])
        nbad += len(pairs)
        for ci, fld in pairs:
            ctx.notes.append("scaler model/impl disagree: %s field %d" % (f.split("/")[-1], fld))
    ctx.traces += len(items)
    ctx.oblige("correspondence:scaler op lists (%d cases, rtol %g)" % (len(items), RT), "correspondence", ok and nbad == 0, "%d disagreements" % nbad)


def valid_eq(a, b, scale, tol=1e-8):
    a, b = np.asarray(a), np.asarray(b)
    return a.shape == b.shape and np.allclose(a, b, rtol=tol, atol=tol * scale)


def run_models(ctx):
    import xarray as xr
    rng = ctx.rng.child("c03").np
    n_cases = ctx.n(150, 2500)
    for i in range(n_cases):
        cfg = G.make_case(rng, force=dict(cls=str(rng.choice(["EOF", "EOF", "ComplexEOF", "HilbertEOF"]))))
        cfg["solver"] = "full"
        if cfg["cls"] == "HilbertEOF" and rng.random() < 0.85:
            cfg["center"] = True   # center=False is probed separately below
        n, p = cfg["n"], cfg["p"]
        rank = min(n, p)
        da, w = G.build_input(cfg)
        # ---- full-mode reconstruction in physical units
        m = G.build_model(cfg, rank)
        try:
            m.fit(da, "time", weights=w) if w is not None else m.fit(da, "time")
            rec = m.inverse_transform(m.scores())
        except Exception as e:
            ctx.case(dict(cfg), nontrivial=False, tag="%s/error:%s" % (cfg["cls"], C.errkind(e)))
            ctx.violation("C03:error:%s:%s" % (cfg["cls"], C.errkind(e)), "%s full-mode reconstruction raised %r" % (cfg["cls"], e),
                          dict(kind="recon", cfg=cfg, error=repr(e)))
            continue
        scale = float(np.abs(da.values).max()) or 1.0
        ctx.case(dict(cfg), nontrivial=n >= 2, tag="%s/recon/center=%s" % (cfg["cls"], cfg["center"]),
                 sample=dict(kind="full-reconstruction", cls=cfg["cls"], shape=[n, p], center=cfg["center"], standardize=cfg["standardize"],
                             use_coslat=cfg["use_coslat"], weights=cfg["weights"] is not None, scale=cfg["scale"]))
        want = da.values if cfg["cls"] != "HilbertEOF" else np.real(da.values)
        got = rec.transpose(*da.dims).values
        # rank-deficient + standardize excluded by the generator; centred data of rank < min(n,p) still reconstructs
        full_rank_ok = not (cfg["center"] and n <= p and rank == n) or True
        if not valid_eq(got, want, scale, 1e-5 if cfg.get("pole") else 1e-7):   # a pole row is divided by 7.8e-9 on the way back
            err = float(np.abs(got - want).max())
            ctx.violation("C03:full-reconstruction:%s:center=%s" % (cfg["cls"], cfg["center"]),
                          "%s(center=%s, standardize=%s): inverse_transform(scores()) with all modes differs from the fitted data by %.3g (scale %.3g)"
                          % (cfg["cls"], cfg["center"], cfg["standardize"], err, scale), dict(kind="recon", cfg=cfg, max_err=err))
        # ---- transform(inverse_transform(S)) = S for arbitrary S and sample coordinates
        if cfg["cls"] in ("EOF", "ComplexEOF"):
            k = int(rng.integers(1, rank + 1))
            m2 = G.build_model(cfg, k)
            m2.fit(da, "time", weights=w) if w is not None else m2.fit(da, "time")
            ms = int(rng.integers(1, 6))
            S = rng.standard_normal((ms, k)) * scale
            if cfg["cls"] == "ComplexEOF" and rng.random() < 0.6:
                S = S + 1j * rng.standard_normal((ms, k)) * scale      # otherwise: a real-valued score array for a complex model
            tcoord = (np.arange(ms) * 7 + 100) if rng.random() < 0.5 else rng.permutation(ms)
            Sd = xr.DataArray(S, dims=("time", "mode"), coords={"time": tcoord, "mode": np.arange(1, k + 1)})
            nv = m2.singular_values().values
            well_conditioned = bool(np.all(nv > 1e-6 * nv.max()))
            for normalized in ((False, True) if well_conditioned else (False,)):
                try:
                    Xb = m2.inverse_transform(Sd, normalized=normalized)
                    back = m2.transform(Xb, normalized=normalized)
                    # the reconstruction carries the feature means (and units): subtracting them again costs
                    # eps * |reconstruction| in data units, i.e. that much divided by the norm in normalized units
                    floor = 1e3 * np.finfo(float).eps * float(np.nanmax(np.abs(Xb.values))) / (float(nv.min()) if normalized else 1.0)
                    bv = back.transpose("time", "mode").values
                    ok = bv.shape == S.shape and bool(np.all(np.abs(bv - S) <= 1e-7 * np.abs(S).max() + floor)) and \
                        list(back.time.values) == list(tcoord)
                except Exception as e:
                    ok = False
                    back = repr(e)
                ctx.case(("ti", dict(cfg), k, ms, normalized), nontrivial=True, tag="%s/transform-inverse" % cfg["cls"])
                if not ok:
                    ctx.violation("C03:transform-inverse:%s" % cfg["cls"],
                                  "%s: transform(inverse_transform(S), normalized=%s) != S for an arbitrary %dx%d score array" % (cfg["cls"], normalized, ms, k),
                                  dict(kind="ti", cfg=cfg, k=k, S=S, normalized=normalized))
            # ---- normalized switches differ exactly by the norms
            norms = m2.singular_values().values
            if np.all(np.abs(norms) > 1e-12 * max(norms.max(), 1e-300)):
                checks = [
                    ("scores", m2.scores(normalized=True).transpose("time", "mode").values * norms, m2.scores(normalized=False).transpose("time", "mode").values),
                    ("transform", m2.transform(da, normalized=True).transpose("time", "mode").values * norms, m2.transform(da).transpose("time", "mode").values),
                ]
                cn = m2.components(normalized=True)
                cu = m2.components(normalized=False)
                checks.append(("components", (cn * m2.singular_values()).transpose(*cu.dims).values, cu.values))
                sn = m2.scores(normalized=True)
                checks.append(("inverse_transform", m2.inverse_transform(sn, normalized=True).transpose(*da.dims).values,
                               m2.inverse_transform(m2.scores()).transpose(*da.dims).values))
                for nm, a, b in checks:
                    sc_ = float(np.abs(b).max()) or 1.0
                    if not valid_eq(a, b, sc_, 1e-8):
                        ctx.violation("C03:normalized:%s:%s" % (cfg["cls"], nm),
                                      "%s: the `normalized` switch of %s does not differ from the default exactly by the norms" % (cfg["cls"], nm),
                                      dict(kind="normalized", cfg=cfg, k=k, which=nm))


def run_rotators(ctx):
    """single-set rotators offer both directions too: with every mode rotated, inverse_transform(scores()) restores the data at
    every label that is not entirely missing, and transform(inverse_transform(S)) returns S for arbitrary S; data with and
    without fully missing samples"""
    import xarray as xr
    import xeofs as xe
    rng = ctx.rng.child("c03rot").np
    for i in range(ctx.n(36, 400)):
        cplx = (i % 3 == 2)
        n, p = int(rng.integers(9, 16)), int(rng.integers(3, 6))
        X = rng.standard_normal((n, p)) @ np.diag(np.linspace(2.0, 0.6, p)) @ rng.standard_normal((p, p)) + rng.standard_normal(p) * 2
        if cplx:
            X = X + 1j * rng.standard_normal((n, p))
        missing = sorted(set(int(v) for v in rng.integers(0, n, size=int(rng.integers(0, 4))))) if i % 2 == 0 else []
        X[missing, :] = np.nan
        da = xr.DataArray(X, dims=("time", "x"), coords={"time": np.arange(n) * 3 + 1, "x": np.arange(p)})
        power = int(rng.integers(1, 3))
        center = bool(rng.random() < 0.8)
        name = "ComplexEOF" if cplx else "EOF"
        replay = dict(kind="rotator", cls=name, X=X, power=power, center=center, missing=missing)
        ctx.case(("c03rot", name, n, p, power, center, tuple(missing), i), nontrivial=True,
                 tag="%sRotator/power%d/%s" % (name, power, "missing-samples" if missing else "complete"),
                 sample=dict(cls=name + "Rotator", shape=[n, p], power=power, center=center, missing_samples=len(missing)))
        try:
            m = (xe.single.ComplexEOF if cplx else xe.single.EOF)(n_modes=p, center=center, solver="full")
            m.fit(da, "time")
            rot = (xe.single.ComplexEOFRotator if cplx else xe.single.EOFRotator)(n_modes=p, power=power, max_iter=5000, rtol=1e-10)
            rot.fit(m)
            rec = rot.inverse_transform(rot.scores())
            k = int(rng.integers(1, p + 1))
            ms = int(rng.integers(1, 5))
            S = rng.standard_normal((ms, p)) * float(np.nanmax(np.abs(X)))
            Sd = xr.DataArray(S, dims=("time", "mode"), coords={"time": np.arange(ms) + 100, "mode": np.arange(1, p + 1)})
            back = rot.transform(rot.inverse_transform(Sd))
        except RuntimeError as e:
            if "converge" in str(e):
                ctx.dist["rotation-did-not-converge"] += 1
                continue
            ctx.violation("C03:error:%sRotator:%s" % (name, C.errkind(e)), "%sRotator round trip raised %r" % (name, e), replay)
            continue
        except Exception as e:
            ctx.violation("C03:error:%sRotator:%s" % (name, C.errkind(e)), "%sRotator round trip raised %r" % (name, e), replay)
            continue
        valid = [t for t in range(n) if t not in missing]
        got = rec.transpose("time", "x").values[valid]
        want = X[valid]
        scale = float(np.nanmax(np.abs(X)))
        if min(len(valid) - (1 if center else 0), p) >= p and not valid_eq(got, want, scale, 1e-6):
            ctx.violation("C03:full-reconstruction:%sRotator" % name,
                          "%sRotator(power=%d) with all %d modes rotated on data with %d fully missing samples: inverse_transform(scores()) differs from the data "
                          "by %.3g (scale %.3g) at the labels that are not missing" % (name, power, p, len(missing), float(np.nanmax(np.abs(got - want))), scale), replay)
        bv = back.transpose("time", "mode").values
        if not valid_eq(bv, S, float(np.abs(S).max()), 1e-6):
            ctx.violation("C03:transform-inverse:%sRotator" % name,
                          "%sRotator(power=%d) on data with %d fully missing samples: transform(inverse_transform(S)) != S for an arbitrary %dx%d score array "
                          "(ratio %.6g)" % (name, power, len(missing), ms, p, float(np.nanmedian(np.abs(bv) / np.abs(S)))), replay)


def run_cross(ctx):
    """cross-set models: each field whose feature count does not exceed the number of modes is restored"""
    import xarray as xr
    import xeofs as xe
    rng = ctx.rng.child("c03x").np
    classes = [("CPCCA", xe.cross.CPCCA), ("MCA", xe.cross.MCA), ("CCA", xe.cross.CCA), ("RDA", xe.cross.RDA), ("ComplexCPCCA", xe.cross.ComplexCPCCA)]
    for i in range(ctx.n(60, 1200)):
        name, cls = classes[i % len(classes)]
        n = int(rng.integers(6, 12))
        p1, p2 = int(rng.integers(1, 5)), int(rng.integers(1, 5))
        cplx = name.startswith("Complex")
        def rnd(a, b):
            M = rng.standard_normal((a, b)) * 10.0 ** rng.integers(-3, 4) + rng.standard_normal(b) * 3
            return M + 1j * rng.standard_normal((a, b)) if cplx else M
        X = xr.DataArray(rnd(n, p1), dims=("time", "x"), coords={"time": np.arange(n), "x": np.arange(p1)})
        Y = xr.DataArray(rnd(n, p2), dims=("time", "y"), coords={"time": np.arange(n), "y": np.arange(p2)})
        kw = dict(n_modes=min(p1, p2), standardize=bool(rng.random() < 0.3), use_pca=bool(rng.random() < 0.5), n_pca_modes="all")
        if name in ("CPCCA", "ComplexCPCCA"):
            kw["alpha"] = [float(rng.choice([0.0, 0.25, 0.5, 1.0])), float(rng.choice([0.0, 0.25, 0.5, 1.0]))]
        ctx.case(("cross", name, n, p1, p2, str(kw)), nontrivial=True, tag="cross/%s" % name,
                 sample=dict(kind="cross-reconstruction", cls=name, shape=[n, p1, p2], kw=kw))
        try:
            m = cls(**kw)
            m.fit(X, Y, "time")
            sx, sy = m.scores()
            rx, ry = m.inverse_transform(sx, sy)
        except Exception as e:
            ctx.violation("C03:cross-error:%s:%s" % (name, C.errkind(e)), "%s reconstruction raised %r" % (name, e), dict(kind="cross", cls=name, kw=kw, error=repr(e)))
            continue
        k = min(p1, p2)
        for fld, rec, orig, pf in (("X", rx, X, p1), ("Y", ry, Y, p2)):
            if pf <= k:
                sc_ = float(np.abs(orig.values).max())
                if not valid_eq(rec.transpose(*orig.dims).values, orig.values, sc_, 1e-6):
                    err = float(np.abs(rec.transpose(*orig.dims).values - orig.values).max())
                    ctx.violation("C03:cross-reconstruction:%s:%s" % (name, fld),
                                  "%s%r: field %s (features %d <= modes %d) is not restored by inverse_transform(scores): max error %.3g" % (name, kw, fld, pf, k, err),
                                  dict(kind="cross", cls=name, kw=kw, field=fld, X=X.values, Y=Y.values))


def probe_hilbert_uncentred(ctx):
    """forced hypothesis of the Hilbert reconstruction theorem: Re(aug X) = X needs centred X"""
    rng = ctx.rng.child("hil").np
    for i in range(ctx.n(6, 40)):
        cfg = G.make_case(rng, force=dict(cls="HilbertEOF"))
        cfg.update(center=False, standardize=False, solver="full", use_coslat=False, weights=None, nlat=None, nlon=None)
        da, w = G.build_input(cfg)
        m = G.build_model(cfg, min(cfg["n"], cfg["p"]))
        m.fit(da, "time")
        rec = m.inverse_transform(m.scores())
        scale = float(np.abs(da.values).max())
        ctx.case(("hilbert-uncentred", dict(cfg)), nontrivial=True, tag="HilbertEOF/recon/center=False")
        if not valid_eq(rec.transpose(*da.dims).values, da.values, scale, 1e-7):
            err = float(np.abs(rec.transpose(*da.dims).values - da.values).max())
            ctx.violation("C03:full-reconstruction:HilbertEOF:center=False",
                          "HilbertEOF(center=False): full-mode reconstruction differs from the fitted data by %.3g (the feature means are lost)" % err,
                          dict(kind="recon", cfg=cfg, max_err=err))


def run_hilbert(ctx):
    """correspondence of Model/Hilbert.v with _hilbert_transform_with_padding, column by column, plus the two facts the
    theorems state, on the implementation: real part = input, imaginary part has zero mean"""
    from scipy.signal import hilbert as analytic
    from xeofs.utils.hilbert_transform import _hilbert_transform_with_padding, _pad_exp
    rng = ctx.rng.child("c03hil").np
    N = ctx.n(40, 600)
    cases, metas = [], []
    for i in range(N):
        n, p = int(rng.integers(3, 12)), int(rng.integers(1, 4))
        scale = float(10.0 ** rng.integers(-3, 4))
        y = (np.cumsum(rng.standard_normal((n, p)), axis=0) + rng.standard_normal(p) * 3) * scale
        padding = ["exp", "none"][i % 2]
        decay = float(rng.choice([0.05, 0.2, 1.0]))
        ctx.case(("hilbert", n, p, padding, decay, i), nontrivial=n >= 4, tag="hilbert_transform/%s" % padding, sample=dict(kind="hilbert", shape=[n, p], padding=padding, decay=decay))
        try:
            R = _hilbert_transform_with_padding(y.copy(), padding=padding, decay_factor=decay)
        except Exception as e:
            ctx.violation("C03:hilbert:error:" + C.errkind(e), "_hilbert_transform_with_padding raised %r" % (e,), dict(kind="hilbert", y=y, padding=padding))
            continue
        tol = 1e-9 * (np.abs(y).max() + 1e-300)
        if R.shape != y.shape or not np.allclose(R.real, y, atol=tol, rtol=0):
            ctx.violation("C03:hilbert:real-part", "the real part of the Hilbert-augmented data differs from the data (padding=%s): max diff %.3g" % (
                padding, float(np.abs(R.real - y).max()) if R.shape == y.shape else float("nan")), dict(kind="hilbert", y=y, padding=padding, decay=decay))
        if R.shape == y.shape and not np.allclose(R.imag.mean(axis=0), 0, atol=1e-9 * (np.abs(R.imag).max() + 1e-300)):
            ctx.violation("C03:hilbert:imag-mean", "the imaginary part of the Hilbert-augmented data has a non-zero mean (padding=%s)" % padding,
                          dict(kind="hilbert", y=y, padding=padding, decay=decay))
        x = np.arange(n)
        coefs = np.polynomial.polynomial.polyfit(x, y, deg=1)
        yfit = np.polynomial.polynomial.polyval(x, coefs).T.reshape(n, p)
        yfit_ext = np.polynomial.polynomial.polyval(np.arange(-n, 2 * n), coefs).T.reshape(3 * n, p)
        y_ext = _pad_exp(y.copy(), decay_factor=decay) if padding == "exp" else y
        A = analytic(y_ext, axis=0)
        for j in range(p):
            pre = (y_ext[:n, j] - yfit_ext[:n, j]) if padding == "exp" else np.zeros(n)
            pos = (y_ext[2 * n:, j] - yfit_ext[2 * n:, j]) if padding == "exp" else np.zeros(n)
            cases.append("mkHC %d %s %s %s %s %s %s %s %s %s %s" % (n, C.cbool(padding == "exp"), C.cvec(y[:, j]), C.cvec(yfit[:, j]), C.cvec(yfit_ext[:, j]),
                                                                  C.cvec(pre), C.cvec(pos), C.cvec(A[:, j].real), C.cvec(A[:, j].imag), C.cvec(R[:, j].real), C.cvec(R[:, j].imag)))
            metas.append("n=%d padding=%s decay=%g column %d" % (n, padding, decay, j))
    if not cases or not ctx.extra.get("model_ok", True):
        return
    files, plan = [], []
    per = 200
    for sh in range(0, len(cases), per):
        body = [C.COQ_HEADER, "From XV Require Import Base.Scalar Base.Mat Base.Instances Model.Hilbert Model.HilbertCase.\n",
                "Definition cases := [\n" + ";\n".join(cases[sh:sh + per]) + "].\n", "Eval vm_compute in check_hilberts %s cases.\n" % C.cf(1e-9)]
        f = C.write_case_file("C03", "hil%d" % (sh // per), "\n".join(body))
        files.append(f)
        plan.append((f, metas[sh:sh + per]))
    res = C.coq_eval_files(files)
    bad = []
    for f, meta in plan:
        rc, out = res[f]
        if rc != 0:
            ctx.oblige("correspondence:%s" % f.split("/")[-1], "correspondence", False, out[-500:])
            return
        vals = C.parse_evals(out)
        for ci, fld in (C.parse_pairs(vals[0]) if vals else []):
            bad.append((meta[ci], {1: "oracle residual", 3: "real part", 4: "imaginary part"}.get(fld, fld)))
    ctx.traces += len(cases)
    ctx.oblige("correspondence:hilbert-model (%d columns: padding, analytic signal, middle third, imaginary mean removed) at binary64" % len(cases), "correspondence",
               not bad, "disagreements: %r" % (bad[:4],))


def run(ctx):
    C.setup_impl_env()
    C.clean_case_files("C03")
    if ctx.extra.get("model_ok", True):
        run_scaler(ctx)
    else:
        scaler_cases(ctx)
    run_models(ctx)
    run_hilbert(ctx)
    probe_hilbert_uncentred(ctx)
    run_cross(ctx)
    run_rotators(ctx)


def search(ctx):
    ctx.widen(run)  # the oracles already ran on every case in run()


def replay(ctx, rp):
    run(ctx)
