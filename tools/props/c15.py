"""C15 — solver choice, variance thresholds, sign rule, seeds, solver_kwargs."""
import itertools

import numpy as np

from harness import common as C

ANCHORS = ["T3", "T3b", "T8", "T8fwd"]
MODELS = ["Decomp"]
TARGETS = ["Gen/T3b.vo"]
RULE = ("decision grid enumerated (solver x n_modes x shape x complex x dask x init_rank_reduction) for Decomposer and _SVD; "
        "threshold cases: prescribed spectra x fractions incl. the cumulative values themselves and +-1ulp; sign-rule columns incl. ties and constants; "
        "a case is non-trivial when rank >= 2 (grid) / spectrum has >= 2 distinct values (threshold); distinct by hash of the canonical input")
PARTIAL = ["exact-vs-randomised agreement under a spectral gap and bit-identical results under a seed are tests of numpy/sklearn executions, not theorems"]
REFUTED = ["C15_sign_rule_constant_negative_refuted"]
TRUSTED = ["Gen/T3.v is produced by tools/py2coq/t3_decomposer.py from decomposer.py/_svd.py",
           "Coq.Reals axioms (sig_forall_dec, sig_not_dec, functional_extensionality_dep) in the order-dependent theorems",
           "PrimFloat/PrimInt63 primitives in the generated float expressions int(0.8*rank), int(rank*init_rank_reduction)"]
ASSUMES = ["numpy cumsum is sequential left-to-right; s**2 == s*s in binary64"]

CODE = {"Exact": 0, "Randomized": 1, "Svds": 2, "DaskCompressed": 3, "NotImplemented": 4,
        "TypeError": 101, "ValueError": 102, "KeyError": 103}


class _Stop(Exception):
    pass


def _observe_decomposer(nm, irr, solver, n, p, cplx, dask):
    import dask.array as da
    import xarray as xr
    from xeofs.linalg import decomposer as D
    seen = {}

    def spy(self, X, dims, func, kwargs):
        name = {id(np.linalg.svd): "Exact", id(D.randomized_svd): "Randomized", id(D.complex_svd): "Svds",
                id(D.dask_svd): "DaskCompressed"}.get(id(func), "unknown")
        seen["backend"] = name
        raise _Stop()
    data = np.ones((n, p), dtype=complex if cplx else float)
    if dask:
        data = da.from_array(data, chunks=(max(1, n // 2), p))
    X = xr.DataArray(data, dims=("sample", "feature"))
    orig = D.Decomposer._svd
    D.Decomposer._svd = spy
    dec = None
    try:
        dec = D.Decomposer(n_modes=nm, init_rank_reduction=irr, solver=solver)
        dec.fit(X)
        out = "returned"
    except _Stop:
        out = seen["backend"]
    except Exception as e:
        out = C.errkind(e)
    finally:
        D.Decomposer._svd = orig
    npre = getattr(dec, "n_modes_precompute", None) if dec is not None else None
    return out, npre


def _observe_svd(nm, irr, solver, n, p, cplx, dask):
    import dask.array as da
    from xeofs.linalg._numpy import _svd as S
    seen = {}

    def spy(self, X, func, kwargs):
        name = {id(np.linalg.svd): "Exact", id(S.randomized_svd): "Randomized", id(S.complex_svd): "Svds",
                id(S.dask_svd): "DaskCompressed"}.get(id(func), "unknown")
        seen["backend"] = name
        raise _Stop()
    data = np.ones((n, p), dtype=complex if cplx else float)
    if dask:
        data = da.from_array(data, chunks=(max(1, n // 2), p))
    orig = S._SVD._svd
    S._SVD._svd = spy
    obj = None
    try:
        obj = S._SVD(n_modes=nm, init_rank_reduction=irr, solver=solver)
        obj.fit_transform(data)
        out = "returned"
    except _Stop:
        out = seen["backend"]
    except Exception as e:
        out = C.errkind(e)
    finally:
        S._SVD._svd = orig
    npre = getattr(obj, "n_modes_precompute", None) if obj is not None else None
    return out, npre


def _nm_coq(nm):
    if isinstance(nm, str):
        return "NAll"
    if isinstance(nm, float):
        return "(NFloat %s)" % C.cf(nm)
    return "(NInt %s)" % C.cz(nm)


def grid(ctx):
    shapes = [(6, 4), (4, 6), (10, 10), (499, 3), (500, 3), (3, 499), (3, 500), (5, 1), (2, 2)]
    if not ctx.quick:
        shapes += [(499, 499), (501, 7), (7, 501), (1, 5), (40, 30), (30, 40), (499, 2), (12, 9)]
    solvers = ["auto", "full", "randomized", "arpack"]
    cases = []
    for (n, p) in shapes:
        rank = min(n, p)
        thr = int(0.8 * rank)
        ints = sorted(set(x for x in [1, thr, thr + 1, rank, rank + 1, max(1, rank // 2)] if x >= 1))
        nms = [(x, 0.3) for x in ints]
        for irr in ([0.3, 1.0, 0.01] if ctx.quick else [0.3, 1.0, 0.01, 0.5, 0.8, 0.81, 0.1]):
            nms.append((0.5, irr))
        for solver, (nm, irr), cplx, dask in itertools.product(solvers, nms, [False, True], [False, True]):
            cases.append(("dec", nm, irr, solver, n, p, cplx, dask))
            cases.append(("svd", nm, irr, solver, n, p, cplx, dask))
        for solver, cplx, dask in itertools.product(solvers, [False, True], [False, True]):
            cases.append(("svd", "all", 0.3, solver, n, p, cplx, dask))
    return cases


def run_grid(ctx):
    cases = grid(ctx)
    impl = []
    for (which, nm, irr, solver, n, p, cplx, dask) in cases:
        f = _observe_decomposer if which == "dec" else _observe_svd
        out, npre = f(nm, irr, solver, n, p, cplx, dask)
        impl.append((out, npre))
        ctx.case(("grid", which, repr(nm), irr, solver, n, p, cplx, dask), nontrivial=min(n, p) >= 2,
                 tag="grid:%s:%s:%s" % (which, solver, out),
                 sample=dict(kind="decision", cls=which, n_modes=nm, init_rank_reduction=irr, solver=solver,
                             shape=[n, p], complex=cplx, dask=dask, impl=out, npre=npre))
    # model side
    files = []
    per = 400
    for sh in range(0, len(cases), per):
        body = [C.COQ_HEADER, "From XV Require Import Base.Scalar Base.Instances Model.DecompLib Gen.T3 Model.Decomp.\n",
                "Open Scope Z_scope.\n", "Definition cases : list (Z * Z) := ["]
        items = []
        for (which, nm, irr, solver, n, p, cplx, dask) in cases[sh:sh + per]:
            items.append('  %s_decide %s %s "%s"%%string %d %d %s %s' % (which, _nm_coq(nm), C.cf(irr), solver, n, p,
                                                                        C.cbool(cplx), C.cbool(dask)))
        body.append(";\n".join(items))
        body.append("].\nEval vm_compute in cases.\n")
        files.append(C.write_case_file("C15", "grid%d" % (sh // per), "\n".join(body)))
    res = C.coq_eval_files(files)
    model = []
    ok_files = True
    for f in files:
        rc, out = res[f]
        if rc != 0:
            ok_files = False
            ctx.oblige("correspondence:grid:%s" % f.split("/")[-1], "correspondence", False, out[-800:])
            continue
        vals = C.parse_evals(out)
        model += C.parse_pairs(vals[0]) if vals else []
    if not ok_files or len(model) != len(cases):
        ctx.oblige("correspondence:grid", "correspondence", False, "model produced %d answers for %d cases" % (len(model), len(cases)))
        return
    bad = 0
    for cse, (iout, inpre), (mcode, mnpre) in zip(cases, impl, model):
        icode = CODE.get(iout, -1)
        agree = (icode == mcode)
        # n_modes_precompute is only meaningful when fit got past the rank check
        if agree and icode < 100 and inpre is not None and not isinstance(inpre, str):
            agree = int(inpre) == mnpre
        if not agree:
            bad += 1
            disagreement(ctx, "grid", cse, (iout, inpre), (mcode, mnpre))
        ctx.traces += 1
    ctx.oblige("correspondence:decision-grid (%d decisions)" % len(cases), "correspondence", bad == 0,
               "%d disagreements" % bad)
    # oracle: auto only selects between full and randomized (property stated on the implementation)
    by = {}
    for cse, (iout, _) in zip(cases, impl):
        which, nm, irr, solver, n, p, cplx, dask = cse
        by[(which, repr(nm), irr, n, p, cplx, dask, solver)] = iout
    for k, v in by.items():
        if k[-1] != "auto":
            continue
        a = by.get(k[:-1] + ("full",))
        b = by.get(k[:-1] + ("randomized",))
        if v not in (a, b):
            ctx.violation("C15:auto-policy:%s" % k[0], "solver='auto' selected %s, but 'full' gives %s and 'randomized' gives %s" % (v, a, b),
                          dict(kind="auto-policy", case=k, auto=v, full=a, randomized=b))
        if a not in ("Exact", "ValueError", "TypeError"):
            ctx.violation("C15:full-not-exact:%s" % k[0], "solver='full' selected %s" % a, dict(kind="full", case=k, full=a))


def disagreement(ctx, kind, cse, impl, model):
    ctx.notes.append("disagree %s %r impl=%r model=%r" % (kind, cse, impl, model))
    ctx.extra.setdefault("disagreements", []).append(C.jsonable(dict(kind=kind, case=cse, impl=impl, model=model)))


# ------------------------------------------------------------------ threshold
def spectra(ctx):
    out = []
    out.append(("geometric", [2.0 ** -i for i in range(8)]))
    out.append(("flat", [1.0] * 6))
    out.append(("clustered", [5, 5, 5, 1, 1, 1, 0.2]))
    out.append(("rankdef", [3, 2, 1, 0, 0]))
    out.append(("tiny", [1e-8, 5e-9, 1e-9]))
    out.append(("huge", [1e8, 3e7, 1e7, 1e6]))
    out.append(("two", [2, 1]))
    r = ctx.rng.child("spectra").np
    for i in range(ctx.n(6, 60)):
        k = int(r.integers(2, 9))
        s = np.sort(np.abs(r.standard_normal(k)) * 10.0 ** r.integers(-3, 4))[::-1]
        out.append(("random%d" % i, list(map(float, s))))
    return out


def make_matrix(s, n, p, rng):
    """X = U diag(s) V^T, centred columns so that total variance = sum s^2/(n-1)"""
    k = len(s)
    A = rng.standard_normal((n, k))
    A -= A.mean(axis=0)
    U, _ = np.linalg.qr(A)
    V, _ = np.linalg.qr(rng.standard_normal((p, k)))
    return (U * np.asarray(s)) @ V.T


def run_threshold(ctx):
    import xarray as xr
    from xeofs.linalg import decomposer as D
    from xeofs.linalg._numpy import _svd as S
    r = ctx.rng.child("thr").np
    cases = []
    for name, s in spectra(ctx):
        k = len(s)
        n, p = k + 3, k + 1
        X = make_matrix(s, n, p, r)
        # singular values as the implementation's solver returns them
        sv = np.linalg.svd(X, compute_uv=False)
        Xd = xr.DataArray(X, dims=("sample", "feature"))
        tv_dec = float(Xd.var("sample", ddof=1).sum("feature"))
        tv_svd = float(X.var(axis=0, ddof=1).sum())
        cum = np.cumsum(sv ** 2 / (n - 1) / tv_svd)
        fr = [0.5, 0.9, 0.99, 1.0, 1e-6]
        for c in cum[: min(len(cum), 5)]:
            c = float(c)
            if 0 < c <= 1.0:
                fr += [c, float(np.nextafter(c, 0)), float(np.nextafter(c, 2))]
        fr = [f for f in sorted(set(fr)) if 0 < f <= 1.0]
        if ctx.quick:
            fr = fr[:: max(1, len(fr) // 8)]
        for f in fr:
            for which in ("dec", "svd"):
                try:
                    if which == "dec":
                        captured = {}
                        orig = D.Decomposer._svd

                        def spy(self, X_, dims, func, kwargs, _o=orig, _c=captured):
                            U, s_, VT = _o(self, X_, dims, func, kwargs)
                            _c["s"] = np.asarray(s_.values, dtype=float).copy()
                            return U, s_, VT
                        D.Decomposer._svd = spy
                        try:
                            d = D.Decomposer(n_modes=f, init_rank_reduction=1.0, solver="full")
                            d.fit(Xd)
                        finally:
                            D.Decomposer._svd = orig
                        kept = int(d.s_.size)
                        s_used = captured["s"][: d.n_modes_precompute]
                        tv = tv_dec
                    else:
                        captured = {}
                        orig = S._SVD._svd

                        def spy2(self, X_, func, kwargs, _o=orig, _c=captured):
                            U, s_, VT = _o(self, X_, func, kwargs)
                            _c["s"] = np.asarray(s_, dtype=float).copy()
                            return U, s_, VT
                        S._SVD._svd = spy2
                        try:
                            o = S._SVD(n_modes=f, init_rank_reduction=1.0, solver="full")
                            U, s_, V = o.fit_transform(X)
                        finally:
                            S._SVD._svd = orig
                        kept = int(len(s_))
                        s_used = captured["s"][: o.n_modes_precompute]
                        tv = tv_svd
                    err = None
                except Exception as e:  # noqa
                    kept, s_used, tv, err = -1, np.zeros(0), 0.0, C.errkind(e)
                cases.append(dict(which=which, spectrum=name, s=list(map(float, s_used)), n=n, p=p, tv=tv, frac=f,
                                  kept=kept, err=err))
                ctx.case(("thr", which, name, f), nontrivial=len(set(s)) >= 2, tag="threshold:%s:%s" % (which, name.rstrip("0123456789")),
                         sample=dict(kind="threshold", cls=which, spectrum=s, frac=f, kept=kept))
                # independent oracle: least m with cumulative fraction >= f (numpy, exact same floats)
                if err is None:
                    cumv = np.cumsum(np.asarray(s_used) ** 2 / (n - 1) / tv)
                    idx = np.nonzero(cumv >= f)[0]
                    want = int(idx[0]) + 1 if len(idx) else len(cumv)
                    if kept != want:
                        ctx.violation("C15:threshold:%s" % which,
                                      "fraction %r of spectrum %s keeps %d modes, the least sufficient number is %d" % (f, name, kept, want),
                                      dict(kind="threshold", cls=which, s=s_used, n=n, p=p, tv=tv, frac=f, kept=kept, want=want))
    body = [C.COQ_HEADER, "From XV Require Import Base.Scalar Base.Instances Model.DecompLib Gen.T3 Model.Decomp.\n",
            "Definition cases : list (Z * bool) := ["]
    items = []
    for c in cases:
        items.append("  %s_threshold_f64 %s %d %d %s %s" % (c["which"], C.cvec(c["s"]), c["n"], c["p"], C.cf(c["tv"]), C.cf(c["frac"])))
    body.append(";\n".join(items))
    body.append("].\nEval vm_compute in map (fun x : Z * bool => (fst x, if snd x then 1%Z else 0%Z)) cases.\n")
    f = C.write_case_file("C15", "thr", "\n".join(body))
    rc, out = C.coqc_run(f)
    if rc != 0:
        ctx.oblige("correspondence:threshold", "correspondence", False, out[-800:])
        return
    model = C.parse_pairs(C.parse_evals(out)[0])
    bad = 0
    for c, (m, w) in zip(cases, model):
        ctx.traces += 1
        if c["err"] is not None or c["kept"] != m:
            bad += 1
            disagreement(ctx, "threshold", c, c["kept"], m)
    ctx.oblige("correspondence:threshold (%d cases)" % len(cases), "correspondence", bad == 0 and len(model) == len(cases),
               "%d disagreements" % bad)


# ------------------------------------------------------------------ sign rule
def run_sign(ctx):
    import xarray as xr
    from xeofs.linalg._numpy._svd import get_deterministic_sign_multiplier as sm_np
    from xeofs.utils.xarray_utils import get_deterministic_sign_multiplier as sm_xr
    r = ctx.rng.child("sign").np
    cols = [[1.0, -1.0], [-1.0, 1.0], [-2.0, -2.0], [2.0, 2.0], [0.0, 0.0], [-3.0, 2.0, 1.0], [3.0, -3.0, 0.5], [-1.0], [1.0],
            [1e-300, -1e-300], [-5.0, -1.0], [5.0, 1.0]]
    # near-ties far above double-precision rounding: the two extreme loadings differ by 1e-7 .. 1e-9 relative, in either direction, at several scales
    for d in (1e-7, 2e-8, 3e-9):
        for sc in (1.0, 1e-6, 1e5):
            cols += [[sc, -sc * (1 + d)], [sc * (1 + d), -sc], [-sc * (1 + d), 0.3 * sc, sc], [sc * 0.5, sc * (1 + d), -sc]]
    for i in range(ctx.n(60, 600)):
        k = int(r.integers(1, 7))
        v = r.standard_normal(k) * 10.0 ** r.integers(-6, 7)
        if i % 5 == 0:
            v = np.round(v)
        cols.append(list(map(float, v)))
    impl = []
    for v in cols:
        a = np.asarray(v).reshape(-1, 1)
        s1 = int(sm_np(a, axis=0)[0])
        da = xr.DataArray(a.T, dims=("mode", "feature"), coords={"mode": [1]})
        s2 = int(sm_xr(da, "feature").values[0])
        impl.append((s1, s2))
        ctx.case(("sign", tuple(v)), nontrivial=len(v) >= 2, tag="sign:len%d" % len(v))
        # property oracle (real data): largest-magnitude loading positive after the flip
        mx, mn = max(v), min(v)
        if not (mx < 0 and mx == mn):
            for nm, s in (("numpy", s1), ("xarray", s2)):
                w = [s * x for x in v]
                big = max(abs(x) for x in w)
                if big > 0 and not any(x == big for x in w):
                    ctx.violation("C15:sign:%s" % nm, "sign rule leaves the largest-magnitude loading negative for column %r" % (v,),
                                  dict(kind="sign", column=v, sign=s, variant=nm))
    body = [C.COQ_HEADER, "From XV Require Import Base.Scalar Base.Instances Model.DecompLib Gen.T3 Gen.T3b.\n",
            "Definition mx (l : list float) := fold_left (fun a x => if PrimFloat.leb a x then x else a) (tl l) (hd 0 l).\n"
            "Definition mn (l : list float) := fold_left (fun a x => if PrimFloat.leb x a then x else a) (tl l) (hd 0 l).\n"
            "Definition sg (l : list float) : Z * Z := (1 + float_truncZ (svd_sign_rule OF64 (mx l) (mn l)), 1 + float_truncZ (dec_sign_rule OF64 (mx l) (mn l)))%Z.\n"
            "Eval vm_compute in map sg ["]
    body.append(";\n".join("  " + C.cvec(v) for v in cols))
    body.append("].\n")
    f = C.write_case_file("C15", "sign", "\n".join(body))
    rc, out = C.coqc_run(f)
    if rc != 0:
        ctx.oblige("correspondence:sign-rule", "correspondence", False, out[-800:])
        return
    model = C.parse_pairs(C.parse_evals(out)[0])
    bad = 0
    for v, i, m in zip(cols, impl, model):
        ctx.traces += 1
        if (i[0] + 1, i[1] + 1) != tuple(m):
            bad += 1
            disagreement(ctx, "sign", v, i, m)
    ctx.oblige("correspondence:sign-rule (%d columns)" % len(cols), "correspondence", bad == 0 and len(model) == len(cols),
               "%d disagreements" % bad)


# ------------------------------------------------------------------ tests on the implementation
def run_solver_tests(ctx):
    """exact vs randomised under a gap; bit-identical under a seed (tests, labelled)"""
    import xarray as xr
    from xeofs.linalg.decomposer import Decomposer
    r = ctx.rng.child("solver").np
    n_fail = 0
    for i in range(ctx.n(6, 40)):
        k = int(r.integers(2, 5))
        tail = int(r.integers(2, 6))
        kind = ["geometric", "clustered", "rankdef"][i % 3]
        if kind == "geometric":
            s = [10.0 * 0.5 ** j for j in range(k)] + [1e-3 * 0.5 ** j for j in range(tail)]
        elif kind == "clustered":
            s = [10.0 + 0.1 * j for j in range(k)][::-1] + [1e-3] * tail
        else:
            s = [10.0 * 0.7 ** j for j in range(k)] + [0.0] * tail
        n, p = len(s) + 6, len(s) + 2
        X = make_matrix(s, n, p, r)
        Xd = xr.DataArray(X, dims=("sample", "feature"))
        # all integer seeds: the boundary values 0, 1, 2^32 - 1 as well as random ones
        seed = [0, 1, 2 ** 32 - 1, int(r.integers(0, 2 ** 31))][i % 4]
        d1 = Decomposer(n_modes=k, solver="full")
        d1.fit(Xd)
        d2 = Decomposer(n_modes=k, solver="randomized", random_state=seed)
        d2.fit(Xd)
        d3 = Decomposer(n_modes=k, solver="randomized", random_state=seed)
        d3.fit(Xd)
        ctx.case(("solver", kind, i), tag="solver-test:" + kind)
        if not np.allclose(d1.s_.values, d2.s_.values, rtol=1e-6, atol=1e-9):
            ctx.violation("C15:exact-vs-randomized", "leading singular values differ between full and randomized with a spectral gap",
                          dict(kind="solver", s=s, full=d1.s_.values, randomized=d2.s_.values, seed=seed))
        P1 = d1.V_.values @ d1.V_.values.T
        P2 = d2.V_.values @ d2.V_.values.T
        if not np.allclose(P1, P2, atol=1e-6):
            ctx.violation("C15:exact-vs-randomized-subspace", "leading subspace differs between full and randomized with a spectral gap",
                          dict(kind="solver", s=s, seed=seed))
        if not (np.array_equal(d2.s_.values, d3.s_.values) and np.array_equal(d2.V_.values, d3.V_.values)
                and np.array_equal(d2.U_.values, d3.U_.values)):
            ctx.violation("C15:seed", "equal inputs with equal random_state=%d give different results" % seed,
                          dict(kind="seed", s=s, seed=seed))
        # steeply decaying spectra within the requested modes, on both SVD front-ends (Decomposer: models; SVD: the PCA step)
        if i % 2 == 0:
            from xeofs.linalg.svd import SVD
            kk = int(r.integers(6, 11))
            ratio = float(r.choice([0.5, 0.3]))
            ss = [10.0 * ratio ** j for j in range(kk)] + [1e-9] * 4
            ns, ps = int(r.integers(40, 70)), int(r.integers(len(ss) + 2, 40))
            Xs = xr.DataArray(make_matrix(ss, ns, ps, r), dims=("sample", "feature"))
            for front, run in (("Decomposer", lambda sv: (lambda d: (d.fit(Xs), d.s_.values, d.V_.values))(Decomposer(n_modes=kk, solver=sv, random_state=seed))),
                               ("SVD", lambda sv: (lambda o: (None, np.asarray(o[1].values), np.asarray(o[2].values)))(SVD(n_modes=kk, solver=sv, random_state=seed).fit_transform(Xs)))):
                _, s_full, V_full = run("full")
                _, s_rand, V_rand = run("randomized")
                ctx.case(("steep", front, kk, ratio, i), tag="solver-test:steep:" + front)
                if front == "Decomposer":
                    # the same matrix held as a dask array (randomised back-end: dask's svd_compressed)
                    try:
                        import dask.array as dsa
                        Xk_ = xr.DataArray(dsa.from_array(Xs.values, chunks=(max(2, ns // 3), ps)), dims=("sample", "feature"))
                        dd = Decomposer(n_modes=kk, solver="randomized", random_state=seed)
                        dd.fit(Xk_)
                        s_dask, V_dask = np.asarray(dd.s_.values), np.asarray(dd.V_.values)
                        ctx.case(("steep", "Decomposer-dask", kk, ratio, i), tag="solver-test:steep:Decomposer-dask")
                        if not np.allclose(s_full, s_dask, rtol=1e-6, atol=1e-9) or not np.allclose(V_full @ V_full.T, V_dask @ V_dask.T, atol=1e-6):
                            ctx.violation("C15:exact-vs-randomized:steep:dask", "Decomposer on dask data: full (numpy) and randomized (dask) disagree on a steep spectrum (ratio %g, %d modes, "
                                          "gap after the last one): singular values %r vs %r" % (ratio, kk, s_full[-3:], s_dask[-3:]), dict(kind="solver", s=ss, seed=seed, front="Decomposer-dask"))
                    except NotImplementedError:
                        ctx.dist["steep:dask:refused"] += 1
                if not np.allclose(s_full, s_rand, rtol=1e-6, atol=1e-9) or not np.allclose(V_full @ V_full.T, V_rand @ V_rand.T, atol=1e-6):
                    ctx.violation("C15:exact-vs-randomized:steep:" + front, "%s: full and randomized disagree on a steep spectrum (ratio %g, %d modes, gap after the last one): "
                                  "singular values %r vs %r" % (front, ratio, kk, s_full[-3:], s_rand[-3:]), dict(kind="solver", s=ss, seed=seed, front=front))
        # the same seed on the complex (scipy svds) and dask (svd_compressed) back-ends
        try:
            import dask.array as dsa
            Xc = xr.DataArray(X + 1j * make_matrix(s, n, p, r), dims=("sample", "feature"))
            Xk = xr.DataArray(dsa.from_array(X, chunks=(max(2, n // 2), p)), dims=("sample", "feature"))
            for bname, Xb, kk in (("complex", Xc, min(k, min(n, p) - 1)), ("dask", Xk, k)):
                outs = []
                for _ in range(2):
                    db = Decomposer(n_modes=kk, solver="randomized", random_state=seed)
                    db.fit(Xb)
                    outs.append((np.asarray(db.s_.values), np.asarray(db.V_.values)))
                ctx.case(("seed", bname, i), tag="seed-test:" + bname)
                if not (np.array_equal(outs[0][0], outs[1][0]) and np.array_equal(outs[0][1], outs[1][1])):
                    ctx.violation("C15:seed:" + bname, "equal inputs with equal random_state=%d give different results on the %s back-end" % (seed, bname),
                                  dict(kind="seed", s=s, seed=seed, backend=bname))
        except NotImplementedError:
            ctx.dist["seed-test:refused"] += 1
    ctx.oblige("test:exact-vs-randomized and seed reproducibility (numpy, complex and dask back-ends; seeds 0, 1, 2^32-1 and random)", "oracle", n_fail == 0)


def run_threshold_backends(ctx):
    """the fraction rule on the other solvers and back-ends: real and complex data, full / randomized / auto, data in small, ordinary
    and large units; fractions half-way between two cumulative fractions of a geometric spectrum (so that solver accuracy cannot
    move the answer), a partial pre-computation (init_rank_reduction < 1) included"""
    import warnings
    import xarray as xr
    from xeofs.linalg.decomposer import Decomposer
    r = ctx.rng.child("thr-backends").np
    for i in range(ctx.n(6, 40)):
        cplx = i % 2 == 0
        rank = int(r.integers(8, 16))
        n, p = rank + int(r.integers(20, 40)), rank + int(r.integers(10, 20))
        amp = float(10.0 ** r.integers(-4, 4))
        ratio = float(r.choice([0.5, 0.7]))
        sv = amp * ratio ** np.arange(rank)
        A = r.standard_normal((n, rank)) + (1j * r.standard_normal((n, rank)) if cplx else 0)
        A = A - A.mean(axis=0)
        U, _ = np.linalg.qr(A)
        V, _ = np.linalg.qr(r.standard_normal((p, rank)) + (1j * r.standard_normal((p, rank)) if cplx else 0))
        X = (U * sv) @ V.conj().T
        Xd = xr.DataArray(X, dims=("sample", "feature"))
        cum = np.cumsum(sv ** 2) / np.sum(sv ** 2)
        irr = float(r.choice([0.5, 0.8]))
        for kk in (1, 2, int(r.integers(3, 6))):
            frac = float(0.5 * (cum[kk - 1] + cum[kk]))
            for solver in ("full", "randomized", "auto"):
                ctx.case(("thr-backend", cplx, solver, rank, kk, amp, i), nontrivial=True, tag="threshold:%s:%s" % ("complex" if cplx else "real", solver),
                         sample=dict(kind="threshold-backend", complex=cplx, solver=solver, amplitude=amp, ratio=ratio, frac=frac))
                rp = dict(kind="threshold-backend", complex=cplx, solver=solver, X=X, frac=frac, irr=irr)
                try:
                    d = Decomposer(n_modes=frac, init_rank_reduction=irr, solver=solver, random_state=3)
                    with warnings.catch_warnings(record=True) as rec:
                        warnings.simplefilter("always")
                        d.fit(Xd.copy())
                except Exception as e:
                    ctx.violation("C15:threshold-backend:error:" + C.errkind(e), "Decomposer(n_modes=%r, solver=%r) on %s data raised %r" % (
                        frac, solver, "complex" if cplx else "real", e), rp)
                    continue
                pre = int(d.n_modes_precompute)
                reached = np.nonzero(cum[:pre] >= frac)[0]
                want = int(reached[0]) + 1 if reached.size else pre
                kept = int(d.s_.sizes["mode"])
                warned = any("explained variance was requested" in str(w.message) for w in rec)
                if kept != want or warned != (not reached.size):
                    ctx.violation("C15:threshold-backend:%s:%s" % ("complex" if cplx else "real", solver),
                                  "Decomposer(n_modes=%.6f, init_rank_reduction=%g, solver=%r) on %s data of amplitude %g keeps %d mode(s) (warning: %s); the least number "
                                  "reaching the fraction among the %d precomputed is %d" % (frac, irr, solver, "complex" if cplx else "real", amp, kept, warned, pre, want), rp)
    ctx.oblige("oracle:fraction rule on real/complex data with the full, randomized and auto solvers", "oracle",
               not any(v["key"].startswith("C15:threshold-backend") for v in ctx.violations))


def run_model_seeds(ctx):
    """equal inputs with equal random_state give bit-identical results - for every model class that takes random_state, inner
    pre-reduction steps included (fields wide enough for the randomised back-end to be the one that answers)"""
    import xarray as xr
    import xeofs as xe
    r = ctx.rng.child("model-seeds").np
    n, p, q = 60, 40, 36
    X = xr.DataArray(r.standard_normal((n, p)), dims=("time", "x"), coords={"time": np.arange(n), "x": np.arange(p)})
    Y = xr.DataArray(r.standard_normal((n, q)), dims=("time", "y"), coords={"time": np.arange(n), "y": np.arange(q)})
    Xc = X + 1j * X.roll(time=5, roll_coords=False)
    sg, cr = xe.single, xe.cross
    zoo = [("EOF", lambda sd: sg.EOF(n_modes=3, solver="randomized", random_state=sd), (X,)),
           ("ComplexEOF", lambda sd: sg.ComplexEOF(n_modes=3, solver="randomized", random_state=sd), (Xc,)),
           ("HilbertEOF", lambda sd: sg.HilbertEOF(n_modes=3, solver="randomized", random_state=sd), (X,)),
           ("ExtendedEOF", lambda sd: sg.ExtendedEOF(n_modes=3, tau=1, embedding=2, solver="randomized", random_state=sd), (X,)),
           ("ExtendedEOF(n_pca_modes)", lambda sd: sg.ExtendedEOF(n_modes=3, tau=1, embedding=2, n_pca_modes=10, solver="randomized", random_state=sd), (X,)),
           ("OPA", lambda sd: sg.OPA(n_modes=3, tau_max=3, n_pca_modes=10, solver="randomized", random_state=sd), (X,)),
           ("POP", lambda sd: sg.POP(n_modes=3, n_pca_modes=10, solver="randomized", random_state=sd), (X,)),
           ("MCA(use_pca)", lambda sd: cr.MCA(n_modes=3, use_pca=True, n_pca_modes=10, solver="randomized", random_state=sd), (X, Y)),
           ("CCA(use_pca)", lambda sd: cr.CCA(n_modes=3, use_pca=True, n_pca_modes=10, solver="randomized", random_state=sd), (X, Y)),
           ("CPCCA(use_pca)", lambda sd: cr.CPCCA(n_modes=3, alpha=0.5, use_pca=True, n_pca_modes=0.9, solver="randomized", random_state=sd), (X, Y)),
           ("MCA(no pca)", lambda sd: cr.MCA(n_modes=3, use_pca=False, solver="randomized", random_state=sd), (X, Y))]

    def results(m):
        out = []
        for nm in ("components", "scores"):
            v = getattr(m, nm)()
            out += [np.asarray(a.values) for a in (v if isinstance(v, (list, tuple)) else [v])]
        return out
    for j, (name, mk, data) in enumerate(zoo):
        seed = [0, 1, 2 ** 32 - 1, int(r.integers(0, 2 ** 31))][j % 4]
        ctx.case(("model-seed", name, seed), nontrivial=True, tag="seed-test:model:" + name, sample=dict(kind="model-seed", cls=name, seed=seed))
        try:
            outs = []
            for _ in range(2):
                m = mk(seed)
                m.fit(*data, "time")
                outs.append(results(m))
        except Exception as e:
            ctx.violation("C15:seed:model:%s:error:%s" % (name, C.errkind(e)), "%s(solver='randomized', random_state=%d).fit raised %r" % (name, seed, e),
                          dict(kind="model-seed", cls=name, seed=seed))
            continue
        if not all(a.shape == b.shape and np.array_equal(a, b, equal_nan=True) for a, b in zip(*outs)):
            dev = max(float(np.nanmax(np.abs(a - b))) for a, b in zip(*outs))
            ctx.violation("C15:seed:model:%s" % name, "%s(solver='randomized', random_state=%d) fitted twice on the same data gives different results (max abs difference %.3g)" % (
                name, seed, dev), dict(kind="model-seed", cls=name, seed=seed, X=np.asarray(X.values), Y=np.asarray(Y.values)))
    ctx.oblige("test:equal random_state gives bit-identical results for every model class taking random_state (inner pre-reduction steps included)", "oracle",
               not any(v["key"].startswith("C15:seed:model") for v in ctx.violations))


def run_kwargs(ctx):
    """every model advertising solver_kwargs accepts a documented pass-through option"""
    import xarray as xr
    import xeofs as xe
    r = ctx.rng.child("kw").np
    X = xr.DataArray(r.standard_normal((30, 6)), dims=("time", "x"), coords={"time": np.arange(30), "x": np.arange(6)})
    Y = xr.DataArray(r.standard_normal((30, 5)), dims=("time", "y"), coords={"time": np.arange(30), "y": np.arange(5)})
    # options documented for the back-end that the solver setting selects on these (small, real) inputs
    opts = [("randomized", {"n_oversamples": 5}), ("randomized", {"n_iter": 3}), ("full", {"full_matrices": False})]
    copts = [("full", {"full_matrices": False}), ("randomized", {"maxiter": 50})]
    single = [("EOF", lambda kw, sv: xe.single.EOF(n_modes=2, solver=sv, solver_kwargs=kw)),
              ("ExtendedEOF", lambda kw, sv: xe.single.ExtendedEOF(n_modes=2, tau=1, embedding=2, n_pca_modes=3, solver=sv, solver_kwargs=kw)),
              ("OPA", lambda kw, sv: xe.single.OPA(n_modes=2, tau_max=2, n_pca_modes=3, solver=sv, solver_kwargs=kw)),
              ("POP", lambda kw, sv: xe.single.POP(n_modes=2, n_pca_modes=3, solver=sv, solver_kwargs=kw))]
    csingle = [("HilbertEOF", lambda kw, sv: xe.single.HilbertEOF(n_modes=2, solver=sv, solver_kwargs=kw)),
               ("ComplexEOF", lambda kw, sv: xe.single.ComplexEOF(n_modes=2, solver=sv, solver_kwargs=kw))]
    cross = [("MCA", lambda kw, sv: xe.cross.MCA(n_modes=2, n_pca_modes=3, solver=sv, solver_kwargs=kw)),
             ("CPCCA", lambda kw, sv: xe.cross.CPCCA(n_modes=2, n_pca_modes=3, solver=sv, solver_kwargs=kw)),
             ("CCA", lambda kw, sv: xe.cross.CCA(n_modes=2, n_pca_modes=3, solver=sv, solver_kwargs=kw))]
    Xc = X + 1j * X.roll(time=3, roll_coords=False)

    def attempt(name, sv, kw, thunk):
        ctx.case(("kwargs", name, sv, tuple(kw)), tag="kwargs:" + name,
                 sample=dict(kind="solver_kwargs", cls=name, solver=sv, solver_kwargs=kw))
        try:
            thunk()
        except Exception as e:
            if isinstance(e, TypeError):
                ctx.violation("C15:solver_kwargs:%s" % name,
                              "%s(solver=%r, solver_kwargs=%r).fit raises %s: %s" % (name, sv, kw, type(e).__name__, str(e)[:120]),
                              dict(kind="kwargs", cls=name, solver=sv, solver_kwargs=kw, error=repr(e)))
    for sv, kw in opts:
        for name, mk in single:
            attempt(name, sv, kw, lambda: mk(dict(kw), sv).fit(X, "time"))
        for name, mk in cross:
            attempt(name, sv, kw, lambda: mk(dict(kw), sv).fit(X, Y, "time"))
    for sv, kw in copts:
        for name, mk in csingle:
            data = X if name == "HilbertEOF" else Xc
            attempt(name, sv, kw, lambda: mk(dict(kw), sv).fit(data, "time"))
    ctx.oblige("oracle:solver_kwargs accepted by every advertising model", "oracle",
               not any(v["key"].startswith("C15:solver_kwargs") for v in ctx.violations))


def run(ctx):
    C.setup_impl_env()
    C.clean_case_files("C15")
    if ctx.extra.get("model_ok", True):
        run_grid(ctx)
        run_threshold(ctx)
        run_sign(ctx)
    else:
        ctx.notes.append("model does not build: correspondence skipped, oracles only")
        search(ctx)
    run_solver_tests(ctx)
    run_threshold_backends(ctx)
    run_model_seeds(ctx)
    run_kwargs(ctx)


def search(ctx):
    """a tie is broken: look for a concrete failing input with the implementation-side oracles"""
    C.setup_impl_env()
    import xarray as xr
    from xeofs.linalg import decomposer as D
    from xeofs.linalg._numpy import _svd as S
    r = ctx.rng.child("search").np
    for name, s in spectra(ctx):
        k = len(s)
        n, p = k + 3, k + 1
        X = make_matrix(s, n, p, r)
        Xd = xr.DataArray(X, dims=("sample", "feature"))
        sv = np.linalg.svd(X, compute_uv=False)
        tv = float(X.var(axis=0, ddof=1).sum())
        cumv = np.cumsum(sv ** 2 / (n - 1) / tv)
        for f in [0.3, 0.5, 0.8, 0.9, 0.99, 1.0]:
            idx = np.nonzero(cumv >= f)[0]
            want = int(idx[0]) + 1 if len(idx) else len(cumv)
            # the fraction 1.0 ("all the variance") sits on a rounding boundary of the cumulative sum: any count from the first mode
            # that reaches 1 - 1e-9 up to all precomputed modes is the documented behaviour
            lo = int(np.nonzero(cumv >= 1.0 - 1e-9)[0][0]) + 1 if f == 1.0 and np.any(cumv >= 1.0 - 1e-9) else want
            for which in ("dec", "svd"):
                try:
                    if which == "dec":
                        d = D.Decomposer(n_modes=f, init_rank_reduction=1.0, solver="full")
                        d.fit(Xd)
                        kept = int(d.s_.size)
                    else:
                        kept = len(S._SVD(n_modes=f, init_rank_reduction=1.0, solver="full").fit_transform(X)[1])
                except Exception as e:
                    kept = "error:" + C.errkind(e)
                if kept != want and not (f == 1.0 and isinstance(kept, int) and lo <= kept <= len(cumv)):
                    ctx.violation("C15:threshold:%s" % which,
                                  "fraction %r of spectrum %s keeps %r modes, the least sufficient number is %d" % (f, name, kept, want),
                                  dict(kind="threshold", cls=which, s=list(map(float, sv)), n=n, p=p, frac=f, kept=kept, want=want))
                    return
    # policy oracles are part of run_grid's implementation-only pass
    cases = grid(ctx)
    by = {}
    for (which, nm, irr, solver, n, p, cplx, dask) in cases:
        f = _observe_decomposer if which == "dec" else _observe_svd
        out, _ = f(nm, irr, solver, n, p, cplx, dask)
        by[(which, repr(nm), irr, n, p, cplx, dask, solver)] = out
    for k, v in by.items():
        if k[-1] == "auto":
            a, b = by.get(k[:-1] + ("full",)), by.get(k[:-1] + ("randomized",))
            if v not in (a, b):
                ctx.violation("C15:auto-policy:%s" % k[0], "solver='auto' selected %s, but 'full' gives %s and 'randomized' gives %s" % (v, a, b),
                              dict(kind="auto-policy", case=k, auto=v, full=a, randomized=b))
                return


def replay(ctx, rp):
    C.setup_impl_env()
    print("replay:", rp.get("what"))
    run(ctx)
