"""C08 — centring, standardisation and weights mean exactly what the options say."""
import numpy as np

from harness import common as C
from harness import zoo as Z

ANCHORS = ["T4", "T6lat", "T7pipe", "T7chain"]
MODELS = ["ScalerFit"]
RULE = ("per-feature shifts and positive scalings over many orders of magnitude (std kept above the 1.2e-7 floor), positive weight fields as "
        "DataArray/Dataset/list, latitudes in [-90, 90] under each accepted latitude name, global factors c != 0 of both signs; EOF, ComplexEOF, "
        "rotators and the CPCCA family; non-trivial: >= 4 samples and >= 2 features with a spectral gap; distinct by input hash")
PARTIAL = ["uniqueness of the decomposition is not proved (oracle-relative statement for the global factor)"]
REFUTED = []
TRUSTED = ["cos, sqrt and deg2rad are numpy's (checked against an independent formula)", "Coq.Reals axioms (all C08 theorems are at the real instance)"]
ASSUMES = ["every feature's standard deviation stays above the float32-eps clipping floor"]


def gapped(rng, n, nlat, nlon, cplx=False):
    import xarray as xr
    p = nlat * nlon
    r = min(n - 1, p)
    s = np.linspace(3.0, 0.5, r)
    X = (rng.standard_normal((n, r)) * s) @ rng.standard_normal((r, p)) + rng.standard_normal(p) * 2
    if cplx:
        X = X + 1j * (rng.standard_normal((n, r)) * s) @ rng.standard_normal((r, p))
    return X.reshape(n, nlat, nlon)


def as_da(X, latname="lat", lats=None):
    import xarray as xr
    n, nlat, nlon = X.shape
    lats = np.linspace(-60, 75, nlat) if lats is None else lats
    return xr.DataArray(X, dims=("time", latname, "lon"), coords={"time": np.arange(n), latname: lats, "lon": np.arange(nlon) * 10.0})


_ENTRY = [0]


def fitted(make, da, w=None, **kw):
    """fit through `fit` and, every other time, through `fit_transform` (keyword and positional weights): the options mean the same on
    both entry points"""
    m = make(**kw)
    _ENTRY[0] += 1
    if _ENTRY[0] % 2 == 0:
        try:
            if w is None:
                m.fit_transform(da, "time")
            elif _ENTRY[0] % 4 == 0:
                m.fit_transform(da, "time", weights=w)
            else:
                m.fit_transform(da, "time", w)
            return m
        except NotImplementedError:
            return m        # the fit has happened; the class has no transform
    m.fit(da, "time", weights=w) if w is not None else m.fit(da, "time")
    return m


def same_model(ctx, key, what, a, b, replay, scale_scores=1.0, scale_sv=1.0, tol=1e-6):
    sva, svb = a.singular_values().values, b.singular_values().values
    if not Z.same(svb, sva * scale_sv, tol):
        ctx.violation(key + ":singular-values", "%s: singular values differ (%r vs %r)" % (what, svb[:3], (sva * scale_sv)[:3]), replay)
        return False
    ca, cb = a.components(), b.components()
    fd = [d for d in ca.dims if d != "mode"]
    A = ca.transpose(*fd, "mode").values.reshape(-1, ca.sizes["mode"])
    B = cb.transpose(*fd, "mode").values.reshape(-1, ca.sizes["mode"])
    # a mode whose largest positive and largest negative loading have equal magnitude has no defined sign
    # under the convention (tie decided by rounding): such modes are compared up to sign
    flip = np.ones(A.shape[1])
    for j in range(A.shape[1]):
        col = np.real(A[:, j])
        if abs(abs(col.max()) - abs(col.min())) <= 1e-6 * max(abs(col.max()), abs(col.min())) or np.iscomplexobj(A):
            ip = np.sum(B[:, j].conj() * A[:, j])
            flip = flip.astype(complex) if np.iscomplexobj(A) else flip
            flip[j] = (ip / abs(ip)) if (np.iscomplexobj(A) and abs(ip) > 0) else (-1.0 if np.real(ip) < 0 else 1.0)
    if not Z.same(B * flip, A, tol):
        ctx.violation(key + ":components", "%s: components differ" % what, replay)
        return False
    if not Z.same(b.scores().transpose("time", "mode").values * flip, a.scores().transpose("time", "mode").values * scale_scores, tol):
        ctx.violation(key + ":scores", "%s: scores differ" % what, replay)
        return False
    if not Z.same(b.explained_variance_ratio().values, a.explained_variance_ratio().values, tol):
        ctx.violation(key + ":ratios", "%s: explained variance ratios differ" % what, replay)
        return False
    return True


def run_single(ctx, rng, N):
    import xarray as xr
    import xeofs as xe
    from xeofs.utils.constants import VALID_LATITUDE_NAMES
    for i in range(N):
        cplx = (i % 4 == 3)
        n, nlat, nlon = int(rng.integers(8, 14)), int(rng.integers(2, 4)), int(rng.integers(1, 4))
        X = gapped(rng, n, nlat, nlon, cplx)
        da = as_da(X)
        make = (lambda **kw: xe.single.ComplexEOF(n_modes=2, solver="full", **kw)) if cplx else (lambda **kw: xe.single.EOF(n_modes=2, solver="full", **kw))
        cls = "ComplexEOF" if cplx else "EOF"
        replay = dict(kind="single", cls=cls, X=X)
        # ---- shifts (centring on)
        mag = 10.0 ** rng.integers(-6, 7)
        c = rng.standard_normal((nlat, nlon)) * mag
        ctx.case(("shift", cls, n, nlat, nlon, float(mag), i), nontrivial=True, tag="%s/shift/1e%d" % (cls, int(np.log10(mag))),
                 sample=dict(cls=cls, test="shift", shape=[n, nlat, nlon], magnitude=float(mag)))
        for std in (False, True):
            a = fitted(make, da, center=True, standardize=std)
            b = fitted(make, as_da(X + c), center=True, standardize=std)
            tol = 1e-6 if mag <= 1e3 else 1e-6 * mag  # cancellation error grows with the shift; scale-aware tolerance
            same_model(ctx, "C08:%s:shift" % cls, "%s(center=True, standardize=%s) under per-feature shifts of size %g" % (cls, std, mag), a, b,
                       dict(replay, shift=c, standardize=std), tol=min(tol, 1e-3))
        # ---- a fully missing sample does not change what centring means
        Xn = X.copy()
        Xn[int(rng.integers(0, n))] = np.nan
        cm = rng.standard_normal((nlat, nlon)) * 10.0
        ctx.case(("shift-missing-sample", cls, n, nlat, nlon, i), nontrivial=True, tag="%s/shift/missing-sample" % cls)
        same_model(ctx, "C08:%s:shift-with-missing-sample" % cls, "%s(center=True) under per-feature shifts, data with one fully missing sample" % cls,
                   fitted(make, as_da(Xn), center=True), fitted(make, as_da(Xn + cm), center=True), dict(replay, shift=cm, missing_sample=True))
        # ---- positive affine rescaling (standardisation on)
        sc = 10.0 ** rng.uniform(-4, 4, size=(nlat, nlon))
        ctx.case(("affine", cls, n, nlat, nlon, i), nontrivial=True, tag="%s/affine" % cls, sample=dict(cls=cls, test="affine", shape=[n, nlat, nlon]))
        a = fitted(make, da, center=True, standardize=True)
        b = fitted(make, as_da(X * sc + c), center=True, standardize=True)
        same_model(ctx, "C08:%s:affine" % cls, "%s(standardize=True) under positive per-feature affine rescaling" % cls, a, b, dict(replay, scale=sc, shift=c), tol=1e-5)
        # ---- data in small units: every standard deviation stays above the 1.2e-7 floor but far below 1
        sc2 = 10.0 ** rng.uniform(-6.0, -3.0, size=(nlat, nlon))
        sd = np.std(np.real(X), axis=0) * sc2
        if np.all(sd > 5e-7):
            ctx.case(("small-units", cls, n, nlat, nlon, i), nontrivial=True, tag="%s/affine-small-units" % cls,
                     sample=dict(cls=cls, test="affine-small-units", shape=[n, nlat, nlon], min_std=float(sd.min())))
            b2 = fitted(make, as_da(X * sc2), center=True, standardize=True)
            same_model(ctx, "C08:%s:affine-small-units" % cls, "%s(standardize=True) under per-feature rescaling to standard deviations %.2g..%.2g" % (cls, sd.min(), sd.max()),
                       a, b2, dict(replay, scale=sc2), tol=1e-5)
        # ---- weights = pre-multiplied data (standardisation off); weights after standardisation (on)
        w = 0.2 + rng.random((nlat, nlon)) * 3
        wd = xr.DataArray(w, dims=("lat", "lon"), coords={"lat": da.lat, "lon": da.lon})
        ctx.case(("weights", cls, n, nlat, nlon, i), nontrivial=True, tag="%s/weights" % cls, sample=dict(cls=cls, test="weights", shape=[n, nlat, nlon]))
        a = fitted(make, da, w=wd, center=True, standardize=False)
        b = fitted(make, as_da(X * w), center=True, standardize=False)
        same_model(ctx, "C08:%s:weights" % cls, "%s: user weights vs pre-multiplied data" % cls, a, b, dict(replay, weights=w))
        a = fitted(make, da, w=wd, center=True, standardize=True)
        Xs = (X - X.mean(axis=0)) / X.std(axis=0)
        b = fitted(make, as_da(Xs * w), center=False, standardize=False)
        same_model(ctx, "C08:%s:weights-after-std" % cls, "%s: weights with standardisation vs weighting the standardised data" % cls, a, b, dict(replay, weights=w))
        # ---- use_coslat = weights sqrt(cos(lat)), under every accepted latitude name
        latname = VALID_LATITUDE_NAMES[i % len(VALID_LATITUDE_NAMES)]
        lats = np.sort(rng.uniform(-90, 90, nlat))
        if i % 7 == 0:
            lats[0] = -90.0
        dl = as_da(X, latname, lats)
        wl = xr.DataArray(np.sqrt(np.clip(np.cos(np.deg2rad(lats)), 0, 1)), dims=(latname,), coords={latname: lats})
        ctx.case(("coslat", cls, latname, n, nlat, nlon, i), nontrivial=True, tag="%s/coslat/%s" % (cls, latname),
                 sample=dict(cls=cls, test="coslat", latitude_name=latname, lats=lats.tolist()))
        try:
            a = fitted(make, dl, center=True, use_coslat=True)
            b = fitted(make, dl, w=wl, center=True, use_coslat=False)
            same_model(ctx, "C08:%s:coslat" % cls, "%s: use_coslat vs weights sqrt(cos(lat)) with latitude dimension %r" % (cls, latname), a, b,
                       dict(replay, lats=lats, latname=latname))
        except Exception as e:
            ctx.violation("C08:%s:coslat:error" % cls, "%s(use_coslat=True) with latitude dimension %r raised %r" % (cls, latname, e), dict(replay, lats=lats, latname=latname))
        # ---- the same equivalence for a field held as integers (counts, packed archive data): the weights are what they are whatever the field's dtype
        if not cplx:
            for dt in ("int32", "int16", "float32"):
                Xi = np.round(np.nan_to_num(X) * (100 if dt != "int16" else 20)).astype(dt) if dt.startswith("int") else np.nan_to_num(X).astype(dt)
                di = as_da(Xi, latname, lats)
                ctx.case(("coslat-dtype", cls, dt, n, nlat, nlon, i), nontrivial=True, tag="%s/coslat/dtype=%s" % (cls, dt), sample=dict(cls=cls, test="coslat", dtype=dt))
                try:
                    a = fitted(make, di, center=True, use_coslat=True)
                    b = fitted(make, di, w=wl, center=True, use_coslat=False)
                    same_model(ctx, "C08:%s:coslat:dtype" % cls, "%s: use_coslat vs weights sqrt(cos(lat)) on a field of dtype %s" % (cls, dt), a, b,
                               dict(replay, lats=lats, latname=latname, dtype=dt), tol=1e-4 if dt == "float32" else 1e-6)
                except Exception as e:
                    ctx.violation("C08:%s:coslat:dtype:error" % cls, "%s(use_coslat=True) on a field of dtype %s raised %r" % (cls, dt, e), dict(replay, dtype=dt))
        # ---- both at once: use_coslat together with user weights is the product of the two, each applied once
        w2 = 0.2 + rng.random((nlat, nlon)) * 3
        w2d = xr.DataArray(w2, dims=(latname, "lon"), coords={latname: lats, "lon": dl.lon})
        ctx.case(("coslat+weights", cls, latname, n, nlat, nlon, i), nontrivial=True, tag="%s/coslat+weights" % cls,
                 sample=dict(cls=cls, test="coslat+weights", latitude_name=latname))
        try:
            a = fitted(make, dl, w=w2d, center=True, use_coslat=True)
            b = fitted(make, dl, w=w2d * wl, center=True, use_coslat=False)
            same_model(ctx, "C08:%s:coslat+weights" % cls, "%s: use_coslat together with user weights vs the product weights sqrt(cos(lat)) * w" % cls, a, b,
                       dict(replay, lats=lats, latname=latname, weights=w2))
        except Exception as e:
            ctx.violation("C08:%s:coslat+weights:error" % cls, "%s(use_coslat=True) with user weights raised %r" % (cls, e), dict(replay, lats=lats, latname=latname, weights=w2))
        # ---- global factor
        cfac = float(rng.choice([-1, 1]) * 10.0 ** rng.uniform(-6, 6))
        ctx.case(("global", cls, n, nlat, nlon, cfac, i), nontrivial=True, tag="%s/global/%s" % (cls, "neg" if cfac < 0 else "pos"),
                 sample=dict(cls=cls, test="global-factor", c=cfac))
        a = fitted(make, da, center=True)
        b = fitted(make, as_da(X * cfac), center=True)
        # the sign convention is defined on the components; a negative factor flips the scores only
        same_model(ctx, "C08:%s:global" % cls, "%s under the global factor c=%g" % (cls, cfac), a, b, dict(replay, c=cfac),
                   scale_scores=cfac, scale_sv=abs(cfac))
        if not Z.same(b.explained_variance().values, a.explained_variance().values * cfac ** 2, 1e-6):
            ctx.violation("C08:%s:global:explained-variance" % cls, "%s: explained variance does not scale with c^2" % cls, dict(replay, c=cfac))
    # latitude lookup: none or several accepted names are refused
    for dims, want in ((("time", "y", "lon"), "error"), (("time", "lat", "latitude"), "error")):
        da = xr.DataArray(rng.standard_normal((6, 2, 3)), dims=dims, coords={d: np.arange(s) for d, s in zip(dims, (6, 2, 3))})
        ctx.case(("latlookup", dims), nontrivial=True, tag="lat-lookup/" + "-".join(dims))
        try:
            xe.single.EOF(n_modes=2, use_coslat=True).fit(da, "time")
            ctx.violation("C08:lat-lookup", "use_coslat accepted feature dimensions %r (none or several latitude names)" % (dims,), dict(kind="lat", dims=dims))
        except Exception:
            pass


def run_cross(ctx, rng, N):
    import xarray as xr
    import xeofs as xe
    for i in range(N):
        name, cls = [("MCA", xe.cross.MCA), ("CCA", xe.cross.CCA), ("CPCCA", xe.cross.CPCCA)][i % 3]
        n = int(rng.integers(12, 18))
        X = gapped(rng, n, 2, 2)
        Y = gapped(rng, n, 3, 1)
        dx, dy = as_da(X), as_da(Y)
        kw = dict(n_modes=2, use_pca=False)
        if name == "CPCCA":
            kw["alpha"] = 0.5
        replay = dict(kind="cross", cls=name, X=X, Y=Y)

        def fit(a, b, wa=None, wb=None, **k2):
            m = cls(**kw, **k2)
            m.fit(a, b, "time", weights_X=wa, weights_Y=wb)
            return m

        def same(key, what, a, b, ssc=(1.0, 1.0), svs=1.0, tol=1e-6):
            sva, svb = a.data["singular_values"].values, b.data["singular_values"].values
            if not Z.same(svb, sva * svs, tol):
                ctx.violation(key + ":singular-values", "%s: singular values differ (%r vs %r)" % (what, svb, sva * svs), replay)
                return
            for j, (ca, cb) in enumerate(zip(a.components(), b.components())):
                fd = [d for d in ca.dims if d != "mode"]
                if not Z.same(cb.transpose(*fd, "mode").values, ca.transpose(*fd, "mode").values, tol):
                    ctx.violation(key + ":components", "%s: components of field %d differ" % (what, j), replay)
                    return
            if not Z.same(b.squared_covariance_fraction().values, a.squared_covariance_fraction().values, tol):
                ctx.violation(key + ":fractions", "%s: squared covariance fractions differ" % what, replay)
        ctx.case(("xshift", name, i), nontrivial=True, tag="%s/shift" % name, sample=dict(cls=name, test="shift"))
        c1, c2 = rng.standard_normal((2, 2)) * 100, rng.standard_normal((3, 1)) * 100
        same("C08:%s:shift" % name, "%s under per-feature shifts" % name, fit(dx, dy), fit(as_da(X + c1), as_da(Y + c2)))
        ctx.case(("xaffine", name, i), nontrivial=True, tag="%s/affine" % name)
        s1, s2 = 10.0 ** rng.uniform(-3, 3, size=(2, 2)), 10.0 ** rng.uniform(-3, 3, size=(3, 1))
        same("C08:%s:affine" % name, "%s(standardize=True) under positive affine rescaling" % name,
             fit(dx, dy, standardize=True), fit(as_da(X * s1 + c1), as_da(Y * s2 + c2), standardize=True), tol=1e-5)
        ctx.case(("xweights", name, i), nontrivial=True, tag="%s/weights" % name)
        w1, w2 = 0.3 + rng.random((2, 2)), 0.3 + rng.random((3, 1))
        wd1 = xr.DataArray(w1, dims=("lat", "lon"), coords={"lat": dx.lat, "lon": dx.lon})
        wd2 = xr.DataArray(w2, dims=("lat", "lon"), coords={"lat": dy.lat, "lon": dy.lon})
        same("C08:%s:weights" % name, "%s: user weights vs pre-multiplied data" % name, fit(dx, dy, wd1, wd2), fit(as_da(X * w1), as_da(Y * w2)))
        ctx.case(("xcoslat", name, i), nontrivial=True, tag="%s/coslat" % name)
        wl1 = xr.DataArray(np.sqrt(np.cos(np.deg2rad(dx.lat.values))), dims=("lat",), coords={"lat": dx.lat})
        wl2 = xr.DataArray(np.sqrt(np.cos(np.deg2rad(dy.lat.values))), dims=("lat",), coords={"lat": dy.lat})
        same("C08:%s:coslat" % name, "%s: use_coslat vs weights sqrt(cos(lat))" % name, fit(dx, dy, use_coslat=True), fit(dx, dy, wl1, wl2))
        ctx.case(("xcoslat+weights", name, i), nontrivial=True, tag="%s/coslat+weights" % name)
        try:
            same("C08:%s:coslat+weights" % name, "%s: use_coslat together with user weights vs the product weights" % name,
                 fit(dx, dy, wd1, wd2, use_coslat=True), fit(dx, dy, wd1 * wl1, wd2 * wl2))
        except Exception as e:
            ctx.violation("C08:%s:coslat+weights:error" % name, "%s(use_coslat=True) with user weights raised %r" % (name, e), replay)
        # ---- options given per field: each flag acts on its own field only
        for flags in ([True, False], [False, True]):
            ctx.case(("xcoslat-per-field", name, tuple(flags), i), nontrivial=True, tag="%s/coslat-per-field" % name)
            try:
                same("C08:%s:coslat-per-field" % name, "%s: use_coslat=%r vs weights sqrt(cos(lat)) on the flagged field only" % (name, flags),
                     fit(dx, dy, use_coslat=flags), fit(dx, dy, wl1 if flags[0] else None, wl2 if flags[1] else None))
            except Exception as e:
                ctx.violation("C08:%s:coslat-per-field:error" % name, "%s(use_coslat=%r) raised %r" % (name, flags, e), replay)
        for flags in ([True, False], [False, True]):
            ctx.case(("xstd-per-field", name, tuple(flags), i), nontrivial=True, tag="%s/standardize-per-field" % name)
            try:
                sx = X / X.std(axis=0) if flags[0] else X
                sy = Y / Y.std(axis=0) if flags[1] else Y
                same("C08:%s:standardize-per-field" % name, "%s: standardize=%r vs pre-standardised data on the flagged field only" % (name, flags),
                     fit(dx, dy, standardize=flags), fit(as_da(sx), as_da(sy)), tol=1e-6)
            except Exception as e:
                ctx.violation("C08:%s:standardize-per-field:error" % name, "%s(standardize=%r) raised %r" % (name, flags, e), replay)
        if name == "MCA":
            ctx.case(("xglobal", name, i), nontrivial=True, tag="%s/global" % name)
            cf = float(-10.0 ** rng.uniform(-3, 3))
            same("C08:%s:global" % name, "MCA under the global factor c=%g on both fields" % cf, fit(dx, dy), fit(as_da(X * cf), as_da(Y * cf)), svs=cf * cf)


def run_scaler_fit(ctx):
    """correspondence of the fit statistics model (mean, ddof-0 std clipped) with Scaler.fit at binary64"""
    import xarray as xr
    from xeofs.preprocessing.scaler import Scaler
    rng = ctx.rng.child("c08fit").np
    items = []
    for i in range(ctx.n(40, 400)):
        n, p = int(rng.integers(2, 9)), int(rng.integers(1, 5))
        X = rng.standard_normal((n, p)) * 10.0 ** rng.integers(-4, 5) + rng.standard_normal(p)
        if i % 9 == 0:
            X[:, 0] = 3.0     # constant feature: std is clipped at the floor
        da = xr.DataArray(X, dims=("time", "x"), coords={"time": np.arange(n), "x": np.arange(p)})
        sc = Scaler(with_center=True, with_std=True)
        out = sc.fit_transform(da, ("time",), ("x",))
        ctx.case(("scalerfit", i, n, p), nontrivial=n >= 2, tag="scaler-fit")
        items.append("(%d%%nat, %d%%nat, %s, %s)" % (n, p, C.cmat(X), C.cmat(out.transpose("time", "x").values)))
    body = [C.COQ_HEADER, "From XV Require Import Base.Scalar Base.Mat Base.Instances Model.ScalerLib Model.ScalerFit Gen.T4.\n",
            "Definition floor32 : float := 0x1p-23.\n",
            "Definition chk (c : nat * nat * list (list float) * list (list float)) : bool :=\n"
            "  let '(n, p, X, W) := c in\n"
            "  mclose (1e-9 * mmaxabs W + 1e-12)%float 1e-9 (scaler_fit_transform OF64 n p (mkFlags true true false) floor32 (fun _ => 1) (fun _ => 1) X) W.\n",
            "Definition cases := [\n" + ";\n".join(items) + "].\n",
            "Eval vm_compute in map fst (filter (fun ic => negb (chk (snd ic))) (combine (seq 0 (List.length cases)) cases)).\n"]
    f = C.write_case_file("C08", "fit", "\n".join(body))
    rc, out = C.coqc_run(f)
    if rc != 0:
        ctx.oblige("correspondence:scaler-fit", "correspondence", False, out[-600:])
        return
    bad = C.parse_int_list((C.parse_evals(out) or [""])[0])
    ctx.traces += len(items)
    ctx.oblige("correspondence:scaler fit statistics (%d cases)" % len(items), "correspondence", not bad, "disagreeing cases: %r" % bad[:10])


def run(ctx):
    C.setup_impl_env()
    C.clean_case_files("C08")
    rng = ctx.rng.child("c08").np
    run_single(ctx, rng, ctx.n(18, 400))
    run_cross(ctx, rng, ctx.n(9, 200))
    ctx.oblige("oracle:shift / affine / weights / coslat / global-factor equivalences", "oracle", not ctx.violations)
    if ctx.extra.get("model_ok", True):
        run_scaler_fit(ctx)


def search(ctx):
    ctx.widen(run)


def replay(ctx, rp):
    run(ctx)
