"""C11 — rotation re-expresses the retained subspace without changing what it represents."""
import numpy as np

from harness import common as C
from harness import zoo as Z
from props import rotcase

ANCHORS = ["T3", "T5eof", "T5rot", "T5flag", "T9text"]
MODELS = ["RotCase"]
RULE = ("base models real/complex/Hilbert EOF and CPCCA family (alpha grid, PCA on/off) x n_modes 2..k x power 1..4 x well separated and nearly "
        "equal variances; in a third of the cases the rotator object had rotated another model and been queried before (call history); rotation-model correspondence on EOFRotator/ComplexEOFRotator; non-trivial: k >= 2 and the rotation matrix differs from the "
        "identity; distinct by input hash")
PARTIAL = ["C11_varimax_criterion_full (ascent of the Varimax fixed-point iteration) is stated, not proved; tested on the implementation",
           "the cross-set rotator (combined loadings in physical space) is covered by the API-level oracle; its algebra is the same rot_recon lemma applied per field, not re-proved"]
REFUTED = []
TRUSTED = ["the rotation matrix R is an oracle read from data['rotation_matrix']; RinvT R^H = I re-checked in Coq",
           "Kaiser stabiliser h/(h+eps) treated as 1 (relative 1e-16, inside the comparison tolerance)",
           "Coq.Reals axioms in C11_recon_equal_real"]
ASSUMES = ["rotated loading columns are non-zero (D_j > 0)"]


def crit(A):
    A = np.real(A)
    p = A.shape[0]
    return float(np.sum(np.mean(A ** 4, axis=0) - np.mean(A ** 2, axis=0) ** 2))


def run_single(ctx, rng, N):
    import xeofs as xe
    for i in range(N):
        kind = ["EOF", "EOF", "ComplexEOF", "HilbertEOF"][i % 4]
        sp = Z.specs()[kind]
        n, p = int(rng.integers(8, 16)), int(rng.integers(3, 8))
        near = bool(rng.random() < 0.3)
        base_s = (1.0 + 1e-3 * np.arange(p))[::-1] if near else np.linspace(3.0, 0.5, p)
        X = Z.data2d(rng, n, p, "x", cplx=sp.cplx, red=(kind == "HilbertEOF")) * base_s
        # fields in small or large physical units: a rotation re-expresses the subspace whatever the units
        units = float(10.0 ** rng.integers(-12, 7)) if rng.random() < 0.4 else 1.0
        X = X * units
        ctx.dist["c11:units:1e%d" % int(round(np.log10(units)))] += 1
        kb = int(rng.integers(2, min(n - 1, p) + 1))
        k = int(rng.integers(2, kb + 1))
        power = int(rng.choice([1, 1, 2, 3, 4]))
        replay = dict(kind="single", cls=kind, X=np.asarray(X.values), kb=kb, k=k, power=power, units=units)
        ctx.case(("c11", kind, n, p, kb, k, power, near, units, i), nontrivial=True, tag="%sRotator/power%d/%s%s" % (kind, power, "near-equal" if near else "separated", "/refit" if i % 3 == 2 else ""),
                 sample=dict(cls=kind + "Rotator", shape=[n, p], base_modes=kb, n_modes=k, power=power, near_equal_spectrum=near))
        try:
            m = sp.make(kb, solver="full")
            m.fit(X, "time")
            rot = Z.rotator_for(kind)(n_modes=k, power=power, max_iter=5000, rtol=1e-12)
            if i % 3 == 2:
                # the rotator object rotated another model (unrelated data of the same structure) and was used before
                other = C.other_like(np.random.default_rng(7919 * i + 23), X)
                m0 = sp.make(kb, solver="full")
                m0.fit(other, "time")
                try:
                    rot.fit(m0)
                    C.exercise(rot, other)
                except RuntimeError:
                    pass
            rot.fit(m)
        except RuntimeError as e:
            if "converge" in str(e):
                ctx.dist["rotation-did-not-converge"] += 1
                continue
            ctx.violation("C11:error:%s" % kind, "%s rotator raised %r" % (kind, e), replay)
            continue
        except Exception as e:
            ctx.violation("C11:error:%s:%s" % (kind, C.errkind(e)), "%s rotator raised %r" % (kind, e), replay)
            continue
        key = "C11:%sRotator" % kind
        # reconstruction equality
        rec_rot = rot.inverse_transform(rot.scores())
        rec_base = m.inverse_transform(m.scores().sel(mode=slice(1, k)))
        if not Z.same(rec_rot.transpose(*X.dims).values, rec_base.transpose(*X.dims).values, 1e-6):
            ctx.violation(key + ":recon", "%sRotator(power=%d): reconstruction from the rotated scores differs from the %d-mode unrotated reconstruction (data in units of %g)" % (kind, power, k, units), replay)
        ev = rot.explained_variance().values
        if np.any(np.diff(ev) > 1e-9 * ev.max()):
            ctx.violation(key + ":order", "%sRotator(power=%d): rotated modes are not in descending order of explained variance: %r" % (kind, power, ev), replay)
        comps = rot.components().transpose("x", "mode").values
        if not sp.cplx and kind != "HilbertEOF":
            for j in range(k):
                c = comps[:, j]
                if abs(c.min()) > abs(c.max()) * (1 + 1e-9):
                    ctx.violation(key + ":sign", "%sRotator: mode %d violates the sign convention (largest-magnitude loading negative)" % (kind, j + 1), replay)
        if power == 1:
            R = rot.data["rotation_matrix"].values
            if not np.allclose(R.conj().T @ R, np.eye(k), atol=1e-8):
                ctx.violation(key + ":unitary", "%sRotator(power=1): rotation matrix is not unitary" % kind, replay)
            sn = rot.scores(normalized=True).transpose("time", "mode").values
            if not np.allclose(sn.conj().T @ sn, np.eye(k), atol=1e-7):
                ctx.violation(key + ":orthonormal", "%sRotator(power=1): rotated normalised scores are not orthonormal" % kind, replay)
            tot_in = float(m.explained_variance().values[:k].sum())
            if not np.isclose(ev.sum(), tot_in, rtol=1e-8):
                ctx.violation(key + ":variance", "%sRotator(power=1): summed explained variance %.10g != %.10g of the modes that went in" % (kind, ev.sum(), tot_in), replay)
            if kind == "EOF":
                L0 = (m.components().transpose("x", "mode").values[:, :k]) * np.sqrt(m.explained_variance().values[:k])
                L1 = comps * np.sqrt(ev)
                # the criterion is evaluated on the Kaiser-normalised loadings the iteration works on
                h0 = np.sqrt((L0 ** 2).sum(axis=1))[:, None]
                h1 = np.sqrt((L1 ** 2).sum(axis=1))[:, None]
                if crit(L1 / h1) < crit(L0 / h0) - 1e-9:
                    ctx.violation(key + ":criterion", "EOFRotator(power=1): Varimax criterion decreased (%.6g -> %.6g)" % (crit(L0 / h0), crit(L1 / h1)), replay)


def run_cross(ctx, rng, N):
    names = ["CPCCA", "MCA", "CCA", "RDA", "ComplexMCA", "ComplexCPCCA", "HilbertCPCCA"]
    for i in range(N):
        name = names[i % len(names)]
        sp = Z.specs()[name]
        n = int(rng.integers(10, 18)) + (14 if name in ("ComplexCPCCA", "HilbertCPCCA") else 0)
        p1, p2 = int(rng.integers(3, 6)), int(rng.integers(3, 6))
        X = Z.data2d(rng, n, p1, "x", cplx=sp.cplx)
        Y = Z.data2d(rng, n, p2, "y", cplx=sp.cplx)
        if rng.random() < 0.4:
            X, Y = X * float(10.0 ** rng.integers(-12, 7)), Y * float(10.0 ** rng.integers(-12, 7))
            ctx.dist["c11:cross:rescaled-fields"] += 1
        kb = int(rng.integers(2, min(p1, p2) + 1))
        k = int(rng.integers(2, kb + 1))
        power = int(rng.choice([1, 1, 2, 3]))
        kw = dict(use_pca=bool(rng.random() < 0.5), n_pca_modes="all")
        if name in ("CPCCA", "ComplexCPCCA", "HilbertCPCCA"):
            kw["alpha"] = [float(rng.choice([0.0, 0.5, 1.0])), float(rng.choice([0.0, 0.5, 1.0]))]
        if name == "ComplexCPCCA":
            # genuinely complex whitening matrices: no pre-reduction, whitening degree below one in at least one field
            kw["use_pca"] = False
            kw["alpha"] = [float(rng.choice([0.0, 0.3, 0.5])), float(rng.choice([0.0, 0.5, 1.0]))]
        replay = dict(kind="cross", cls=name, X=np.asarray(X.values), Y=np.asarray(Y.values), kb=kb, k=k, power=power, kw=kw)
        ctx.case(("c11x", name, n, p1, p2, kb, k, power, str(kw)), nontrivial=True, tag="%sRotator/power%d%s" % (name, power, "/refit" if i % 3 == 2 else ""),
                 sample=dict(cls=name + " rotator", shapes=[[n, p1], [n, p2]], base_modes=kb, n_modes=k, power=power, kw=kw))
        try:
            m = sp.make(kb, **kw)
            m.fit(X, Y, "time")
            rot = Z.rotator_for(name)(n_modes=k, power=power, max_iter=5000, rtol=1e-12)
            if i % 3 == 2:
                rh = np.random.default_rng(7919 * i + 29)
                X0, Y0 = C.other_like(rh, X), C.other_like(rh, Y)
                m0 = sp.make(kb, **kw)
                m0.fit(X0, Y0, "time")
                try:
                    rot.fit(m0)
                    C.exercise(rot, X0, Y0)
                except RuntimeError:
                    pass
            rot.fit(m)
            rx, ry = rot.inverse_transform(*rot.scores())
            s1, s2 = m.scores()
            bx, by = m.inverse_transform(s1.sel(mode=slice(1, k)), s2.sel(mode=slice(1, k)))
        except RuntimeError as e:
            if "converge" in str(e):
                ctx.dist["rotation-did-not-converge"] += 1
                continue
            ctx.violation("C11:error:%s" % name, "%s rotator raised %r" % (name, e), replay)
            continue
        except Exception as e:
            ctx.violation("C11:error:%s:%s" % (name, C.errkind(e)), "%s rotator raised %r" % (name, e), replay)
            continue
        key = "C11:CPCCARotator"
        if not (Z.same(rx.transpose(*X.dims).values, bx.transpose(*X.dims).values, 1e-6) and Z.same(ry.transpose(*Y.dims).values, by.transpose(*Y.dims).values, 1e-6)):
            ctx.dist["c11:cross:recon-differs:%s" % name] += 1
            ctx.violation(key + ":recon", "rotator(power=%d) on %s%r: reconstruction from rotated scores differs from the %d-mode unrotated one" % (power, name, kw, k), replay)
        sc = rot.data["squared_covariance"].values
        if np.any(np.diff(sc) > 1e-9 * sc.max()):
            ctx.violation(key + ":order", "rotator on %s: modes not in descending order of squared covariance: %r" % (name, sc), replay)
        if power == 1:
            R = rot.data["rotation_matrix"].values
            if not np.allclose(R.conj().T @ R, np.eye(k), atol=1e-8):
                ctx.violation(key + ":unitary", "rotator(power=1) on %s: rotation matrix is not unitary" % name, replay)


def run(ctx):
    C.setup_impl_env()
    C.clean_case_files("C11")
    rng = ctx.rng.child("c11").np
    run_single(ctx, rng, ctx.n(60, 1200))
    run_cross(ctx, rng, ctx.n(40, 800))
    ctx.oblige("oracle:rotation invariants on EOF and CPCCA rotators", "oracle", not ctx.violations)
    if ctx.extra.get("model_ok", True):
        rotcase.run_correspondence(ctx, "C11")


def search(ctx):
    ctx.widen(run)


def replay(ctx, rp):
    run(ctx)
