"""C17 — unusable input is rejected with an error, never answered with numbers.

(i)  validator correspondence: the generated validators (Gen/T1.v) against the functions they were
     translated from, on an enumerated grid of argument values;
(ii) every single-fault mutation of a valid call against fitted models through the public API;
     exception-or-not is compared with the prediction of the entry-point model (Model/Validate.v),
     and a fault that is answered with a result is a violation keyed by entry point and fault."""
import itertools

import numpy as np

from harness import common as C

ANCHORS = ["T1", "T3", "T5cpcca", "T4"]
MODELS = ["Validate"]
TARGETS = ["Proofs/C17_tie.vo"]
RULE = ("validators: enumerated grid of python values (ints incl. 0/negatives/bools, floats incl. 0.0, 1.0, 1.5, nan, inf, "
        "strings, None, lists, tuples, dicts, numpy scalars; dims as str/tuple/list/with non-str) through the real functions; "
        "API: models {EOF (DataArray, Dataset, list, one feature dim, center off), ComplexEOF, EOFRotator, MCA, CPCCA, MCARotator} x "
        "every single-fault mutation of a valid fit / transform / predict / inverse_transform / constructor call; a case is "
        "non-trivial when it reaches a fitted model or a validator with a non-default argument; distinct by hash of "
        "(entry point, layout, fault)")
PARTIAL = ["xarray's own behaviour between the validators (broadcasting and inner-join alignment in Scaler.transform, rename, "
           "mean over a missing dimension, concat of an empty list, .sel by label, label slices in the rotators) is modelled by "
           "hand in Model/Validate.v and checked by correspondence only",
           "list items with different sample coordinates, NaN placement and MultiIndex inputs are outside the shape-level model"]
REFUTED = ["C17_missing_dim_refuted", "C17_extended_coord_refuted", "C17_rotator_non_numeric_refuted"]
TRUSTED = ["Gen/T1.v is produced by tools/py2coq/t1_validators.py (statement-level translation of the validators, guards located structurally)",
           "Gen/T3.v (rank check, solver policy) is produced by tools/py2coq/t3_decomposer.py",
           "Coq.Reals axioms in the alpha theorems; PrimFloat/PrimInt63 primitives in the float comparisons of n_modes and alpha"]
ASSUMES = ["every dimension of the data carries an index coordinate; Dataset variables share all dimensions",
           "label codes produced by the harness are injective (equality and membership of labels are all the model uses)"]

ERRCODE = {"TypeError": 101, "ValueError": 102, "KeyError": 103, "NotImplemented": 104, "LinAlg": 105}
HEADER = ("From Coq Require Import ZArith List Bool PrimFloat String.\n"
          "From XV Require Import Base.Scalar Base.Instances Model.DecompLib Model.ValidateLib Gen.T3 Gen.T1 Model.Validate.\n"
          "Import ListNotations.\nOpen Scope string_scope.\nOpen Scope Z_scope.\n")


# ------------------------------------------------------------------ python value -> Coq literal
def fl(x):
    return "(%s)%%float" % C.cf(x)


def cstr(s):
    return '"%s"' % str(s).replace('"', '""')


def pv(v):
    import xarray as xr
    if isinstance(v, bool):
        return "(VBool %s)" % C.cbool(v)
    if isinstance(v, int):
        return "(VInt %s)" % C.cz(v)
    if isinstance(v, float):          # numpy.float64 is a float
        return "(VFloat %s)" % fl(v)
    if isinstance(v, str):
        return "(VStr %s)" % cstr(v)
    if v is None:
        return "VNone"
    if isinstance(v, list):
        return "(VList [%s])" % "; ".join(pv(x) for x in v)
    if isinstance(v, tuple):
        return "(VTuple [%s])" % "; ".join(pv(x) for x in v)
    if isinstance(v, dict):
        return "VDict"
    if isinstance(v, xr.DataArray):
        return "VDataArray"
    if isinstance(v, xr.Dataset):
        return "VDataset"
    return "VOther"


def pyty(v):
    import xarray as xr
    for cls, tag in ((bool, "TBool"), (int, "TInt"), (float, "TFloat"), (str, "TStr"), (list, "TList"), (tuple, "TTuple"),
                     (dict, "TDict"), (xr.DataArray, "TDataArray"), (xr.Dataset, "TDataset")):
        if isinstance(v, cls):
            return tag
    return "TNone" if v is None else "TOther"


def strlist(xs):
    return "[%s]" % "; ".join(cstr(x) for x in xs)


_LABELS = {}


def label(v):
    """injective integer code of a coordinate label"""
    v = v.item() if hasattr(v, "item") else v
    if isinstance(v, (int, float)) and not isinstance(v, bool):
        v = float(v)                # xarray's equals / index alignment compare 1 and 1.0 as equal
    k = repr(v)
    if k not in _LABELS:
        _LABELS[k] = len(_LABELS)
    return _LABELS[k]


def coq_item(o):
    import xarray as xr
    if isinstance(o, xr.DataArray):
        dims = "; ".join("(%s, %s)" % (cstr(d), C.czlist([label(x) for x in o[d].values])) for d in o.dims)
        return "(mkItem TDataArray [%s] [])" % dims
    if isinstance(o, xr.Dataset):
        # the dimensions of a Dataset, for the model, are those every variable has (the per-variable guards of the Scaler and the Stacker
        # look at each variable; the Datasets used here have equal dimension sets when they are valid)
        dims = "; ".join("(%s, %s)" % (cstr(d), C.czlist([label(x) for x in o[d].values])) for d in o.dims
                         if all(d in o[v].dims for v in o.data_vars))
        return "(mkItem TDataset [%s] %s)" % (dims, C.czlist([label("var:" + str(v)) for v in o.data_vars]))
    return "(mkItem %s [] [])" % pyty(o)


def coq_input(o):
    if isinstance(o, (list, tuple)):
        return "(mkInput %s [%s])" % (pyty(o), "; ".join(coq_item(x) for x in o))
    t = pyty(o)
    if t in ("TDataArray", "TDataset"):
        return "(mkInput %s [%s])" % (t, coq_item(o))
    return "(mkInput %s [])" % t


def coq_cfg(n_modes=2, solver="auto", center=True, std=False, cplx=False, sample_name="sample", feature_name="feature", irr=0.3):
    return "(mkConfig %s %s %s %s %s %s %s %s)" % (pv(n_modes), cstr(solver), C.cbool(center), C.cbool(std), C.cbool(cplx),
                                                   cstr(sample_name), cstr(feature_name), fl(irr))


def coq_scores(o):
    import xarray as xr
    if isinstance(o, xr.DataArray):
        modes = [int(m) for m in np.atleast_1d(o["mode"].values)] if "mode" in o.coords else []
        return "(mkScores TDataArray %s %s)" % (strlist(o.dims), C.czlist(modes))
    return "(mkScores %s [] [])" % pyty(o)


# ------------------------------------------------------------------ running one call
def attempt(thunk):
    """('ok', description) or (error kind, message)"""
    import xarray as xr
    try:
        r = thunk()
    except Exception as e:          # any Exception subclass counts as a refusal
        return C.errkind(e), "%s: %s" % (type(e).__name__, str(e)[:140])

    def desc(q):
        if isinstance(q, xr.DataArray):
            v = np.asarray(q)
            return "DataArray%s dims=%s all-NaN=%s" % (q.shape, q.dims, bool(v.size and np.isnan(v.astype(complex)).all()))
        if isinstance(q, xr.Dataset):
            return "Dataset(%s)" % ", ".join(q.data_vars)
        if isinstance(q, (list, tuple)):
            return "[" + ", ".join(desc(x) for x in q) + "]"
        return type(q).__name__
    return "ok", desc(r)


class Call:
    """one enumerated call: where, which fault (or None), what is expected, how to run it, what the model says"""

    def __init__(self, site, layout, fault, expect, thunk, coq, detail=""):
        self.site, self.layout, self.fault, self.expect, self.thunk, self.coq, self.detail = site, layout, fault, expect, thunk, coq, detail
        self.impl = None
        self.msg = ""
        self.model = None

    @property
    def name(self):
        return "%s[%s]:%s" % (self.site, self.layout, self.fault)


def icode(kind):
    return 0 if kind == "ok" else ERRCODE.get(kind, 106)


# ------------------------------------------------------------------ (i) validators
def validator_grid(ctx):
    """list of (label, python thunk, coq term : Z (model code), coq check of the returned value or None)"""
    import xarray as xr
    from xeofs.cross.base_model_cross_set import BaseModelCrossSet
    from xeofs.cross.cpcca import CPCCA
    from xeofs.preprocessing.preprocessor import Preprocessor
    from xeofs.preprocessing.sanitizer import Sanitizer
    from xeofs.preprocessing.scaler import Scaler
    from xeofs.preprocessing.stacker import Stacker
    from xeofs.preprocessing.whitener import Whitener
    from xeofs.utils import sanity_checks as SC
    from xeofs.utils import xarray_utils as XU
    rows = []
    da = xr.DataArray(np.arange(24.0).reshape(2, 3, 4), dims=("a", "b", "c"),
                      coords={"a": [0, 1], "b": [0, 1, 2], "c": [0, 1, 2, 3]})
    ds = xr.Dataset({"u": da, "v": da + 1})
    arr = np.zeros((2, 2))
    # sanity_check_n_modes
    vals = [-3, -1, 0, 1, 2, 10, 10 ** 6, True, False, 0.0, -0.0, 1.0, 1.5, 0.5, -0.5, 1e-300, 5e-324, float("nan"), float("inf"),
            float("-inf"), float(np.nextafter(1.0, 2.0)), float(np.nextafter(1.0, 0.0)), np.float64(0.25), "all", "few", "", "All", "all ",
            None, [2], (2,), {}, {"a": 1}, np.int64(2), np.float32(0.5), np.bool_(True), arr, da, 2 + 0j]
    for v in vals:
        rows.append(("sanity_check_n_modes(%r)" % (v,), (lambda v=v: SC.sanity_check_n_modes(v)),
                     "code (sanity_check_n_modes %s)" % pv(v), None))
    # convert_to_dim_type: outcome and returned tuple
    dims = ["time", "", ("time",), ("time", "lat"), (), ["time"], ["time", "lat"], [], ["time", 3], ("a", None), [None], [["a"]],
            ("a", ("b",)), [True], 3, None, 1.5, True, {"a": 1}, arr, da, ["time", 1.5], ("x", "y", "z")]
    for v in dims:
        def run(v=v):
            return SC.convert_to_dim_type(v)
        rows.append(("convert_to_dim_type(%r)" % (v,), run, "code (convert_to_dim_type %s)" % pv(v),
                     lambda got, v=v: "match convert_to_dim_type %s with Ok l => if list_eq_dec string_dec l %s then 1 else 0 | Err _ => 0 end"
                     % (pv(v), strlist(got))))
    # validate_input_type
    xs = [da, ds, [da], [da, ds], (da,), (da, ds, da), [], (), [arr], [da, arr], [arr, da], (da, None), [[da]], None, arr, 3, "abc",
          {"a": da}, [da, "x"], 1.5, True]
    for v in xs:
        rows.append(("validate_input_type(%s)" % pv(v), (lambda v=v: SC.validate_input_type(v)),
                     "code (validate_input_type %s)" % pv(v), None))
        rows.append(("Scaler._verify_input(%s)" % pyty(v), (lambda v=v: Scaler()._verify_input(v, "X")),
                     "code (scaler_verify_input %s)" % pyty(v), None))
        rows.append(("assert_single_dataarray(%s)" % pyty(v), (lambda v=v: SC.assert_single_dataarray(v)),
                     "code (assert_single_dataarray %s)" % pyty(v), None))
    # alpha
    for a in [-1, -0.5, -1e-300, -5e-324, -0.0, 0, 0.0, 0.5, 1, 1.0, 1.5, 2, 100.0, float("nan"), float("inf"), float("-inf"), True]:
        rows.append(("Whitener(alpha=%r)" % (a,), (lambda a=a: Whitener(alpha=a)),
                     "code (whitener_check_alpha_f64 %s)" % fl(float(a)), None))
    # parameter counts
    for n in range(0, 5):
        rows.append(("BaseModelCrossSet._check_parameter_number(len=%d)" % n,
                     (lambda n=n: BaseModelCrossSet._check_parameter_number("p", [0] * n)),
                     "code (cross_check_parameter_number %d)" % n, None))
        for m in range(0, 4):
            rows.append(("_check_parameter_number(len=%d, n_data=%d)" % (n, m),
                         (lambda n=n, m=m: XU._check_parameter_number("p", [0] * n, m)),
                         "code (utils_check_parameter_number %d %d)" % (n, m), None))
            rows.append(("CPCCA._compute_cross_covariance_numpy(%d, %d samples)" % (n + 2, m + 2),
                         (lambda n=n, m=m: CPCCA._compute_cross_covariance_numpy(np.ones((n + 2, 2)), np.ones((m + 2, 3)))),
                         "code (cpcca_check_sample_count %d %d)" % (n + 2, m + 2), None))
    for a, b in [("f", "f"), ("f", "g"), ("feature1", "feature2"), ("", "")]:
        rows.append(("BaseModelCrossSet(feature_name=[%r, %r])" % (a, b),
                     (lambda a=a, b=b: __import__("xeofs").cross.CPCCA(n_modes=1, feature_name=[a, b])),
                     "code (cross_check_feature_names %s %s)" % (cstr(a), cstr(b)), None))
    # _get_feature_dims
    for sd in [("a",), ("a", "b"), (), ("zz",), ("c", "a", "b"), ("b", "zz")]:
        def run(sd=sd):
            return XU._get_feature_dims(da, sd)
        rows.append(("_get_feature_dims(%r)" % (sd,), run, "0",
                     lambda got, sd=sd: "if list_eq_dec string_dec (get_feature_dims %s %s) %s then 1 else 0"
                     % (strlist(da.dims), strlist(sd), strlist(got))))
    # Stacker fit-time validators
    named = xr.DataArray(np.zeros((2, 3, 2)), dims=("sample", "feature", "q"), coords={"sample": [0, 1], "feature": [0, 1, 2], "q": [0, 1]})
    named_ds = xr.Dataset({"u": named})
    for obj in [da, ds, named, named_ds, arr, None]:
        t = pyty(obj)
        od = list(obj.dims) if hasattr(obj, "dims") else []
        for sdm, fdm in itertools.product([(), ("a",), ("a", "b")], [(), ("c",), ("b", "c")]):
            rows.append(("Stacker._validate_dims(%s, %r, %r)" % (t, sdm, fdm),
                         (lambda obj=obj, sdm=sdm, fdm=fdm: Stacker()._validate_dims(obj, sdm, fdm)),
                         "code (stacker_validate_dims %s %s %s)" % (t, strlist(sdm), strlist(fdm)), None))
            if hasattr(obj, "dims"):
                rows.append(("Stacker._validate_dimension_names(%s%s, %r, %r)" % (t, tuple(od), sdm, fdm),
                             (lambda obj=obj, sdm=sdm, fdm=fdm: Stacker()._validate_dimension_names(obj, sdm, fdm)),
                             "code (stacker_validate_dimension_names %s %s %s %s %s %s)"
                             % (t, cstr("sample"), cstr("feature"), strlist(od), strlist(sdm), strlist(fdm)), None))
    # Stacker transform-time validators, on a stacker fitted to `da`
    st = Stacker().fit(da, ("a",), ("b", "c"))
    muts = {"same": da, "transposed": da.transpose("c", "a", "b"), "missing c": da.isel(c=0, drop=True), "missing a": da.isel(a=0, drop=True),
            "extra z": da.expand_dims(z=[0, 1]), "renamed c": da.rename(c="x"), "shifted c": da.assign_coords(c=da.c + 1),
            "reversed c": da.isel(c=slice(None, None, -1)), "relabelled c": da.assign_coords(c=[3, 2, 1, 0]),
            "fewer c": da.isel(c=[0, 1]), "more a": xr.concat([da, da.assign_coords(a=[2, 3])], "a"), "dataset": ds,
            "float c": da.assign_coords(c=da.c.astype(float))}
    fitmap = "(fun d => lookup d [%s])" % "; ".join("(%s, %s)" % (cstr(d), C.czlist([label(x) for x in da[d].values])) for d in da.dims)
    for nm, o in muts.items():
        rows.append(("Stacker._validate_transform_dimensions(%s)" % nm, (lambda o=o: st._validate_transform_dimensions(o)),
                     "code (stacker_validate_transform_dimensions %s %s %s)" % (strlist(("a",)), strlist(("b", "c")), strlist(o.dims)), None))
        if all(d in o.coords for d in ("b", "c")):
            xmap = "(fun d => lookup d [%s])" % "; ".join("(%s, %s)" % (cstr(d), C.czlist([label(x) for x in o[d].values])) for d in o.dims)
            rows.append(("Stacker._validate_transform_feature_coords(%s)" % nm, (lambda o=o: st._validate_transform_feature_coords(o)),
                         "code (stacker_validate_transform_feature_coords %s %s %s)" % (strlist(("b", "c")), fitmap, xmap), None))
    # Sanitizer
    two = xr.DataArray(np.ones((3, 4)), dims=("sample", "feature"), coords={"sample": [0, 1, 2], "feature": [0, 1, 2, 3]})
    sn = Sanitizer().fit(two)
    for nm, o in {"same": two, "transposed": two.T, "extra": two.expand_dims(z=[0]), "renamed": two.rename(feature="f"),
                  "one-dim": two.isel(sample=0, drop=True)}.items():
        rows.append(("Sanitizer._check_input_dims(%s)" % nm, (lambda o=o: sn._check_input_dims(o)),
                     "code (sanitizer_check_input_dims %s %s %s)" % (cstr("sample"), cstr("feature"), strlist(o.dims)), None))
    for nm, o in {"same": two, "shifted": two.assign_coords(feature=two.feature + 1), "fewer": two.isel(feature=[0, 1, 2]),
                  "reversed": two.isel(feature=slice(None, None, -1)), "other samples": two.assign_coords(sample=[7, 8, 9])}.items():
        sc = lambda q: "[%s]" % "; ".join("[%d]" % label(x) for x in q.feature.values)
        rows.append(("Sanitizer._check_input_coords(%s)" % nm, (lambda o=o: sn._check_input_coords(o)),
                     "code (sanitizer_check_input_coords %s %s)" % (sc(o), sc(two)), None))
    # Preprocessor item count (reached before any transformer)
    pp = Preprocessor().fit([da, da.rename(b="p", c="q")], ("a",))
    for k in range(0, 4):
        def run(k=k):
            try:
                pp.transform([da] * k)
            except ValueError as e:
                if "number of data objects" in str(e):
                    raise
            return None
        rows.append(("Preprocessor.transform(list of %d)" % k, run, "code (preprocessor_check_item_count %d 2)" % k, None))
    return rows


def run_validators(ctx):
    rows = validator_grid(ctx)
    impl, items, checks = [], [], []
    for lab, thunk, coq, chk in rows:
        try:
            got = thunk()
            kind = "ok"
        except Exception as e:
            got, kind = None, C.errkind(e)
        impl.append(kind)
        items.append(coq)
        checks.append(chk(got) if (chk is not None and kind == "ok") else "1")
        ctx.case(("validator", lab), nontrivial=True, tag="validator:" + lab.split("(")[0],
                 sample=dict(kind="validator", call=lab, impl=kind))
    body = [HEADER, "Definition outcomes : list (Z * Z) := ["]
    body.append(";\n".join("  (%s, %s)" % (a, b) for a, b in zip(items, checks)))
    body.append("].\nEval vm_compute in outcomes.\n")
    f = C.write_case_file("C17", "validators", "\n".join(body))
    rc, out = C.coqc_run(f)
    if rc != 0:
        ctx.oblige("correspondence:validators", "correspondence", False, out[-1200:])
        return
    model = C.parse_pairs(C.parse_evals(out)[0])
    bad = 0
    for (lab, _, _, _), k, (m, okv) in zip(rows, impl, model):
        ctx.traces += 1
        if icode(k) != m or okv != 1:
            bad += 1
            disagreement(ctx, "validator", lab, k, (m, okv))
    ctx.oblige("correspondence:validators (%d calls of the translated functions)" % len(rows), "correspondence",
               bad == 0 and len(model) == len(rows), "%d disagreements" % bad)


def disagreement(ctx, kind, what, impl, model):
    ctx.notes.append("disagree %s %s impl=%r model=%r" % (kind, what, impl, model))
    ctx.extra.setdefault("disagreements", []).append(C.jsonable(dict(kind=kind, case=what, impl=impl, model=model)))


# ------------------------------------------------------------------ (ii) public API
def mk(rng, n=8, sizes=(3, 4), names=("lat", "lon"), sname="time", offset=0.0):
    import xarray as xr
    coords = {sname: np.arange(n)}
    for i, (nm, k) in enumerate(zip(names, sizes)):
        coords[nm] = offset + (10.0 * (i + 1)) * np.arange(1, k + 1)
    return xr.DataArray(rng.standard_normal((n,) + tuple(sizes)), dims=(sname,) + tuple(names), coords=coords)


def transform_mutations(valid, which=0):
    """single-fault mutations of the argument `valid` (DataArray, Dataset or list; for a list the fault is put
    into item `which`).  yields (fault, expect, mutated argument)"""
    import xarray as xr
    is_list = isinstance(valid, list)

    def put(o):
        if not is_list:
            return o
        out = list(valid)
        out[which] = o
        return out
    x = valid[which] if is_list else valid
    sname = x.dims[0] if isinstance(x, xr.DataArray) else [d for d in x.dims if d == "time"][0]
    fdims = [d for d in x.dims if d != sname]
    yield "valid", "result", valid
    new = (lambda o: o.isel({sname: slice(0, 5)}).assign_coords({sname: 100 + np.arange(5)}))
    yield "valid:new-samples", "result", ([new(o) for o in valid] if is_list else new(valid))
    yield "wrong-type:numpy", "error", put(np.asarray(x.to_array() if isinstance(x, xr.Dataset) else x))
    if not is_list:
        yield "wrong-type:list-of-numpy", "error", [np.asarray(x.to_array() if isinstance(x, xr.Dataset) else x)]
        yield "wrong-type:None", "error", None
    else:
        yield "wrong-type:None-item", "error", put(None)
    for d in fdims:
        yield "missing-feature-dim", "error", put(x.isel({d: 0}, drop=True))
    yield "missing-sample-dim", "error", put(x.isel({sname: 0}, drop=True))
    yield "extra-dim", "error", put(x.expand_dims(zz=[0, 1]))
    yield "renamed-feature-dim", "error", put(x.rename({fdims[-1]: "renamed"}))
    yield "renamed-sample-dim", "error", put(x.rename({sname: "renamed"}))
    d = fdims[-1]
    yield "shifted-feature-coord", "error", put(x.assign_coords({d: x[d] + 1.0}))
    yield "reordered-feature-coord", "error", put(x.assign_coords({d: x[d].values[::-1].copy()}))
    if x.sizes[d] > 1:
        # same labels, every position carries the data of another label
        yield "permuted-feature-coord", "error", put(x.isel({d: list(range(1, x.sizes[d])) + [0]}))
    ext = xr.concat([x, x.isel({d: [0]}).assign_coords({d: [float(x[d].max()) + 7.0]})], d)
    if isinstance(x, xr.Dataset):
        ext = ext.transpose(*x.dims)
    yield "extended-feature-coord", "error", put(ext)
    if isinstance(x, xr.Dataset):
        names = list(x.data_vars)
        vf = [q for q in x[names[-1]].dims if q != sname]
        if len(vf) >= 2:
            # ONE variable lacks one of its feature dimensions (the Dataset as a whole still has it through the other variables)
            yield "missing-feature-dim:one-variable", "error", put(x.assign({names[-1]: x[names[-1]].isel({vf[-1]: 0}, drop=True)}))
        yield "dropped-variable", "error", put(x[names[:-1]])
        yield "valid:extra-variable", "result", put(x.assign(extra_var=x[names[0]] * 3.0))
        yield "renamed-variable", "error", put(x.rename({names[-1]: "renamed_var"}))
        yield "outside:dataarray-for-dataset", None, put(x[names[0]])
    else:
        yield "outside:dataset-for-dataarray", None, put(x.to_dataset(name="v"))
    if is_list:
        yield "wrong-list-length:shorter", "error", valid[:-1]
        yield "wrong-list-length:longer", "error", valid + [valid[-1]]
        yield "wrong-list-length:bare-item", "error", valid[0]
    else:
        yield "wrong-list-length:two-items", "error", [valid, valid]


def score_mutations(sc):
    yield "valid", "result", sc
    yield "valid:subset-of-modes", "result", sc.isel(mode=[0])
    yield "valid:additional-dimension", "result", sc.expand_dims(zz=[0, 1])
    lab = sc["mode"].values.copy()
    lab[-1] = int(lab.max()) + 7
    yield "unknown-mode-label", "error", sc.assign_coords(mode=lab)
    yield "unknown-mode-label:zero", "error", sc.isel(mode=[0]).assign_coords(mode=[0])
    yield "wrong-type:numpy", "error", sc.values


def api_calls(ctx):
    """enumerate the calls; returns (definitions for the case file, list of Call)"""
    import xarray as xr
    import xeofs as xe
    rng = ctx.rng.child("api").np
    defs, calls = [], []
    X = mk(rng)
    X1 = mk(rng, sizes=(6,), names=("x",))
    Z = mk(rng, sizes=(5,), names=("y",))
    DS = xr.Dataset({"u": X, "v": X * 0.5 + mk(rng)})
    Xc = X + 1j * mk(rng)
    Y = mk(rng, sizes=(2, 3), names=("a", "b"))
    rank = min(X.sizes["time"], 12)

    # ---------------- fit: faults in the data argument, the sample dimensions and the parameters
    def fit_call(layout, fault, expect, data, dim, **kw):
        cfg = coq_cfg(**{k: v for k, v in kw.items() if k in ("n_modes", "solver", "center")})
        calls.append(Call("EOF.fit", layout, fault, expect, (lambda: xe.single.EOF(**dict(dict(n_modes=2), **kw)).fit(data, dim)),
                          "code (fit_outcome %s %s %s)" % (cfg, coq_input(data), pv(dim)),
                          detail="EOF(%s).fit(<%s>, dim=%r)" % (", ".join("%s=%r" % kv for kv in kw.items()), layout, dim)))
    for layout, data in (("DataArray", X), ("Dataset", DS), ("list", [X, Z]), ("tuple", (X, Z))):
        fit_call(layout, "valid", "result", data, "time")
        fit_call(layout, "valid:dim-as-list", "result", data, ["time"])
        fit_call(layout, "unknown-sample-dim", "error", data, "nope")
        fit_call(layout, "unknown-sample-dim:one-of-two", "error", data, ("time", "nope"))
        fit_call(layout, "empty-sample-dims:tuple", "error", data, ())
        fit_call(layout, "empty-sample-dims:list", "error", data, [])
        fit_call(layout, "dim-wrong-type:int", "error", data, 3)
        fit_call(layout, "dim-wrong-type:None", "error", data, None)
        fit_call(layout, "dim-wrong-type:list-with-int", "error", data, ["time", 3])
    fit_call("DataArray", "empty-feature-dims", "error", X, ("time", "lat", "lon"))
    fit_call("Dataset", "empty-feature-dims", "error", DS, ("time", "lat", "lon"))
    fit_call("DataArray", "valid:two-sample-dims", "result", X, ("time", "lat"))
    for fault, data in (("wrong-type:numpy", X.values), ("wrong-type:list-of-numpy", [X.values]), ("wrong-type:None", None),
                        ("wrong-type:list-with-numpy", [X, Z.values]), ("wrong-type:dict", {"a": X}), ("empty-list", [])):
        fit_call("DataArray", fault, "error", data, "time")
    for nm, expect in ((0, "error"), (-1, "error"), (False, "error"), (True, "result"), (1, "result"), (rank, "result"),
                       (rank + 1, "error"), (10 ** 6, "error"), (0.0, "error"), (1.5, "error"), (-0.5, "error"),
                       (float("nan"), "error"), (float("inf"), "error"), (0.5, "result"), (1.0, "result"),
                       ("few", "error"), ("", "error"), (None, "error"), ([2], "error"), ((2,), "error"), ({}, "error"),
                       (np.int64(2), "error"), ("all", None)):
        flt = ("n_modes=%r" % (nm,)) if expect != "result" else ("valid:n_modes=%r" % (nm,))
        if expect is None:
            flt = "outside:n_modes=%r" % (nm,)
        fit_call("DataArray", flt, expect, X, "time", n_modes=nm)
    for sv, expect in (("auto", "result"), ("full", "result"), ("randomized", "result"), ("arpack", "error"), ("", "error"), ("Full", "error")):
        fit_call("DataArray", ("valid:solver=%r" if expect == "result" else "solver=%r") % sv, expect, X, "time", solver=sv)
    # an unknown solver name is refused whatever the number of modes (also when every mode is asked for and no solver has a choice to make)
    for sv in ("arpack", "randomised", ""):
        fit_call("DataArray", "solver=%r:n_modes=rank" % sv, "error", X, "time", solver=sv, n_modes=rank)
        fit_call("DataArray", "solver=%r:n_modes=1" % sv, "error", X, "time", solver=sv, n_modes=1)
    # more modes than the rank on every solver path (exact, randomized, and the default policy on data with >= 500 columns)
    for sv in ("full", "randomized", "auto"):
        fit_call("DataArray", "n_modes=%d > rank:solver=%r" % (rank + 1, sv), "error", X, "time", n_modes=rank + 1, solver=sv)
        fit_call("DataArray", "valid:n_modes=rank:solver=%r" % sv, "result", X, "time", n_modes=rank, solver=sv)
    Xwide = mk(rng, sizes=(510,), names=("x",))
    fit_call("DataArray:510-features", "n_modes=%d > rank:default-solver" % (Xwide.sizes["time"] + 3), "error", Xwide, "time", n_modes=Xwide.sizes["time"] + 3)
    fit_call("DataArray", "valid:center=False", "result", X, "time", center=False)
    fit_call("DataArray", "unknown-sample-dim:center=False", "error", X, "nope", center=False)

    # ---------------- transform / inverse_transform on fitted single-set models
    def single(name, layout, make, data, cfgkw, cls_site, rot=None):
        base = make().fit(data, "time")
        model = base if rot is None else rot().fit(base)
        st = "F%d" % len(defs)
        cfg = coq_cfg(**cfgkw)
        defs.append("Definition %s := state_or_empty %s (fit_state %s %s %s)." % (st, cfg, cfg, coq_input(data), pv("time")))
        whiches = range(len(data)) if isinstance(data, list) else [0]
        seen = set()
        for w in whiches:
            for fault, expect, arg in transform_mutations(data, w):
                tag = fault if (w == 0 or not isinstance(data, list)) else fault + ":item%d" % w
                if (fault.startswith(("valid", "wrong-list-length")) or fault in ("wrong-type:numpy",)) and w > 0 and fault != "wrong-type:numpy":
                    continue
                n = 2
                while tag in seen:
                    tag = "%s:%d" % (fault, n)
                    n += 1
                seen.add(tag)
                calls.append(Call(cls_site + ".transform", layout, tag, expect, (lambda arg=arg: model.transform(arg)),
                                  "code (transform_faithful %s %s)" % (st, coq_input(arg)),
                                  detail="%s fitted on <%s>; transform(<%s>)" % (name, layout, fault)))
        k = int(model.data["components"].sizes["mode"])
        for fault, expect, sc in score_mutations(model.scores()):
            calls.append(Call(cls_site + ".inverse_transform", layout, fault, expect, (lambda sc=sc: model.inverse_transform(sc)),
                              "code (inverse_outcome %d %s)" % (k, coq_scores(sc)),
                              detail="%s fitted on <%s>; inverse_transform(<%s>)" % (name, layout, fault)))
            # the same faults with normalized=True: the norms are looked up for the modes the scores name
            calls.append(Call(cls_site + ".inverse_transform", layout + ",normalized", fault, expect, (lambda sc=sc: model.inverse_transform(sc, normalized=True)),
                              "code (inverse_outcome %d %s)" % (k, coq_scores(sc)),
                              detail="%s fitted on <%s>; inverse_transform(<%s>, normalized=True)" % (name, layout, fault)))

    single("EOF(n_modes=2)", "DataArray", lambda: xe.single.EOF(n_modes=2), X, {}, "EOF")
    single("EOF(n_modes=2, center=False)", "DataArray,center=False", lambda: xe.single.EOF(n_modes=2, center=False), X, dict(center=False), "EOF")
    single("EOF(n_modes=2, standardize=True)", "DataArray,standardize", lambda: xe.single.EOF(n_modes=2, standardize=True), X, dict(std=True), "EOF")
    single("EOF(n_modes=2)", "DataArray,one-feature-dim", lambda: xe.single.EOF(n_modes=2), X1, {}, "EOF")
    # a fitted feature dimension of length one (a single pressure level): data without it is data with another dimension set
    Xlev = X.expand_dims(lev=[500.0]).transpose("time", "lev", *[d for d in X.dims if d != "time"])
    single("EOF(n_modes=2)", "DataArray,length-1-feature-dim", lambda: xe.single.EOF(n_modes=2), Xlev, {}, "EOF")
    single("EOF(n_modes=2)", "Dataset", lambda: xe.single.EOF(n_modes=2), DS, {}, "EOF")
    single("EOF(n_modes=2)", "list", lambda: xe.single.EOF(n_modes=2), [X, Z], {}, "EOF")
    single("ComplexEOF(n_modes=2)", "DataArray", lambda: xe.single.ComplexEOF(n_modes=2), Xc, dict(cplx=True), "ComplexEOF")
    single("EOFRotator(n_modes=2) on EOF(n_modes=3)", "DataArray", lambda: xe.single.EOF(n_modes=3), X, dict(n_modes=3), "EOFRotator",
           rot=lambda: xe.single.EOFRotator(n_modes=2, max_iter=50))

    # thorough tier: the same mutations over other shapes, names and coordinate values
    for vi in range(ctx.n(0, 4)):
        nms = [("lat", "lon"), ("y", "x"), ("level", "station"), ("q", "p")][vi]
        szs = [(2, 2), (1, 5), (4, 2), (3, 3)][vi]
        Xv = mk(rng, n=6 + vi, sizes=szs, names=nms, offset=float(vi) - 0.5)
        Zv = mk(rng, n=6 + vi, sizes=(2 + vi,), names=("w",))
        DSv = xr.Dataset({"u": Xv, "v": Xv * 2.0 + 1.0, "w": Xv - 1.0})
        tag = "v%d" % vi
        single("EOF(n_modes=1)", "DataArray," + tag, lambda: xe.single.EOF(n_modes=1), Xv, dict(n_modes=1), "EOF")
        single("EOF(n_modes=1, standardize=True)", "Dataset," + tag, lambda: xe.single.EOF(n_modes=1, standardize=True), DSv, dict(n_modes=1, std=True), "EOF")
        single("EOF(n_modes=1, center=False)", "list," + tag, lambda: xe.single.EOF(n_modes=1, center=False), [Zv, Xv], dict(n_modes=1, center=False), "EOF")

    # ---------------- rotator parameters
    base4 = xe.single.EOF(n_modes=4).fit(X, "time")
    for nm, expect in ((2, "result"), (4, "result"), (0, "error"), (-1, "error"), (1, "error"), (False, "error"), ("few", "error"),
                       (None, "error"), ([2], "error"), (7, None), (2.5, None), (float("nan"), None)):
        flt = ("valid:n_modes=%r" if expect == "result" else ("outside:n_modes=%r" if expect is None else "n_modes=%r")) % (nm,)
        if expect == "error" and (isinstance(nm, str) or nm is None):
            flt = "n_modes-non-numeric"
        calls.append(Call("EOFRotator.fit", "EOF(n_modes=4)", flt + ("" if flt != "n_modes-non-numeric" else ":%r" % (nm,)), expect,
                          (lambda nm=nm: xe.single.EOFRotator(n_modes=nm, max_iter=50).fit(base4)),
                          "code (rotator_fit_outcome eof_rotator_check_n_modes %s 4)" % pv(nm), detail="EOFRotator(n_modes=%r).fit(EOF(n_modes=4))" % (nm,)))

    # ---------------- cross-set models
    for cname, mkc, extra in (("MCA", lambda **kw: xe.cross.MCA(**dict(dict(n_modes=2, n_pca_modes=4), **kw)), {}),
                              ("CPCCA", lambda **kw: xe.cross.CPCCA(**dict(dict(n_modes=2, n_pca_modes=4, alpha=0.5), **kw)), {})):
        c1 = coq_cfg(n_modes=4, feature_name="feature1")
        c2 = coq_cfg(n_modes=4, feature_name="feature2")

        def xfit(fault, expect, x, y, dim="time", n_modes=2, solver="auto", npca=4, **kw):
            cc = "(mkCross %s %s %s %s true)" % (pv(n_modes), cstr(solver), coq_cfg(n_modes=npca, feature_name="feature1"),
                                                 coq_cfg(n_modes=npca, feature_name="feature2"))
            calls.append(Call(cname + ".fit", "DataArray", fault, expect,
                              (lambda: mkc(n_modes=n_modes, solver=solver, n_pca_modes=npca, **kw).fit(x, y, dim)),
                              "code (cross_fit_outcome %s %s %s %s 0 0)" % (cc, coq_input(x), coq_input(y), pv(dim)),
                              detail="%s.fit(X, Y, %r) with %s" % (cname, dim, fault)))
        xfit("valid", "result", X, Y)
        xfit("mismatched-sample-count", "error", X, Y.isel(time=slice(0, 6)))
        xfit("mismatched-sample-count:X-shorter", "error", X.isel(time=slice(0, 5)), Y)
        # one field has a surplus sample that is entirely missing: still two fields with different sample counts (after the missing sample is
        # dropped the counts agree by accident and the rows would be paired one step out)
        Ysur = xr.concat([Y, Y.isel(time=[3]).assign_coords(time=[int(Y.time.values.max()) + 1])], dim="time").copy()
        Ysur.values[2] = np.nan
        xfit("mismatched-sample-count:surplus-sample-entirely-missing", "error", X, Ysur)
        Xsur = xr.concat([X, X.isel(time=[3]).assign_coords(time=[int(X.time.values.max()) + 1])], dim="time").copy()
        Xsur.values[-1] = np.nan
        xfit("mismatched-sample-count:surplus-sample-entirely-missing:X", "error", Xsur, Y)
        # the same with the NaN scan switched off for the OTHER field: the field that is scanned still loses its missing sample
        xfit("mismatched-sample-count:surplus-sample-entirely-missing:X:check_nans=[True,False]", "error", Xsur, Y, check_nans=[True, False])
        xfit("mismatched-sample-count:surplus-sample-entirely-missing:check_nans=[False,True]", "error", X, Ysur, check_nans=[False, True])
        xfit("wrong-type:numpy-X", "error", X.values, Y)
        xfit("wrong-type:None-Y", "error", X, None)
        xfit("unknown-sample-dim", "error", X, Y, dim="nope")
        xfit("empty-sample-dims", "error", X, Y, dim=())
        xfit("n_modes=0", "error", X, Y, n_modes=0)
        xfit("n_modes=-1", "error", X, Y, n_modes=-1)
        xfit("n_modes=5 > rank 4", "error", X, Y, n_modes=5)
        xfit("valid:n_modes=4", "result", X, Y, n_modes=4)
        xfit("n_modes='few'", "error", X, Y, n_modes="few")
        xfit("n_modes=None", "error", X, Y, n_modes=None)
        xfit("n_modes=1.5", "error", X, Y, n_modes=1.5)
        xfit("n_pca_modes=0", "error", X, Y, npca=0)
        xfit("n_pca_modes='few'", "error", X, Y, npca="few")
        xfit("solver='arpack'", "error", X, Y, solver="arpack")
        xfit("solver='arpack':n_modes=4", "error", X, Y, solver="arpack", n_modes=4)
        xfit("solver='randomised':n_modes=4", "error", X, Y, solver="randomised", n_modes=4)
        # constructor
        if cname == "CPCCA":
            def ctor(fault, expect, lens=(), fn=("feature1", "feature2"), malpha=(0.2, 0.2), **kw):
                calls.append(Call("CPCCA.__init__", "-", fault, expect, (lambda: xe.cross.CPCCA(n_modes=2, **kw)),
                                  "code (cross_ctor_outcome whitener_check_alpha_f64 %s %s %s %s %s)"
                                  % (C.czlist(lens), cstr(fn[0]), cstr(fn[1]), fl(malpha[0]), fl(malpha[1])),
                                  detail="CPCCA(n_modes=2, %s)" % ", ".join("%s=%r" % kv for kv in kw.items())))
            ctor("valid", "result")
            ctor("alpha=-0.5", "error", malpha=(-0.5, -0.5), **{"alpha": -0.5})
            ctor("alpha=[1.0, -0.1]", "error", lens=(2,), malpha=(1.0, -0.1), **{"alpha": [1.0, -0.1]})
            ctor("valid:alpha=1.5", "result", malpha=(1.5, 1.5), **{"alpha": 1.5})
            ctor("valid:alpha=0", "result", malpha=(0.0, 0.0), **{"alpha": 0})
            ctor("valid:alpha=[0.0, 2.0]", "result", lens=(2,), malpha=(0.0, 2.0), **{"alpha": [0.0, 2.0]})
            ctor("wrong-list-length:alpha", "error", lens=(3,), malpha=(1.0, 1.0), **{"alpha": [1.0, 1.0, 1.0]})
            ctor("wrong-list-length:standardize", "error", lens=(3,), **{"standardize": [True, True, True]})
            ctor("wrong-list-length:n_pca_modes", "error", lens=(1,), **{"n_pca_modes": [3]})
            ctor("wrong-list-length:feature_name", "error", lens=(3,), fn=("a", "b"), **{"feature_name": ["a", "b", "c"]})
            ctor("same-feature-names", "error", lens=(2,), fn=("f", "f"), **{"feature_name": ["f", "f"]})
            calls.append(Call("CPCCA.fit", "DataArray", "valid:alpha=1.5", "result",
                              (lambda: xe.cross.CPCCA(n_modes=2, n_pca_modes=4, alpha=1.5).fit(X, Y, "time")),
                              "code (cross_fit_outcome (mkCross (VInt 2) \"auto\" %s %s true) %s %s %s 0 0)" % (c1, c2, coq_input(X), coq_input(Y), pv("time")),
                              detail="CPCCA(alpha=1.5).fit(X, Y)"))
        # transform / predict / inverse_transform
        for rname, build in ((cname, lambda: mkc().fit(X, Y, "time")),) + (
                (("MCARotator", lambda: xe.cross.MCARotator(n_modes=2, max_iter=50).fit(xe.cross.MCA(n_modes=3, n_pca_modes=4).fit(X, Y, "time"))),)
                if cname == "MCA" else ()):
            model = build()
            s1, s2 = "F%d" % len(defs), "F%d" % (len(defs) + 1)
            defs.append("Definition %s := state_or_empty %s (preprocess_state %s %s %s)." % (s1, c1, c1, coq_input(X), pv("time")))
            defs.append("Definition %s := state_or_empty %s (preprocess_state %s %s %s)." % (s2, c2, c2, coq_input(Y), pv("time")))
            for fault, expect, arg in transform_mutations(X):
                if fault == "wrong-type:None":
                    continue            # transform(None, Y) is a valid call: only Y is transformed
                if fault.startswith("valid:new-samples"):
                    yy = Y.isel(time=slice(0, 5)).assign_coords(time=100 + np.arange(5))
                else:
                    yy = Y
                calls.append(Call(rname + ".transform", "X", fault, expect, (lambda arg=arg, yy=yy: model.transform(arg, yy)),
                                  "code (cross_transform_outcome faithful_vd faithful_vc %s %s %s %s)" % (s1, s2, coq_input(arg), coq_input(yy)),
                                  detail="%s.transform(<%s>, Y)" % (rname, fault)))
            for fault, expect, arg in transform_mutations(Y):
                if fault.startswith("valid") or fault.startswith("outside") or fault == "wrong-type:None":
                    continue
                calls.append(Call(rname + ".transform", "Y", fault, expect, (lambda arg=arg: model.transform(X, arg)),
                                  "code (cross_transform_outcome faithful_vd faithful_vc %s %s %s %s)" % (s1, s2, coq_input(X), coq_input(arg)),
                                  detail="%s.transform(X, <%s>)" % (rname, fault)))
            if rname == cname:
                for fault, expect, arg in transform_mutations(X):
                    if fault.startswith("outside"):
                        continue
                    calls.append(Call(rname + ".predict", "X", fault, expect, (lambda arg=arg: model.predict(arg)),
                                      "code (transform_faithful %s %s)" % (s1, coq_input(arg)), detail="%s.predict(<%s>)" % (rname, fault)))
            sx, sy = model.scores()
            k = int(sx.sizes["mode"])
            for fault, expect, sc in score_mutations(sx):
                calls.append(Call(rname + ".inverse_transform", "X", fault, expect, (lambda sc=sc: model.inverse_transform(sc, sy)),
                                  "code (first_err [inverse_outcome %d %s; inverse_outcome %d %s])" % (k, coq_scores(sc), k, coq_scores(sy)),
                                  detail="%s.inverse_transform(<%s>, scores_Y)" % (rname, fault)))
            # ... and the fault in the second field's scores, the first field's being valid
            for fault, expect, sc in score_mutations(sy):
                calls.append(Call(rname + ".inverse_transform", "Y", fault, expect, (lambda sc=sc: model.inverse_transform(sx, sc)),
                                  "code (first_err [inverse_outcome %d %s; inverse_outcome %d %s])" % (k, coq_scores(sx), k, coq_scores(sc)),
                                  detail="%s.inverse_transform(scores_X, <%s>)" % (rname, fault)))
    b3 = xe.cross.MCA(n_modes=3, n_pca_modes=4).fit(X, Y, "time")
    for nm, expect in ((2, "result"), (0, "error"), (1, "error"), ("few", "error"), (None, "error"), (7, None)):
        flt = ("valid:n_modes=%r" if expect == "result" else ("outside:n_modes=%r" if expect is None else "n_modes=%r")) % (nm,)
        if expect == "error" and (isinstance(nm, str) or nm is None):
            flt = "n_modes-non-numeric:%r" % (nm,)
        calls.append(Call("MCARotator.fit", "MCA(n_modes=3)", flt, expect,
                          (lambda nm=nm: xe.cross.MCARotator(n_modes=nm, max_iter=50).fit(b3)),
                          "code (rotator_fit_outcome cpcca_rotator_check_n_modes %s 3)" % pv(nm), detail="MCARotator(n_modes=%r).fit(MCA(n_modes=3))" % (nm,)))
    return defs, calls


HOW = {"missing-feature-dim": "X.isel({d: 0}, drop=True) for a feature dimension d of the fitted X (dims time x lat x lon)",
       "extended-feature-coord": "xr.concat([X, X.isel({d: [0]}).assign_coords({d: [X[d].max() + 7]})], d): one more label along feature dimension d",
       "n_modes-non-numeric": "rotator constructed with n_modes='few' (or None) and fitted on a model with fewer than 10 modes"}


def vkey(c):
    fault = c.fault.split(":")[0] if c.fault.startswith(("missing-feature-dim", "extended-feature-coord", "n_modes-non-numeric")) else c.fault
    return "C17:%s:%s" % (c.site, fault)


def judge(ctx, calls):
    """implementation-side oracle: a fault answered with a result is a violation"""
    for c in calls:
        c.impl, c.msg = attempt(c.thunk)
        ctx.case(("api", c.site, c.layout, c.fault), nontrivial=True,
                 tag="%s:%s" % (c.site, "fault" if c.expect == "error" else ("valid" if c.expect == "result" else "outside")),
                 sample=dict(kind="api", call=c.detail, fault=c.fault, expected=c.expect, impl=c.impl, observed=c.msg))
        if c.expect == "error" and c.impl == "ok":
            how = HOW.get(vkey(c).split(":")[-1], "")
            ctx.violation(vkey(c), "%s — fault '%s' is answered with %s instead of an exception" % (c.detail, c.fault, c.msg),
                          dict(kind="api", site=c.site, layout=c.layout, fault=c.fault, call=c.detail, input=how, observed=c.msg,
                               expected="an exception"))
        if c.expect is None and c.impl == "ok":
            ctx.extra.setdefault("answered_outside_the_quantifier", []).append("%s :: %s" % (c.name, c.msg))


def run_api(ctx, with_model=True):
    defs, calls = api_calls(ctx)
    judge(ctx, calls)
    n_fault = sum(1 for c in calls if c.expect == "error")
    n_ok = sum(1 for c in calls if c.expect == "error" and c.impl != "ok")
    ctx.extra["faults_enumerated"] = n_fault
    ctx.extra["faults_refused"] = n_ok
    ctx.oblige("oracle:every enumerated fault raises (%d of %d do)" % (n_ok, n_fault), "oracle", True,
               "violations are reported individually")
    if not with_model:
        return calls
    body = [HEADER] + defs + ["Definition outcomes : list Z := ["]
    body.append(";\n".join("  %s" % c.coq for c in calls))
    body.append("].\nEval vm_compute in outcomes.\nEval vm_compute in (if faithful_vd then 1 else 0, if faithful_vc then 1 else 0).\n")
    f = C.write_case_file("C17", "api", "\n".join(body))
    rc, out = C.coqc_run(f)
    if rc != 0:
        ctx.oblige("correspondence:api", "correspondence", False, out[-1500:])
        return calls
    ev = C.parse_evals(out)
    model = C.parse_int_list(ev[0])
    ctx.extra["model_variant"] = dict(zip(("validates_dims_before_scaling", "validates_coords_before_scaling"), C.parse_pairs(ev[1])[0]))
    if len(model) != len(calls):
        ctx.oblige("correspondence:api", "correspondence", False, "model produced %d answers for %d calls" % (len(model), len(calls)))
        return calls
    bad = kind_diff = 0
    for c, m in zip(calls, model):
        c.model = m
        ctx.traces += 1
        if (m == 0) != (c.impl == "ok"):
            bad += 1
            disagreement(ctx, "api", c.name, "%s (%s)" % (c.impl, c.msg), m)
        elif m != 0 and icode(c.impl) != m:
            kind_diff += 1
            ctx.extra.setdefault("error_kind_differs", []).append("%s impl=%s model=%d" % (c.name, c.impl, m))
    # the listed non-faults are answered by the model as well (non-vacuity of the model side)
    nonfault_bad = [c.name for c in calls if c.expect == "result" and c.model != 0]
    ctx.oblige("correspondence:exception-or-not, model vs implementation (%d public calls)" % len(calls), "correspondence", bad == 0,
               "%d disagreements; error kind differs in %d agreeing refusals" % (bad, kind_diff))
    ctx.oblige("model answers every listed non-fault", "correspondence", not nonfault_bad, ", ".join(nonfault_bad[:8]))
    # which faults the faithful model itself predicts to be answered
    ctx.extra["model_predicts_answered_faults"] = sorted(set(vkey(c) for c in calls if c.expect == "error" and c.model == 0))
    return calls


def run(ctx):
    C.setup_impl_env()
    C.clean_case_files("C17")
    if ctx.extra.get("model_ok", True):
        run_validators(ctx)
        run_api(ctx)
    else:
        ctx.notes.append("model does not build: correspondence skipped, implementation-side oracle only")
        run_api(ctx, with_model=False)


def search(ctx):
    """a tie is broken and no violation was found: the implementation-side oracle alone"""
    C.setup_impl_env()
    if not ctx.evaluations:
        run_api(ctx, with_model=False)


def replay(ctx, rp):
    C.setup_impl_env()
    r = rp.get("replay", rp)
    print("replay:", rp.get("what"))
    _, calls = api_calls(ctx)
    hit = [c for c in calls if c.site == r.get("site") and c.layout == r.get("layout") and c.fault == r.get("fault")]
    for c in hit:
        c.impl, c.msg = attempt(c.thunk)
        print("  %s -> %s %s" % (c.detail, c.impl, c.msg))
    judge(ctx, hit or calls)
    ctx.oblige("replay:%s" % rp.get("key", "?"), "oracle", True)
