"""C20 — bootstrap members are sign-aligned, reproducible EOF analyses of resamples."""
import contextlib
import io
import os

import numpy as np

from harness import common as C

ANCHORS = ["T5boot", "T5eof", "T3", "T3b", "T9text"]
MODELS = ["BootCase"]
RULE = ("fitted xeofs.single.EOF models x EOFBootstrapper(n_bootstraps, seed): structure (DataArray 1-D features, DataArray lat-lon, Dataset, "
        "list) x user dimension names x n in 4..10 x p in 2..5 x center/standardize/use_coslat x k in 1..min(n-1,p) x n_bootstraps in 1..50 x "
        "integer seeds (0, small, > 2^32, > 2^63); the resample indices are reproduced with np.random.default_rng(seed) and the same call "
        "sequence; a case is non-trivial when at least one member has a resample different from the identity and a spectral gap so that "
        "vectors were compared; distinct by input hash")
PARTIAL = ["reproducibility is proved relative to the oracles (same draws and same SVD answers give the same members: C20_same_draws_same_members); "
           "that numpy's generator returns the same draws for the same seed, and that the (possibly randomised) solver returns the same "
           "members to 1e-7, are tests",
           "C20_sign_aligned needs positive standard deviations of the member's and the model's scores (forced: corr is 0/0 otherwise); "
           "C20_aligned_member_orthonormal needs every correlation to be non-zero (forced: C20_zero_correlation_zeroes_member / "
           "C20_zeroed_member_not_orthonormal prove what happens otherwise: np.sign(0) = 0 zeroes the mode)",
           "negative seeds are refused by numpy's default_rng (ValueError) and counted as refusals, not results"]
REFUTED = []
TRUSTED = ["SVD is an oracle: numpy.linalg.svd of the centred resample of the implementation's own input_data, residuals re-checked in Coq",
           "the random generator is an oracle: index lists reproduced with np.random.default_rng(seed).choice(n, n, replace=True), one call "
           "per member (call count tied to the source by T5boot); a wrong reproduction shows up as a variance disagreement on every member",
           "np.sign is the mathematical sign function with sign(0) = 0 (Model/Boot.v sgn)",
           "Coq.Reals axioms in the order/sign theorems (C20_member_variances, C20_sign_aligned*, C20_zero_correlation_*, C20_signs_are_units)"]
ASSUMES = ["float instance vs field instance of the same Gallina term differ by rounding only (rtol 1e-7)",
           "singular values returned by the SVD oracle are non-negative and descending (numpy's contract; premise desc_nonneg)"]

RT = 1e-7
FIELD = {1: "shapes / index list", 2: "svd factorisation of the centred resample (oracle)", 3: "U unitary (oracle)", 4: "Vt unitary (oracle)",
         5: "explained variance", 6: "total variance", 7: "components (aligned)", 8: "scores (aligned)", 9: "alignment sign is not +-1",
         10: "aligned scores correlate negatively with the model's", 11: "scores on resampled rows differ from the member's own scores"}

# the repair of F-07 (applied upstream; kept so that a regression replays with its remedy)
PATCH = """--- a/xeofs/validation/bootstrapper.py
+++ b/xeofs/validation/bootstrapper.py
@@ -59,7 +59,7 @@
         sample_name = model.sample_name

         input_data = model.data["input_data"]
-        n_samples = input_data.sample.size
+        n_samples = input_data[sample_name].size

         model_params = model.get_params()
         n_modes: int = model_params["n_modes"]
@@ -84,8 +84,14 @@
             bst_data = bst_data.assign_coords({sample_name: input_data[sample_name]})
             # Perform EOF analysis with the subsampled data
             # No scaling because we use the pre-scaled data from the model
-            bst_model = EOF(n_modes=n_modes, standardize=False, use_coslat=False)
-            bst_model.fit(bst_data, dim="sample")
+            bst_model = EOF(
+                n_modes=n_modes,
+                standardize=False,
+                use_coslat=False,
+                sample_name=sample_name,
+                feature_name=model.feature_name,
+            )
+            bst_model.fit(bst_data, dim=sample_name)
             # Save results
             expvar = bst_model.data["explained_variance"]
             totvar = bst_model.data["total_variance"]
@@ -114,9 +120,9 @@
         # NOTE: we use scores as they have typically a lower dimensionality than components
         model_scores = model.data["scores"]
         corr = (
-            (bst_scores * model_scores).mean("sample")
-            / bst_scores.std("sample")
-            / model_scores.std("sample")
+            (bst_scores * model_scores).mean(sample_name)
+            / bst_scores.std(sample_name)
+            / model_scores.std(sample_name)
         )
         signs = np.sign(corr)
         bst_components = bst_components * signs
"""

SEEDS = [0, 1, 7, 42, 2 ** 31 - 1, 2 ** 32 + 5, 2 ** 63 + 11, 12345678901234567890]


# ------------------------------------------------------------------ generators
def make_cfg(rng, force=None):
    force = force or {}
    struct = str(force.get("struct", rng.choice(["da1", "da1", "da2", "ds", "list"])))
    n = int(rng.integers(4, 11))
    if struct == "da2":
        nlat, nlon = (2, int(rng.integers(1, 3)))
        p = nlat * nlon
    elif struct == "ds":
        nlat = nlon = None
        p = 2 * int(rng.integers(1, 3))
    else:
        nlat = nlon = None
        p = int(rng.integers(2, 6))
    sdim = str(rng.choice(["time", "t", "obs"]))
    center = bool(rng.random() < 0.8)
    standardize = bool(rng.random() < 0.35)
    use_coslat = struct == "da2" and bool(rng.random() < 0.5)
    scale = float(10.0 ** rng.integers(-7, 5)) if rng.random() < 0.3 else 1.0
    # a few dominant directions plus noise: spectral gaps in most resamples
    r = min(n - 1, p)
    base = rng.standard_normal((n, r)) * (2.0 ** -np.arange(r)) * 2.0
    X = (base @ rng.standard_normal((r, p)) + 0.15 * rng.standard_normal((n, p)) + 3.0 * rng.standard_normal(p)) * scale
    k = int(rng.integers(1, min(n - 1, p) + 1))
    cfg = dict(struct=struct, n=n, p=p, nlat=nlat, nlon=nlon, sdim=sdim, center=center, standardize=standardize, use_coslat=use_coslat,
               scale=scale, k=k, X=X.tolist(), B=int(rng.choice([1, 2, 3, 4, 6])), seed=int(SEEDS[int(rng.integers(0, len(SEEDS)))]),
               sample_name="sample", feature_name="feature")
    cfg.update(force)
    return cfg


def build_input(cfg):
    import xarray as xr
    X = np.asarray(cfg["X"], dtype=float)
    n, p = X.shape
    sd = cfg["sdim"]
    tc = np.arange(n) * 3 + 1
    st = cfg["struct"]
    if st == "da1":
        return xr.DataArray(X, dims=(sd, "x"), coords={sd: tc, "x": np.arange(p) + 10}, name="v")
    if st == "da2":
        nlat, nlon = cfg["nlat"], cfg["nlon"]
        return xr.DataArray(X.reshape(n, nlat, nlon), dims=(sd, "lat", "lon"),
                            coords={sd: tc, "lat": np.linspace(-50.0, 65.0, nlat), "lon": np.arange(nlon) * 10.0}, name="v")
    p1 = max(1, p // 2)
    a = xr.DataArray(X[:, :p1], dims=(sd, "x"), coords={sd: tc, "x": np.arange(p1)}, name="a")
    if st == "ds":
        # same dimension set for both variables (different sets are C02's subject); p = 2 p1
        b = xr.DataArray(X[:, p1:], dims=(sd, "x"), coords={sd: tc, "x": np.arange(p1)}, name="b")
        return xr.Dataset({"a": a, "b": b})
    b = xr.DataArray(X[:, p1:], dims=(sd, "y"), coords={sd: tc, "y": np.arange(p - p1) * 2}, name="b")
    return [a, b]


def quiet(fn, *a, **kw):
    """the bootstrapper draws a tqdm bar on stderr"""
    buf = io.StringIO()
    with contextlib.redirect_stderr(buf):
        return fn(*a, **kw)


def fit_model(cfg):
    import xeofs as xe
    data = build_input(cfg)
    m = xe.single.EOF(n_modes=cfg["k"], center=cfg["center"], standardize=cfg["standardize"], use_coslat=cfg["use_coslat"],
                      sample_name=cfg["sample_name"], feature_name=cfg["feature_name"])
    m.fit(data, cfg["sdim"])
    return data, m


def run_boot(m, B, seed):
    from xeofs.validation import EOFBootstrapper
    b = EOFBootstrapper(n_bootstraps=B, seed=seed)
    quiet(b.fit, m)
    return b


def draws(seed, n, B, calls_per_member=1):
    r = np.random.default_rng(seed)
    out = []
    for _ in range(B):
        out.append(r.choice(n, n, replace=True))
        for _ in range(calls_per_member - 1):
            r.choice(n, n, replace=True)
    return out


def flat_features(obj, sel):
    """public components of one member as a (features x modes) matrix, NaN features dropped"""
    import xarray as xr
    parts = []
    objs = obj if isinstance(obj, list) else ([obj[v] for v in obj.data_vars] if isinstance(obj, xr.Dataset) else [obj])
    for da in objs:
        da = da.isel(n=sel) if "n" in da.dims else da
        if "mode" not in da.dims:      # a single mode of a Dataset model is squeezed away by the unstacker (C02's subject)
            da = da.expand_dims("mode")
        fd = [d for d in da.dims if d != "mode"]
        A = da.transpose(*fd, "mode").values.reshape(-1, da.sizes["mode"])
        parts.append(A)
    A = np.concatenate(parts, axis=0)
    return A[~np.isnan(A).all(axis=1)]


def structure_of(obj):
    import xarray as xr
    if isinstance(obj, list):
        return ("list", [(None, tuple(sorted(map(str, o.dims)))) for o in obj])
    if isinstance(obj, xr.Dataset):
        return ("Dataset", [(str(v), tuple(sorted(map(str, obj[v].dims)))) for v in obj.data_vars])
    return ("DataArray", [(None, tuple(sorted(map(str, obj.dims))))])


def add_dim(struct, dim):
    return (struct[0], [(nm, tuple(sorted(dims + (dim,)))) for nm, dims in struct[1]])


def independent_member(X, idx, k):
    n = X.shape[0]
    Xb = X[idx]
    mu = Xb.mean(axis=0)
    Xc = Xb - mu
    U, s, Vt = np.linalg.svd(Xc, full_matrices=False)
    lam = s ** 2 / (n - 1)
    tv = float((Xc ** 2).sum() / (n - 1))
    V = Vt[:k].T
    Z = (X - mu) @ V
    sp = np.concatenate([s, [0.0]])
    gap = bool(s[0] > 0 and np.all((sp[:k] - sp[1:k + 1]) > 1e-5 * s[0]))
    return dict(Xc=Xc, U=U, s=s, Vt=Vt, lam=lam[:k], tv=tv, V=V, Z=Z, mu=mu, gap=gap)


# ------------------------------------------------------------------ oracles on the public results
def oracles(ctx, cfg, m, b, tag):
    """independent statements of the property on what the public accessors return"""
    k, B, seed = cfg["k"], cfg["B"], cfg["seed"]
    sn, fn = m.sample_name, m.feature_name
    X = np.asarray(m.data["input_data"].transpose(sn, fn).values, dtype=float)
    n, p = X.shape
    M = np.asarray(m.scores().transpose(cfg["sdim"], "mode").values, dtype=float)
    ev = b.explained_variance()
    comps = b.components()
    sc = b.scores()
    tv = b.data["total_variance"]
    bad = []
    # member dimension
    for nm, arr in (("explained_variance", ev), ("scores", sc), ("total_variance", tv)):
        if "n" not in arr.dims or arr.sizes["n"] != B or not np.array_equal(np.asarray(arr["n"].values), np.arange(1, B + 1)):
            bad.append(("member-dim", "%s has no member dimension n = 1..%d" % (nm, B)))
    fatal = bool(bad)
    st_m = structure_of(m.components())
    st_b = structure_of(comps)
    if st_b != add_dim(st_m, "n"):
        import xarray as xr
        if isinstance(comps, xr.Dataset) and B == 1 and st_b == st_m:
            # xarray's to_unstacked_dataset squeezes every length-1 dimension: the single member's dimension is gone
            ctx.violation("C20:member-dim:Dataset:n_bootstraps=1",
                          "components() of a bootstrapped Dataset model with n_bootstraps=1 has no member dimension `n` (dims %s); "
                          "explained_variance() and scores() do carry it" % (st_b[1],), dict(kind="boot", cfg=cfg, failed="member-dim"))
            comps = comps.expand_dims(n=[1])
        else:
            bad.append(("structure", "components() structure %s is not the model's %s plus the member dimension" % (st_b, st_m)))
            fatal = True
    if not fatal:
        for o in (comps if isinstance(comps, list) else [comps]):
            if o.sizes.get("n") != B or not np.array_equal(np.asarray(o["n"].values), np.arange(1, B + 1)):
                bad.append(("member-dim", "components() member coordinate is not 1..%d" % B))
                fatal = True
    if set(map(str, sc.dims)) != {"n", "mode", cfg["sdim"]} or not np.array_equal(np.asarray(sc[cfg["sdim"]].values),
                                                                                  np.asarray(m.scores()[cfg["sdim"]].values)):
        bad.append(("structure", "scores() dims %s / sample coordinate differ from the model's" % (sc.dims,)))
        fatal = True
    if fatal:
        for key, msg in bad:
            ctx.violation("C20:%s:%s" % (key, cfg["struct"]), "%s (%s)" % (msg, tag), dict(kind="boot", cfg=cfg, failed=msg))
        return False, None
    EV = np.asarray(ev.transpose("n", "mode").values)
    if EV.shape != (B, k) or np.isnan(EV).any():
        # every member is the model's analysis of a resample: the model's number of modes, all of them present
        ctx.violation("C20:structure:%s" % cfg["struct"], "explained variances of the members have shape %s with %d NaN entries; %d members with the model's %d modes each were "
                      "asked for (%s)" % (EV.shape, int(np.isnan(EV).sum()), B, k, tag), dict(kind="boot", cfg=cfg, failed="member mode dimension"))
        return False, None
    TV = np.asarray(tv.values)
    SC = np.asarray(sc.transpose("n", cfg["sdim"], "mode").values)
    idxs = draws(seed, n, B)
    Mflat = flat_features(m.components(), None)
    # scale of the variances of this data set (a resample may be constant: its own variances are ~0)
    scX = max(float(((X - X.mean(axis=0)) ** 2).sum() / (n - 1)), 1e-300)
    members = []
    for i in range(B):
        ind = independent_member(X, idxs[i], k)
        members.append(ind)
        Vp = flat_features(comps, i)            # public components of member i
        Zp = SC[i]
        sc2 = max(ind["s"][0] ** 2 / (n - 1), 1e-12 * scX)
        if not np.allclose(EV[i], ind["lam"], rtol=1e-7, atol=1e-9 * sc2):
            bad.append(("expvar", "member %d: explained variances %s differ from the EOF analysis of the resample drawn with the same generator state %s"
                        % (i + 1, EV[i].tolist(), ind["lam"].tolist())))
            continue
        if not np.allclose(TV[i], ind["tv"], rtol=1e-7):
            bad.append(("totvar", "member %d: total variance %r differs from the resample's %r" % (i + 1, float(TV[i]), ind["tv"])))
        if np.any(EV[i] < -1e-9 * sc2) or np.any(np.diff(EV[i]) > 1e-9 * sc2) or EV[i].sum() > TV[i] * (1 + 1e-9) + 1e-9 * sc2:
            bad.append(("order", "member %d: explained variances are not non-negative, descending and bounded by the total variance" % (i + 1)))
        if Vp.shape != (Mflat.shape[0], k):
            bad.append(("structure", "member %d: components have %s non-NaN feature rows, the model's have %s" % (i + 1, Vp.shape, Mflat.shape)))
            continue
        if not np.allclose(Vp.T @ Vp, np.eye(k), atol=1e-7):
            bad.append(("orthonormal", "member %d: components are not orthonormal (a mode zeroed by a vanishing correlation?)" % (i + 1)))
        # undo the feature weighting of the public components is not needed: components() returns the stored vectors
        covb = ind["Xc"].T @ ind["Xc"] / (n - 1)
        Vs = np.asarray(b.data["components"].isel(n=i).transpose(fn, "mode").values)
        if not np.allclose(covb @ Vs, Vs * EV[i], atol=1e-7 * sc2):
            bad.append(("eigen", "member %d: components are not eigenvectors of the resample's covariance matrix" % (i + 1)))
        if not np.allclose(np.abs(Vp), np.abs(flat_features_like(m, Vs)), atol=1e-9):
            bad.append(("structure", "member %d: public components differ from the stored ones" % (i + 1)))
        if not np.allclose(Zp, (X - ind["mu"]) @ Vs, rtol=1e-7, atol=1e-7 * np.sqrt(sc2 * n)):
            bad.append(("projection", "member %d: scores are not the projection of the original samples on the member's components" % (i + 1)))
        if ind["gap"]:
            sg = np.sign(np.sum(Vs * ind["V"], axis=0))
            if not np.allclose(Vs, ind["V"] * sg, atol=1e-6):
                bad.append(("components", "member %d: components differ (beyond sign) from the independent EOF of the resample" % (i + 1)))
        cross = np.sum(Zp * M, axis=0)
        if np.any(np.isnan(cross)) or np.any(cross < -1e-9 * np.sqrt(np.sum(Zp ** 2, axis=0) * np.sum(M ** 2, axis=0))):
            bad.append(("sign", "member %d: a mode correlates negatively with the model's mode after alignment: %s" % (i + 1, cross.tolist())))
    for key, msg in bad:
        ctx.violation("C20:%s:%s" % (key, cfg["struct"]), "%s (%s)" % (msg, tag), dict(kind="boot", cfg=cfg, failed=msg))
    return not bad, (X, M, idxs, members)


def flat_features_like(m, Vs):
    """stored (feature x mode) vectors pushed through the model's own back-transformation, flattened like the public ones"""
    import xarray as xr
    da = xr.DataArray(Vs, dims=(m.feature_name, "mode"), coords={m.feature_name: m.data["components"][m.feature_name],
                                                                  "mode": m.data["components"]["mode"]}, name="components")
    return flat_features(m.preprocessor.inverse_transform_components(da), None)


def reproducible(ctx, cfg, m, b, members):
    """same seed: identical resamples (hence identical variances), members equal to solver accuracy — vectors are compared for the
    members whose retained modes are separated by a spectral gap (the others are not determined by the resample); another seed: other resamples"""
    b2 = run_boot(m, cfg["B"], cfg["seed"])
    ok = True
    det = np.array([bool(ind["gap"]) for ind in members])
    for nm in ("explained_variance", "total_variance", "components", "scores"):
        a1, a2 = np.asarray(b.data[nm].transpose("n", ...).values), np.asarray(b2.data[nm].transpose("n", ...).values)
        if a1.shape == a2.shape and nm in ("components", "scores"):
            a1, a2 = a1[det], a2[det]
        sc = max(1e-300, float(np.nanmax(np.abs(np.asarray(b.data[nm].values)))))
        if a1.shape != a2.shape or not np.allclose(a1, a2, rtol=1e-7, atol=1e-9 * sc):
            ok = False
            ctx.violation("C20:reproducible:%s" % nm, "two runs with seed %r give different %s (max diff %g)" % (
                cfg["seed"], nm, float(np.nanmax(np.abs(a1 - a2))) if a1.shape == a2.shape else float("nan")),
                dict(kind="repro", cfg=cfg, field=nm))
    # ... and the SAME bootstrapper object fitted a second time (same model) draws the same resamples again
    try:
        quiet(b2.fit, m)
        for nm in ("explained_variance", "total_variance"):
            a1, a2 = np.asarray(b.data[nm].transpose("n", ...).values), np.asarray(b2.data[nm].transpose("n", ...).values)
            sc = max(1e-300, float(np.nanmax(np.abs(a1))))
            if a1.shape != a2.shape or not np.allclose(a1, a2, rtol=1e-7, atol=1e-9 * sc):
                ok = False
                ctx.violation("C20:reproducible:refit:%s" % nm, "a bootstrapper with seed %r fitted a second time on the same model gives other %s than its first fit (max diff %g): "
                              "the resamples are not those of the seed" % (cfg["seed"], nm, float(np.nanmax(np.abs(a1 - a2))) if a1.shape == a2.shape else float("nan")),
                              dict(kind="repro", cfg=cfg, field=nm, refit=True))
                break
    except Exception as e:
        ctx.violation("C20:reproducible:refit:error:%s" % C.errkind(e), "fitting a bootstrapper a second time raised %r" % (e,), dict(kind="repro", cfg=cfg, refit=True))
    return ok


# ------------------------------------------------------------------ Coq cases
def coq_case(cfg, m, b, pack):
    X, M, idxs, members = pack
    n, p = X.shape
    k = cfg["k"]
    r = min(n, p)
    sn, fn = m.sample_name, m.feature_name
    EV = np.asarray(b.data["explained_variance"].transpose("n", "mode").values)
    TV = np.asarray(b.data["total_variance"].values)
    CP = np.asarray(b.data["components"].transpose("n", fn, "mode").values)
    SC = np.asarray(b.data["scores"].transpose("n", sn, "mode").values)
    ms = []
    anyvec = False
    for i, ind in enumerate(members):
        Z = ind["Z"]
        denom = np.sqrt(np.sum(Z ** 2, axis=0) * np.sum(M ** 2, axis=0))
        corr_ok = bool(np.all(np.abs(np.sum(Z * M, axis=0)) > 1e-6 * np.maximum(denom, 1e-300)))
        vec = bool(ind["gap"] and corr_ok)
        anyvec = anyvec or (vec and not np.array_equal(idxs[i], np.arange(n)))
        ms.append("mkBM %s %s %s %s %s %s %s %s %s" % (C.cnatlist(idxs[i]), C.cmat(ind["U"][:, :r]), C.cvec(ind["s"][:r]), C.cmat(ind["Vt"][:r, :]),
                                                      C.cvec(EV[i]), C.cf(TV[i]), C.cmat(CP[i]), C.cmat(SC[i]), C.cbool(vec)))
    txt = "mkBC %d %d %d %d %s %s [%s]" % (n, p, r, k, C.cmat(X), C.cmat(M), ";\n  ".join(ms))
    return txt, anyvec


def run_cases(ctx, cases, meta):
    files, plan = [], []
    per = 12
    for sh in range(0, len(cases), per):
        body = [C.COQ_HEADER, "From XV Require Import Base.Scalar Base.Mat Base.Instances Model.Eof Model.Boot Model.BootCase.\n",
                "Definition cases := [\n" + ";\n".join(cases[sh:sh + per]) + "].\n",
                "Eval vm_compute in check_boots_f64 %s cases.\n" % C.cf(RT)]
        f = C.write_case_file("C20", "b%d" % (sh // per), "\n".join(body))
        files.append(f)
        plan.append((f, meta[sh:sh + per]))
    res = C.coq_eval_files(files)
    nbad = ncmp = nmem = 0
    for f, mt in plan:
        rc, out = res[f]
        if rc != 0:
            ctx.oblige("correspondence:%s" % f.split("/")[-1], "correspondence", False, out[-600:])
            continue
        vals = C.parse_evals(out)
        pairs = C.parse_pairs(vals[0]) if vals else []
        ncmp += len(mt)
        nmem += sum(c["B"] for c in mt)
        ctx.traces += sum(c["B"] for c in mt)
        for ci, code in pairs:
            nbad += 1
            cfg = mt[ci]
            mem, fld = code // 100, code % 100
            ctx.extra.setdefault("disagreements", []).append(dict(struct=cfg["struct"], member=mem + 1, field=FIELD.get(fld, fld), k=cfg["k"],
                                                                shape=[cfg["n"], cfg["p"]], B=cfg["B"], seed=cfg["seed"]))
            ctx.notes.append("model/impl disagree on %s for member %d (%s, k=%d, seed=%d)" % (FIELD.get(fld, fld), mem + 1, cfg["struct"], cfg["k"], cfg["seed"]))
            if fld >= 5:
                ctx.violation("C20:model-vs-impl:%s" % FIELD.get(fld, fld).split(" ")[0],
                              "model and implementation disagree on %s of member %d (%s)" % (FIELD.get(fld, fld), mem + 1, cfg["struct"]),
                              dict(kind="boot", cfg=cfg, field=fld, member=mem))
    ctx.oblige("correspondence:boot-model (%d fitted models, %d members, rtol %g)" % (ncmp, nmem, RT), "correspondence",
               nbad == 0 and ncmp > 0, "%d field disagreements" % nbad)


# ------------------------------------------------------------------ names
def name_test(ctx, rng):
    """models whose sample / feature dimensions carry other names than the defaults"""
    outcomes = {}
    for names in (dict(sample_name="smp", feature_name="ftr"), dict(sample_name="smp", feature_name="feature"),
                  dict(sample_name="sample", feature_name="ftr")):
        for struct in ("da1", "ds", "list"):
            cfg = make_cfg(rng, force=dict(struct=struct, B=2, seed=3, **names))
            data, m = fit_model(cfg)
            tag = "sample_name=%s feature_name=%s %s" % (names["sample_name"], names["feature_name"], struct)
            ctx.case(dict(cfg, what="names"), nontrivial=True, tag="names/%s/%s" % (names["sample_name"], names["feature_name"]))
            try:
                b = run_boot(m, cfg["B"], cfg["seed"])
                comps = b.components()
                scores = b.scores()
                del comps, scores
            except Exception as e:
                outcomes[tag] = "%s: %s" % (type(e).__name__, str(e)[:160])
                site = "literal-sample-name" if names["sample_name"] != "sample" else "member-default-feature-name"
                ctx.violation("C20:%s" % site,
                              "EOFBootstrapper(n_bootstraps=2, seed=3).fit(model) fails for a fitted EOF(%s) on a %s: %s: %s — "
                              "the bootstrapper does not go through the model's sample_name / feature_name (see C20_names, Gen/T5boot.v boot_literal_dims)"
                              % (", ".join("%s=%r" % kv for kv in names.items()), struct, type(e).__name__, str(e)[:200]),
                              dict(kind="names", cfg=cfg, error=C.errkind(e), msg=str(e)[:300], proposed_patch=PATCH))
                continue
            outcomes[tag] = "ok"
            ok, pack = oracles(ctx, cfg, m, b, tag)
    ctx.extra["name_test"] = outcomes


# ------------------------------------------------------------------ entry points
def run(ctx):
    C.setup_impl_env()
    os.environ.setdefault("TQDM_DISABLE", "1")
    C.clean_case_files("C20")
    rng = ctx.rng.child("c20").np
    ncases = ctx.n(70, 900)
    cases, meta = [], []
    nfail = 0
    for i in range(ncases):
        cfg = make_cfg(rng)
        if i % 9 == 8:
            cfg["B"] = int(rng.choice([20, 50])) if ctx.quick else int(rng.integers(7, 51))
        if i % 7 == 3:
            # a field in small physical units, not standardised (a flux in kg m-2 s-1): nothing in the property depends on the units
            new = float(10.0 ** rng.integers(-8, -4))
            cfg["X"] = (np.asarray(cfg["X"]) * (new / cfg["scale"])).tolist()
            cfg["scale"], cfg["standardize"] = new, False
        try:
            data, m = fit_model(cfg)
            b = run_boot(m, cfg["B"], cfg["seed"])
        except Exception as e:
            nfail += 1
            ctx.case(dict(cfg), nontrivial=False, tag="%s/error:%s" % (cfg["struct"], C.errkind(e)))
            ctx.violation("C20:fit-error:%s:%s" % (cfg["struct"], C.errkind(e)),
                          "EOFBootstrapper.fit raised %s on a fitted default-named EOF model: %s" % (type(e).__name__, str(e)[:200]),
                          dict(kind="boot", cfg=cfg, error=C.errkind(e), msg=str(e)[:300]))
            continue
        ok, pack = oracles(ctx, cfg, m, b, "seed=%d B=%d" % (cfg["seed"], cfg["B"]))
        nontriv = False
        if pack is not None:
            if i % 3 == 0:
                reproducible(ctx, cfg, m, b, pack[3])
            if cfg["B"] <= 8:
                txt, nontriv = coq_case(cfg, m, b, pack)
                cases.append(txt)
                meta.append(cfg)
            else:
                nontriv = any(ind["gap"] for ind in pack[3])
        ctx.case(dict(cfg), nontrivial=bool(nontriv),
                 tag="%s/B=%s/%s" % (cfg["struct"], "1" if cfg["B"] == 1 else "2-8" if cfg["B"] <= 8 else "9-50", "ok"),
                 sample=dict(struct=cfg["struct"], shape=[cfg["n"], cfg["p"]], k=cfg["k"], B=cfg["B"], seed=cfg["seed"], sdim=cfg["sdim"],
                             center=cfg["center"], standardize=cfg["standardize"], use_coslat=cfg["use_coslat"]))
    run_cases(ctx, cases, meta)
    # a single member is a member: oriented like the model's modes, whatever orientation the solver gave it (many seeds, every mode retained)
    for j in range(ctx.n(30, 200)):
        cfg = make_cfg(rng, force=dict(struct="da1", B=1))
        cfg["k"] = min(cfg["n"] - 1, cfg["p"])
        cfg["seed"] = int(rng.integers(0, 2 ** 31))
        try:
            data, m = fit_model(cfg)
            b = run_boot(m, 1, cfg["seed"])
        except Exception as e:
            ctx.violation("C20:fit-error:single-member:%s" % C.errkind(e), "EOFBootstrapper(n_bootstraps=1).fit raised %r" % (e,), dict(kind="boot", cfg=cfg))
            continue
        ctx.case(dict(cfg, single_member=True), nontrivial=True, tag="da1/B=1/every-mode")
        oracles(ctx, cfg, m, b, "seed=%d B=1 (every mode)" % cfg["seed"])
    # other seeds give other resamples; negative seeds are refused by numpy
    cfg = make_cfg(rng, force=dict(struct="da1", B=3))
    data, m = fit_model(cfg)
    b1, b2 = run_boot(m, 3, 11), run_boot(m, 3, 12)
    if np.allclose(b1.data["explained_variance"].values, b2.data["explained_variance"].values, rtol=1e-9, atol=0.0):
        ctx.violation("C20:seed-ignored", "seeds 11 and 12 give the same members", dict(kind="seed", cfg=cfg))
    try:
        run_boot(m, 1, -1)
        ctx.dist["seed=-1:accepted"] += 1
    except ValueError:
        ctx.dist["refused:negative-seed(ValueError from numpy)"] += 1
    ctx.extra["fit_errors"] = nfail
    name_test(ctx, ctx.rng.child("c20-names").np)
    try:
        gen = open(os.path.join(C.COQ, "Gen", "T5boot.v")).read()
        import re
        mm = re.search(r"boot_literal_dims : list string := (\[.*?\])%string", gen)
        ctx.extra["literal_dims_in_source"] = mm.group(1) if mm else None
    except OSError:
        pass


def search(ctx):
    """a tie is broken: the oracles have run on every case; try the targeted families"""
    C.setup_impl_env()
    rng = ctx.rng.child("c20-search").np
    for struct in ("da1", "da2", "ds", "list"):
        for B in (1, 5):
            cfg = make_cfg(rng, force=dict(struct=struct, B=B))
            try:
                data, m = fit_model(cfg)
                b = run_boot(m, cfg["B"], cfg["seed"])
            except Exception as e:
                ctx.violation("C20:fit-error:%s:%s" % (struct, C.errkind(e)), "EOFBootstrapper.fit raised %s: %s" % (type(e).__name__, str(e)[:200]),
                              dict(kind="boot", cfg=cfg, error=C.errkind(e)))
                return
            ok, _ = oracles(ctx, cfg, m, b, "search")
            if not ok:
                return
    name_test(ctx, ctx.rng.child("c20-names").np)


def replay(ctx, rp):
    C.setup_impl_env()
    os.environ.setdefault("TQDM_DISABLE", "1")
    r = rp["replay"]
    cfg = r["cfg"]
    print("replay:", rp.get("what"))
    print("  input: struct=%s n=%d p=%d k=%d sample_name=%s feature_name=%s B=%d seed=%d" % (
        cfg["struct"], cfg["n"], cfg["p"], cfg["k"], cfg["sample_name"], cfg["feature_name"], cfg["B"], cfg["seed"]))
    try:
        data, m = fit_model(cfg)
        b = run_boot(m, cfg["B"], cfg["seed"])
        b.components()
        b.scores()
    except Exception as e:
        print("  observed: %s: %s" % (type(e).__name__, str(e)[:300]))
        print("  expected: members with the model's own structure")
        if r.get("proposed_patch"):
            print("  proposed patch:\n" + r["proposed_patch"])
        ctx.violation(rp["key"], rp["what"], r)
        return
    ok, pack = oracles(ctx, cfg, m, b, "replay")
    if r.get("kind") == "repro" and pack is not None:
        reproducible(ctx, cfg, m, b, pack[3])
    print("  observed: bootstrapper ran; oracles %s" % ("hold" if ok else "fail"))
