"""C04 — transform of the training data reproduces the model's scores."""
import numpy as np

from harness import common as C
from harness import zoo as Z

ANCHORS = ["T3", "T5eof", "T5rot", "T5flag", "T7chain", "T7pipe", "T5cpcca", "T9text"]
MODELS = ["RotCase", "FlagCase"]
RULE = ("every transform-capable class (EOF, ComplexEOF, SparsePCA, POP, CPCCA/MCA/CCA/RDA and complex variants, their rotators with power 1..3, "
        "multi.CCA) x alpha grid x use_pca x normalized x fresh rotator objects and rotator objects that rotated another model and were queried before x structure (1-2 sample dims, 1-2 feature dims, fully missing samples); "
        "non-trivial: >= 3 samples and >= 2 features and a numeric comparison was made; distinct by input hash")
PARTIAL = ["SparsePCA and multi.CCA internals are oracle-only (no algebraic model): transform-vs-scores is compared on the implementation"]
REFUTED = []
TRUSTED = ["SVD / rotation matrix are oracles (the rotation matrix is read from data['rotation_matrix'], its inverse re-checked)"]
ASSUMES = ["retained singular values are non-zero where the rotator divides by them"]


def structured(rng, n, dims_feat, cplx=False, nan_samples=(), two_sample_dims=False, red=False):
    """DataArray with one or two sample dims and one or two feature dims"""
    import xarray as xr
    shape_f = dims_feat
    if two_sample_dims:
        n1, n2 = 2, max(2, n // 2)
        shp = (n1, n2) + tuple(shape_f)
        sdims = ("year", "month")
    else:
        shp = (n,) + tuple(shape_f)
        sdims = ("time",)
    X = rng.standard_normal(shp)
    if red:
        X = np.cumsum(X, axis=len(sdims) - 1) * 0.5 + 0.3 * rng.standard_normal(shp)
    if cplx:
        X = X + 1j * rng.standard_normal(shp)
    X = X + 2.0 * rng.standard_normal(tuple(shape_f))
    fd = ("lat", "lon")[: len(shape_f)] if len(shape_f) > 1 else ("x",)
    coords = {}
    for d, s in zip(sdims + fd, shp):
        coords[d] = np.arange(s) * (10 if d in ("lat",) else 1)
    da = xr.DataArray(X, dims=sdims + fd, coords=coords)
    if nan_samples:
        da = da.copy()
        if two_sample_dims:
            n2 = shp[1]
            for q in nan_samples:
                da.values[(q // n2) % shp[0], q % n2] = np.nan
        else:
            da.values[list(nan_samples)] = np.nan
    return da, sdims


def compare(ctx, key, what, scores, tr, sdims, replay):
    """values at every sample that is not entirely missing, dims, labels, mode order"""
    ok = True
    why = ""
    if set(tr.dims) != set(scores.dims):
        ok, why = False, "dims %r vs %r" % (tr.dims, scores.dims)
    else:
        try:
            a = tr.transpose(*scores.dims)
            for d in sdims:
                if d in scores.coords and d in a.coords:
                    pass
            # align on labels: every label of the transform result must be a label of the scores
            valid = scores.dropna(sdims[0], how="all") if len(sdims) == 1 else scores
            av = a.dropna(sdims[0], how="all") if len(sdims) == 1 else a
            if len(sdims) > 1:
                # several sample dims: compare at every label; entirely missing samples may be omitted or NaN
                av = a.stack(__s=list(sdims)).dropna("__s", how="all")
                valid = scores.transpose(*a.dims).stack(__s=list(sdims)).dropna("__s", how="all")
                if [tuple(x) for x in av.indexes["__s"].tolist()] != [tuple(x) for x in valid.indexes["__s"].tolist()]:
                    ok, why = False, "sample labels differ"
            if len(sdims) == 1:
                if list(av[sdims[0]].values) != list(valid[sdims[0]].values):
                    ok, why = False, "sample labels differ: %r vs %r" % (list(av[sdims[0]].values)[:6], list(valid[sdims[0]].values)[:6])
            if ok and list(av["mode"].values) != list(valid["mode"].values):
                ok, why = False, "mode labels differ"
            if ok and not Z.same(av.values, valid.values, 1e-6):
                err = float(np.nanmax(np.abs(av.values - valid.values))) if av.shape == valid.shape else float("nan")
                ok, why = False, "values differ (max abs diff %.3g, scale %.3g)" % (err, float(np.nanmax(np.abs(valid.values))))
        except Exception as e:
            ok, why = False, "comparison failed: %r" % (e,)
    if not ok:
        ctx.violation(key, "%s: transform(training data) != scores: %s" % (what, why), replay)
    return ok


def run_single(ctx, rng, n_cases):
    specs = Z.specs()
    names = ["EOF", "ComplexEOF", "SparsePCA", "POP"]
    for i in range(n_cases):
        name = names[i % len(names)]
        sp = specs[name]
        n = int(rng.integers(6, 14))
        two_f = bool(rng.random() < 0.4)
        dims_feat = (2, int(rng.integers(2, 4))) if two_f else (int(rng.integers(3 if name == "POP" else 2, 6)),)
        two_s = bool(rng.random() < 0.3) and name != "POP"
        nan_s = tuple(sorted(set(rng.integers(0, n if not two_s else 2 * max(2, n // 2), size=int(rng.integers(1, 3))).tolist()))) if (rng.random() < 0.35 and name in ("EOF", "SparsePCA")) else ()
        da, sdims = structured(rng, n, dims_feat, cplx=sp.cplx, nan_samples=nan_s, two_sample_dims=two_s, red=sp.ordered)
        p = int(np.prod(dims_feat))
        nn = int(np.prod([da.sizes[d] for d in sdims])) - len(nan_s)
        k = int(rng.integers(1, max(2, min(nn - 1, p) if name != "POP" else 3)))
        k = max(1, min(k, min(nn, p)))
        kw = dict(standardize=bool(rng.random() < 0.3), use_coslat=bool(two_f and rng.random() < 0.4))
        if name == "POP":
            k = 2
        replay = dict(kind="single", cls=name, k=k, kw=kw, dims=da.dims, shape=da.shape, nan_samples=nan_s, data=np.asarray(da.values))
        ctx.case(("single", name, da.shape, k, str(kw), nan_s), nontrivial=nn >= 3 and p >= 2, tag="%s/%s%s" % (name, "nan" if nan_s else "plain", "/two-sample-dims" if two_s else ""),
                 sample=dict(cls=name, shape=list(da.shape), dims=list(da.dims), k=k, kw=kw, nan_samples=list(nan_s)))
        try:
            m = sp.make(k, **kw)
            m.fit(da, sdims if len(sdims) > 1 else sdims[0])
            sc = m.scores()
            tr = m.transform(da)
        except Exception as e:
            ctx.violation("C04:error:%s:%s%s" % (name, C.errkind(e), ":nan-sample+two-sample-dims" if (nan_s and two_s) else ""), "%s fit/transform raised %r" % (name, e), replay)
            continue
        compare(ctx, "C04:%s%s" % (name, ":nan-sample+two-sample-dims" if (nan_s and two_s) else ""), "%s(k=%d, %s)" % (name, k, kw), sc, tr, sdims, replay)
        if name in ("EOF", "ComplexEOF"):
            trn = m.transform(da, normalized=True)
            compare(ctx, "C04:%s:normalized" % name, "%s normalized" % name, m.scores(normalized=True), trn, sdims, replay)
            # rotators
            if k >= 2:
                for power in ([1, 2] if ctx.quick else [1, 2, 3]):
                    Rc = Z.rotator_for(name)
                    try:
                        rot = Rc(n_modes=int(rng.integers(2, k + 1)), power=power, max_iter=2000, rtol=1e-10)
                        rot.fit(m)
                        rs = rot.scores()
                        rt = rot.transform(da)
                    except RuntimeError as e:
                        if "converge" in str(e):
                            ctx.dist["rotation-did-not-converge"] += 1
                            continue
                        ctx.violation("C04:error:%sRotator:%s" % (name, C.errkind(e)), "%sRotator raised %r" % (name, e), replay)
                        continue
                    except Exception as e:
                        ctx.violation("C04:error:%sRotator:%s" % (name, C.errkind(e)), "%sRotator raised %r" % (name, e), replay)
                        continue
                    ctx.case(("rot", name, da.shape, k, power, str(kw), nan_s), nontrivial=True, tag="%sRotator/power%d" % (name, power))
                    compare(ctx, "C04:%sRotator:power%d" % (name, min(power, 2)), "%sRotator(power=%d) on %s(k=%d)" % (name, power, name, k), rs, rt, sdims,
                            dict(replay, power=power))


def run_presentations(ctx, rng, n_cases):
    """'the very data the model was fitted on', handed to transform in another presentation: dimensions transposed, the variables of a
    Dataset (a mapping) in another order, one variable transposed. Same numbers at the same labels: same scores."""
    import xarray as xr
    import xeofs as xe
    for i in range(n_cases):
        n, nlat, nlon = int(rng.integers(8, 14)), int(rng.integers(2, 4)), int(rng.integers(2, 4))
        t = np.arange(n)

        def arr(*shape):
            return rng.standard_normal(shape) * float(rng.uniform(0.5, 3.0)) + float(rng.standard_normal())
        a = xr.DataArray(arr(n, nlat, nlon), dims=("time", "lat", "lon"), coords={"time": t, "lat": np.arange(nlat) * 10.0, "lon": np.arange(nlon) * 5.0})
        b = xr.DataArray(arr(n, nlat, nlon), dims=("time", "lat", "lon"), coords=a.coords)
        c = xr.DataArray(arr(n, nlon), dims=("time", "lon"), coords={"time": t, "lon": a.lon})
        kind = ["DataArray", "Dataset", "Dataset-different-dims"][i % 3]
        if kind == "DataArray":
            data = a
            pres = [("transposed", a.transpose("lon", "time", "lat")), ("transposed2", a.transpose("lat", "lon", "time"))]
        else:
            data = xr.Dataset({"a": a, "b": b}) if kind == "Dataset" else xr.Dataset({"a": a, "c": c})
            names = list(data.data_vars)
            pres = [("variables-reordered", data[names[::-1]]), ("dataset-transposed", data.transpose("lon", "time", "lat")),
                    ("one-variable-transposed", data.assign({names[0]: data[names[0]].transpose("lon", "lat", "time")}))]
        k = int(rng.integers(1, 4))
        replay = dict(kind="presentation", structure=kind, k=k, a=np.asarray(a.values), b=np.asarray(b.values), c=np.asarray(c.values))
        try:
            m = xe.single.EOF(n_modes=k, solver="full", standardize=bool(rng.random() < 0.3))
            m.fit(data, "time")
            sc = m.scores()
        except Exception as e:
            ctx.violation("C04:error:EOF:%s:%s" % (kind, C.errkind(e)), "EOF fit on a %s raised %r" % (kind, e), replay)
            continue
        for pname, pd_ in pres:
            ctx.case(("pres", kind, pname, n, nlat, nlon, k, i), nontrivial=True, tag="EOF/%s/%s" % (kind, pname), sample=dict(cls="EOF", structure=kind, presentation=pname))
            try:
                tr = m.transform(pd_)
            except Exception as e:
                ctx.violation("C04:EOF:%s:%s:error:%s" % (kind, pname, C.errkind(e)), "EOF fitted on a %s: transform of the same data, %s, raised %r" % (kind, pname, e), dict(replay, presentation=pname))
                continue
            compare(ctx, "C04:EOF:%s:%s" % (kind, pname), "EOF fitted on a %s: transform of the same data, %s" % (kind, pname), sc, tr, ("time",), dict(replay, presentation=pname))


def run_cross(ctx, rng, n_cases):
    specs = Z.specs()
    names = ["CPCCA", "MCA", "CCA", "RDA", "ComplexCPCCA", "ComplexMCA"]
    for i in range(n_cases):
        name = names[i % len(names)]
        sp = specs[name]
        n = int(rng.integers(8, 16))
        p1, p2 = int(rng.integers(2, 6)), int(rng.integers(2, 6))
        X = Z.data2d(rng, n, p1, "x", cplx=sp.cplx)
        Y = Z.data2d(rng, n, p2, "y", cplx=sp.cplx)
        k = int(rng.integers(1, min(p1, p2) + 1))
        kw = dict(use_pca=bool(rng.random() < 0.5), n_pca_modes="all", standardize=bool(rng.random() < 0.3))
        if name in ("CPCCA", "ComplexCPCCA"):
            kw["alpha"] = [float(rng.choice([0.0, 0.3, 0.7, 1.0])), float(rng.choice([0.0, 0.3, 0.7, 1.0]))]
        replay = dict(kind="cross", cls=name, k=k, kw=kw, X=np.asarray(X.values), Y=np.asarray(Y.values))
        ctx.case(("cross", name, n, p1, p2, k, str(kw)), nontrivial=True, tag="%s/alpha=%s" % (name, kw.get("alpha")),
                 sample=dict(cls=name, shapes=[[n, p1], [n, p2]], k=k, kw=kw))
        try:
            m = sp.make(k, **kw)
            m.fit(X, Y, "time")
            s1, s2 = m.scores()
            t1, t2 = m.transform(X, Y)
        except Exception as e:
            ctx.violation("C04:error:%s:%s" % (name, C.errkind(e)), "%s fit/transform raised %r" % (name, e), replay)
            continue
        compare(ctx, "C04:%s:X" % name, "%s(k=%d, %s) field X" % (name, k, kw), s1, t1, ("time",), replay)
        compare(ctx, "C04:%s:Y" % name, "%s(k=%d, %s) field Y" % (name, k, kw), s2, t2, ("time",), replay)
        tx = m.transform(X=X)
        compare(ctx, "C04:%s:X-only" % name, "%s transform(X=...) alone" % name, s1, tx, ("time",), replay)
        # normalised scores, both fields together and the second field alone
        try:
            sn1, sn2 = m.scores(normalized=True)
            tn1, tn2 = m.transform(X, Y, normalized=True)
            compare(ctx, "C04:%s:X:normalized" % name, "%s(k=%d, %s) field X, normalized" % (name, k, kw), sn1, tn1, ("time",), replay)
            compare(ctx, "C04:%s:Y:normalized" % name, "%s(k=%d, %s) field Y, normalized" % (name, k, kw), sn2, tn2, ("time",), replay)
            compare(ctx, "C04:%s:Y-only:normalized" % name, "%s transform(Y=..., normalized=True) alone" % name, sn2, m.transform(Y=Y, normalized=True), ("time",), replay)
        except TypeError:
            ctx.dist["cross:scores-without-normalized-switch"] += 1
        except Exception as e:
            ctx.violation("C04:error:%s:normalized:%s" % (name, C.errkind(e)), "%s normalized scores/transform raised %r" % (name, e), replay)
        if k >= 2:
            Rc = Z.rotator_for(name)
            for power in ([1, 2] if ctx.quick else [1, 2, 3]):
                try:
                    rot = Rc(n_modes=k, power=power, max_iter=2000, rtol=1e-10)
                    history = (7919 * i + 19) if (i // len(names)) % 2 == 1 else 0
                    if history:
                        rh = np.random.default_rng(history)
                        X0, Y0 = C.other_like(rh, X), C.other_like(rh, Y)
                        m0 = sp.make(k, **kw)
                        m0.fit(X0, Y0, "time")
                        rot.fit(m0)
                        C.exercise(rot, X0, Y0)
                    rot.fit(m)
                    r1, r2 = rot.scores()
                    q1, q2 = rot.transform(X, Y)
                except RuntimeError as e:
                    if "converge" in str(e):
                        ctx.dist["rotation-did-not-converge"] += 1
                        continue
                    ctx.violation("C04:error:%sRotator:%s" % (name, C.errkind(e)), "%s rotator raised %r" % (name, e), replay)
                    continue
                except Exception as e:
                    ctx.violation("C04:error:%sRotator:%s" % (name, C.errkind(e)), "%s rotator raised %r" % (name, e), dict(replay, power=power))
                    continue
                a = kw.get("alpha", {"MCA": [1, 1], "ComplexMCA": [1, 1], "CCA": [0, 0], "RDA": [0, 1]}.get(name))
                whit = "alpha<1" if min(a) < 1 else "alpha=1"
                ctx.case(("xrot", name, n, p1, p2, k, power, str(kw)), nontrivial=True, tag="%sRotator/power%d/%s%s" % (name, power, whit, "/refit" if history else ""))
                compare(ctx, "C04:CPCCARotator:%s" % whit, "rotator(power=%d) on %s(k=%d, %s) field X" % (power, name, k, kw), r1, q1, ("time",), dict(replay, power=power))
                compare(ctx, "C04:CPCCARotator:%s" % whit, "rotator(power=%d) on %s(k=%d, %s) field Y" % (power, name, k, kw), r2, q2, ("time",), dict(replay, power=power))


def run_cross_lagged(ctx, rng, n_cases):
    """cross-set models whose second field carries OTHER sample labels than the first (a lagged analysis: rows are paired by position), on
    one sample dimension and on a stacked sample axis (two sample dimensions): every field's transform of its training data comes back with
    that field's own labels, both fields in one call and the second field alone, also after the first field transformed other data"""
    import xarray as xr
    import xeofs as xe
    for i in range(n_cases):
        kind = ["two-dims", "one-dim"][i % 2]
        name, cls, kw = [("MCA", xe.cross.MCA, {}), ("CCA", xe.cross.CCA, {}), ("CPCCA", xe.cross.CPCCA, {"alpha": 0.5})][(i // 2) % 3]
        p1, p2 = int(rng.integers(3, 5)), int(rng.integers(3, 5))

        def mk(years, p, fname):
            if kind == "two-dims":
                return xr.DataArray(rng.standard_normal((len(years), 3, p)), dims=("year", "month", fname),
                                    coords={"year": years, "month": [1, 2, 3], fname: np.arange(p)})
            return xr.DataArray(rng.standard_normal((len(years) * 3, p)), dims=("year", fname),
                                coords={"year": np.arange(len(years) * 3) + years[0] * 10, fname: np.arange(p)})
        sdims = ("year", "month") if kind == "two-dims" else ("year",)
        X, Y = mk([2000, 2001, 2002, 2003, 2004], p1, "x"), mk([2001, 2002, 2003, 2004, 2005], p2, "y")
        other = mk([1990, 1991, 1992, 1993, 1994], p1, "x")
        replay = dict(kind="cross-lagged", cls=name, structure=kind, X=np.asarray(X.values), Y=np.asarray(Y.values))
        ctx.case(("cross-lagged", name, kind, p1, p2, i), nontrivial=True, tag="%s/lagged/%s" % (name, kind), sample=dict(cls=name, structure=kind, lag="Y one year later"))
        try:
            m = cls(n_modes=2, use_pca=bool(i % 4 < 2), n_pca_modes="all", **kw)
            m.fit(X, Y, sdims if len(sdims) > 1 else sdims[0])
            s1, s2 = m.scores()
            t1, t2 = m.transform(X, Y)
            compare(ctx, "C04:%s:lagged:X" % name, "%s on differently stamped fields (%s), field X" % (name, kind), s1, t1, sdims, replay)
            compare(ctx, "C04:%s:lagged:Y" % name, "%s on differently stamped fields (%s), field Y" % (name, kind), s2, t2, sdims, replay)
            m.transform(X=other)
            compare(ctx, "C04:%s:lagged:Y-alone" % name, "%s on differently stamped fields (%s), field Y alone after field X transformed other data" % (name, kind),
                    s2, m.transform(Y=Y), sdims, replay)
        except Exception as e:
            ctx.violation("C04:error:%s:lagged:%s" % (name, C.errkind(e)), "%s on differently stamped fields (%s) raised %r" % (name, kind, e), replay)


def run_multi(ctx, rng, n_cases):
    import xeofs as xe
    for i in range(n_cases):
        n = int(rng.integers(12, 20))
        views = [Z.data2d(rng, n, int(rng.integers(3, 6)), "x%d" % j) for j in range(int(rng.integers(2, 4)))]
        # multi.CCA addresses the feature dimension by name: give every view the same dim name
        views = [v.rename({v.dims[1]: "x"}) for v in views]
        replay = dict(kind="multi", views=[np.asarray(v.values) for v in views])
        ctx.case(("multi", n, tuple(v.shape for v in views)), nontrivial=True, tag="multi.CCA/%d views" % len(views))
        try:
            m = xe.multi.CCA(n_modes=2, pca=bool(i % 2), init_pca_modes=1.0, variance_fraction=0.999)
            m.fit(views, "time")
            sc = m.scores()
            tr = m.transform(views)
        except Exception as e:
            ctx.violation("C04:multi.CCA:%s" % C.errkind(e), "multi.CCA fit/transform raised %r" % (e,), replay)
            continue
        for j, (s, t) in enumerate(zip(sc, tr)):
            compare(ctx, "C04:multi.CCA", "multi.CCA view %d" % j, s, t, ("time",), replay)


def run_rotators(ctx, rng, n_cases):
    """rotators with 3..6 modes: cases where the rotated modes are re-ordered by variance and carry different signs"""
    import xarray as xr
    for i in range(n_cases):
        name = ["EOF", "ComplexEOF"][i % 2]
        n, p = int(rng.integers(12, 22)), int(rng.integers(5, 10))
        X = rng.standard_normal((n, p)) @ np.diag(np.linspace(2.0, 0.5, p)) @ rng.standard_normal((p, p)) + rng.standard_normal(p)
        if name == "ComplexEOF":
            X = X + 1j * rng.standard_normal((n, p))
        da = xr.DataArray(X, dims=("time", "x"), coords={"time": np.arange(n), "x": np.arange(p)})
        k = int(rng.integers(3, min(7, p) + 1))
        power = int(rng.integers(1, 3))
        history = (7919 * i + 17) if i % 3 == 2 else 0
        replay = dict(kind="rotator", cls=name, k=k, power=power, data=np.asarray(X), history=history)
        try:
            m = Z.specs()[name].make(k, solver="full")
            m.fit(da, "time")
            rot = Z.rotator_for(name)(n_modes=k, power=power, max_iter=5000, rtol=1e-10)
            if history:
                # the rotator object rotated another model (unrelated data of the same structure) and was used before
                other = C.other_like(np.random.default_rng(history), da)
                m0 = Z.specs()[name].make(k, solver="full")
                m0.fit(other, "time")
                rot.fit(m0)
                C.exercise(rot, other)
            rot.fit(m)
            rs, rt = rot.scores(), rot.transform(da)
        except RuntimeError as e:
            if "converge" in str(e):
                ctx.dist["rotation-did-not-converge"] += 1
                continue
            ctx.violation("C04:error:%sRotator:%s" % (name, C.errkind(e)), "%sRotator raised %r" % (name, e), replay)
            continue
        order = [int(v) for v in np.asarray(rot.data["idx_modes_sorted"].values).tolist()] if "idx_modes_sorted" in rot.data else []
        sign = np.asarray(rot.data["modes_sign"].values).real.tolist() if "modes_sign" in rot.data else []
        reordered = order != sorted(order)
        mixed = len(set(np.sign(sign).tolist())) > 1
        ctx.dist["rotator:reordered=%s,mixed-signs=%s" % (reordered, mixed)] += 1
        ctx.case(("rot-many", name, n, p, k, power, i), nontrivial=True, tag="%sRotator/k%d/power%d%s" % (name, k, power, "/refit" if history else ""),
                 sample=dict(cls=name + "Rotator", shape=[n, p], k=k, power=power, reordered=reordered, mixed_signs=mixed, refit=bool(history)))
        compare(ctx, "C04:%sRotator:power%d" % (name, min(power, 2)), "%sRotator(power=%d, n_modes=%d)" % (name, power, k), rs, rt, ("time",), replay)


def run(ctx):
    C.setup_impl_env()
    rng = ctx.rng.child("c04").np
    run_single(ctx, rng, ctx.n(60, 500))
    run_rotators(ctx, rng, ctx.n(40, 300))
    run_presentations(ctx, rng, ctx.n(18, 180))
    run_cross(ctx, rng, ctx.n(48, 400))
    run_cross_lagged(ctx, rng, ctx.n(12, 120))
    run_multi(ctx, rng, ctx.n(6, 60))
    ctx.oblige("oracle:transform(training) == scores on every transform-capable class", "oracle", not ctx.violations)
    if ctx.extra.get("model_ok", True):
        from harness import flag
        flag.run(ctx, "C04", ctx.n(24, 240), classes=("EOFRotator", "MCARotator"))
        try:
            from props import rotcase
            rotcase.run_correspondence(ctx, "C04")
        except ImportError:
            ctx.notes.append("rotator correspondence module not built yet")


def search(ctx):
    """a tie broke without a failing input in the regular run: many more rotator and stacked-sample cases"""
    C.setup_impl_env()
    rng = ctx.rng.child("c04-search").np
    run_rotators(ctx, rng, 400)
    if not ctx.violations:
        run_single(ctx, rng, 300)


def replay(ctx, rp):
    run(ctx)
