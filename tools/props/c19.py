"""C19 — OPA returns uncorrelated series ordered by their own decorrelation time.

Divisor convention of every independent computation below (the same as `_Ctau` in the source, checked by the T5opa
tie): the lag-tau autocovariance of a series p of length n is  sum_{t < n - tau} p[t] p[t + tau] / (n - tau - 1)
— no re-centring of the two sub-series, divisor = (number of overlapping samples) - 1 — and the decorrelation time is
(1/2 c_0 + c_1 + ... + c_{tau_max - 1} + 1/2 c_{tau_max}) / c_0."""
import numpy as np

from harness import common as C
from harness import eofgen as G

ANCHORS = ["T5opa", "T3", "T9text"]
MODELS = ["OpaCase"]
TARGETS = ["Gen/T5opa.vo"]
RULE = ("time-ordered multivariate series: white noise and red-noise mixtures (independent AR(1) series with distinct, known coefficients "
        "mixed by a random matrix, optionally plus white noise), n 12..48 samples, 2..7 features, tau_max 1..n/3, n_pca_modes 2..rank, "
        "n_modes 1..n_pca_modes, center/standardize/use_coslat flags, 1-D and lat-lon layouts, solver='full'; in 30% of the cases the model object "
        "was fitted on unrelated data of the same structure and queried through every accessor, transform, compute() and serialize() before the "
        "fit under test; non-trivial: q >= 2, "
        "tau_max >= 1 and the implementation returned; distinct by input hash")
PARTIAL = ["the hypotheses `mT Ci = Ci` and `whiten_ok` of C19_decorrelation_is_trapezoid / C19_descending / C19_optimal_series are discharged for the "
           "source's own whitening matrix by C19_source_whitening_is_symmetric / C19_source_whitening_whitens (after the repair 599b03e; before it "
           "the source's Ci was symmetric only for U0 = +-I, and principal components of equal variance gave wrong signs and order)",
           "the eigen-decomposition of the target and the factorisation of C0 are oracles with checked residuals; "
           "existence and completeness of the eigen-oracle answer (spectral theorem) are not proved",
           "characteristic 2 excluded (1 + 1 <> 0) for the factor 1/2"]
REFUTED = ["C19_decorrelation_refuted is a theorem about the DEFECT variant of the model (use_svd_as_eig = true: singular values of the symmetric "
           "target taken as eigenvalues, what the source did before the F-19 repair): a 5 x 1 series has own trapezoidal sum -1/18 and reported "
           "decorrelation time +1/18. The variant tied to the source is selected by the generated flag opa_eigen_via_svd (C19_variant_matches_source)"]
TRUSTED = ["xarray semantics of shift/dropna/xr.dot (inner join on the sample labels) and of rename, as encoded by the T5opa translator",
           "numpy eigh/inv answers enter as oracle tables; their residuals are re-checked in Coq against the model's own matrices",
           "Coq.Reals axioms in C19_descending, C19_optimal, C19_optimal_series, C19_decorrelation_refuted"]
ASSUMES = ["more samples than retained PCs and full-rank retained PCs (C0 invertible); tau_max <= n/3 so every lag divisor is positive",
           "distinct singular values of the data and distinct |eigenvalues| of the target (otherwise the SVD factors are not unique); "
           "cases closer than 1e-6 (relative) are run through the Python oracles only",
           "real input data; float instance vs field instance differ by rounding only"]

RT = 1e-7
FIELD = {1: "shapes", 2: "normalised PCs (independent SVD / sqrt(n-1)) vs data['input_data']", 3: "C_tau vs numpy", 4: "lag sum M vs numpy",
         5: "factor oracle of C0", 6: "inverse oracle of C0_sqrt", 7: "C0_sqrt_inv not symmetric", 8: "Ci^T C0 Ci != I",
         9: "target vs numpy", 10: "target not symmetric", 11: "eigen-residual target U = U diag(lam)", 12: "U not orthogonal",
         13: "oracle answer not in the variant's order", 14: "reported decorrelation times", 15: "series", 16: "filter patterns",
         17: "patterns", 18: "norms", 19: "model own time vs signed eigenvalue", 20: "model own time vs numpy own time of the implementation's series",
         21: "reported time differs from own time (defect marker)"}


def source_facts():
    try:
        from py2coq import t5_opa
        return t5_opa.facts(C.REPO)[1]
    except Exception:
        return dict(eigen_via_svd=True)


# ------------------------------------------------------------------ independent formulas
def lagcov(S, tau):
    n = S.shape[0]
    return S[:n - tau].T @ S[tau:] / (n - tau - 1)


def lag_sum(S, tm):
    M = 0.5 * lagcov(S, 0)
    for tau in range(1, tm + 1):
        M = M + (0.5 if tau == tm else 1.0) * lagcov(S, tau)
    return M


def own_time(p, tm):
    """trapezoidal sum up to tau_max of the lagged autocorrelation of ONE series (divisor convention: module docstring)"""
    n = p.shape[0]
    ac = [float(p[:n - t] @ p[t:]) / (n - t - 1) for t in range(tm + 1)]
    tr = 0.5 * ac[0] + sum(ac[1:tm]) + 0.5 * ac[tm] if tm >= 1 else 0.5 * ac[0]
    return tr / ac[0]


# ------------------------------------------------------------------ generators
def gen_data(rng, kind, n, p):
    if kind == "wave":
        # propagating waves: pairs of principal components with (numerically) equal variance
        t = np.arange(n)
        per = [float(rng.choice([6, 8, 12])), float(rng.choice([3, 4]))]
        Sg = np.stack([3 * np.cos(2 * np.pi * t / per[0]), 3 * np.sin(2 * np.pi * t / per[0]),
                       np.cos(2 * np.pi * t / per[1]), np.sin(2 * np.pi * t / per[1])], axis=1)
        Qm, _ = np.linalg.qr(rng.standard_normal((max(p, 4), max(p, 4))))
        return (Sg @ Qm[:4])[:, :p] if p >= 4 else Sg[:, :p]
    if kind == "weak":
        # slow, weak signals under strong fast ones: near-white components of amplitude 2e5..4e5 over AR(1) components of amplitude one, mixed by
        # a rotation (well conditioned in double precision: amplitude ratio 1e-5, variance ratio 1e-11); every principal component is retained
        m1 = max(1, p // 2)
        Y = np.empty((n, p))
        a = np.concatenate([rng.uniform(0.0, 0.15, m1), np.sort(rng.uniform(0.85, 0.97, p - m1))[::-1]])
        y = rng.standard_normal(p)
        for t in range(n):
            Y[t] = y
            y = a * y + np.sqrt(1 - a * a) * rng.standard_normal(p)
        Y[:, :m1] *= rng.uniform(2e5, 4e5, m1)
        Qm, _ = np.linalg.qr(rng.standard_normal((p, p)))
        return Y @ Qm
    if kind == "white":
        X = rng.standard_normal((n, p)) * rng.uniform(0.5, 2.0, p)
    else:
        m = p if kind == "red" else max(1, p - int(rng.integers(0, 2)))
        a = np.sort(rng.uniform(0.05, 0.97, m))[::-1]
        for i in range(1, m):
            if a[i - 1] - a[i] < 0.04:
                a[i] = max(0.0, a[i - 1] - 0.04)
        Y = np.empty((n, m))
        y = rng.standard_normal(m)
        for t in range(n):
            Y[t] = y
            y = a * y + np.sqrt(1 - a * a) * rng.standard_normal(m)
        Mix = rng.standard_normal((m, p)) + 0.3 * np.eye(m, p)
        X = Y @ Mix
        if kind == "mixed" or m < p:
            X = X + 0.4 * rng.standard_normal((n, p))
    X = X + rng.standard_normal(p) * 3.0
    # fields in small or large physical units: nothing in the statement depends on them
    if rng.random() < 0.35:
        X = X * float(10.0 ** rng.integers(-8, 5))
    return X


def make_cfg(rng, i):
    kind = ["white", "red", "mixed", "wave", "weak"][i % 5]
    n = int(rng.integers(12, 49))
    p = int(rng.integers(2, 8))
    layout = "x"
    use_coslat = False
    if p % 2 == 0 and p >= 4 and rng.random() < 0.4:
        layout = "latlon"
        use_coslat = bool(rng.random() < 0.6)
    if kind == "wave":
        n = int(rng.choice([24, 36, 48]))       # whole periods: the two members of a pair have equal variance
        p = max(p, 4)
        layout, use_coslat = "x", False
    rank = min(n - 1, p) if kind != "wave" else 4
    q = int(rng.integers(2, rank + 1))
    if kind == "weak":
        n, q = max(n, 40) * 4, rank        # long enough for the weak series to be resolved; all components retained
        layout, use_coslat = "x", False
    k = int(rng.integers(1, q + 1))
    tm = int(rng.integers(1, n // 3 + 1))
    cfg = dict(kind=kind, n=n, p=p, q=q, k=k, tau_max=tm, center=bool(rng.random() < 0.8), standardize=bool(rng.random() < 0.3) and kind not in ("wave", "weak"),
               use_coslat=use_coslat, layout=layout)
    X = gen_data(rng, kind, n, p)
    cfg["history"] = int(rng.integers(1, 1 << 30)) if rng.random() < 0.3 else 0
    return cfg, X


def build_da(cfg, X):
    import xarray as xr
    n, p = X.shape
    if cfg["layout"] == "latlon":
        nlat, nlon = 2, p // 2
        return xr.DataArray(X.reshape(n, nlat, nlon), dims=("time", "lat", "lon"),
                            coords={"time": np.arange(n), "lat": np.array([-35.0, 50.0]), "lon": np.arange(nlon) * 20.0})
    return xr.DataArray(X, dims=("time", "x"), coords={"time": np.arange(n), "x": np.arange(p)})


# ------------------------------------------------------------------ implementation driver
def run_impl(cfg, X):
    import xeofs as xe
    da = build_da(cfg, X)
    m = xe.single.OPA(n_modes=cfg["k"], tau_max=cfg["tau_max"], n_pca_modes=cfg["q"], center=cfg["center"],
                      standardize=cfg["standardize"], use_coslat=cfg["use_coslat"], solver="full")
    if cfg.get("history"):
        # the same object was fitted on other data and used before: every answer below must be that of the last fit
        rngh = np.random.default_rng(cfg["history"])
        other = C.other_like(rngh, da)
        m.fit(other, "time")
        C.exercise(m, other)
    m.fit(da, "time")
    d = m.data
    sn, fn = m.sample_name, m.feature_name
    fdims = [x for x in da.dims if x != "time"]

    def phys(a):
        a = a.stack(_f=fdims) if len(fdims) > 1 else a.rename({fdims[0]: "_f"})
        return np.asarray(a.transpose("_f", "mode").values)

    rec = dict(S=np.asarray(d["input_data"].transpose(sn, fn).values),
               P=np.asarray(d["scores"].transpose(sn, "mode").values),
               Vd=np.asarray(d["filter_patterns"].transpose(fn, "mode").values),
               Wd=np.asarray(d["components"].transpose(fn, "mode").values),
               tau=np.asarray(d["decorrelation_time"].values, dtype=float), norms=np.asarray(d["norms"].values, dtype=float),
               Xpre=np.asarray(m.preprocessor.transform(da).transpose(sn, fn).values),
               scores_api=np.asarray(m.scores().transpose("time", "mode").values),
               tau_api=np.asarray(m.decorrelation_time().values, dtype=float),
               comps_api=phys(m.components()), filt_api=phys(m.filter_patterns()))
    return rec


# ------------------------------------------------------------------ property oracles on the public results
def oracles(ctx, cfg, rec, replay, rng):
    n, q, k, tm = cfg["n"], cfg["q"], cfg["k"], cfg["tau_max"]
    S, sc, rep = rec["S"], rec["scores_api"], rec["tau_api"]
    short = {kk: cfg[kk] for kk in ("kind", "n", "p", "q", "k", "tau_max", "center", "standardize", "use_coslat", "layout")}
    info = dict(neg_modes=[], degenerate=False)
    if not np.array_equal(rec["tau_api"], rec["tau"]) or not np.array_equal(sc, rec["P"]):
        ctx.violation("C19:accessors", "decorrelation_time()/scores() differ from the stored arrays", replay)
    # (a) mutually uncorrelated, equal norms
    Gm = sc.T @ sc
    dg = np.diag(Gm)
    off = np.abs(Gm - np.diag(dg)).max() if k > 1 else 0.0
    if not (off <= 1e-8 * dg.max() and np.ptp(dg) <= 1e-8 * dg.max()):
        ctx.violation("C19:scores-uncorrelated", "OPA scores are not mutually uncorrelated with equal norms: Gram matrix %r (%r)" % (np.round(Gm, 8).tolist(), short), replay)
    if abs(dg.max() - (n - 1)) > 1e-7 * (n - 1):
        ctx.violation("C19:scores-norm", "squared norm of the score series is %r, expected n_samples - 1 = %d" % (dg.tolist(), n - 1), replay)
    # (a') "uncorrelated" and "autocorrelation" are statements about deviations from the series' own means
    scm = sc - sc.mean(axis=0)
    if k > 1 and np.all(scm.std(axis=0) > 0):
        R = np.corrcoef(scm.T)
        offc = float(np.abs(R - np.diag(np.diag(R))).max())
        if offc > 1e-7:
            ctx.violation("C19:scores-correlated", "OPA score series are correlated: largest |Pearson correlation| between two series is %.3g (%r)" % (offc, short), replay)
    sdv = scm.std(axis=0)
    if np.ptp(sdv) > 1e-7 * max(sdv.max(), 1e-300):
        ctx.violation("C19:scores-unequal-spread", "OPA score series have unequal standard deviations %r (%r)" % (np.round(sdv, 8).tolist(), short), replay)
    for j in range(k):
        oc = own_time(scm[:, j], tm)
        if abs(oc - own_time(sc[:, j], tm)) > 1e-6 * max(1.0, abs(oc)):
            ctx.violation("C19:decorrelation-of-mean-removed-series", "mode %d: the autocorrelation sum of the series about its own mean is %.10g, decorrelation_time() reports %.10g (%r)"
                          % (j + 1, oc, rep[j], short), replay)
            break
    # (b) filter patterns bi-orthogonal to the optimally persistent patterns (public, physical space)
    B = rec["filt_api"].T @ rec["comps_api"]
    bd = np.diag(B)
    boff = np.abs(B - np.diag(bd)).max() if k > 1 else 0.0
    if not (boff <= 1e-7 * np.abs(bd).max() and np.ptp(bd) <= 1e-7 * np.abs(bd).max() and bd.min() > 0):
        ctx.violation("C19:biorthogonal", "filter_patterns()^T components() is not a positive multiple of the identity: %r (%r)" % (np.round(B, 8).tolist(), short), replay)
    # (c) each reported decorrelation time vs that very series' own trapezoidal sum
    own = np.array([own_time(sc[:, j], tm) for j in range(k)])
    scale = max(1.0, np.abs(own).max(), np.abs(rep).max())
    tol = 1e-7 * scale
    for j in range(k):
        if abs(rep[j] - own[j]) <= tol:
            continue
        if own[j] < 0 and abs(rep[j] + own[j]) <= tol:
            info["neg_modes"].append(j)
            ctx.violation("C19:decorrelation-sign",
                          "OPA(%s data %dx%d, tau_max=%d, n_pca_modes=%d, n_modes=%d): mode %d has own trapezoidal lag sum %.10g (negative) but "
                          "decorrelation_time() reports %.10g — the singular value of the symmetric target, i.e. the sign is dropped"
                          % (cfg["kind"], n, cfg["p"], tm, q, k, j + 1, own[j], rep[j]), replay)
        else:
            ctx.violation("C19:decorrelation-trapezoid", "mode %d: decorrelation_time() %.10g differs from the own trapezoidal lag sum %.10g of its score series (%r)"
                          % (j + 1, rep[j], own[j], short), replay)
    # (d) order
    if np.any(np.diff(rep) > tol):
        ctx.violation("C19:reported-not-descending", "decorrelation_time() is not in descending order: %r (%r)" % (rep.tolist(), short), replay)
    # independent eigen-problem of the retained PCs
    C0 = lagcov(S, 0)
    Msym = lag_sum(S, tm)
    Msym = Msym + Msym.T
    w0, Q0 = np.linalg.eigh(C0)
    Cih = (Q0 * w0 ** -0.5) @ Q0.T
    Tref = 0.5 * Cih @ Msym @ Cih
    Tref = 0.5 * (Tref + Tref.T)
    lam, Ue = np.linalg.eigh(Tref)
    lam, Ue = lam[::-1], Ue[:, ::-1]
    best = lam[:k]
    by_abs = np.all(np.diff(np.abs(own)) <= tol)
    wrong_order = bool(np.any(np.diff(own) > tol))
    wrong_set = bool(np.abs(np.sort(own)[::-1] - best).max() > 1e-6 * scale)
    # (e) optimality against random combinations of the retained PCs and against the exact maximiser
    worst = -np.inf
    for _ in range(25):
        v = rng.standard_normal(q)
        worst = max(worst, own_time(S @ v, tm))
    vstar = Cih @ Ue[:, 0]
    tstar = own_time(S @ vstar, tm)
    worst = max(worst, tstar)
    not_opt = bool(worst > own[0] + 1e-6 * scale)
    if wrong_order or wrong_set or not_opt:
        if by_abs and (np.any(own < -tol) or np.abs(lam).max() > lam.max() + tol or wrong_set):
            ctx.violation("C19:order-by-absolute-value",
                          "OPA(%s data %dx%d, tau_max=%d, n_pca_modes=%d, n_modes=%d): modes are selected and ordered by |decorrelation sum|: own times of the "
                          "returned modes %r; the %d most persistent uncorrelated combinations of the retained PCs have %r%s"
                          % (cfg["kind"], n, cfg["p"], tm, q, k, np.round(own, 10).tolist(), k, np.round(best, 10).tolist(),
                             "; a combination of the retained PCs reaches %.10g > first mode %.10g" % (worst, own[0]) if not_opt else ""), replay)
        else:
            if wrong_order:
                ctx.violation("C19:own-times-not-descending", "own decorrelation times of the modes are not descending: %r (%r)" % (own.tolist(), short), replay)
            if not_opt:
                ctx.violation("C19:not-optimal", "a combination of the retained PCs has decorrelation time %.10g > first mode %.10g (%r)" % (worst, own[0], short), replay)
            if wrong_set and not (wrong_order or not_opt):
                ctx.violation("C19:not-the-most-persistent", "returned modes %r are not the %d most persistent ones %r (%r)" % (own.tolist(), k, best.tolist(), short), replay)
    if abs(tstar - lam[0]) > 1e-6 * scale:
        ctx.notes.append("harness: exact maximiser's own time %.10g differs from the largest eigenvalue %.10g (%r)" % (tstar, lam[0], short))
    info.update(own=own, lam=lam, Ue=Ue, Tref=Tref, Msym=Msym, C0=C0)
    return info


# ------------------------------------------------------------------ Coq case
def coq_record(cfg, rec, info, svd):
    """oracle tables for the model; None when the SVD factors are not unique enough to be compared"""
    n, p, q, k, tm = cfg["n"], cfg["p"], cfg["q"], cfg["k"], cfg["tau_max"]
    S = rec["S"]
    Xc = rec["Xpre"] - rec["Xpre"].mean(axis=0)
    u, s, vt = np.linalg.svd(Xc, full_matrices=False)
    if q < len(s) and (s[q - 1] - s[q]) <= 1e-6 * s[0]:
        return None
    if np.any(-np.diff(s[:q]) <= 1e-6 * s[0]) or s[q - 1] <= 1e-6 * s[0]:
        return None
    A = u[:, :q] * s[:q]
    E = vt[:q].T
    sg = np.sign(np.sum(A * S, axis=0))
    sg[sg == 0] = 1.0
    A, E = A * sg, E * sg
    # factor oracle of C0 (model's own C0 is recomputed in Coq from A / sqrt(n-1))
    C0 = info["C0"]
    w, Q = np.linalg.eigh(C0)
    w, Q = w[::-1], Q[:, ::-1]
    Q = Q * np.where(np.diag(Q) < 0, -1.0, 1.0)
    Ci = (Q / np.sqrt(w)) @ Q.T          # the symmetric inverse square root, as the source builds it
    Msym = info["Msym"]
    T = 0.5 * Ci @ Msym @ Ci
    lam, U = np.linalg.eigh(0.5 * (T + T.T))
    order = np.argsort(-np.abs(lam) if svd else -lam, kind="stable")
    lam, U = lam[order], U[:, order]
    key = np.abs(lam) if svd else lam
    if q > 1 and np.any(-np.diff(key) <= 1e-6 * max(1.0, np.abs(lam).max())):
        return None
    if np.any(np.abs(np.diff(np.sort(lam))) <= 1e-6 * max(1.0, np.abs(lam).max())):
        return None
    V = Ci @ U
    sg = np.sign(np.sum((S @ V[:, :k]) * rec["P"], axis=0))
    sg[sg == 0] = 1.0
    U[:, :k] = U[:, :k] * sg
    Crefs = [lagcov(S, t) for t in range(tm + 1)]
    return dict(n=n, p=p, q=q, k=k, tm=tm, A=A, E=E, S=S, U0=Q, s0=w, Ci=Ci, Crefs=Crefs, Mref=lag_sum(S, tm), Tref=info["Tref"], U=U, lam=lam,
                Vphys=rec["Vd"], Wphys=rec["Wd"], P=rec["P"], tau=rec["tau"], norms=rec["norms"], own=info["own"], cfg=cfg,
                neg=bool(info["neg_modes"]))


def coq_text(r):
    m = lambda a: G.c_mat(np.asarray(a, dtype=float), False)  # noqa
    v = lambda a: G.c_vec(np.asarray(a, dtype=float), False)  # noqa
    return "mkOC %d %d %d %d %d %s %s %s %s %s %s %s %s %s %s %s %s %s %s %s %s %s" % (
        r["n"], r["p"], r["q"], r["k"], r["tm"], m(r["A"]), m(r["E"]), m(r["S"]), m(r["U0"]), v(r["s0"]), m(r["Ci"]),
        "[" + "; ".join(m(c) for c in r["Crefs"]) + "]", m(r["Mref"]), m(r["Tref"]), m(r["U"]), v(r["lam"]),
        m(r["Vphys"]), m(r["Wphys"]), m(r["P"]), v(r["tau"]), v(r["norms"]), v(r["own"]))


def correspondence(ctx, recs):
    files, plan = [], []
    SH = 25
    for sh in range(0, len(recs), SH):
        part = recs[sh:sh + SH]
        body = [C.COQ_HEADER, "From XV Require Import Base.Scalar Base.Mat Base.Instances Model.Opa Model.OpaCase Gen.T5opa.\n",
                "Definition cases : list (opa_case (F:=float)) := [\n" + ";\n".join(coq_text(r) for r in part) + "].\n",
                "Eval vm_compute in check_opas_f64 opa_eigen_via_svd %s cases.\n" % C.cf(RT)]
        f = C.write_case_file("C19", "opa%d" % (sh // SH), "\n".join(body))
        files.append(f)
        plan.append((f, part))
    res = C.coq_eval_files(files)
    nbad, ncmp, ok, marker_bad, nmark = 0, 0, True, 0, 0
    for f, part in plan:
        rc, out = res[f]
        if rc != 0:
            ok = False
            ctx.oblige("correspondence:%s" % f.split("/")[-1], "correspondence", False, out[-600:])
            continue
        pairs = C.parse_pairs((C.parse_evals(out) or [""])[0])
        ncmp += len(part)
        ctx.traces += len(part)
        marked = set()
        for ci, fld in pairs:
            if fld == 21:
                marked.add(ci)
                continue
            nbad += 1
            cfg = part[ci]["cfg"]
            ctx.notes.append("OPA model/impl disagree: %s %r" % (FIELD.get(fld, fld), cfg))
            ctx.extra.setdefault("disagreements", []).append(dict(field=FIELD.get(fld, fld), cfg=cfg))
        nmark += len(marked)
        for ci, r in enumerate(part):
            if (ci in marked) != r["neg"]:
                marker_bad += 1
                ctx.notes.append("defect marker mismatch (Coq %s, Python %s): %r" % (ci in marked, r["neg"], r["cfg"]))
    ctx.extra["cases_where_model_reports_other_than_own_time"] = nmark
    ctx.oblige("correspondence:opa-model (%d cases, rtol %g)" % (ncmp, RT), "correspondence", ok and nbad == 0 and ncmp > 0,
               "%d field disagreements: %s" % (nbad, "; ".join(ctx.notes[-5:])))
    ctx.oblige("correspondence:faithful model reproduces the sign defect on exactly the cases where the implementation shows it (%d)" % nmark,
               "correspondence", ok and marker_bad == 0, "%d mismatches" % marker_bad)


def one(ctx, cfg, X, rng, recs=None, svd=True):
    replay = dict(cfg=cfg, data=np.asarray(X))
    tag = "%s/%s%s%s/%s" % (cfg["kind"], "c" if cfg["center"] else "-", "s" if cfg["standardize"] else "-", "w" if cfg["use_coslat"] else "-",
                            "k=q" if cfg["k"] == cfg["q"] else "k<q")
    ctx.case(("c19", cfg["kind"], cfg["n"], cfg["p"], cfg["q"], cfg["k"], cfg["tau_max"], cfg["center"], cfg["standardize"], cfg["use_coslat"],
              cfg["layout"], bool(cfg.get("history")), C.canon_hash(np.asarray(X).round(12).tolist())), nontrivial=cfg["q"] >= 2 and cfg["tau_max"] >= 1,
             tag=tag + ("/refit" if cfg.get("history") else ""),
             sample=dict(kind=cfg["kind"], shape=[cfg["n"], cfg["p"]], tau_max=cfg["tau_max"], n_pca_modes=cfg["q"], n_modes=cfg["k"],
                         center=cfg["center"], standardize=cfg["standardize"], use_coslat=cfg["use_coslat"], layout=cfg["layout"]))
    try:
        rec = run_impl(cfg, X)
    except Exception as e:
        ctx.violation("C19:error:%s:%s" % (cfg["kind"], C.errkind(e)), "OPA fit raised %r on %r" % (e, cfg), replay)
        return
    if rec["S"].shape != (cfg["n"], cfg["q"]) or rec["P"].shape != (cfg["n"], cfg["k"]):
        ctx.violation("C19:shape", "input_data %r / scores %r, expected %r / %r" % (rec["S"].shape, rec["P"].shape, (cfg["n"], cfg["q"]), (cfg["n"], cfg["k"])), replay)
        return
    info = oracles(ctx, cfg, rec, replay, rng)
    if recs is not None:
        r = coq_record(cfg, rec, info, svd)
        if r is None:
            ctx.dist["correspondence-skipped:near-degenerate"] += 1
        else:
            recs.append(r)


def run(ctx):
    C.setup_impl_env()
    C.clean_case_files("C19")
    svd = bool(source_facts().get("eigen_via_svd", True))
    ctx.extra["source_takes_singular_values_as_eigenvalues"] = svd
    rng = ctx.rng.child("c19").np
    recs = []
    for i in range(ctx.n(150, 2000)):
        cfg, X = make_cfg(rng, i)
        one(ctx, cfg, X, rng, recs, svd)
    ctx.oblige("oracle:OPA scores uncorrelated, bi-orthogonal patterns, own trapezoidal decorrelation time, order, optimality", "oracle", not ctx.violations)
    if ctx.extra.get("model_ok", True):
        correspondence(ctx, recs)


def search(ctx):
    """a tie broke without a failing input so far: more cases, oracles only"""
    C.setup_impl_env()
    rng = ctx.rng.child("c19-search").np
    t0 = C.now()
    budget = 50 if ctx.quick else 500
    i = 0
    while C.now() - t0 < budget and not ctx.violations and i < 3000:
        cfg, X = make_cfg(rng, i)
        one(ctx, cfg, X, rng, None)
        i += 1


def replay(ctx, rp):
    C.setup_impl_env()
    C.clean_case_files("C19")
    r = rp.get("replay", rp)
    if "cfg" not in r:
        return run(ctx)
    cfg = r["cfg"]
    X = np.asarray(r["data"], dtype=float)
    svd = bool(source_facts().get("eigen_via_svd", True))
    recs = []
    one(ctx, cfg, X, ctx.rng.child("c19-replay").np, recs, svd)
    ctx.oblige("oracle:replayed case", "oracle", not ctx.violations)
    if recs and ctx.extra.get("model_ok", True):
        correspondence(ctx, recs)
