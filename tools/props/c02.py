"""C02 — outputs keep the input's structure and attach every value to its own label."""
import numpy as np

from harness import common as C
from harness import layouts as L

ANCHORS = ["T7pipe", "T7unseen", "T7chain", "T9text"]
MODELS = ["NdCase", "Pipe", "PipeCase", "Concat", "ConcatCase"]
RULE = ("layouts enumerated: container (DataArray/Dataset/list) x 1..3 sample dims x 1..3 feature dims x dimension orders x index kind per "
        "dimension (ascending, unsorted, string, datetime, MultiIndex) x Dataset variables with equal/different dimension sets x extra "
        "non-index coordinates x default/custom sample/feature names, sizes 2-3 per dimension, unique integer-valued entries so every "
        "comparison is exact; non-trivial: >= 2 dims and >= 4 values; distinct by layout hash")
PARTIAL = ["xarray's own stack/unstack/to_stacked_array/reindex semantics are modelled, not verified; the model is validated on every enumerated layout"]
REFUTED = []
TRUSTED = ["xarray stack = row-major product order of the given dimension tuple; to_stacked_array = variable-major concatenation"]
ASSUMES = ["dimension coordinates are duplicate-free"]


def label_table(da):
    """values keyed by the tuple of dimension-coordinate labels (order-insensitive along each dimension)"""
    import pandas as pd
    da = da.reset_index([d for d in da.dims if isinstance(da.indexes.get(d), pd.MultiIndex)]) if False else da
    dims = list(da.dims)
    labs = []
    for d in dims:
        idx = da.indexes[d] if d in da.indexes else None
        if idx is None:
            labs.append([("pos", i) for i in range(da.sizes[d])])
        else:
            labs.append([repr(x) for x in idx.tolist()])
    tab = {}
    vals = np.asarray(da.values)
    for pos in np.ndindex(*vals.shape):
        key = tuple(labs[k][pos[k]] for k in range(len(dims)))
        tab[key] = vals[pos]
    return dims, tab


def same_structure(ctx, key, what, orig, back, replay, allow_nan_extra=False):
    import xarray as xr
    ok, why = True, ""
    if type(orig) is not type(back):
        ok, why = False, "container type %s became %s" % (type(orig).__name__, type(back).__name__)
    elif isinstance(orig, list):
        if len(orig) != len(back):
            ok, why = False, "list length"
        else:
            for i, (a, b) in enumerate(zip(orig, back)):
                if not same_structure(ctx, key, "%s item %d" % (what, i), a, b, replay):
                    return False
            return True
    elif isinstance(orig, xr.Dataset):
        if list(orig.data_vars) != list(back.data_vars):
            ok, why = False, "variable names %r vs %r" % (list(orig.data_vars), list(back.data_vars))
        else:
            for v in orig.data_vars:
                if not same_structure(ctx, key, "%s variable %s" % (what, v), orig[v], back[v], replay):
                    return False
            return True
    else:
        if tuple(orig.dims) != tuple(back.dims):
            ok, why = False, "dimensions %r came back as %r" % (orig.dims, back.dims)
        else:
            d1, t1 = label_table(orig)
            d2, t2 = label_table(back)
            if set(t1) != set(t2):
                ok, why = False, "label sets differ (%d vs %d entries)" % (len(t1), len(t2))
            else:
                for k_ in t1:
                    a, b = t1[k_], t2[k_]
                    if not (a == b or (np.isnan(a) and np.isnan(b))):
                        ok, why = False, "value at label %r is %r, input has %r" % (k_, b, a)
                        break
    if not ok:
        ctx.violation(key, "%s: %s" % (what, why), replay)
    return ok


def align_dims(orig, back):
    """`back` with every array transposed to the dimension order of its counterpart in `orig` (where the dimension sets agree): for
    comparisons that are about values and labels, not about the order of dimensions"""
    import xarray as xr
    if isinstance(orig, list) and isinstance(back, list) and len(orig) == len(back):
        return [align_dims(a, b) for a, b in zip(orig, back)]
    if isinstance(orig, xr.Dataset) and isinstance(back, xr.Dataset) and list(orig.data_vars) == list(back.data_vars):
        return xr.Dataset({v: align_dims(orig[v], back[v]) for v in orig.data_vars})
    if isinstance(orig, xr.DataArray) and isinstance(back, xr.DataArray) and set(orig.dims) == set(back.dims):
        return back.transpose(*orig.dims)
    return back


def item_for_model(da, sample_dims, ns_expected):
    """shape, row-major data and dimension order (sample dims first, in the user's order) of one item"""
    dims = list(da.dims)
    sd = [d for d in sample_dims]
    fd = [d for d in dims if d not in sd]
    order = [dims.index(d) for d in sd] + [dims.index(d) for d in fd]
    return list(da.shape), np.asarray(da.values, dtype=float).ravel().tolist(), order


def run_accessors(ctx, rng):
    """every public accessor of every single-set model class returns the sample labels / feature labels of the input: data
    with a fully missing sample, unsorted labels, one and two sample dimensions (with a transform of other data in between)"""
    import xarray as xr
    import xeofs as xe
    from harness import zoo as Z
    specs = Z.specs()
    SAMPLE_ACC = ("scores", "scores_amplitude", "scores_phase")
    FEATURE_ACC = ("components", "components_amplitude", "components_phase", "filter_patterns")
    for name in ("EOF", "ComplexEOF", "HilbertEOF", "SparsePCA", "POP", "OPA", "ExtendedEOF"):
        sp = specs[name]
        for two in (False, True):
            if two and sp.ordered:
                continue
            nt, nm, p = 8, (3 if two else 1), 4
            X = rng.standard_normal((nt, nm, p)) + (1j * rng.standard_normal((nt, nm, p)) if sp.cplx else 0)
            tl = np.array([3, 9, 1, 7, 5, 11, 13, 15]) if not sp.ordered else np.arange(nt)
            xl = np.array([40.0, 10.0, 30.0, 20.0])
            da = xr.DataArray(X, dims=("time", "member", "x"), coords={"time": tl, "member": np.arange(nm) + 10, "x": xl})
            if not sp.ordered:
                da[4, 0, :] = np.nan                       # a fully missing sample
            if not two:
                da = da.isel(member=0, drop=True)
            dim = ("time", "member") if two else "time"
            lay = dict(kind="accessors", cls=name, two_sample_dims=two)
            ctx.case(lay, nontrivial=True, tag="accessors/%s/%s" % (name, "two-sample-dims" if two else "one-sample-dim"))
            for rot in (False, True):
                if rot and Z.rotator_for(name) is None:
                    continue
                try:
                    m = sp.make(2)
                    m.fit(da, dim)
                    if two and name in ("EOF", "ComplexEOF", "SparsePCA"):
                        other = da.assign_coords(time=tl + 100, member=da.member.values + 50).fillna(0.5)
                        m.transform(other)
                    obj = m
                    if rot:
                        obj = Z.rotator_for(name)(n_modes=2, max_iter=3000)
                        obj.fit(m)
                        if two and name in ("EOF", "ComplexEOF"):
                            obj.transform(other)
                except RuntimeError:
                    continue
                except Exception as e:
                    ctx.violation("C02:accessors:%s:error:%s" % (name, C.errkind(e)), "%s%s on data with a fully missing sample raised %r" % (name, "Rotator" if rot else "", e), dict(kind="layout", layout=lay))
                    continue
                label = name + ("Rotator" if rot else "")
                for acc in SAMPLE_ACC + FEATURE_ACC:
                    fn = getattr(obj, acc, None)
                    if fn is None:
                        continue
                    try:
                        out = fn()
                    except NotImplementedError:
                        continue
                    except Exception as e:
                        ctx.violation("C02:accessors:%s:%s:error" % (label, acc), "%s.%s() raised %r" % (label, acc, e), dict(kind="layout", layout=lay))
                        continue
                    want = [d for d in da.dims if (d in ("time", "member")) == (acc in SAMPLE_ACC)]
                    extra = {"mode"} | ({"embedding"} if name == "ExtendedEOF" and acc in FEATURE_ACC else set())
                    ok = set(out.dims) == set(want) | extra
                    why = "dims %r" % (out.dims,)
                    if ok and name == "ExtendedEOF" and acc in SAMPLE_ACC:
                        want_t = None          # the lag windows shorten the sample axis: not an input label set
                    else:
                        for d in want:
                            if ok and sorted(out[d].values.tolist()) != sorted(da[d].values.tolist()):
                                ok, why = False, "labels along %s are %r, the input has %r" % (d, out[d].values.tolist()[:5], da[d].values.tolist()[:5])
                    if not ok:
                        ctx.violation("C02:accessors:%s:%s" % (label, acc), "%s.%s() on %s: %s" % (label, acc, "two sample dims after transform(other data)" if two else "one sample dim with a fully missing sample", why),
                                      dict(kind="layout", layout=lay, accessor=acc))


def run(ctx):
    C.setup_impl_env()
    C.clean_case_files("C02")
    import xarray as xr
    import xeofs as xe
    from xeofs.preprocessing.preprocessor import Preprocessor
    rng = ctx.rng.child("c02").np
    lays = L.layouts(rng, quick=ctx.quick)
    cases, metas = [], []
    for lay in lays:
        try:
            obj, items = L.build(lay, rng)
        except Exception as e:
            ctx.notes.append("layout could not be built: %r" % (e,))
            continue
        sdims = lay["sample_dims"]
        replay = dict(kind="layout", layout=lay)
        nontriv = len(lay["dims"]) >= 2
        tag = "%s/ns%d/nf%d/%s%s" % (lay["container"], len(sdims), len(lay["dims"]) - len(sdims),
                                    "mi-" + lay["multiindex"] if lay["multiindex"] else "plain",
                                    "/ds-different" if lay["container"] == "Dataset" and lay["ds_mode"] == "different" else "")
        ctx.case(lay, nontrivial=nontriv, tag=tag, sample=lay)
        key = "C02:%s" % lay["container"]
        if lay["container"] == "Dataset" and lay["ds_mode"] == "different" and lay["multiindex"] is None:
            key = "C02:Dataset:different-dim-sets"
        if lay["multiindex"]:
            key += ":multiindex-" + lay["multiindex"]
        sname, fname = lay["names"]
        # ---- 1. the preprocessing chain and its exact reverse, flags off
        try:
            pp = Preprocessor(sample_name=sname, feature_name=fname, with_center=False, with_std=False, with_coslat=False)
            X2 = pp.fit_transform(obj, tuple(sdims))
            back = pp.inverse_transform_data(X2)
        except Exception as e:
            sig = "aux-coord" if "not present in all datasets" in str(e) else C.errkind(e)
            ctx.violation(key + ":error:" + sig, "Preprocessor round trip raised %r on layout %s" % (e, tag), replay)
            continue
        ok1 = same_structure(ctx, key + ":roundtrip", "Preprocessor.inverse_transform_data(fit_transform(x)) on %s" % tag, obj, back, replay)
        # ---- 1b. projecting OTHER data (the samples in reverse order) in between must not change where the fitted values go
        if ok1:
            def rev(o):
                if isinstance(o, list):
                    return [rev(x) for x in o]
                return o.isel({d: slice(None, None, -1) for d in sdims if d in o.dims})
            try:
                pp.transform(rev(obj))
                back2 = pp.inverse_transform_data(X2)
                same_structure(ctx, key + ":roundtrip-after-transform", "Preprocessor.inverse_transform_data(fit_transform(x)) after transform(other data) on %s" % tag,
                               obj, back2, replay)
            except Exception as e:
                ctx.violation(key + ":roundtrip-after-transform:error:" + C.errkind(e), "Preprocessor.transform(other data) / inverse raised %r on layout %s" % (e, tag), replay)
        # ---- 1c. the same data in another presentation (every array transposed, each list item its own way): values stay at their labels
        if ok1 and lay["multiindex"] is None:
            def turned(o, q=0):
                if isinstance(o, list):
                    return [turned(x, j + 1) for j, x in enumerate(o)]
                if isinstance(o, xr.Dataset):
                    return o.transpose(*list(o.dims)[::-1])
                dd = list(o.dims)
                return o.transpose(*(dd[::-1] if q % 2 == 0 else dd[1:] + dd[:1]))
            try:
                back3 = pp.inverse_transform_data(pp.transform(turned(obj)))
                same_structure(ctx, key + ":roundtrip-of-transposed-data", "Preprocessor.inverse_transform_data(transform(x transposed)) on %s" % tag, obj, back3, replay)
                if isinstance(obj, list) or len(sdims) >= 2:
                    pq = Preprocessor(sample_name=sname, feature_name=fname, with_center=False, with_std=False, with_coslat=False)
                    back4 = pq.inverse_transform_data(pq.fit_transform(turned(obj), tuple(sdims)))
                    same_structure(ctx, key + ":roundtrip-fitted-on-transposed-data", "Preprocessor round trip fitted on x with every item transposed its own way, on %s" % tag,
                                   turned(obj), align_dims(turned(obj), back4), replay)
                    if isinstance(obj, list):
                        # ... and the rows of the internal matrix pair the same samples of every item: a second fit on the transposed items gives
                        # the same matrix up to the order of rows
                        A = np.asarray(X2.transpose(sname, fname).values, dtype=float)
                        B = np.asarray(pq.fit_transform(turned(obj), tuple(sdims)).transpose(sname, fname).values, dtype=float)
                        if A.shape != B.shape or sorted(map(tuple, np.sort(A, axis=1).tolist())) != sorted(map(tuple, np.sort(B, axis=1).tolist())):
                            ctx.violation(key + ":rows-pair-other-samples", "the stacked matrix of the transposed list items pairs other samples of the items in its rows "
                                          "than the matrix of the items as given (layout %s)" % tag, replay)
            except Exception as e:
                ctx.violation(key + ":roundtrip-of-transposed-data:error:" + C.errkind(e), "Preprocessor on transposed data raised %r on layout %s" % (e, tag), replay)
        # ---- 1d. list items that hold the SAME sample labels in another element order (a record stored newest-first next to one stored oldest-first): refused,
        #          or every value back at its own label - never joined by position
        if ok1 and isinstance(obj, list) and len(obj) >= 2 and len(sdims) == 1 and lay["multiindex"] is None:
            sd = sdims[0]
            obj2 = [obj[0]] + [it.isel({sd: slice(None, None, -1)}) for it in obj[1:]]
            try:
                pr = Preprocessor(sample_name=sname, feature_name=fname, with_center=False, with_std=False, with_coslat=False)
                back5 = pr.inverse_transform_data(pr.fit_transform(obj2, tuple(sdims)))
                ctx.dist["c02:list-items-in-other-sample-order:accepted"] += 1
                same_structure(ctx, key + ":list-items-in-other-sample-order", "Preprocessor round trip of a list whose later items hold the samples in reversed order, on %s" % tag,
                               obj2, align_dims(obj2, back5), replay)
            except Exception:
                ctx.dist["c02:list-items-in-other-sample-order:refused"] += 1
        # ---- 2. the model of the stacking order (DataArray / equal-dim Dataset / list; MultiIndex dims are
        #         opaque single dims for the model)
        if lay["multiindex"] is None and not (lay["container"] == "Dataset" and lay["ds_mode"] == "different"):
            M = np.asarray(X2.transpose(sname, fname).values, dtype=float)
            its = []
            for da in items:
                sh, data, order = item_for_model(da, sdims, len(sdims))
                its.append("(%s, %s, %s)" % (C.cnatlist(sh), C.cvec(data), C.cnatlist(order)))
            cases.append("mkNC [%s] %d %d %s" % ("; ".join(its), len(sdims), M.shape[0], C.cmat(M)))
            metas.append((lay, tag))
        # ---- 3. through a model: components have the feature dims + mode, scores the sample dims + mode,
        #         reconstructions the full structure
        try:
            n_s = int(np.prod([s for d, s in zip(lay["dims"], lay["sizes"]) if d in sdims])) if lay["multiindex"] is None else 4
            m = xe.single.EOF(n_modes=2, sample_name=sname, feature_name=fname)
            m.fit(obj, tuple(sdims))
            comps, scores = m.components(), m.scores()
            rec = m.inverse_transform(scores)
        except Exception as e:
            sig = "aux-coord" if "not present in all datasets" in str(e) else C.errkind(e)
            ctx.violation(key + ":model-error:" + sig, "EOF on layout %s raised %r" % (tag, e), replay)
            continue
        cl = comps if isinstance(comps, list) else [comps]
        for it, c in zip(items if isinstance(obj, list) else [obj], cl):
            its_ = [it[v] for v in it.data_vars] if isinstance(it, xr.Dataset) else [it]
            cs_ = [c[v] for v in c.data_vars] if isinstance(c, xr.Dataset) else [c]
            for a, b in zip(its_, cs_):
                want = [d for d in a.dims if d not in sdims] + ["mode"]
                if sorted(b.dims) != sorted(want) or any(a.sizes[d] != b.sizes[d] for d in want if d != "mode"):
                    ctx.violation(key + ":components-dims", "components dims %r, expected feature dims + mode %r (layout %s)" % (b.dims, want, tag), replay)
                else:
                    for d in want[:-1]:
                        if set(map(repr, a.indexes[d].tolist())) != set(map(repr, b.indexes[d].tolist())):
                            ctx.violation(key + ":components-labels", "components labels along %s differ from the input's (layout %s)" % (d, tag), replay)
        wants = list(sdims) + ["mode"]
        if sorted(scores.dims) != sorted(wants):
            ctx.violation(key + ":scores-dims", "scores dims %r, expected sample dims + mode %r (layout %s)" % (scores.dims, wants, tag), replay)
        # reconstruction has the full input structure (values are a rank-2 approximation: compare structure only)
        if type(rec) is not type(obj):
            ctx.violation(key + ":recon-type", "reconstruction container %s, input %s" % (type(rec).__name__, type(obj).__name__), replay)
        else:
            ro = rec if isinstance(rec, list) else [rec]
            oo = obj if isinstance(obj, list) else [obj]
            for a, b in zip(oo, ro):
                if isinstance(a, xr.Dataset):
                    if list(a.data_vars) != list(b.data_vars) or any(set(a[v].dims) != set(b[v].dims) for v in a.data_vars):
                        ctx.violation(key + ":recon-structure", "reconstruction Dataset structure differs (layout %s): %r vs %r" % (
                            tag, {v: b[v].dims for v in b.data_vars}, {v: a[v].dims for v in a.data_vars}), replay)
                elif set(a.dims) != set(b.dims):
                    ctx.violation(key + ":recon-structure", "reconstruction dims %r, input %r (layout %s)" % (b.dims, a.dims, tag), replay)
    # ---- model correspondence in Coq
    if ctx.extra.get("model_ok", True) and cases:
        files, plan = [], []
        per = 60
        for sh in range(0, len(cases), per):
            body = [C.COQ_HEADER, "From XV Require Import Base.Scalar Base.Mat Base.Instances Model.NdArr Model.NdCase.\n",
                    "Definition cases := [\n" + ";\n".join(cases[sh:sh + per]) + "].\n", "Eval vm_compute in check_nds cases.\n"]
            f = C.write_case_file("C02", "nd%d" % (sh // per), "\n".join(body))
            files.append(f)
            plan.append((f, metas[sh:sh + per]))
        res = C.coq_eval_files(files)
        nbad, ok = 0, True
        for f, meta in plan:
            rc, out = res[f]
            if rc != 0:
                ok = False
                ctx.oblige("correspondence:%s" % f.split("/")[-1], "correspondence", False, out[-500:])
                continue
            bad = C.parse_int_list((C.parse_evals(out) or [""])[0])
            ctx.traces += len(meta)
            for b in bad:
                nbad += 1
                ctx.notes.append("stacking model disagrees with Preprocessor on layout %s" % (meta[b][1],))
                ctx.extra.setdefault("disagreements", []).append(meta[b][0])
        ctx.oblige("correspondence:stacking-model (%d layouts, exact)" % len(cases), "correspondence", ok and nbad == 0, "%d disagreements" % nbad)
    from harness import ren
    ren.run_concat(ctx, "C02", ctx.n(40, 400))
    run_accessors(ctx, rng)
    ctx.oblige("oracle:structure and labels preserved on every enumerated layout", "oracle", not ctx.violations)


def search(ctx):
    ctx.widen(run)


def replay(ctx, rp):
    run(ctx)
