"""C01 — EOF-type modes are the exact eigen-decomposition of the preprocessed data."""
import numpy as np

from harness import common as C
from harness import eofgen as G

ANCHORS = ["T3", "T3b", "T5eof", "T7inplace", "T7hist", "T9text"]
MODELS = ["EofCase"]
RULE = ("structured random configurations: class x shape (tall/wide/square/one feature) x spectrum (random, geometric, repeated, "
        "rank-deficient, clustered) x scale 1e-8..1e8 x flags x weights x solver x k in 1..rank; a case is non-trivial when the "
        "decomposed matrix has >= 2 rows and >= 2 distinct entries and at least one numeric field was compared; distinct by input hash")
PARTIAL = ["optimality (Eckart-Young against every n x k times k x p product) is proved for real data (C01_eckart_young_full) and for complex data "
           "(C01_eckart_young_full_complex, by realification over Coquelicot's complex numbers); the order statements are proved at the real instance",
           "randomised solvers are compared at their own accuracy and only under a spectral gap (test)"]
REFUTED = []
TRUSTED = ["SVD is an oracle: numpy.linalg.svd of the implementation's own decomposed matrix, residuals re-checked in Coq",
           "Hilbert transform is an opaque augmentation: the decomposed matrix is data['input_data']",
           "Coq.Reals axioms in the order-dependent theorems (C01_descending_nonneg, C01_ratio_bounds, C01_ratios_sum_to_one)"]
ASSUMES = ["float instance vs field instance of the same Gallina term differ by rounding only (rtol 1e-8)"]

RT = 1e-8


def run_impl(cfg):
    """fit; return the canonical record or an error kind"""
    da, w = G.build_input(cfg)
    n, p = cfg["n"], cfg["p"]
    k = cfg["k"]
    m = G.build_model(cfg, k)
    try:
        m.fit(da, "time", weights=w) if w is not None else m.fit(da, "time")
    except Exception as e:
        return dict(error=C.errkind(e), msg=str(e)[:200])
    im = G.inner(m, cfg)
    d = im.data
    X2 = np.asarray(d["input_data"].transpose(im.sample_name, im.feature_name).values)
    rec = dict(error=None, X2=X2,
               comps=np.asarray(d["components"].transpose(im.feature_name, "mode").values) if cfg["cls"] != "ExtendedEOF" else None,
               scores=np.asarray(d["scores"].transpose(im.sample_name, "mode").values) if cfg["cls"] != "ExtendedEOF" else None,
               norms=np.asarray(d["norms"].values), expvar=np.asarray(d["explained_variance"].values),
               totvar=complex(d["total_variance"].values) if np.iscomplexobj(d["total_variance"].values) else float(d["total_variance"].values),
               ratio=np.asarray(m.explained_variance_ratio().values), sv_api=np.asarray(m.singular_values().values),
               ev_api=np.asarray(m.explained_variance().values))
    if cfg["cls"] == "ExtendedEOF":
        # the outer object overwrote components/scores with unstacked versions; read the decomposition from
        # the decomposer outputs the inner EOF stored before: re-derive 2-D arrays from the inner preprocessor
        comps = im.data["components"]
        scores = im.data["scores"]
        rec["comps"] = None
        rec["scores"] = np.asarray(scores.transpose("sample", "mode").values) if "sample" in scores.dims else None
    return rec


def exact_backend(cfg, n2, p2):
    if cfg["solver"] == "full":
        return True
    if cfg["solver"] == "randomized":
        return False
    rank = min(n2, p2)
    return max(n2, p2) < 500 and cfg["k"] > int(0.8 * rank)


def oracles(ctx, cfg, rec):
    """independent statements of the property on the implementation's results"""
    X2 = rec["X2"]
    n2, p2 = X2.shape
    k = cfg["k"]
    exact = exact_backend(cfg, n2, p2)
    tol = 1e-7 if exact else 1e-5
    key = "C01:%s" % cfg["cls"]
    sv = np.linalg.svd(X2, compute_uv=False)
    scale = max(sv[0], 1e-300)
    gap_ok = exact or (k >= len(sv)) or (sv[k] <= 0.5 * sv[k - 1])
    bad = []
    if rec["comps"] is not None:
        V = rec["comps"]
        if not np.allclose(V.conj().T @ V, np.eye(k), atol=tol):
            bad.append("components are not orthonormal")
    if rec["scores"] is not None:
        S = rec["scores"]
        Gm = S.conj().T @ S
        if not np.allclose(Gm, np.diag(rec["norms"] ** 2), atol=tol * scale ** 2):
            bad.append("scores are not mutually orthogonal with norms equal to the singular values")
    if gap_ok:
        if not np.allclose(rec["norms"], sv[:k], rtol=tol, atol=tol * scale):
            bad.append("norms differ from the leading singular values")
        lam = np.sort(np.linalg.eigvalsh(X2.conj().T @ X2 / (n2 - 1)))[::-1][:k]
        if not np.allclose(rec["expvar"], lam, rtol=tol, atol=tol * scale ** 2):
            bad.append("explained variances are not the leading eigenvalues of the N-1 covariance matrix")
    if not np.all(np.diff(rec["expvar"]) <= tol * scale ** 2) or not np.all(rec["expvar"] >= -tol * scale ** 2):
        bad.append("explained variances are not non-negative and descending")
    # independently preprocessed data (not through xeofs) for the plain classes
    if cfg["cls"] in ("EOF", "ComplexEOF") and gap_ok:
        Y = G.independent_preprocess(cfg)
        lamY = np.sort(np.linalg.eigvalsh(Y.conj().T @ Y / (n2 - 1)))[::-1][:k]
        sc = max(lamY[0], 1e-300)
        if not np.allclose(rec["expvar"], lamY, rtol=1e-6, atol=1e-6 * sc):
            bad.append("explained variances differ from the eigenvalues of the independently preprocessed data's covariance")
        if cfg["center"]:
            tv = float(np.real(np.trace(Y.conj().T @ Y))) / (n2 - 1)
            if tv > 0 and not np.allclose(rec["ratio"], lamY / tv, rtol=1e-6, atol=1e-9):
                bad.append("explained variance ratios are not taken against the total variance of the decomposed matrix")
            if tv > 0 and (np.any(rec["ratio"] < -1e-9) or np.any(rec["ratio"] > 1 + 1e-9) or rec["ratio"].sum() > 1 + 1e-7):
                bad.append("explained variance ratios outside [0,1]")
    # ExtendedEOF: the delay-embedded matrix built independently (optional PCA step, lag windows, centring of the windows)
    if cfg["cls"] == "ExtendedEOF" and gap_ok and exact:
        Y = G.independent_preprocess(cfg)
        q = cfg.get("n_pca_modes")
        if q:
            Yc = Y - Y.mean(axis=0) if cfg["center"] else Y
            Uq, Sq, _ = np.linalg.svd(Yc, full_matrices=False)
            Y = Uq[:, :q] * Sq[:q]
        e, tau = cfg["embedding"], cfg["tau"]
        nk = Y.shape[0] - (e - 1) * tau
        Zm = np.concatenate([Y[i * tau:i * tau + nk] for i in range(e)], axis=1)
        if cfg["center"]:
            Zm = Zm - Zm.mean(axis=0)
        lamZ = np.sort(np.linalg.eigvalsh(Zm.T @ Zm / (nk - 1)))[::-1][:k]
        scz = max(lamZ[0], 1e-300)
        if len(lamZ) == len(rec["expvar"]) and not np.allclose(rec["expvar"], lamZ, rtol=1e-6, atol=1e-6 * scz):
            bad.append("explained variances differ from the eigenvalues of the independently built delay-embedded covariance (%r vs %r)" % (
                np.asarray(rec["expvar"])[:3], lamZ[:3]))
    if not np.allclose(rec["sv_api"], rec["norms"]) or not np.allclose(rec["ev_api"], rec["expvar"]):
        bad.append("accessor values differ from stored values")
    # reconstruction optimality against random rank-k competitors and the attained error
    if rec["comps"] is not None and rec["scores"] is not None and gap_ok:
        R = rec["scores"] @ rec["comps"].conj().T
        err = np.linalg.norm(X2 - R) ** 2
        best = float(np.sum(sv[k:] ** 2))
        if not abs(err - best) <= (1e-6 if exact else 1e-5) * (scale ** 2 + best):
            bad.append("k-mode reconstruction error %.6g is not the optimum %.6g" % (err, best))
        r = np.random.default_rng(cfg["random_state"])
        for _ in range(3):
            A = r.standard_normal((n2, k))
            B = r.standard_normal((k, p2))
            # best coefficients for a random k-dim column space
            Q, _ = np.linalg.qr(A)
            comp = Q @ (Q.conj().T @ X2)
            if np.linalg.norm(X2 - comp) ** 2 < err - (1e-6 if exact else 1e-5) * scale ** 2:
                bad.append("a random rank-k matrix reconstructs better than the first k modes")
    for b in bad:
        ctx.violation(key + ":" + b.split(" ")[0] + ":" + ("exact" if exact else "randomized"), "%s: %s (solver=%s, k=%d, shape=%dx%d, spectrum=%s)" % (
            cfg["cls"], b, cfg["solver"], k, n2, p2, cfg["spectrum"]), dict(kind="eof-oracle", cfg=cfg, failed=b))
    return not bad


def coq_case(cfg, rec, U, s, Vt):
    cplx = np.iscomplexobj(rec["X2"])
    n2, p2 = rec["X2"].shape
    r = len(s)
    k = cfg["k"]
    f = lambda A: G.c_mat(A, cplx)  # noqa
    v = lambda a: G.c_vec(a, cplx)  # noqa
    tvs = G.c_scalar(rec["totvar"], cplx)
    return ("mkCase %d %d %d %d %s %s %s %s %s %s %s %s %s false" % (
        n2, p2, r, k, f(rec["X2"]), f(U), v(s), f(Vt), f(rec["comps"]), f(rec["scores"]), v(rec["norms"]), v(rec["expvar"]), tvs)), cplx


FIELD = {1: "svd factorisation residual", 2: "U unitary", 3: "Vt unitary", 4: "components", 5: "scores", 6: "norms",
         7: "explained variance", 8: "total variance", 9: "transform(X) = scores", 10: "shape"}


def run(ctx):
    C.setup_impl_env()
    C.clean_case_files("C01")
    rng = ctx.rng.child("c01").np
    ncases = ctx.n(320, 5000)
    real_cases, cplx_cases, meta_r, meta_c = [], [], [], []
    nerr = 0
    for i in range(ncases):
        cfg = G.make_case(rng, missing=True)
        # rank of the matrix that will be decomposed
        if cfg["cls"] == "ExtendedEOF":
            npca = cfg.get("n_pca_modes") or cfg["p"]
            n2 = cfg["n"] - (cfg["embedding"] - 1) * cfg["tau"]
            p2 = npca * cfg["embedding"]
        else:
            n2, p2 = cfg["n"] - len(cfg.get("missing_rows") or []), cfg["p"]
        rank = max(1, min(n2, p2))
        cfg["k"] = int(rng.integers(1, rank + 1))
        rec = run_impl(cfg)
        nontriv = cfg["n"] >= 2 and len(set(np.round(np.ravel(cfg["X_re"]), 12))) >= 2
        ctx.case(dict(cfg), nontrivial=nontriv and rec.get("error") is None,
                 tag="%s/%s/%s/%s" % (cfg["cls"], cfg["solver"], cfg["spectrum"], "ok" if rec.get("error") is None else rec["error"]),
                 sample=dict(cls=cfg["cls"], shape=[cfg["n"], cfg["p"]], k=cfg["k"], solver=cfg["solver"], spectrum=cfg["spectrum"],
                             center=cfg["center"], standardize=cfg["standardize"], use_coslat=cfg["use_coslat"],
                             weights=cfg["weights"] is not None, scale=cfg["scale"], outcome=rec.get("error") or "fitted"))
        if rec.get("error") is not None:
            nerr += 1
            cplx_in = cfg["cls"] in ("ComplexEOF", "HilbertEOF")
            if cplx_in and rec["error"] == "ValueError" and "min(A.shape)" in (rec.get("msg") or "") and cfg["k"] >= rank:
                # scipy's svds (the complex non-exact back-end) refuses k = rank: a refusal, not a result
                ctx.dist["refused:svds-needs-k<rank"] += 1
                continue
            ctx.violation("C01:fit-error:%s:%s" % (cfg["cls"], rec["error"]),
                          "%s.fit raised %s on a valid configuration: %s" % (cfg["cls"], rec["error"], rec.get("msg")),
                          dict(kind="fit-error", cfg=cfg, error=rec["error"], msg=rec.get("msg")))
            continue
        oracles(ctx, cfg, rec)
        n2, p2 = rec["X2"].shape
        if rec["comps"] is None or rec["scores"] is None or not exact_backend(cfg, n2, p2):
            continue
        Uf, s, Vtf = np.linalg.svd(rec["X2"])
        r = min(n2, p2)
        if G.sign_near_tie(Vtf[:cfg["k"], :]):
            ctx.dist["skipped-in-correspondence:sign-rule-near-tie"] += 1
            continue
        txt, cplx = coq_case(cfg, rec, Uf[:, :r], s[:r], Vtf[:r, :])
        if cplx:
            cplx_cases.append(txt)
            meta_c.append(cfg)
        else:
            real_cases.append(txt)
            meta_r.append(cfg)
    files = []
    per = 60
    plan = []
    for kind, cases, meta, fn in (("r", real_cases, meta_r, "check_all_f64"), ("c", cplx_cases, meta_c, "check_all_c64")):
        for sh in range(0, len(cases), per):
            body = [C.COQ_HEADER, "From XV Require Import Base.Scalar Base.Mat Base.Instances Model.Eof Model.EofCase.\n",
                    "Definition cases := [\n" + ";\n".join(cases[sh:sh + per]) + "].\n",
                    "Eval vm_compute in %s %s cases.\n" % (fn, C.cf(RT))]
            f = C.write_case_file("C01", "%s%d" % (kind, sh // per), "\n".join(body))
            files.append(f)
            plan.append((f, meta[sh:sh + per]))
    res = C.coq_eval_files(files)
    nbad = 0
    ncmp = 0
    for f, meta in plan:
        rc, out = res[f]
        if rc != 0:
            ctx.oblige("correspondence:%s" % f.split("/")[-1], "correspondence", False, out[-600:])
            continue
        vals = C.parse_evals(out)
        pairs = C.parse_pairs(vals[0]) if vals else []
        ncmp += len(meta)
        ctx.traces += len(meta)
        for ci, fld in pairs:
            nbad += 1
            cfg = meta[ci]
            ctx.extra.setdefault("disagreements", []).append(dict(cls=cfg["cls"], field=FIELD.get(fld, fld), k=cfg["k"],
                                                                shape=[cfg["n"], cfg["p"]], solver=cfg["solver"], spectrum=cfg["spectrum"]))
            ctx.notes.append("model/impl disagree on %s for %s k=%d" % (FIELD.get(fld, fld), cfg["cls"], cfg["k"]))
    ctx.oblige("correspondence:eof-model (%d exact-backend cases, rtol %g)" % (ncmp, RT), "correspondence", nbad == 0 and ncmp > 0,
               "%d field disagreements" % nbad)
    ctx.extra["fit_errors"] = nerr


def search(ctx):
    """a tie is broken: the oracles have already run on every case in run(); if none failed, try the
    targeted families (all k for a few shapes, every class)"""
    C.setup_impl_env()
    rng = ctx.rng.child("c01-search").np
    # modes whose largest positive and largest negative loading have exactly the same size (two standardised or two anti-correlated
    # features, a standing wave on a symmetric domain): the sign rule has to pick one of the two, the mode must survive it
    for fam in ("two-standardised", "anti-correlated", "standing-wave"):
        for n in (6, 9, 12):
            a = rng.standard_normal(n)
            if fam == "two-standardised":
                X, std = np.stack([a, 0.3 * a + rng.standard_normal(n)], axis=1), True
            elif fam == "anti-correlated":
                X, std = np.stack([a, -a], axis=1), False
            else:
                b = rng.standard_normal(n)
                X, std = np.stack([a, b, 0 * a, -b, -a], axis=1), False
            cfg = G.make_case(rng, force=dict(cls="EOF"))
            cfg.update(n=n, p=X.shape[1], nlat=None, nlon=None, center=True, standardize=std, use_coslat=False, pole=False, weights=None, solver="full",
                       spectrum="symmetric:" + fam, scale=1.0, cplx=False, X_re=X.tolist(), X_im=None)
            for k in range(1, min(n, X.shape[1]) + 1):
                cfg["k"] = k
                rec = run_impl(cfg)
                if rec.get("error") is None:
                    if not oracles(ctx, cfg, rec):
                        return
    for cls in ("EOF", "ComplexEOF", "HilbertEOF", "ExtendedEOF"):
        for spec in ("random", "geometric", "repeated", "rankdef"):
            cfg = G.make_case(rng, force=dict(cls=cls))
            cfg["solver"] = "full"
            for k in range(1, min(cfg["n"], cfg["p"]) + 1):
                cfg["k"] = k
                rec = run_impl(cfg)
                if rec.get("error") is None:
                    if not oracles(ctx, cfg, rec):
                        return


def replay(ctx, rp):
    C.setup_impl_env()
    cfg = rp["replay"]["cfg"]
    rec = run_impl(cfg)
    print("replay:", rp.get("what"))
    if rec.get("error"):
        print("  fit error:", rec["error"], rec.get("msg"))
        ctx.violation(rp["key"], rp["what"], rp["replay"])
    else:
        oracles(ctx, cfg, rec)
