"""C18 — POP modes are eigen-pairs of the lag-1 feedback matrix."""
import numpy as np

from harness import common as C
from harness import eofgen as G

ANCHORS = ["T5pop", "T5flag", "T7inplace", "T7hist", "T9text"]
MODELS = ["PopCase"]
RULE = ("time-ordered multivariate series with more samples than retained PCs: random red noise (VAR(1)) and noise-free damped oscillators "
        "x_{t+1} = A x_t with prescribed eigenvalues rho e^{+-i omega} (plus optional real ones), embedded in p >= q features; use_pca on/off, "
        "n_pca_modes 2..5, center/standardize/use_coslat flags, 1-D and lat-lon feature layouts; in 30% of the cases the model object was fitted "
        "on unrelated data of the same structure, queried through every accessor, transform, inverse_transform, compute() and serialize(), and "
        "then fitted on the case's data (call history before the fit); non-trivial: q >= 2 and n > q + 1 and the "
        "eigen-residual was evaluated; distinct by input hash")
PARTIAL = ["C18_recovery_full (completeness of the eigen-oracle answer; numpy's log/abs/angle are the mathematical functions) is stated, not proved: "
           "recovered period 2 pi/omega and damping -1/log(rho) are tested on synthetic oscillators to 1e-6",
           "tau = -1/log|lam| and T = 2 pi/arg(lam) compose oracle functions: C18_tau_T_partial proves alignment with the stored eigenvalue and the "
           "behaviour under conjugation; the values are compared with independent numpy formulas and, through oracle tables, with the model's formula in Coq"]
REFUTED = []
TRUSTED = ["matrix inverse, eigen-decomposition and the 2x2 pseudo-inverse are oracles: numpy answers for the implementation's own PC-space data "
           "(eigen answer read from eigenvalues()/components()), residuals re-checked in Coq against the model's own matrices",
           "log, abs, angle are oracle functions (tables)",
           "Coq.Reals axioms in C18_order_descending and C18_recovery_modulus"]
ASSUMES = ["the lag-0 Gram matrix of the PC-space data is invertible (more samples than retained PCs, full-rank data)",
           "real input data (conjugate closure); float instance vs field instance differ by rounding only"]

RT = 1e-7
FIELD = {1: "shapes", 2: "C0 C0inv != I (inverse oracle)", 3: "C0inv C0 != I (inverse oracle)", 4: "model feedback matrix vs independent C1 C0^-1",
         5: "eigen-residual A P = P diag(lam)", 6: "2x2 pseudo-inverse oracle residuals", 7: "components (V P, sorted)", 8: "scores / POP coefficients",
         9: "norms", 10: "norms not descending after sorting", 11: "pca.transform(preprocessed) != input_data", 12: "V^H V != I",
         13: "transform(training) model vs implementation", 14: "transform(training) vs fitted scores (model)", 15: "damping times", 16: "periods"}


# ------------------------------------------------------------------ generators
def gen_rednoise(rng, n, p):
    B = 0.35 * rng.standard_normal((p, p)) / np.sqrt(p) + np.diag(rng.uniform(0.3, 0.9, p))
    x = rng.standard_normal(p)
    out = np.empty((n, p))
    for t in range(n):
        out[t] = x
        x = B @ x + rng.standard_normal(p) * rng.uniform(0.5, 1.5, p)
    return out + rng.standard_normal(p) * 2.0


def gen_oscillator(rng, n, npairs, nreal, p):
    """noise-free x_{t+1} = A x_t; returns data (n x p), the prescribed eigenvalues (rho, omega) and real ones"""
    q = 2 * npairs + nreal
    omegas = np.sort(rng.uniform(0.35, 2.6, npairs))
    for i in range(1, npairs):
        if omegas[i] - omegas[i - 1] < 0.25:
            omegas[i] = omegas[i - 1] + 0.25
    rhos = rng.uniform(0.88, 0.99, npairs)
    reals = rng.uniform(0.6, 0.95, nreal) * rng.choice([1.0, -1.0], nreal)
    B = np.zeros((q, q))
    for i, (r, w) in enumerate(zip(rhos, omegas)):
        B[2 * i:2 * i + 2, 2 * i:2 * i + 2] = r * np.array([[np.cos(w), -np.sin(w)], [np.sin(w), np.cos(w)]])
    for i, r in enumerate(reals):
        B[2 * npairs + i, 2 * npairs + i] = r
    Q, _ = np.linalg.qr(rng.standard_normal((q, q)))
    S = Q + 0.25 * rng.standard_normal((q, q))
    A = S @ B @ np.linalg.inv(S)
    y = S @ (1.0 + rng.random(q))
    Y = np.empty((n, q))
    for t in range(n):
        Y[t] = y
        y = A @ y
    if p > q:
        E, _ = np.linalg.qr(rng.standard_normal((p, q)))
        E = E * rng.uniform(0.7, 1.4, q)
        X = Y @ E.T
    else:
        X = Y
    return X, [(float(r), float(w)) for r, w in zip(rhos, omegas)], [float(r) for r in reals]


def make_cfg(rng, i):
    osc = (i % 3 == 0)
    if osc:
        npairs = int(rng.integers(1, 3))
        nreal = int(rng.integers(0, 2))
        q = 2 * npairs + nreal
        use_pca = bool(rng.random() < 0.6)
        p = int(rng.integers(q + 1, 9)) if use_pca else q
        if use_pca and rng.random() < 0.25:
            p = q
        n = int(rng.integers(max(12, 3 * q), 26))
        X, pairs, reals = gen_oscillator(rng, n, npairs, nreal, p)
        cfg = dict(kind="oscillator", n=n, p=p, q=q, use_pca=use_pca, n_pca_modes=q, center=False,
                   standardize=bool(rng.random() < 0.3), use_coslat=False, pairs=pairs, reals=reals)
    else:
        use_pca = bool(rng.random() < 0.65)
        if use_pca:
            p = int(rng.integers(3, 9))
            q = int(rng.integers(2, min(p, 5) + 1))
        else:
            p = int(rng.integers(2, 6))
            q = p
        n = int(rng.integers(q + 6, 25))
        X = gen_rednoise(rng, n, p)
        center = bool(rng.random() < 0.7)
        if not center:
            X = X + rng.standard_normal(p) * 2.0       # a mean state that is NOT removed: the model works on the data as given
        cfg = dict(kind="rednoise", n=n, p=p, q=q, use_pca=use_pca, n_pca_modes=q, center=center,
                   standardize=bool(rng.random() < 0.35), use_coslat=False, pairs=[], reals=[])
    # fields in small or large physical units (the feedback matrix is dimensionless: its eigen-pairs do not depend on the units)
    cfg["units"] = float(10.0 ** rng.integers(-8, 7)) if rng.random() < 0.35 else 1.0
    X = X * cfg["units"]
    if cfg["kind"] == "rednoise" and not cfg["use_pca"] and not cfg["standardize"] and p >= 3 and rng.random() < 0.5:
        # features in very different units analysed jointly (a pressure in Pa next to a mixing ratio in kg/kg): amplitudes six orders of magnitude
        # apart, well conditioned in double precision; every degree of freedom is retained
        X = X * np.where(np.arange(p) % 2 == 0, 1e3, 1e-3)
        cfg["mixed_units"] = True
    cfg["history"] = int(rng.integers(1, 1 << 30)) if rng.random() < 0.3 else 0
    cfg["layout"] = "x"
    if p % 2 == 0 and p >= 4 and rng.random() < 0.4:
        cfg["layout"] = "latlon"
        cfg["use_coslat"] = bool(rng.random() < 0.6) and cfg["kind"] == "rednoise"
    return cfg, X


def build_da(cfg, X):
    import xarray as xr
    n, p = X.shape
    if cfg["layout"] == "latlon":
        nlat, nlon = 2, p // 2
        return xr.DataArray(X.reshape(n, nlat, nlon), dims=("time", "lat", "lon"),
                            coords={"time": np.arange(n), "lat": np.array([-35.0, 50.0]), "lon": np.arange(nlon) * 20.0})
    return xr.DataArray(X, dims=("time", "x"), coords={"time": np.arange(n), "x": np.arange(p)})


# ------------------------------------------------------------------ implementation driver
def run_impl(cfg, X):
    import xeofs as xe
    da = build_da(cfg, X)
    m = xe.single.POP(n_modes=cfg["q"], center=cfg["center"], standardize=cfg["standardize"], use_coslat=cfg["use_coslat"],
                      use_pca=cfg["use_pca"], n_pca_modes=cfg["n_pca_modes"], solver="full")
    if cfg.get("history"):
        # the same object was fitted on other data and used before: every answer below must be that of the last fit
        rngh = np.random.default_rng(cfg["history"])
        other = C.other_like(rngh, da)
        m.fit(other, "time")
        C.exercise(m, other)
        if cfg["history"] % 2:
            C.exercise(m, da)
    m.fit(da, "time")
    d = m.data
    sn, fn = m.sample_name, m.feature_name
    Z = np.asarray(d["input_data"].transpose(sn, fn).values)
    comps = np.asarray(d["components"].transpose(fn, "mode").values)
    Ppc = np.asarray(m.pca.transform_components(d["components"]).transpose(fn, "mode").values)
    Xpre = np.asarray(m.preprocessor.transform(da).transpose(sn, fn).values)
    V = np.asarray(m.pca.V.transpose(fn, "mode").values) if cfg["use_pca"] else np.eye(Xpre.shape[1])
    scores2d = np.asarray(d["scores"].transpose(sn, "mode").values)
    sc = m.scores()
    tr = m.transform(da)
    rec = dict(Z=Z, comps=comps, P=Ppc, Xpre=Xpre, V=V, scores2d=scores2d,
               lam=np.asarray(d["eigenvalues"].values), tau=np.asarray(d["damping_times"].values), T=np.asarray(d["periods"].values),
               norms=np.asarray(d["norms"].values), idx=[int(v) for v in d["idx_modes_sorted"].values],
               scores_api=np.asarray(sc.transpose("time", "mode").values), transformed=np.asarray(tr.transpose("time", "mode").values),
               tr_dims=tuple(tr.dims), sc_dims=tuple(sc.dims), tr_time=list(np.asarray(tr["time"].values)), sc_time=list(np.asarray(sc["time"].values)),
               comps_api=m.components(), eig_api=np.asarray(m.eigenvalues().values), tau_api=np.asarray(m.damping_times().values),
               T_api=np.asarray(m.periods().values))
    return rec


def independent_feedback(Z):
    Z0, Z1 = Z[:-1], Z[1:]
    N = Z0.shape[0]
    outs = []
    for den in (N - 1, N):
        C0 = Z0.conj().T @ Z0 / den
        C1 = Z1.conj().T @ Z0 / den
        outs.append(C1 @ np.linalg.inv(C0))
    # third route: solve instead of inverting
    G0 = Z0.conj().T @ Z0
    G1 = Z1.conj().T @ Z0
    outs.append(np.linalg.solve(G0.T, G1.T).T)
    return outs


def conj_closed(lam, tol):
    lam = np.asarray(lam, dtype=complex)
    rest = list(np.conj(lam))
    for z in lam:
        k = None
        for i, w in enumerate(rest):
            if abs(z - w) <= tol * max(1.0, abs(z)):
                k = i
                break
        if k is None:
            return False
        rest.pop(k)
    return True


def oracles(ctx, cfg, rec, replay):
    """independent statements of the property on the implementation's public results; returns data for the Coq case"""
    Z, lam, P = rec["Z"], rec["lam"].astype(complex), rec["P"]
    n, q = Z.shape
    tag = "use_pca=%s" % cfg["use_pca"]
    A1, A2, A3 = independent_feedback(Z)
    sa = np.abs(A1).max()
    if not (np.allclose(A1, A2, rtol=0, atol=1e-9 * sa) and np.allclose(A1, A3, rtol=0, atol=1e-7 * sa)):
        ctx.notes.append("independent feedback matrices (N-1 / N / solve) disagree: harness-side conditioning problem, case %r" % (cfg,))
    # eigen-residual in PC space and in physical space
    res = np.abs(A1 @ P - P * lam).max()
    if not res <= 1e-6 * sa * np.abs(P).max():
        ctx.violation("C18:eigen-residual:%s" % tag, "POP(%s): A p != lambda p for the reported patterns/eigenvalues, residual %.3g (|A| %.3g)" % (tag, res, sa), replay)
    V = rec["V"]
    # the PC space the model works in is spanned by the leading right singular vectors of the preprocessed data AS IT IS
    # (independent SVD), and the PC-space data is its projection on them
    if cfg["use_pca"] and V.shape[1] < V.shape[0]:
        sv_ind = np.linalg.svd(rec["Xpre"], compute_uv=False)
        if len(sv_ind) > q and sv_ind[q - 1] - sv_ind[q] > 1e-6 * sv_ind[0]:
            Vq = np.linalg.svd(rec["Xpre"], full_matrices=False)[2][:q].conj().T
            dev = np.abs(Vq @ Vq.conj().T - V @ V.conj().T).max()
            if not dev <= 1e-7:
                ctx.violation("C18:pc-space:%s" % tag, "POP(%s, center=%s): the retained PC space is not the span of the %d leading singular vectors of the "
                              "preprocessed data (projectors differ by %.3g)" % (tag, cfg["center"], q, dev), replay)
    if V.shape[0] == rec["Xpre"].shape[1] and V.shape[1] == q:
        devz = np.abs(rec["Xpre"] @ V - Z).max()
        if not devz <= 1e-8 * max(np.abs(Z).max(), 1e-300):
            ctx.violation("C18:pc-data:%s" % tag, "POP(%s): the PC-space data is not the preprocessed data times the PCA basis (max dev %.3g)" % (tag, devz), replay)
    Aphys = V @ A1 @ V.conj().T
    res2 = np.abs(Aphys @ rec["comps"] - rec["comps"] * lam).max()
    if not res2 <= 1e-6 * max(np.abs(Aphys).max(), 1e-300) * np.abs(rec["comps"]).max():
        ctx.violation("C18:eigen-residual-physical:%s" % tag, "POP(%s): (V A V^H) c != lambda c for components(), residual %.3g" % (tag, res2), replay)
    if np.any(np.sqrt((np.abs(P) ** 2).sum(axis=0)) < 1e-8):
        ctx.violation("C18:zero-pattern:%s" % tag, "POP(%s): a reported pattern is the zero vector" % tag, replay)
    if not np.array_equal(rec["eig_api"], rec["lam"]) or not np.array_equal(rec["tau_api"], rec["tau"], equal_nan=True) or not np.array_equal(rec["T_api"], rec["T"], equal_nan=True):
        ctx.violation("C18:accessors", "eigenvalues()/damping_times()/periods() differ from the stored arrays", replay)
    # conjugate pairs
    if not conj_closed(lam, 1e-9):
        ctx.violation("C18:conjugate-pairs:%s" % tag, "POP(%s): eigenvalue set %r is not closed under conjugation" % (tag, lam), replay)
    # tau, T formulas
    with np.errstate(divide="ignore", invalid="ignore"):
        tau_e = -1.0 / np.log(np.abs(lam))
        T_e = 2 * np.pi / np.angle(lam)
    if not np.allclose(rec["tau"], tau_e, rtol=1e-12, atol=0, equal_nan=True):
        ctx.violation("C18:tau", "damping_times() %r != -1/log|lambda| %r" % (rec["tau"], tau_e), replay)
    if not np.allclose(rec["T"], T_e, rtol=1e-12, atol=0, equal_nan=True):
        ctx.violation("C18:period", "periods() %r != 2 pi/arg(lambda) %r" % (rec["T"], T_e), replay)
    realmask = np.abs(lam.imag) <= 1e-14 * np.abs(lam)
    if np.any(realmask & (lam.real > 0) & np.isfinite(rec["T"])):
        ctx.violation("C18:period:real-eigenvalue", "a positive real eigenvalue has a finite period: lam %r T %r" % (lam, rec["T"]), replay)
    # order and norms
    sd = np.sqrt(np.mean(np.abs(rec["scores_api"] - rec["scores_api"].mean(axis=0)) ** 2, axis=0))
    if not np.allclose(rec["norms"], sd, rtol=1e-10, atol=1e-300):
        ctx.violation("C18:norms", "norms %r are not the standard deviation (ddof 0) of scores() %r" % (rec["norms"], sd), replay)
    if np.any(np.diff(sd) > 1e-10 * sd.max()):
        ctx.violation("C18:order:%s" % tag, "POP(%s): modes are not ordered by descending standard deviation of their coefficients: %r" % (tag, sd), replay)
    if sorted(rec["idx"]) != list(range(q)):
        ctx.violation("C18:order:idx", "idx_modes_sorted %r is not a permutation of the modes" % (rec["idx"],), replay)
    # transform(training) == scores
    if set(rec["tr_dims"]) != set(rec["sc_dims"]) or rec["tr_time"] != rec["sc_time"]:
        ctx.violation("C18:transform-training:labels", "transform(training) dims/labels %r differ from scores() %r" % (rec["tr_dims"], rec["sc_dims"]), replay)
    scale = max(np.abs(rec["scores_api"]).max(), 1e-300)
    err = np.abs(rec["transformed"] - rec["scores_api"]).max()
    if not err <= 1e-7 * scale:
        ctx.violation("C18:transform-training:%s" % tag, "POP(%s): transform(training data) differs from scores(): max abs diff %.3g (scale %.3g)" % (tag, err, scale), replay)
    # noise-free oscillators: recovered period and damping time
    if cfg["kind"] == "oscillator":
        for rho, om in cfg["pairs"]:
            z = rho * np.exp(1j * om)
            j = int(np.argmin(np.abs(lam - z)))
            Tt, taut = 2 * np.pi / om, -1.0 / np.log(rho)
            if not (abs(rec["T"][j] - Tt) <= 1e-6 * Tt):
                ctx.violation("C18:recovery:period:%s" % tag, "noise-free oscillator (rho=%.6f, omega=%.6f, center=False, %s): recovered period %.10g, true %.10g"
                              % (rho, om, tag, rec["T"][j], Tt), replay)
            if not (abs(rec["tau"][j] - taut) <= 1e-6 * taut):
                ctx.violation("C18:recovery:damping:%s" % tag, "noise-free oscillator (rho=%.6f, omega=%.6f, center=False, %s): recovered damping time %.10g, true %.10g"
                              % (rho, om, tag, rec["tau"][j], taut), replay)
            jc = int(np.argmin(np.abs(lam - np.conj(z))))
            if not (abs(rec["T"][jc] + Tt) <= 1e-6 * Tt and abs(rec["tau"][jc] - taut) <= 1e-6 * taut):
                ctx.violation("C18:recovery:conjugate:%s" % tag, "conjugate mode of (rho=%.6f, omega=%.6f): period %.10g (expected %.10g), damping %.10g (expected %.10g)"
                              % (rho, om, rec["T"][jc], -Tt, rec["tau"][jc], taut), replay)
        for r in cfg["reals"]:
            j = int(np.argmin(np.abs(lam - r)))
            taut = -1.0 / np.log(abs(r))
            Tt = np.inf if r > 0 else 2.0
            if not (abs(rec["tau"][j] - taut) <= 1e-6 * taut and (rec["T"][j] == Tt or abs(rec["T"][j] - Tt) <= 1e-6 * abs(Tt))):
                ctx.violation("C18:recovery:real:%s" % tag, "real eigenvalue %.6f: damping %.10g (true %.10g), period %r (expected %r)" % (r, rec["tau"][j], taut, rec["T"][j], Tt), replay)
    return A3


def coq_record(cfg, rec, Aref):
    """oracle tables in FIT order (undo the sorting permutation) + implementation outputs"""
    Z, idx = rec["Z"], rec["idx"]
    n, q = Z.shape
    p = rec["Xpre"].shape[1]
    P = np.empty_like(rec["P"], dtype=complex)
    P[:, idx] = rec["P"]
    lam = np.empty(q, dtype=complex)
    lam[idx] = rec["lam"]
    Z0 = Z[:-1]
    C0inv = np.linalg.inv(Z0.conj().T @ Z0)
    Minvs = []
    for j in range(q):
        pr, pi = P[:, j].real, P[:, j].imag
        M = np.array([[pr @ pr, pr @ pi], [pr @ pi, pi @ pi]])
        Minvs.append(np.linalg.pinv(M))
    tt = []
    for j in range(q):
        lj = complex(rec["lam"][j])
        a = float(np.angle(lj))
        if a != 0.0 and np.isfinite(rec["tau"][j]) and np.isfinite(rec["T"][j]):
            tt.append((lj, float(np.log(abs(lj))), a, float(rec["tau"][j]), float(rec["T"][j])))
    return dict(n=n, p=p, q=q, Xpre=rec["Xpre"], V=rec["V"], X=Z, C0inv=C0inv, Aref=Aref, P=P, lam=lam, Minvs=Minvs, idx=idx,
                comps=rec["comps"], scores=rec["scores2d"], norms=rec["norms"], transformed=rec["transformed"], tt=tt, cfg=cfg)


def coq_text(r):
    m = lambda A: G.c_mat(np.asarray(A, dtype=complex), True)  # noqa
    v = lambda a: G.c_vec(np.asarray(a, dtype=complex), True)  # noqa
    s = lambda x: G.c_scalar(complex(x), True)  # noqa
    quads = "[" + "; ".join("(%s, %s, %s, %s)" % (s(M[0, 0]), s(M[0, 1]), s(M[1, 0]), s(M[1, 1])) for M in r["Minvs"]) + "]"
    tt = "[" + "; ".join("(%s, %s, %s, %s, %s)" % tuple(s(x) for x in e) for e in r["tt"]) + "]"
    return "mkPC %d %d %d %s %s %s %s %s %s %s %s %s %s %s %s %s %s %s" % (
        r["n"], r["p"], r["q"], m(r["Xpre"]), m(r["V"]), m(r["X"]), m(r["C0inv"]), m(r["Aref"]), m(r["P"]), v(r["lam"]), quads,
        C.cnatlist(r["idx"]), m(r["comps"]), m(r["scores"]), v(r["norms"]), m(r["transformed"]), s(np.pi), tt)


def correspondence(ctx, recs):
    files, plan = [], []
    SH = 25
    for sh in range(0, len(recs), SH):
        part = recs[sh:sh + SH]
        body = [C.COQ_HEADER, "From XV Require Import Base.Scalar Base.Mat Base.Instances Model.Pop Model.PopCase.\n",
                "Definition cases : list (pop_case (F:=cfloat)) := [\n" + ";\n".join(coq_text(r) for r in part) + "].\n",
                "Eval vm_compute in check_pops_c64 %s cases.\n" % C.cf(RT)]
        f = C.write_case_file("C18", "pop%d" % (sh // SH), "\n".join(body))
        files.append(f)
        plan.append((f, part))
    res = C.coq_eval_files(files)
    nbad, ncmp, ok = 0, 0, True
    for f, part in plan:
        rc, out = res[f]
        if rc != 0:
            ok = False
            ctx.oblige("correspondence:%s" % f.split("/")[-1], "correspondence", False, out[-600:])
            continue
        pairs = C.parse_pairs((C.parse_evals(out) or [""])[0])
        ncmp += len(part)
        ctx.traces += len(part)
        for ci, fld in pairs:
            nbad += 1
            cfg = part[ci]["cfg"]
            short = {k: cfg[k] for k in ("kind", "n", "p", "q", "use_pca", "center", "standardize", "use_coslat", "layout")}
            ctx.notes.append("POP model/impl disagree: %s %r" % (FIELD.get(fld, fld), short))
            ctx.extra.setdefault("disagreements", []).append(dict(field=FIELD.get(fld, fld), cfg=short))
    ctx.oblige("correspondence:pop-model (%d cases, rtol %g)" % (ncmp, RT), "correspondence", ok and nbad == 0 and ncmp > 0,
               "%d field disagreements: %s" % (nbad, "; ".join(ctx.notes[-5:])))


def one(ctx, cfg, X, recs=None):
    replay = dict(cfg=cfg, data=np.asarray(X))
    tag = "%s/%s/%s%s%s%s" % (cfg["kind"], "pca" if cfg["use_pca"] else "nopca", "c" if cfg["center"] else "-", "s" if cfg["standardize"] else "-",
                              "w" if cfg["use_coslat"] else "-", "/refit" if cfg.get("history") else "")
    ctx.case(("c18", cfg["kind"], cfg["n"], cfg["p"], cfg["q"], cfg["use_pca"], cfg["center"], cfg["standardize"], cfg["use_coslat"], cfg["layout"], bool(cfg.get("history")),
              C.canon_hash(np.asarray(X).round(12).tolist())), nontrivial=cfg["q"] >= 2 and cfg["n"] > cfg["q"] + 1, tag=tag,
             sample=dict(kind=cfg["kind"], shape=[cfg["n"], cfg["p"]], n_pca_modes=cfg["q"], use_pca=cfg["use_pca"], center=cfg["center"],
                         standardize=cfg["standardize"], use_coslat=cfg["use_coslat"], layout=cfg["layout"], eigenvalues=cfg["pairs"]))
    try:
        rec = run_impl(cfg, X)
    except Exception as e:
        ctx.violation("C18:error:%s:%s" % (cfg["kind"], C.errkind(e)), "POP fit/transform raised %r on %r" % (e, {k: v for k, v in cfg.items() if k not in ("pairs", "reals")}), replay)
        return
    if rec["Z"].shape != (cfg["n"], cfg["q"]):
        ctx.violation("C18:shape", "PC-space data has shape %r, expected %r" % (rec["Z"].shape, (cfg["n"], cfg["q"])), replay)
        return
    Aref = oracles(ctx, cfg, rec, replay)
    if recs is not None:
        recs.append(coq_record(cfg, rec, Aref))


def run(ctx):
    C.setup_impl_env()
    C.clean_case_files("C18")
    rng = ctx.rng.child("c18").np
    recs = []
    for i in range(ctx.n(150, 2000)):
        cfg, X = make_cfg(rng, i)
        one(ctx, cfg, X, recs)
    ctx.oblige("oracle:POP eigen-pairs, conjugate closure, tau/T, order, transform(training), oscillator recovery", "oracle", not ctx.violations)
    if ctx.extra.get("model_ok", True):
        correspondence(ctx, recs)


def search(ctx):
    """a tie broke without a failing input so far: more cases, oracles only, targeted families"""
    C.setup_impl_env()
    rng = ctx.rng.child("c18-search").np
    t0 = C.now()
    budget = 50 if ctx.quick else 500
    i = 0
    while C.now() - t0 < budget and not ctx.violations and i < 3000:
        cfg, X = make_cfg(rng, i)
        one(ctx, cfg, X, None)
        i += 1


def replay(ctx, rp):
    C.setup_impl_env()
    C.clean_case_files("C18")
    r = rp.get("replay", rp)
    if "cfg" not in r:
        return run(ctx)
    cfg = r["cfg"]
    X = np.asarray(r["data"], dtype=float)
    recs = []
    one(ctx, cfg, X, recs)
    ctx.oblige("oracle:replayed case", "oracle", not ctx.violations)
    if recs and ctx.extra.get("model_ok", True):
        correspondence(ctx, recs)
