"""C07 — results do not depend on how the same data is laid out or named."""
import numpy as np

from harness import common as C
from harness import zoo as Z

ANCHORS = ["T7pipe", "T4"]
MODELS = ["Pipe", "PipeCase"]
RULE = ("pairs of fits on re-laid-out copies of the same numbers: all dimension orders, random feature and sample permutations, partitions of the "
        "features into Dataset variables / list items, other sample_name/feature_name strings, for every model class (order-dependent methods "
        "exempt from sample permutation only); non-trivial: >= 3 samples, >= 3 features, spectrum with a gap; distinct by input hash")
PARTIAL = ["uniqueness of the SVD for simple spectra is not proved: the theorems are oracle-relative (admissible answers map to admissible answers); "
           "equality of outputs is compared on the implementation with a spectral gap enforced"]
REFUTED = []
TRUSTED = ["the model is a function of the roles sample/feature only (no names occur in it)"]
ASSUMES = ["spectral gap between retained modes in the generated data"]


def base_data(rng, n, nlat, nlon, cplx=False, red=False):
    import xarray as xr
    p = nlat * nlon
    s = np.linspace(3.0, 0.4, min(n - 1, p))
    A = rng.standard_normal((n, len(s)))
    if red:
        A = np.cumsum(A, axis=0) * 0.4 + A * 0.2
    B = rng.standard_normal((len(s), p))
    X = (A * s) @ B + rng.standard_normal(p)
    if cplx:
        X = X + 1j * ((rng.standard_normal((n, len(s))) * s) @ rng.standard_normal((len(s), p)))
    return xr.DataArray(X.reshape(n, nlat, nlon), dims=("time", "lat", "lon"),
                        coords={"time": np.arange(n), "lat": np.arange(nlat) * 10.0 - 20, "lon": np.arange(nlon) * 5.0})


def results(m, kind):
    """singular values / variance measure, components, scores in canonical (label-sorted) form"""
    if kind == "cross":
        c1, c2 = m.components()
        s1, s2 = m.scores()
        sv = m.data["singular_values"].values if "singular_values" in m.data else m.data["squared_covariance"].values
        return sv, [c1, c2], [s1, s2]
    sv = m.data["norms"].values if "norms" in m.data else None
    return sv, [m.components()], [m.scores()]


def flat_comp(c):
    """components as {feature label tuple: vector over modes}"""
    import xarray as xr
    out = {}
    items = c if isinstance(c, list) else [c]
    for it in items:
        das = [it[v] for v in it.data_vars] if isinstance(it, xr.Dataset) else [it]
        for da in das:
            fd = [d for d in da.dims if d != "mode"]
            st = da.stack(__f=fd).transpose("__f", "mode") if len(fd) > 1 else da.transpose(fd[0], "mode")
            idx = st.indexes["__f"].tolist() if len(fd) > 1 else [(x,) for x in st.indexes[fd[0]].tolist()]
            for lab, row in zip(idx, np.asarray(st.values)):
                key = tuple(sorted(zip(fd, [float(x) for x in lab])))
                if not np.all(np.isnan(row)):
                    out[key] = row
    return out


def compare(ctx, key, what, ra, rb, replay, sample_perm=None, tol=1e-6, upto_sign=False, upto_conj=False):
    sva, ca, sa = ra
    svb, cb, sb = rb
    conj_cols = None
    if upto_conj and len(ca) and len(cb):
        # POP: the two members of a complex-conjugate pair have exactly the same standard deviation, so which of them comes first is not
        # determined by the ordering rule (a tie): a mode may be compared with the conjugate of its counterpart - patterns AND coefficients together
        fa, fb = flat_comp(ca[0]), flat_comp(cb[0])
        if set(fa) == set(fb):
            A = np.array([fa[k_] for k_ in sorted(fa)])
            B = np.array([fb[k_] for k_ in sorted(fa)])
            if A.shape == B.shape and A.ndim == 2:
                conj_cols = np.array([(not Z.same(B[:, j], A[:, j], tol)) and Z.same(np.conj(B[:, j]), A[:, j], tol) for j in range(A.shape[1])])
                if conj_cols.any():
                    ctx.dist["c07:conjugate-partner-came-first"] += 1
    if sva is not None and not Z.same(np.abs(svb), np.abs(sva), tol):
        ctx.violation(key + ":singular-values", "%s: singular values change (%r vs %r)" % (what, np.asarray(svb)[:4], np.asarray(sva)[:4]), replay)
        return
    for x, y in zip(ca, cb):
        fa, fb = flat_comp(x), flat_comp(y)
        if set(fa) != set(fb):
            ctx.violation(key + ":component-labels", "%s: component labels differ" % what, replay)
            return
        A = np.array([fa[k_] for k_ in sorted(fa)])
        B = np.array([fb[k_] for k_ in sorted(fa)])
        if conj_cols is not None and B.ndim == 2 and B.shape[1] == len(conj_cols):
            B = np.where(conj_cols[None, :], np.conj(B), B)
        if upto_sign:
            ip = np.nansum(B.conj() * A, axis=0)
            sg = np.where(np.abs(ip) > 0, ip / np.where(np.abs(ip) > 0, np.abs(ip), 1), 1) if np.iscomplexobj(B) else np.where(np.real(ip) < 0, -1.0, 1.0)
            B = B * sg
        if not Z.same(B, A, tol):
            ctx.violation(key + ":components", "%s: components change at some label (max diff %.3g)" % (what, float(np.abs(A - B).max())), replay)
            return
    for x, y in zip(sa, sb):
        sd = [d for d in x.dims if d != "mode"]
        xa = x.transpose(*sd, "mode").values
        ya = y.transpose(*sd, "mode").sel({d: x[d] for d in sd}).values if sample_perm is None else y.transpose(*sd, "mode").sel({d: x[d] for d in sd}).values
        if conj_cols is not None and ya.shape[-1] == len(conj_cols):
            ya = np.where(conj_cols.reshape((1,) * (ya.ndim - 1) + (-1,)), np.conj(ya), ya)
        if upto_sign:
            ip = np.nansum(ya.conj() * xa, axis=tuple(range(len(sd))))
            sg = np.where(np.abs(ip) > 0, ip / np.where(np.abs(ip) > 0, np.abs(ip), 1), 1) if np.iscomplexobj(ya) else np.where(np.real(ip) < 0, -1.0, 1.0)
            ya = ya * sg
        if not Z.same(ya, xa, tol):
            ctx.violation(key + ":scores", "%s: scores change (max diff %.3g)" % (what, float(np.nanmax(np.abs(xa - ya)))), replay)
            return


def variants(rng, da, ordered):
    """(name, transformed data or builder, needs_fit_dim)"""
    import xarray as xr
    out = []
    out.append(("transpose", da.transpose("lon", "time", "lat")))
    if da.sizes["lat"] > 1:
        out.append(("reversed-latitudes", da.isel(lat=slice(None, None, -1))))
    out.append(("transpose2", da.transpose("lat", "lon", "time")))
    pl = rng.permutation(da.sizes["lon"])
    pla = rng.permutation(da.sizes["lat"])
    out.append(("feature-permutation", da.isel(lon=pl, lat=pla)))
    if not ordered:
        out.append(("sample-permutation", da.isel(time=rng.permutation(da.sizes["time"]))))
    # split the features over Dataset variables / list items (along lon)
    cut = int(rng.integers(1, da.sizes["lon"]))
    a, b = da.isel(lon=slice(0, cut)), da.isel(lon=slice(cut, None))
    out.append(("split-list", [a, b]))
    return out


def run_single(ctx, rng, N):
    specs = Z.specs()
    names = ["EOF", "ComplexEOF", "HilbertEOF", "ExtendedEOF", "SparsePCA", "POP", "OPA"]
    for i in range(N):
        name = names[i % len(names)]
        sp = specs[name]
        n = int(rng.integers(10, 16))
        nlat, nlon = int(rng.integers(1, 3)), int(rng.integers(2, 4))
        if nlat * nlon < 3:
            nlon = 3
        da = base_data(rng, n, nlat, nlon, cplx=sp.cplx, red=sp.ordered)
        k = 2
        kw = {}
        antisym = name == "EOF" and (i // len(names)) % 3 == 2
        if antisym:
            # a field that is nearly antisymmetric under a reflection: the southern row is the mirrored northern row with the opposite sign and
            # 1e-7 larger. The largest positive and the largest negative loading of every mode differ by 1e-7 - far above rounding, so the sign
            # convention is well defined - and sit at different places of the feature order in different layouts
            nlon = max(nlon, 3)
            da = base_data(rng, n, 2, nlon, cplx=False, red=False)
            north = da.isel(lat=0).values
            da.values[:, 1, :] = -north[:, ::-1] * (1.0 + 1e-7)
            ctx.dist["c07:near-antisymmetric-field"] += 1
        # (not combined with standardisation: standardised, the two rows have exactly equal loadings of opposite sign - an exact tie, which has no defined sign)
        if name in ("EOF", "ComplexEOF", "POP") and (i // len(names)) % 2 == 1 and not antisym:
            # features in very different units (pressure in Pa next to a precipitation flux), standardised: whatever a feature shares
            # its container with must not matter
            import xarray as xr
            da = da * xr.DataArray(10.0 ** rng.integers(-6, 8, size=da.sizes["lon"]), dims=("lon",), coords={"lon": da.lon})
            kw = dict(standardize=True)
        if name in ("EOF", "ComplexEOF", "SparsePCA") and (i // len(names)) % 4 == 1 and not antisym:
            # one entirely missing sample: under a permutation of the samples its NaN scores and everybody else's scores stay at their own labels
            da = da.copy()
            da.values[int(rng.integers(0, n))] = np.nan
            ctx.dist["c07:single:entirely-missing-sample"] += 1
        replay = dict(kind="single", cls=name, data=np.asarray(da.values), shape=da.shape, kw=kw)
        try:
            m0 = sp.make(k, **kw)
            m0.fit(da, "time")
            r0 = results(m0, "single")
        except Exception as e:
            ctx.violation("C07:%s:error:%s" % (name, C.errkind(e)), "%s fit raised %r on the reference layout" % (name, e), replay)
            continue
        # complex modes are fixed up to a unit phase only (the sign rule removes a sign, not a phase);
        # SparsePCA and OPA do not apply the sign convention: compared up to sign / phase
        upto = name in ("SparsePCA", "OPA", "POP") or sp.cplx or name == "HilbertEOF"
        for vname, dv in variants(rng, da, sp.ordered):
            ctx.case(("c07", name, vname, da.shape, i), nontrivial=True, tag="%s/%s%s" % (name, vname, "/standardized-mixed-units" if kw else ""),
                     sample=dict(cls=name, shape=list(da.shape), variant=vname, standardize=bool(kw)))
            try:
                m1 = sp.make(k, **kw)
                m1.fit(dv, "time")
                r1 = results(m1, "single")
            except Exception as e:
                ctx.violation("C07:%s:%s:error:%s" % (name, vname, C.errkind(e)), "%s fit raised %r on layout variant %s" % (name, e, vname), dict(replay, variant=vname))
                continue
            compare(ctx, "C07:%s:%s" % (name, vname), "%s under %s" % (name, vname), r0, r1, dict(replay, variant=vname), upto_sign=upto, upto_conj=(name == "POP"),
                    tol=1e-5 if name in ("SparsePCA",) else 1e-6)
        # other internal dimension names
        ctx.case(("c07", name, "names", da.shape, i), nontrivial=True, tag="%s/names" % name)
        try:
            m2 = sp.make(k, sample_name="smp", feature_name="ftr", **kw)
            m2.fit(da, "time")
            r2 = results(m2, "single")
            compare(ctx, "C07:%s:names" % name, "%s with sample_name='smp', feature_name='ftr'" % name, r0, r2, dict(replay, variant="names"), upto_sign=upto, upto_conj=(name == "POP"),
                    tol=1e-5 if name in ("SparsePCA",) else 1e-6)
        except Exception as e:
            ctx.violation("C07:%s:names:error" % name, "%s(sample_name='smp', feature_name='ftr').fit raised %r" % (name, e), dict(replay, variant="names"))
        # models built on top of EOF: rotator and bootstrapper with other names
        if name == "EOF":
            import xeofs as xe
            try:
                m2 = sp.make(k, sample_name="smp", feature_name="ftr", **kw)
                m2.fit(da, "time")
                ra = xe.single.EOFRotator(n_modes=2).fit(m0)
                rb = xe.single.EOFRotator(n_modes=2).fit(m2)
                compare(ctx, "C07:EOFRotator:names", "EOFRotator on a model with other dimension names", results(ra, "single"), results(rb, "single"), replay)
            except RuntimeError as e:
                if "converge" in str(e):
                    ctx.dist["rotation-did-not-converge"] += 1      # a refusal of the iteration on this data, whatever the names
                else:
                    ctx.violation("C07:EOFRotator:names:error", "EOFRotator on a model with other dimension names raised %r" % (e,), replay)
            except Exception as e:
                ctx.violation("C07:EOFRotator:names:error", "EOFRotator on a model with other dimension names raised %r" % (e,), replay)
            try:
                ba = xe.validation.EOFBootstrapper(n_bootstraps=3, seed=1)
                ba.fit(m0)
                bb = xe.validation.EOFBootstrapper(n_bootstraps=3, seed=1)
                bb.fit(m2)
                if not Z.same(bb.explained_variance().values, ba.explained_variance().values, 1e-8):
                    ctx.violation("C07:EOFBootstrapper:names", "bootstrap results change with the dimension names", replay)
            except Exception as e:
                ctx.violation("C07:EOFBootstrapper:names:error", "EOFBootstrapper on a model with sample_name='smp' raised %r" % (e,), replay)


def run_two_sample_dims(ctx, rng, N):
    """two sample dimensions: every relative order of the sample dimensions in the data and in `dim=`, list items
    that carry the sample dimensions in different orders, order-dependent models included"""
    import xarray as xr
    specs = Z.specs()
    names = ["EOF", "ComplexEOF", "ExtendedEOF", "SparsePCA", "HilbertEOF", "OPA"]
    for i in range(N):
        name = names[i % len(names)]
        sp = specs[name]
        nt, nm, p = int(rng.integers(5, 8)), int(rng.integers(2, 4)), int(rng.integers(3, 6))
        da3 = base_data(rng, nt * nm, 1, p, cplx=sp.cplx, red=sp.ordered)
        da = xr.DataArray(da3.values.reshape(nt, nm, p), dims=("time", "member", "x"),
                          coords={"time": np.arange(nt), "member": np.arange(nm) + 10, "x": np.arange(p) * 1.0})
        if name in ("EOF", "ComplexEOF", "SparsePCA") and (i // len(names)) % 2 == 1:
            # entirely missing samples spread unevenly over the sample grid (one member misses two times, another one a third): what is
            # averaged, and over how many samples, must not depend on the order in which the sample dimensions are named or held
            da = da.copy()
            da.values[0, 0, :] = np.nan
            da.values[2, 0, :] = np.nan
            da.values[1, nm - 1, :] = np.nan
            ctx.dist["c07:two-sample-dims:unevenly-missing-samples"] += 1
        replay = dict(kind="two-sample-dims", cls=name, data=np.asarray(da.values), shape=da.shape)
        upto = name in ("SparsePCA", "OPA", "POP") or sp.cplx or name == "HilbertEOF"
        try:
            m0 = sp.make(2)
            m0.fit(da, ("time", "member"))
            r0 = results(m0, "single")
        except Exception as e:
            ctx.violation("C07:%s:two-sample-dims:error:%s" % (name, C.errkind(e)), "%s fit with dim=('time','member') raised %r" % (name, e), replay)
            continue
        cut = int(rng.integers(1, p))
        a, b = da.isel(x=slice(0, cut)), da.isel(x=slice(cut, None)).rename({"x": "y"})
        vs = [("transpose-samples", da.transpose("member", "time", "x")), ("transpose-all", da.transpose("x", "member", "time")),
              ] + ([] if sp.ordered else [("sample-dims-named-in-the-other-order", da)]) + [
              ("list-same-order", [a, b]), ("list-mixed-order", [a, b.transpose("member", "time", "y")]),
              ("list-mixed-order2", [a.transpose("x", "member", "time"), b.transpose("time", "y", "member")])]
        r0l = None
        for vname, dv in vs:
            ctx.case(("c07-2s", name, vname, da.shape, i), nontrivial=True, tag="%s/two-sample-dims/%s" % (name, vname),
                     sample=dict(cls=name, shape=list(da.shape), variant=vname))
            try:
                m1 = sp.make(2)
                m1.fit(dv, ("member", "time") if vname == "sample-dims-named-in-the-other-order" else ("time", "member"))
                r1 = results(m1, "single")
            except Exception as e:
                ctx.violation("C07:%s:two-sample-dims:%s:error:%s" % (name, vname, C.errkind(e)), "%s fit raised %r on %s" % (name, e, vname), dict(replay, variant=vname))
                continue
            if vname.startswith("list"):
                # a list is compared with the list in the reference layout (component containers differ from the single array's)
                if r0l is None:
                    r0l = r1
                    # the list fit sees the same matrix as the single array: same singular values and scores
                    compare(ctx, "C07:%s:two-sample-dims:%s" % (name, vname), "%s on %s vs the unsplit array" % (name, vname), (r0[0], [], r0[2]), (r1[0], [], r1[2]),
                            dict(replay, variant=vname), upto_sign=upto, upto_conj=(name == "POP"), tol=1e-5 if name == "SparsePCA" else 1e-6)
                    continue
                compare(ctx, "C07:%s:two-sample-dims:%s" % (name, vname), "%s on %s vs list-same-order" % (name, vname), r0l, r1, dict(replay, variant=vname),
                        upto_sign=upto, upto_conj=(name == "POP"), tol=1e-5 if name == "SparsePCA" else 1e-6)
            else:
                compare(ctx, "C07:%s:two-sample-dims:%s" % (name, vname), "%s under %s" % (name, vname), r0, r1, dict(replay, variant=vname), upto_sign=upto, upto_conj=(name == "POP"),
                        tol=1e-5 if name == "SparsePCA" else 1e-6)


def run_many_items(ctx, rng, N):
    """a one-dimensional feature axis cut into 11..14 list items (positions with two digits)"""
    import xarray as xr
    specs = Z.specs()
    for i in range(N):
        name = ["EOF", "ComplexEOF", "SparsePCA"][i % 3]
        sp = specs[name]
        n, p = int(rng.integers(10, 16)), int(rng.integers(11, 15))
        da3 = base_data(rng, n, 1, p, cplx=sp.cplx)
        da = xr.DataArray(da3.values.reshape(n, p), dims=("time", "x"), coords={"time": np.arange(n), "x": rng.permutation(p) * 2.0 + 1})
        replay = dict(kind="many-items", cls=name, data=np.asarray(da.values), x=np.asarray(da.x.values))
        ctx.case(("c07-many", name, n, p, i), nontrivial=True, tag="%s/split-into-%d-items" % (name, p), sample=dict(cls=name, shape=[n, p], variant="one list item per feature"))
        upto = name == "SparsePCA" or sp.cplx
        try:
            m0 = sp.make(2, solver="full")
            m0.fit(da, "time")
            m1 = sp.make(2, solver="full")
            m1.fit([da.isel(x=slice(j, j + 1)) for j in range(p)], "time")
            compare(ctx, "C07:%s:split-many-items" % name, "%s with the features cut into %d list items" % (name, p), results(m0, "single"), results(m1, "single"),
                    replay, upto_sign=upto, upto_conj=(name == "POP"), tol=1e-5 if name == "SparsePCA" else 1e-6)
        except Exception as e:
            ctx.violation("C07:%s:split-many-items:error:%s" % (name, C.errkind(e)), "%s on a list of %d one-feature items raised %r" % (name, p, e), replay)


def run_cross(ctx, rng, N):
    specs = Z.specs()
    names = ["MCA", "CCA", "CPCCA", "ComplexMCA"]
    for i in range(N):
        name = names[i % len(names)]
        sp = specs[name]
        n = int(rng.integers(12, 18))
        da = base_data(rng, n, 1, int(rng.integers(3, 5)), cplx=sp.cplx)
        db = base_data(rng, n, 2, 2, cplx=sp.cplx)
        kw = dict(use_pca=False)
        replay = dict(kind="cross", cls=name, X=np.asarray(da.values), Y=np.asarray(db.values))
        try:
            m0 = sp.make(2, **kw)
            m0.fit(da, db, "time")
            r0 = results(m0, "cross")
        except Exception as e:
            ctx.violation("C07:%s:error" % name, "%s fit raised %r" % (name, e), replay)
            continue
        perm = rng.permutation(n)
        for vname, (xa, ya) in (("transpose", (da.transpose("lon", "lat", "time"), db.transpose("lat", "time", "lon"))),
                                ("feature-permutation", (da.isel(lon=rng.permutation(da.sizes["lon"])), db.isel(lon=[1, 0]))),
                                ("sample-permutation", (da.isel(time=perm), db.isel(time=perm)))):
            ctx.case(("c07x", name, vname, i), nontrivial=True, tag="%s/%s" % (name, vname), sample=dict(cls=name, variant=vname))
            try:
                m1 = sp.make(2, **kw)
                m1.fit(xa, ya, "time")
                compare(ctx, "C07:%s:%s" % (name, vname), "%s under %s" % (name, vname), r0, results(m1, "cross"), dict(replay, variant=vname), upto_sign=sp.cplx)
            except Exception as e:
                ctx.violation("C07:%s:%s:error" % (name, vname), "%s raised %r under %s" % (name, e, vname), dict(replay, variant=vname))
        ctx.case(("c07x", name, "names", i), nontrivial=True, tag="%s/names" % name)
        try:
            m2 = sp.make(2, sample_name="smp", feature_name=["fa", "fb"], **kw)
            m2.fit(da, db, "time")
            compare(ctx, "C07:%s:names" % name, "%s with other dimension names" % name, r0, results(m2, "cross"), dict(replay, variant="names"), upto_sign=sp.cplx)
        except Exception as e:
            ctx.violation("C07:%s:names:error" % name, "%s with other dimension names raised %r" % (name, e), dict(replay, variant="names"))


def run(ctx):
    C.setup_impl_env()
    rng = ctx.rng.child("c07").np
    run_single(ctx, rng, ctx.n(21, 420))
    run_two_sample_dims(ctx, rng, ctx.n(12, 240))
    run_many_items(ctx, rng, ctx.n(6, 60))
    run_cross(ctx, rng, ctx.n(8, 200))
    from harness import ren
    ren.run(ctx, "C07", ctx.n(120, 1200))
    ctx.oblige("oracle:layout and naming invariance on every model class", "oracle", not ctx.violations)


def search(ctx):
    ctx.widen(run)


def replay(ctx, rp):
    run(ctx)
