"""Correspondence of the rotation model (Model/Rot.v) with EOFRotator / ComplexEOFRotator,
shared by C04 and C11."""
import numpy as np

from harness import common as C
from harness import eofgen as G

RT = 1e-7
FIELD = {1: "RinvT is not the inverse conjugate transpose of R", 2: "rotated components", 3: "rotated scores", 4: "pseudo-norms",
         5: "rotated explained variance", 6: "transform(training) vs implementation transform", 7: "transform(training) vs fitted scores"}


def one_case(rng, cplx):
    import xarray as xr
    import xeofs as xe
    n = int(rng.integers(6, 12))
    p = int(rng.integers(3, 7))
    X = rng.standard_normal((n, p)) @ np.diag(np.linspace(2.0, 0.5, p)) + rng.standard_normal(p)
    if cplx:
        X = X + 1j * (rng.standard_normal((n, p)) @ np.diag(np.linspace(1.5, 0.4, p)))
    da = xr.DataArray(X, dims=("time", "x"), coords={"time": np.arange(n), "x": np.arange(p)})
    kb = int(rng.integers(2, min(n - 1, p) + 1))
    k = int(rng.integers(2, kb + 1))
    power = int(rng.choice([1, 1, 2, 3]))
    base = (xe.single.ComplexEOF if cplx else xe.single.EOF)(n_modes=kb, solver="full")
    base.fit(da, "time")
    Rc = xe.single.ComplexEOFRotator if cplx else xe.single.EOFRotator
    rot = Rc(n_modes=k, power=power, max_iter=5000, rtol=1e-12)
    rot.fit(base)
    d, bd = rot.data, base.data
    Vk = bd["components"].transpose("feature", "mode").values[:, :k]
    sv = bd["norms"].values[:k]
    Un = bd["scores"].transpose("sample", "mode").values[:, :k] / sv
    lam = bd["explained_variance"].values[:k]
    R = d["rotation_matrix"].transpose("mode_m", "mode_n").values
    RinvT = R if power == 1 else np.linalg.inv(R).conj().T
    idx = d["idx_modes_sorted"].values
    X2 = bd["input_data"].transpose("sample", "feature").values
    tr = rot._transform_algorithm(bd["input_data"]).transpose("sample", "mode").values
    rec = dict(n=n, p=p, k=k, power=power, cplx=cplx, Vk=Vk, Un=Un, lam=lam, sv=sv, R=R, RinvT=RinvT, idx=[int(i) for i in idx], X=X2,
               comps=d["components"].transpose("feature", "mode").values, scores=d["scores"].transpose("sample", "mode").values,
               norms=d["norms"].values, expvar=d["explained_variance"].values, transformed=tr)
    return rec


def coq_text(r):
    c = r["cplx"]
    m = lambda A: G.c_mat(np.asarray(A, dtype=complex if c else float), c)  # noqa
    v = lambda a: G.c_vec(np.asarray(a, dtype=complex if c else float), c)  # noqa
    return "mkRC %d %d %d %s %s %s %s %s %s %s %s %s %s %s %s %s" % (
        r["n"], r["p"], r["k"], m(r["Vk"]), m(r["Un"]), v(r["lam"]), v(r["sv"]), m(r["R"]), m(r["RinvT"]), C.cnatlist(r["idx"]),
        m(r["X"]), m(r["comps"]), m(r["scores"]), v(r["norms"]), v(r["expvar"]), m(r["transformed"]))


def run_correspondence(ctx, pid):
    rng = ctx.rng.child("rotcase").np
    N = ctx.n(40, 600)
    reals, cplxs = [], []
    for i in range(N):
        cplx = (i % 3 == 2)
        try:
            r = one_case(rng, cplx)
        except RuntimeError as e:
            if "converge" in str(e):
                ctx.dist["rotation-did-not-converge"] += 1
                continue
            raise
        ctx.case(("rotcase", i, r["n"], r["p"], r["k"], r["power"], cplx), nontrivial=True,
                 tag="rotcase/%s/power%d" % ("complex" if cplx else "real", r["power"]),
                 sample=dict(kind="rotator-correspondence", shape=[r["n"], r["p"]], k=r["k"], power=r["power"], complex=cplx, idx=r["idx"]))
        (cplxs if cplx else reals).append(r)
    files, plan = [], []
    for kind, cases, fn in (("r", reals, "check_rots_f64"), ("c", cplxs, "check_rots_c64")):
        for sh in range(0, len(cases), 40):
            body = [C.COQ_HEADER, "From XV Require Import Base.Scalar Base.Mat Base.Instances Model.Rot Model.RotCase.\n",
                    "Definition cases := [\n" + ";\n".join(coq_text(r) for r in cases[sh:sh + 40]) + "].\n",
                    "Eval vm_compute in %s %s cases.\n" % (fn, C.cf(RT))]
            f = C.write_case_file(pid, "rot%s%d" % (kind, sh // 40), "\n".join(body))
            files.append(f)
            plan.append((f, cases[sh:sh + 40]))
    res = C.coq_eval_files(files)
    nbad, ncmp, ok = 0, 0, True
    for f, cases in plan:
        rc, out = res[f]
        if rc != 0:
            ok = False
            ctx.oblige("correspondence:%s" % f.split("/")[-1], "correspondence", False, out[-600:])
            continue
        pairs = C.parse_pairs((C.parse_evals(out) or [""])[0])
        ncmp += len(cases)
        ctx.traces += len(cases)
        for ci, fld in pairs:
            nbad += 1
            r = cases[ci]
            ctx.notes.append("rotation model/impl disagree: %s (power=%d, k=%d, complex=%s)" % (FIELD.get(fld, fld), r["power"], r["k"], r["cplx"]))
            ctx.extra.setdefault("disagreements", []).append(dict(field=FIELD.get(fld, fld), power=r["power"], k=r["k"], complex=r["cplx"]))
    ctx.oblige("correspondence:rotation-model (%d cases, rtol %g)" % (ncmp, RT), "correspondence", ok and nbad == 0 and ncmp > 0,
               "%d field disagreements" % nbad)
