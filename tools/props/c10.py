"""C10 — named methods coincide with the general method at their special parameter values."""
import numpy as np

from harness import common as C
from harness import zoo as Z

ANCHORS = ["T5cpcca", "T5whiten", "T5eof", "T5eeof", "T8fwd", "T9text"]
MODELS = []
RULE = ("for each listed pair of configurations both models are fitted on the same data (shapes, spectra, flags, n_modes, solver varied) and compared "
        "mode by mode up to the sign (phase for complex data) of each mode: singular values, patterns at each label, scores; multi-set vs cross-set "
        "CCA: canonical correlations only; non-trivial: >= 8 samples and >= 2 features per field; distinct by input hash")
PARTIAL = ["SparsePCA without penalty vs EOF and two-view multi-set CCA vs cross-set CCA go through iterative / generalised-eigen solvers with no "
           "algebraic model: compared on the implementation only",
           "Complex model on real data: proved for the EOF model and the cross-set core (C10_complex_eof_on_real_data, C10_complex_cross_on_real_data: "
           "the model commutes with the embedding of the reals into the complex numbers); the Hilbert variants and the preprocessing around the core "
           "are compared on the implementation"]
REFUTED = []
TRUSTED = ["constants regenerated from mca.py / cca.py / rda.py (T5cpcca)", "Coq.Reals axioms in C10_whitener_identity_at_one and in the C10_complex_* theorems "
           "(Coquelicot's complex numbers over Coq's reals)"]
ASSUMES = ["spectral gap between retained modes in generated data"]


def align(A, B, axis_modes=-1):
    """multiply each mode of B by the unit factor that best aligns it with A"""
    A2 = np.moveaxis(A, axis_modes, -1).reshape(-1, A.shape[axis_modes])
    B2 = np.moveaxis(B, axis_modes, -1).reshape(-1, B.shape[axis_modes])
    ip = np.sum(B2.conj() * A2, axis=0)
    if np.iscomplexobj(ip):
        f = np.where(np.abs(ip) > 0, ip / np.where(np.abs(ip) > 0, np.abs(ip), 1), 1)
    else:
        f = np.where(ip < 0, -1.0, 1.0)
    return f


def cmp_single(ctx, key, what, a, b, replay, tol=1e-6, check_scores=True):
    sva, svb = a.singular_values().values, b.singular_values().values
    if not Z.same(svb, sva, tol):
        ctx.violation(key + ":singular-values", "%s: singular values differ (%r vs %r)" % (what, sva[:3], svb[:3]), replay)
        return
    ca, cb = a.components(), b.components()
    fd = [d for d in ca.dims if d != "mode"]
    A, B = ca.transpose(*fd, "mode").values, cb.transpose(*fd, "mode").values
    f = align(A, B)
    if not Z.same(B * f, A, tol):
        ctx.violation(key + ":components", "%s: components differ beyond the sign of each mode" % what, replay)
        return
    if check_scores:
        sa, sb = a.scores().transpose("time", "mode").values, b.scores().transpose("time", "mode").values
        if not Z.same(sb * f, sa, tol):
            ctx.violation(key + ":scores", "%s: scores differ beyond the sign of each mode" % what, replay)


def cmp_cross(ctx, key, what, a, b, replay, tol=1e-6):
    sva, svb = a.data["singular_values"].values, b.data["singular_values"].values
    if not Z.same(svb, sva, tol):
        ctx.violation(key + ":singular-values", "%s: singular values differ (%r vs %r)" % (what, sva[:3], svb[:3]), replay)
        return
    f = None
    for ca, cb in zip(a.components(), b.components()):
        fd = [d for d in ca.dims if d != "mode"]
        A, B = ca.transpose(*fd, "mode").values, cb.transpose(*fd, "mode").values
        if f is None:
            f = align(A, B)
        if not Z.same(B * f, A, tol):
            ctx.violation(key + ":components", "%s: components differ beyond a common sign per mode" % what, replay)
            return
    for sa, sb in zip(a.scores(), b.scores()):
        if not Z.same(sb.transpose("time", "mode").values * f, sa.transpose("time", "mode").values, tol):
            ctx.violation(key + ":scores", "%s: scores differ beyond a common sign per mode" % what, replay)
            return
    # reconstructions (phase/sign factors cancel between scores and patterns)
    try:
        ra, rb = a.inverse_transform(*a.scores()), b.inverse_transform(*b.scores())
    except NotImplementedError:
        return
    for xa, xb in zip(ra, rb):
        if not Z.same(xb.transpose(*xa.dims).values, xa.values, max(tol, 1e-6)):
            ctx.violation(key + ":reconstruction", "%s: inverse_transform(scores()) differs (max diff %.3g)" % (
                what, float(np.abs(xb.transpose(*xa.dims).values - xa.values).max())), replay)
            return


def gap_data(rng, n, p, name="x", cplx=False):
    import xarray as xr
    r = min(n - 1, p)
    s = np.linspace(3.0, 0.6, r)
    X = (rng.standard_normal((n, r)) * s) @ rng.standard_normal((r, p)) + rng.standard_normal(p)
    if cplx:
        X = X + 1j * (rng.standard_normal((n, r)) * s) @ rng.standard_normal((r, p))
    return xr.DataArray(X, dims=("time", name), coords={"time": np.arange(n), name: np.arange(p)})


def run(ctx):
    C.setup_impl_env()
    import xeofs as xe
    rng = ctx.rng.child("c10").np
    N = ctx.n(10, 150)
    for i in range(N):
        n = int(rng.integers(10, 18))
        p1, p2 = int(rng.integers(3, 6)), int(rng.integers(3, 6))
        X, Y = gap_data(rng, n, p1, "x"), gap_data(rng, n, p2, "y")
        k = int(rng.integers(1, min(p1, p2)))
        flags = dict(standardize=bool(rng.random() < 0.3), use_pca=bool(rng.random() < 0.5), n_pca_modes="all", solver=str(rng.choice(["full", "auto"])))
        replay = dict(kind="pair", X=np.asarray(X.values), Y=np.asarray(Y.values), k=k, flags=flags)
        # 1-3. MCA / CCA / RDA vs CPCCA at the pinned alpha
        for nm, cls, alpha in (("MCA", xe.cross.MCA, 1.0), ("CCA", xe.cross.CCA, 0.0), ("RDA", xe.cross.RDA, [0.0, 1.0])):
            ctx.case(("named", nm, n, p1, p2, k, str(flags), i), nontrivial=True, tag="%s=CPCCA(alpha=%s)" % (nm, alpha),
                     sample=dict(pair="%s vs CPCCA(alpha=%s)" % (nm, alpha), shapes=[[n, p1], [n, p2]], k=k, flags=flags))
            try:
                a = cls(n_modes=k, **flags)
                a.fit(X, Y, "time")
                b = xe.cross.CPCCA(n_modes=k, alpha=alpha, **flags)
                b.fit(X, Y, "time")
                cmp_cross(ctx, "C10:%s-vs-CPCCA" % nm, "%s vs CPCCA(alpha=%s)" % (nm, alpha), a, b, replay)
            except Exception as e:
                ctx.violation("C10:%s-vs-CPCCA:error" % nm, "%s vs CPCCA raised %r" % (nm, e), replay)
        # 4. MCA of a field with itself reproduces EOF
        ctx.case(("mca-self", n, p1, k, i), nontrivial=True, tag="MCA(X,X)=EOF(X)", sample=dict(pair="MCA(X,X) vs EOF(X)", shape=[n, p1], k=k))
        try:
            m = xe.cross.MCA(n_modes=k, use_pca=False, standardize=flags["standardize"], solver="full")
            m.fit(X, X.rename({"x": "x2"}).assign_coords(x2=X.x.values), "time")
            e = xe.single.EOF(n_modes=k, standardize=flags["standardize"], solver="full")
            e.fit(X, "time")
            if not Z.same(m.data["singular_values"].values, e.explained_variance().values, 1e-7):
                ctx.violation("C10:MCA-self-vs-EOF:singular-values", "MCA(X,X): singular values %r differ from EOF's explained variances %r" % (
                    m.data["singular_values"].values[:3], e.explained_variance().values[:3]), replay)
            c1, c2 = m.components()
            ce = e.components().transpose("x", "mode").values
            for cm, dname in ((c1, "x"), (c2, "x2")):
                B = cm.transpose(dname, "mode").values
                f = align(ce, B)
                if not Z.same(B * f, ce, 1e-6):
                    ctx.violation("C10:MCA-self-vs-EOF:patterns", "MCA(X,X): patterns differ from EOF's components beyond sign", replay)
        except Exception as e_:
            ctx.violation("C10:MCA-self-vs-EOF:error", "MCA(X,X) vs EOF raised %r" % (e_,), replay)
        # 5. a Complex model fed real data equals the real model
        ctx.case(("complex-real", n, p1, k, i), nontrivial=True, tag="ComplexEOF(real)=EOF", sample=dict(pair="ComplexEOF on real data vs EOF", shape=[n, p1], k=k))
        try:
            sflags = dict(center=bool(rng.random() < 0.6), standardize=flags["standardize"])
            a = xe.single.EOF(n_modes=k, solver="full", **sflags)
            a.fit(X, "time")
            b = xe.single.ComplexEOF(n_modes=k, solver="full", **sflags)
            b.fit(X, "time")
            cmp_single(ctx, "C10:ComplexEOF-on-real", "ComplexEOF on real data vs EOF", a, b, replay)
            a = xe.cross.MCA(n_modes=k, use_pca=False, solver="full")
            a.fit(X, Y, "time")
            b = xe.cross.ComplexMCA(n_modes=k, use_pca=False, solver="full")
            b.fit(X, Y, "time")
            cmp_cross(ctx, "C10:ComplexMCA-on-real", "ComplexMCA on real data vs MCA", a, b, replay)
        except Exception as e_:
            ctx.violation("C10:Complex-on-real:error", "Complex model on real data raised %r" % (e_,), replay)
        # 6. ExtendedEOF with a single embedding equals EOF
        ctx.case(("eeof1", n, p1, k, i), nontrivial=True, tag="ExtendedEOF(embedding=1)=EOF", sample=dict(pair="ExtendedEOF(embedding=1) vs EOF", shape=[n, p1], k=k))
        try:
            sflags = dict(center=bool(rng.random() < 0.6), standardize=flags["standardize"])
            a = xe.single.EOF(n_modes=k, solver="full", **sflags)
            a.fit(X, "time")
            for tau in (1, 3):
                b = xe.single.ExtendedEOF(n_modes=k, tau=tau, embedding=1, solver="full", n_pca_modes=(None if rng.random() < 0.5 else p1), **sflags)
                b.fit(X, "time")
                if not Z.same(b.explained_variance().values, a.explained_variance().values, 1e-7):
                    ctx.violation("C10:ExtendedEOF-single-embedding:explained-variance", "ExtendedEOF(embedding=1, tau=%d): explained variance differs from EOF" % tau, replay)
                cb = b.components().squeeze("embedding", drop=True) if "embedding" in b.components().dims else b.components()
                A, B = a.components().transpose("x", "mode").values, cb.transpose("x", "mode").values
                if not Z.same(B * align(A, B), A, 1e-6):
                    ctx.violation("C10:ExtendedEOF-single-embedding:components", "ExtendedEOF(embedding=1): components differ from EOF", replay)
        except Exception as e_:
            ctx.violation("C10:ExtendedEOF-single-embedding:error:%s" % C.errkind(e_), "ExtendedEOF(embedding=1).fit raised %r" % (e_,), replay)
        # 7. SparsePCA without penalty equals EOF
        ctx.case(("spca0", n, p1, k, i), nontrivial=True, tag="SparsePCA(alpha=0)=EOF", sample=dict(pair="SparsePCA(alpha=0) vs EOF", shape=[n, p1], k=k))
        try:
            a = xe.single.EOF(n_modes=k, solver="full")
            a.fit(X, "time")
            b = xe.single.SparsePCA(n_modes=k, alpha=0.0, beta=0.0, max_iter=2000, tol=1e-14)
            b.fit(X, "time")
            A, B = a.components().transpose("x", "mode").values, b.components().transpose("x", "mode").values
            if not Z.same(B * align(A, B), A, 1e-4):
                ctx.violation("C10:SparsePCA-no-penalty:components", "SparsePCA(alpha=0): components differ from EOF (max diff %.3g)" % float(np.abs(B * align(A, B) - A).max()), replay)
            if not Z.same(b.explained_variance().values, a.explained_variance().values, 1e-4):
                ctx.violation("C10:SparsePCA-no-penalty:explained-variance", "SparsePCA(alpha=0): explained variance differs from EOF", replay)
            # the randomised route in row blocks (n_blocks > 1, a number of samples that is no multiple of it): every sample is read
            nb = int(rng.integers(2, 5))
            if n % nb == 0:
                nb = nb + 1 if n % (nb + 1) else nb + 2
            ctx.case(("spca0-blocks", n, p1, k, nb, i), nontrivial=True, tag="SparsePCA(alpha=0, randomized, n_blocks)=EOF")
            b = xe.single.SparsePCA(n_modes=k, alpha=0.0, beta=0.0, solver="randomized", oversample=5, n_subspace=2, n_blocks=nb, random_state=7, max_iter=2000, tol=1e-14)
            try:
                b.fit(X, "time")
                A, B = a.components().transpose("x", "mode").values, b.components().transpose("x", "mode").values
            except ValueError as e_:
                if "equal division" not in str(e_):
                    raise
                ctx.dist["c10:spca-row-blocks:refused (array split)"] += 1     # a refusal, not a result
                A = B = np.zeros((1, 1))
                b = a
            if not Z.same(B * align(A, B), A, 1e-4) or not Z.same(b.explained_variance().values, a.explained_variance().values, 1e-4):
                ctx.violation("C10:SparsePCA-no-penalty:row-blocks", "SparsePCA(alpha=0, solver='randomized', n_blocks=%d) on %d samples: components / explained variance differ from EOF "
                              "(max diff %.3g / %r vs %r)" % (nb, n, float(np.abs(B * align(A, B) - A).max()), b.explained_variance().values[:3], a.explained_variance().values[:3]),
                              dict(replay, n_blocks=nb))
        except Exception as e_:
            ctx.violation("C10:SparsePCA-no-penalty:error", "SparsePCA(alpha=0) raised %r" % (e_,), replay)
        # 8. PCA pre-reduction keeping all modes equals no pre-reduction
        ctx.case(("pca-all", n, p1, p2, k, i), nontrivial=True, tag="use_pca(all)=no-pca", sample=dict(pair="use_pca=True,n_pca_modes='all' vs use_pca=False", k=k))
        try:
            Xc, Yc = gap_data(rng, n, p1, "x", cplx=True), gap_data(rng, n, p2, "y", cplx=True)
            # the same fields in small or large physical units (a mixing ratio in mol/mol, a pressure in Pa): every other case
            ux, uy = (float(10.0 ** rng.integers(-12, -6)), float(10.0 ** rng.integers(-9, 6))) if i % 2 == 1 else (1.0, 1.0)
            ctx.dist["c10:pca-all:units:%s" % ("rescaled" if ux != 1.0 else "as generated")] += 1
            for cls, kw, (dx, dy) in ((xe.cross.MCA, {}, (X * ux, Y * uy)), (xe.cross.CCA, {}, (X * ux, Y * uy)), (xe.cross.CPCCA, {"alpha": 0.5}, (X * ux, Y * uy)),
                                      (xe.cross.ComplexMCA, {}, (Xc * ux, Yc * uy)), (xe.cross.ComplexCPCCA, {"alpha": 0.5}, (Xc * ux, Yc * uy))):
                a = cls(n_modes=k, use_pca=False, solver="full", **kw)
                a.fit(dx, dy, "time")
                b = cls(n_modes=k, use_pca=True, n_pca_modes="all", solver="full", **kw)
                b.fit(dx, dy, "time")
                cmp_cross(ctx, "C10:pca-all-modes:%s" % cls.__name__, "%s with PCA keeping all modes vs no PCA" % cls.__name__, a, b,
                          dict(replay, Xc=np.asarray(dx.values), Yc=np.asarray(dy.values)))
                # "all modes" spelled out per field as the two (different) feature counts, and pre-reduction of one field only
                for spelled in (dict(use_pca=True, n_pca_modes=[p1, p2]), dict(use_pca=[True, False], n_pca_modes=[p1, 1]), dict(use_pca=[False, True], n_pca_modes=[1, p2])):
                    b = cls(n_modes=k, solver="full", **spelled, **kw)
                    b.fit(dx, dy, "time")
                    cmp_cross(ctx, "C10:pca-all-modes:per-field:%s" % cls.__name__, "%s with %r (every mode of each field kept) vs no PCA" % (cls.__name__, spelled), a, b,
                              dict(replay, Xc=np.asarray(dx.values), Yc=np.asarray(dy.values), spelled=str(spelled)))
        except Exception as e_:
            ctx.violation("C10:pca-all-modes:error", "PCA-all-modes comparison raised %r" % (e_,), replay)
        # 9. two-view multi-set CCA and cross-set CCA find the same canonical correlations
        ctx.case(("multi2", n, p1, p2, i), nontrivial=True, tag="multi.CCA(2 views)=cross.CCA", sample=dict(pair="multi.CCA two views vs cross.CCA", shapes=[[n, p1], [n, p2]]))
        try:
            kk = min(2, k)
            a = xe.cross.CCA(n_modes=kk, use_pca=False, solver="full")
            a.fit(X, Y, "time")
            s1, s2 = a.scores()
            rho = np.real(np.sum(s1.values.conj() * s2.values, axis=s1.dims.index("time")) /
                          np.sqrt(np.sum(np.abs(s1.values) ** 2, axis=s1.dims.index("time")) * np.sum(np.abs(s2.values) ** 2, axis=s2.dims.index("time"))))
            v1, v2 = X.rename({"x": "f"}), Y.rename({"y": "f"})
            b = xe.multi.CCA(n_modes=kk, pca=False, eps=1e-9) if "eps" in xe.multi.CCA.__init__.__code__.co_varnames else xe.multi.CCA(n_modes=kk, pca=False)
            b.fit([v1, v2], "time")
            t1, t2 = b.scores()
            rho_m = np.real(np.sum(t1.values * t2.values, axis=t1.dims.index("time")) /
                            np.sqrt(np.sum(t1.values ** 2, axis=t1.dims.index("time")) * np.sum(t2.values ** 2, axis=t2.dims.index("time"))))
            if not np.allclose(np.sort(np.abs(rho_m))[::-1], np.sort(np.abs(rho))[::-1], rtol=1e-4, atol=1e-5):
                ctx.violation("C10:multi-vs-cross-CCA", "two-view multi-set CCA canonical correlations %r differ from cross-set CCA %r" % (rho_m, rho), replay)
        except Exception as e_:
            ctx.violation("C10:multi-vs-cross-CCA:error", "multi-set vs cross-set CCA raised %r" % (e_,), replay)
    ctx.oblige("oracle:each listed pair of configurations agrees up to the sign of each mode", "oracle", not ctx.violations)


def search(ctx):
    ctx.widen(run)


def replay(ctx, rp):
    run(ctx)
