"""C13 — a model survives serialisation unchanged.

(i)  correspondence of the codec model (Model/Serial.v + Gen/T2.v) with `_sanitize_attrs_nc` ->
     `_desanitize_attrs_nc` on real DataTrees, value by value (outcome class, str(), JSON round trip);
     Python's literal_eval is the oracle: its answers are handed to the model as a table and the two
     premises the theorems make about it are validated on every generated value.
(ii) oracle on the implementation: every model class x input structure x user attributes x
     {direct, netCDF attribute codec, JSON attribute round trip, placeholders} x
     {fresh, after queries, after compute(), after a rotator was fitted on the model}:
     `cls.deserialize(tree)` must give equal parameters and identical answers."""
import copy
import json
import time
from ast import literal_eval

import numpy as np

from harness import common as C
from harness import zoo as Z

ANCHORS = ["T2", "T7ser", "T7pipe", "T9text"]
MODELS = ["Serial"]
RULE = ("(i) attribute values: None/bool/int/float/str/list/dict nestings of depth <= 3 plus the literal-looking strings "
        "'', '[m/s]', '{a}', 'True', 'None', '[1, 2]', 'abc', ...; at node level and at variable level of a DataTree; "
        "(ii) model classes EOF, ComplexEOF, HilbertEOF, ExtendedEOF, SparsePCA, POP, OPA, CPCCA, MCA, CCA, RDA, ComplexCPCCA, "
        "ComplexMCA, HilbertMCA and the rotators of EOF/ComplexEOF/HilbertEOF/CPCCA/MCA/ComplexMCA/HilbertMCA x structures "
        "(3-D DataArray, Dataset, list, sample MultiIndex, NaN feature, name = dimension name) x parameter variants "
        "(None/bool/list/dict-valued) x user attribute sets x 4 tree paths x 4 moments; non-trivial: the model was fitted on "
        ">= 8 samples and >= 3 features and at least components and scores were compared numerically; distinct by case hash")
PARTIAL = ["no machine-checked model of serialize/deserialize of containers, transformers and the preprocessor (DESIGN: "
           "C13_tree_roundtrip, C13_placeholders, C13_after_history): these are checked on the implementation only (oracle ii) "
           "and through the footprint obligation C13_every_read_field_is_restored",
           "no netCDF/zarr engine is installed: the file formats themselves (tuple attributes written as arrays, dtype "
           "encodings, chunking) are outside the check; the two attribute codecs are applied to the in-memory DataTree",
           "satisfiability of oracle_spec (literal_eval . str = id on the simple fragment) is not proved by exhibiting a "
           "verified parser; it is validated against Python on every generated value"]
REFUTED = ["C13_codec_refuted"]
TRUSTED = ["ast.literal_eval is an oracle with premises oracle_spec, oracle_not_self and oracle_errors (validated on every run)",
           "Model/PyVal.v py_str is Python's str() on the modelled slice (compared character by character on every case)",
           "xarray DataTree, json"]
ASSUMES = ["attribute values range over None/bool/int/float/str/list/dict with string keys; tuples, numpy scalars and arrays "
           "are not modelled", "strings inside containers are printable ASCII without quote and backslash; dict keys distinct"]

ERRCODE = {"TypeError": 1, "ValueError": 2, "KeyError": 3, "NotImplemented": 4, "LinAlg": 5, "other:SyntaxError": 7}

FIXED_STRINGS = ["", "[m/s]", "{a}", "True", "False", "None", "[1, 2]", "abc", "[", "]", "{}", "[]", "{", "[a", "a]", "true",
                 "none", " None", "[1, 2] ", "{'a': 1}", "['x', None]", "[m s-1]", "K", "degrees_north", "1", "1.5", "{1: 2}x}"]


# ====================================================================== (i) codec correspondence
def coq_str(s):
    return '"' + s.replace('"', '""') + '"'


def representable(v, depth=0):
    if v is None or isinstance(v, (bool, int, str)):
        return not isinstance(v, str) or all(32 <= ord(c) < 127 for c in v)
    if isinstance(v, float):
        return v == v and abs(v) != float("inf")
    if isinstance(v, list):
        return all(representable(x, depth + 1) for x in v)
    if isinstance(v, dict):
        return all(isinstance(k, str) and representable(k) and representable(x, depth + 1) for k, x in v.items())
    return False


def to_coq(v):
    if v is None:
        return "PNone"
    if isinstance(v, bool):
        return "(PBool %s)" % ("true" if v else "false")
    if isinstance(v, int):
        return "(PInt (%d)%%Z)" % v
    if isinstance(v, float):
        return "(PFloatTok %s)" % coq_str(repr(v))
    if isinstance(v, str):
        return "(PStr %s)" % coq_str(v)
    if isinstance(v, list):
        return "(PList [%s])" % "; ".join(to_coq(x) for x in v)
    if isinstance(v, dict):
        return "(PDict [%s])" % "; ".join("(%s, %s)" % (coq_str(k), to_coq(x)) for k, x in v.items())
    raise ValueError("not representable: %r" % (v,))


def tag_of(v):
    if v is None:
        return 0
    if isinstance(v, bool):
        return 1
    if isinstance(v, int):
        return 2
    if isinstance(v, float):
        return 3
    if isinstance(v, str):
        return 4
    if isinstance(v, list):
        return 5
    if isinstance(v, dict):
        return 6
    return 9


def strict_eq(a, b):
    """equality that distinguishes True from 1 and 1 from 1.0"""
    if type(a) is not type(b):
        return False
    if isinstance(a, list):
        return len(a) == len(b) and all(strict_eq(x, y) for x, y in zip(a, b))
    if isinstance(a, dict):
        return list(a.keys()) == list(b.keys()) and all(strict_eq(a[k], b[k]) for k in a)
    if isinstance(a, float):
        return repr(a) == repr(b)
    return a == b


def gen_value(rng, depth=0):
    r = rng.random()
    if depth >= 2 or r < 0.55:
        k = int(rng.integers(0, 7))
        if k == 0:
            return None
        if k == 1:
            return bool(rng.integers(0, 2))
        if k == 2:
            return int(rng.integers(-50, 1000))
        if k == 3:
            return float(rng.choice([0.5, -1.25, 1e-8, 3.0, 1e22, 0.1, 273.15]))
        if k == 4:
            return str(rng.choice(["K", "m s-1", "x", "", "time", "deg N", "a:b", "True", "None", "[x]"]))
        if k == 5:
            return []
        return {}
    if r < 0.8:
        return [gen_value(rng, depth + 1) for _ in range(int(rng.integers(0, 4)))]
    keys = ["a", "b", "units", "k 1", "n_modes", "x"]
    ks = [keys[i] for i in sorted(set(rng.integers(0, len(keys), size=int(rng.integers(0, 4))).tolist()))]
    return {k: gen_value(rng, depth + 1) for k in ks}


def is_simple(v, top=True):
    """the fragment on which oracle_spec is stated (mirror of PyVal.simple)"""
    if isinstance(v, str):
        return all(32 <= ord(c) < 127 and c not in "'\\" for c in v)
    if isinstance(v, list):
        return all(is_simple(x, False) for x in v)
    if isinstance(v, dict):
        return all(is_simple(k, False) and is_simple(x, False) for k, x in v.items())
    return True


def impl_codec(v):
    """real _sanitize_attrs_nc -> _desanitize_attrs_nc on a DataTree; returns outcome per site"""
    import xarray as xr
    from xeofs.utils.io import _desanitize_attrs_nc, _sanitize_attrs_nc
    outs = []
    for site in ("node", "var", "coord"):
        da = xr.DataArray(np.arange(3.0), dims="x", name="v", attrs={"k": copy.deepcopy(v)} if site == "var" else {})
        if site == "coord":
            da = da.assign_coords(x=xr.DataArray(np.arange(3.0), dims="x", attrs={"k": copy.deepcopy(v)}))
        dt = xr.DataTree(xr.Dataset({"v": da}, attrs={"k": copy.deepcopy(v)} if site == "node" else {}), name="root")
        dt["child"] = xr.DataTree(xr.Dataset({"w": da.rename("w")}, attrs={"k": copy.deepcopy(v)} if site == "node" else {}))
        try:
            dt = _sanitize_attrs_nc(dt)
            mid = dt["child"].attrs["k"] if site == "node" else (dt["child"]["w"].attrs["k"] if site == "var" else dt["child"]["x"].attrs["k"])
            dt = _desanitize_attrs_nc(dt)
            got = [dt.attrs["k"], dt["child"].attrs["k"]] if site == "node" else (
                [dt["v"].attrs["k"], dt["child"]["w"].attrs["k"]] if site == "var" else [dt["x"].attrs["k"], dt["child"]["x"].attrs["k"]])
            if not strict_eq(got[0], got[1]):
                outs.append(("sites-disagree", got, mid))
            elif strict_eq(got[0], v):
                outs.append((0, got[0], mid))
            else:
                outs.append((20 + tag_of(got[0]), got[0], mid))
        except Exception as e:
            outs.append((10 + ERRCODE.get(C.errkind(e), 6), repr(e), None))
    return outs


def oracle_entry(s):
    try:
        r = literal_eval(s)
    except Exception as e:
        return "Err %d" % ERRCODE.get(C.errkind(e), 6), ("err", C.errkind(e))
    if not representable(r):
        return None, ("unrepresentable", repr(r))
    return "Ok %s" % to_coq(r), ("ok", r)


def coq_outcomes(cases, shard):
    """evaluate the codec model on the cases (dicts with v, s0, ent) -> ([(outcome, json outcome)], [str codes]) or an error text"""
    import re
    body = ["From Coq Require Import ZArith List Bool String.", "From XV Require Import Base.Scalar Model.PyVal Gen.T2 Model.Serial.",
            "Import ListNotations.", "Open Scope string_scope.",
            "Definition cases : list (list (string * result pyv) * pyv) := ["]
    body.append(";\n".join("  ([(%s, %s)], %s)" % (coq_str(c["s0"]), c["ent"], to_coq(c["v"])) for c in cases))
    body.append("].")
    body.append("Eval vm_compute in map (fun c => (codec_outcome (fst c) (snd c), json_outcome (snd c))) cases.")
    body.append("Eval vm_compute in map (fun c => str_codes (py_str (snd c))) cases.")
    f = C.write_case_file("C13", shard, "\n".join(body) + "\n")
    rc, out = C.coqc_run(f)
    if rc != 0:
        return out[-1200:]
    ev = C.parse_evals(out)
    model = C.parse_pairs(ev[0]) if ev else []
    strs = [[int(x) for x in re.findall(r"-?\d+", g)] for g in re.findall(r"\[([^\[\]]*)\]", ev[1].replace("%Z", ""))] if len(ev) > 1 else []
    if len(model) != len(cases) or len(strs) != len(cases):
        return "model produced %d/%d answers for %d cases" % (len(model), len(strs), len(cases))
    return model, strs


def make_case(v):
    s0 = v if isinstance(v, str) else str(v)
    ent, info = oracle_entry(s0)
    if ent is None:
        return None
    return dict(v=v, s0=s0, ent=ent, info=info)


def run_codec(ctx):
    rng = ctx.rng.child("c13-codec").np
    vals = [s for s in FIXED_STRINGS]
    vals += [None, True, False, 0, -3, 2.5, [], {}, [1, 2], [None, True, "a"], {"a": None}, {"solver_kwargs": {}, "alpha": [0.5, 1.0]},
             {"n_modes": 2, "center": True, "random_state": None, "solver": "auto", "feature_name": ["feature1", "feature2"]},
             [[1, [2.5, "x"]], {"k 1": [False]}], {"dim_mapping": {"time": "dim0", "x": "dim1"}}, ["True", "None", ""]]
    for _ in range(ctx.n(150, 1500)):
        vals.append(gen_value(rng))
    cases = []
    for v in vals:
        if not representable(v):
            continue
        c = make_case(v)
        if c is not None:
            cases.append(c)
    res = coq_outcomes(cases, "codec")
    if isinstance(res, str):
        ctx.oblige("correspondence:codec", "correspondence", False, res)
        return
    model, strs = res
    bad = 0
    prem_bad = 0
    seen_outcomes = {}
    for c, (mo, mj), mstr in zip(cases, model, strs):
        v = c["v"]
        ctx.traces += 1
        outs = impl_codec(v)
        io = outs[0][0]
        tagname = "codec/%s/%s" % (type(v).__name__, {0: "unchanged"}.get(io, "error" if isinstance(io, int) and 10 <= io < 20 else "changed"))
        ctx.case(("codec", repr(v)), nontrivial=not (v is None or v == "" or v == [] or v == {}), tag=tagname,
                 sample=dict(value=v, impl_outcome=io, model_outcome=mo))
        why = None
        if outs[0][0] != outs[1][0]:
            why = "node-level and variable-level attributes are treated differently: %r vs %r" % (outs[0][:2], outs[1][:2])
        elif io != mo:
            why = "outcome class: implementation %r (%r), model %d" % (io, outs[0][1], mo)
        elif "".join(map(chr, mstr)) != str(v):
            why = "py_str: model %r, Python %r" % ("".join(map(chr, mstr)), str(v))
        else:
            pj = 0 if strict_eq(json.loads(json.dumps(v)), v) else 1
            if pj != mj:
                why = "json round trip: implementation %d, model %d" % (pj, mj)
        if why:
            bad += 1
            ctx.violation("C13:correspondence:codec", "codec model and implementation disagree on attribute %r: %s" % (v, why),
                          dict(kind="codec", value=v))
        # the property itself on the implementation: structured values and numbers survive the codec
        if not isinstance(v, str) and is_simple(v) and io != 0:
            ctx.violation("C13:nc-codec:structured-value:%s" % type(v).__name__,
                          "an attribute of type %s does not survive _sanitize_attrs_nc -> _desanitize_attrs_nc: %r came back as %r "
                          "(expected: equal value)" % (type(v).__name__, v, outs[0][1]), dict(kind="codec", value=v))
        seen_outcomes[(type(v).__name__, io)] = seen_outcomes.get((type(v).__name__, io), 0) + 1
        # premises about the oracle, on Python itself
        if isinstance(v, (list, dict, bool)) or v is None:
            if is_simple(v):
                try:
                    ok = strict_eq(literal_eval(str(v)), v)
                except Exception:
                    ok = False
                if not ok:
                    prem_bad += 1
                    ctx.notes.append("oracle_spec fails in Python for %r" % (v,))
        if c["info"][0] == "err" and c["info"][1] not in ("ValueError", "other:SyntaxError"):
            prem_bad += 1
            ctx.notes.append("oracle_errors fails in Python for %r: %s" % (c["s0"], c["info"][1]))
        if c["info"][0] == "ok" and isinstance(v, str) and strict_eq(c["info"][1], v):
            prem_bad += 1
            ctx.notes.append("oracle_not_self fails in Python for %r" % (v,))
    ctx.oblige("correspondence:codec (%d attribute values x 2 sites)" % len(cases), "correspondence", bad == 0, "%d disagreements" % bad)
    ctx.oblige("oracle-premises: literal_eval(str(v)) == v on simple sanitised values; literal_eval(s) != s; only ValueError/SyntaxError", "oracle", prem_bad == 0,
               "%d failures" % prem_bad)
    # the defect itself, on the implementation: user-visible strings that do not survive the netCDF codec
    for s, expect in (("", "IndexError"), ("[m/s]", "ValueError"), ("{a}", "ValueError"), ("[m s-1]", "SyntaxError"), ("True", "bool"), ("None", "NoneType"),
                      ("[1, 2]", "list")):
        o = impl_codec(s)[1]
        if o[0] != 0:
            what = ("exception %s" % o[1]) if 10 <= o[0] < 20 else ("comes back as %s %r" % (type(o[1]).__name__, o[1]))
            ctx.violation("C13:nc-codec:user-attr:%r" % s,
                          "F-13: a user attribute string %r does not survive _sanitize_attrs_nc -> _desanitize_attrs_nc: %s "
                          "(expected: the same string)" % (s, what), dict(kind="codec", value=s))


# ====================================================================== (ii) implementation oracle
USER_ATTRS = {
    "none": ({}, {}),
    "plain": ({"long_name": "temperature", "units": "K", "scale": 2, "offset": 0.5}, {"units": "degrees_north", "axis": "Y"}),
    "empty-string": ({"long_name": "temperature", "comment": ""}, {"axis": ""}),
    "brackets": ({"units": "[m/s]"}, {"units": "[deg]"}),
    "True": ({"flag": "True", "missing": "None"}, {"positive": "False"}),
    "list-like": ({"levels": "[1, 2]"}, {}),
    "structured": ({"levels": [1, 2], "valid": True, "fill": None}, {"bounds": None, "regular": True, "valid_range": [-90, 90]}),
}


def jdefault(o):
    if isinstance(o, np.generic):
        return o.item()
    if isinstance(o, np.ndarray):
        return o.tolist()
    raise TypeError("not JSON serialisable: %r" % (o,))


def path_direct(dt):
    return dt


def path_nc(dt):
    from xeofs.utils.io import _desanitize_attrs_nc, _sanitize_attrs_nc
    return _desanitize_attrs_nc(_sanitize_attrs_nc(dt))


def path_json(dt):
    for node in dt.subtree:
        node.attrs = json.loads(json.dumps(dict(node.attrs), default=jdefault))
        for v in node.variables:
            node[v].attrs = json.loads(json.dumps(dict(node[v].attrs), default=jdefault))
    return dt


def json_offenders(dt):
    """(node path, attribute name, type name) of every attribute json.dumps refuses"""
    out = []
    for node in dt.subtree:
        for owner, attrs in [(node.path, node.attrs)] + [("%s:%s" % (node.path, v), node[v].attrs) for v in node.variables]:
            for k, val in attrs.items():
                try:
                    json.dumps(val, default=jdefault)
                except TypeError:
                    out.append((owner, str(k), type(val).__name__))
    return out


def path_placeholders(dt):
    from xeofs.utils.io import insert_placeholders
    return insert_placeholders(dt)


PATHS = [("direct", path_direct), ("nc-codec", path_nc), ("json", path_json), ("placeholders", path_placeholders)]


def set_attrs(obj, a, ca):
    import xarray as xr
    if isinstance(obj, list):
        return [set_attrs(o, a, ca) for o in obj]
    obj = obj.copy()
    obj.attrs = copy.deepcopy(a)
    if isinstance(obj, xr.Dataset):
        for v in obj.data_vars:
            obj[v].attrs = copy.deepcopy(a)
    for d in obj.dims:
        if d in obj.coords and d not in ("time", "year", "month") and ca:
            obj[d].attrs = copy.deepcopy(ca)
    return obj


def make_input(struct, rng, cplx, red, n, fname):
    """-> data object with sample dimension 'time'"""
    import pandas as pd
    import xarray as xr

    def arr(shape):
        X = rng.standard_normal(shape)
        if red:
            X = np.cumsum(X, axis=0) * 0.5 + 0.3 * rng.standard_normal(shape)
        if cplx:
            X = X + 1j * rng.standard_normal(shape)
        return X + 2.0 * rng.standard_normal(shape[1:])
    t = np.arange(n)
    if struct == "da3":
        return xr.DataArray(arr((n, 3, 2)), dims=("time", "lat", fname), coords={"time": t, "lat": [10.0, 20.0, 30.0], fname: [0, 1]}, name="t2m")
    if struct == "da3aux":
        # auxiliary (non-index) coordinates along the two feature dimensions that get stacked
        da = xr.DataArray(arr((n, 3, 2)), dims=("time", "lat", fname), coords={"time": t, "lat": [10.0, 20.0, 30.0], fname: [0, 1]}, name="t2m")
        return da.assign_coords(cell_area=(("lat", fname), np.arange(6.0).reshape(3, 2) + 1.0), zone=("lat", [7, 8, 9]))
    if struct == "miaux":
        # a user MultiIndex on the sample dimension with an auxiliary coordinate lying along it
        assert n % 2 == 0
        mi = pd.MultiIndex.from_product([np.arange(n // 2), [1, 2]], names=("year", "month"))
        da = xr.DataArray(arr((n, 4)), dims=("time", fname), coords={fname: np.arange(4)}, name="t2m")
        da = da.assign_coords(xr.Coordinates.from_pandas_multiindex(mi, "time"))
        return da.assign_coords(season=("time", np.arange(n) % 4))
    if struct == "ds":
        a = xr.DataArray(arr((n, 3)), dims=("time", fname), coords={"time": t, fname: [0, 1, 2]})
        b = xr.DataArray(arr((n, 3)), dims=("time", fname), coords={"time": t, fname: [0, 1, 2]})
        return xr.Dataset({"a": a, "b": b})
    if struct == "list":
        a = xr.DataArray(arr((n, 3)), dims=("time", fname), coords={"time": t, fname: [0, 1, 2]}, name="u")
        b = xr.DataArray(arr((n, 2)), dims=("time", fname + "b"), coords={"time": t, fname + "b": [5, 6]}, name="v")
        return [a, b]
    if struct == "list1":
        # a list holding exactly one item: still a list (results come back as one-item lists)
        return [xr.DataArray(arr((n, 4)), dims=("time", fname), coords={"time": t, fname: [0, 1, 2, 3]}, name="u")]
    if struct == "list12":
        # more than ten list items (positions with two digits), each with its own mean and feature labels
        return [xr.DataArray(arr((n, 2)) + 10.0 * j, dims=("time", fname), coords={"time": t, fname: [100 * j, 100 * j + 1]}, name="v%d" % j) for j in range(12)]
    if struct == "mi":
        assert n % 2 == 0
        mi = pd.MultiIndex.from_product([np.arange(n // 2), [1, 2]], names=("year", "month"))
        da = xr.DataArray(arr((n, 4)), dims=("time", fname), coords={fname: np.arange(4)}, name="t2m")
        return da.assign_coords(xr.Coordinates.from_pandas_multiindex(mi, "time"))
    if struct == "nan":
        X = arr((n, 5))
        X[:, 1] = np.nan
        return xr.DataArray(X, dims=("time", fname), coords={"time": t, fname: np.arange(5)}, name="t2m")
    if struct == "name=dim":
        return xr.DataArray(arr((n, 4)), dims=("time", fname), coords={"time": t, fname: np.arange(4)}, name=fname)
    if struct == "da2":
        return xr.DataArray(arr((n, 4)), dims=("time", fname), coords={"time": t, fname: np.arange(4)}, name="t2m")
    raise ValueError(struct)


PARAM_VARIANTS = {
    "single": [dict(), dict(standardize=True, random_state=7), dict(solver="full", solver_kwargs={}, check_nans=True, center=False),
               dict(sample_name="s", feature_name="f")],
    "cross": [dict(n_pca_modes="all"), dict(use_pca=[True, False], n_pca_modes=["all", "all"], standardize=[True, False], random_state=3),
              dict(use_pca=False, check_nans=[True, True]), dict(n_pca_modes="all", feature_name=["fa", "fb"], sample_name="s")],
}
# classes that address the dimensions by the literals "sample"/"feature" (F-07, property C07): keep the default names
DEFAULT_NAMES_ONLY = {"ExtendedEOF", "OPA"}


class Case:
    """one fitted model (possibly a rotator on top of a base model) with the data it was fitted on"""

    def __init__(self, name, rot, struct, attrs, pv, seed):
        self.name, self.rot, self.struct, self.attrs, self.pv, self.seed = name, rot, struct, attrs, pv, seed
        self.label = name + ("Rotator" if rot else "")

    def build(self, lazy=False):
        sp = Z.specs()[self.name]
        rng = np.random.default_rng(self.seed)
        n = 12
        kw = dict(PARAM_VARIANTS[sp.kind][self.pv])
        if self.name in DEFAULT_NAMES_ONLY:
            kw.pop("sample_name", None)
            kw.pop("feature_name", None)
        if self.name in ("MCA", "CCA", "RDA", "ComplexMCA", "HilbertMCA"):
            pass
        if lazy:
            kw["compute"] = False
        a, ca = USER_ATTRS[self.attrs]
        X = set_attrs(make_input(self.struct, rng, sp.cplx, sp.ordered, n, "x"), a, ca)
        self.X = X
        self.Y = None
        k = 2
        m = sp.make(k, **kw)
        if sp.kind == "single":
            m.fit(X, "time")
        else:
            self.Y = set_attrs(make_input("da2", rng, sp.cplx, sp.ordered, n, "y"), a, ca)
            m.fit(X, self.Y, "time")
        self.base = m
        self.sp = sp
        self.kw = kw
        if self.rot:
            R = Z.rotator_for(self.name)
            r = R(n_modes=2, power=1, max_iter=5000, rtol=1e-8, **({"compute": False} if lazy else {}))
            try:
                r.fit(m)
            except RuntimeError as e:
                if "converge" not in str(e) or self.seed > 50000:
                    raise
                self.seed += 10007      # Varimax did not converge on this draw: take another one
                return self.build(lazy)
            return r
        return m


class Raised(tuple):
    """('raised', kind, text): marker for an answer that raised"""


def is_raised(o):
    return isinstance(o, Raised)


def observe(m, case):
    """the answers of a model, by name; an exception is recorded as ('raised', kind)"""
    sp = case.sp
    out = {}

    def rec(name, f):
        try:
            out[name] = f()
        except Exception as e:
            out[name] = Raised(("raised", C.errkind(e), repr(e)[:200]))
    rec("params", lambda: copy.deepcopy(m.get_params()))
    rec("components", lambda: m.components())
    rec("scores", lambda: m.scores())
    if sp.kind == "single":
        rec("transform", lambda: m.transform(case.X))
        rec("inverse_transform", lambda: m.inverse_transform(m.scores()))
    else:
        rec("transform", lambda: m.transform(case.X, case.Y))
        rec("transform-X-only", lambda: m.transform(X=case.X))
        rec("inverse_transform", lambda: m.inverse_transform(*m.scores()))
        rec("predict", lambda: m.predict(case.X))
    return out


def flat(o, prefix=""):
    import xarray as xr
    if isinstance(o, (list, tuple)) and not is_raised(o):
        for i, x in enumerate(o):
            yield from flat(x, "%s[%d]" % (prefix, i))
    elif isinstance(o, xr.Dataset):
        yield prefix + ".attrs", dict(o.attrs)
        for v in o.data_vars:
            yield from flat(o[v], "%s.%s" % (prefix, v))
    else:
        yield prefix, o


def attr_causes(a, b, own_keys):
    """classify how two attribute dictionaries differ -> list of (cause, detail); `own_keys` are the USER's attribute
    names: a string under any other key was written by xeofs itself (model parameters as strings)"""
    out = []
    for k in sorted(set(a) | set(b), key=str):
        if k in a and k in b and strict_eq_attr(a[k], b[k]):
            continue
        va, vb = a.get(k, "<absent>"), b.get(k, "<absent>")
        if k in ("multiindexes", "name_map"):
            out.append(("serializer-attrs-in-result", "%s: %r -> %r" % (k, va, vb)))
        elif k not in own_keys and isinstance(va, str) and k in b and not isinstance(vb, str):
            out.append(("own-attr-literal-string-retyped", "%s: %r -> %r (%s)" % (k, va, vb, type(vb).__name__)))
        elif isinstance(va, str) and k in b and not isinstance(vb, str):
            out.append(("user-attr-literal-string-retyped", "%s: %r -> %r (%s)" % (k, va, vb, type(vb).__name__)))
        elif k in own_keys and isinstance(va, str) and k not in b:
            out.append(("user-attr-literal-string-dropped", "%s: %r -> absent" % (k, va)))
        elif isinstance(va, tuple) and isinstance(vb, list) and list(va) == vb:
            out.append(("tuple-becomes-list", "%s" % k))
        else:
            out.append(("attr-changed", "%s: %r -> %r" % (k, va, vb)))
    return out


def strict_eq_attr(a, b):
    if isinstance(a, np.ndarray) or isinstance(b, np.ndarray):
        return type(a) is type(b) and a.shape == b.shape and bool(np.all(a == b))
    if isinstance(a, tuple) and isinstance(b, tuple):
        return len(a) == len(b) and all(strict_eq_attr(x, y) for x, y in zip(a, b))
    if isinstance(a, np.generic):
        a = a.item()
    if isinstance(b, np.generic):
        b = b.item()
    if isinstance(a, (tuple,)) or isinstance(b, (tuple,)):
        return False
    return strict_eq(a, b)


def compare_obs(o0, o1, own_keys):
    """-> list of (answer name, kind, detail); kind in {'raised:<K>', 'values', 'labels', 'attrs:<cause>', 'params'}"""
    import xarray as xr
    diffs = []
    numeric = 0
    for name, a in o0.items():
        b = o1.get(name)
        if is_raised(a):
            continue      # not offered by the fitted model either
        if is_raised(b):
            diffs.append((name, "raised:" + b[1], b[2]))
            continue
        if name == "params":
            if not (list(a.keys()) == list(b.keys()) and all(strict_eq_attr(a[k], b[k]) for k in a)):
                ch = [(k, a.get(k), b.get(k)) for k in set(a) | set(b) if not (k in a and k in b and strict_eq_attr(a[k], b[k]))]
                kind = "params"
                if all(isinstance(x, tuple) and isinstance(y, list) and list(x) == y for _, x, y in ch):
                    kind = "params:tuple-becomes-list"
                diffs.append((name, kind, repr(ch)[:300]))
            continue
        fa, fb = dict(flat(a, name)), dict(flat(b, name))
        if set(fa) != set(fb):
            diffs.append((name, "structure", "%r vs %r" % (sorted(fa), sorted(fb))))
            continue
        for key in fa:
            x, y = fa[key], fb[key]
            if isinstance(x, dict):
                for cause, det in attr_causes(x, y, own_keys):
                    diffs.append((key, "attrs:" + cause, det))
                continue
            if not isinstance(x, xr.DataArray) or not isinstance(y, xr.DataArray):
                if type(x) is not type(y):
                    diffs.append((key, "structure", "%s vs %s" % (type(x).__name__, type(y).__name__)))
                continue
            numeric += 1
            if x.dims != y.dims or x.shape != y.shape:
                diffs.append((key, "labels", "dims %r%r vs %r%r" % (x.dims, x.shape, y.dims, y.shape)))
                continue
            lab_ok = True
            for c in set(x.coords) | set(y.coords):
                if c not in x.coords or c not in y.coords:
                    lab_ok = False
                    diffs.append((key, "labels", "coordinate %s only on one side" % c))
                    continue
                try:
                    same = x[c].to_index().equals(y[c].to_index()) if x[c].ndim == 1 else bool(np.array_equal(x[c].values, y[c].values))
                except Exception:
                    same = bool(np.array_equal(np.asarray(x[c].values, dtype=object), np.asarray(y[c].values, dtype=object)))
                if not same:
                    lab_ok = False
                    diffs.append((key, "labels", "coordinate %s differs" % c))
                for cause, det in attr_causes(dict(x[c].attrs), dict(y[c].attrs), own_keys):
                    diffs.append((key, "attrs:" + cause, "coordinate %s.%s" % (c, det)))
            if lab_ok:
                xv, yv = np.asarray(x.values), np.asarray(y.values)
                if xv.dtype != yv.dtype:
                    diffs.append((key, "values", "dtype %s vs %s" % (xv.dtype, yv.dtype)))
                elif not np.array_equal(xv, yv, equal_nan=True):
                    err = float(np.nanmax(np.abs(xv - yv))) if xv.size else 0.0
                    diffs.append((key, "values", "max abs diff %.3g (scale %.3g)" % (err, float(np.nanmax(np.abs(xv))) if xv.size else 0.0)))
            if name not in ("x",):
                for cause, det in attr_causes(dict(x.attrs), dict(y.attrs), own_keys):
                    diffs.append((key, "attrs:" + cause, det))
    return diffs, numeric


def tree_signature(dt):
    """structure of a serialised tree: paths, variable names, attribute keys/values (for 'the tree does not depend on history')"""
    sig = []
    for node in dt.subtree:
        at = {k: (repr(v) if k != "date" else "") for k, v in node.attrs.items()}
        vs = {}
        for v in node.variables:
            va = {k: (repr(x) if k != "date" else "") for k, x in node[v].attrs.items()}
            vs[str(v)] = (tuple(node[v].dims), tuple(node[v].shape), va)
        sig.append((node.path, at, vs))
    return sig


def sig_diff(s0, s1):
    p0, p1 = {p: (a, v) for p, a, v in s0}, {p: (a, v) for p, a, v in s1}
    out = []
    for p in sorted(set(p0) | set(p1)):
        if p not in p0:
            out.append("node %s appeared" % p)
        elif p not in p1:
            out.append("node %s disappeared" % p)
        elif p0[p] != p1[p]:
            a0, v0 = p0[p]
            a1, v1 = p1[p]
            if set(v0) != set(v1):
                out.append("node %s: variables %s -> %s" % (p, sorted(v0), sorted(v1)))
            elif a0 != a1:
                out.append("node %s: node attributes changed" % p)
            else:
                ch = [v for v in v0 if v0[v] != v1[v]]
                out.append("node %s: variables %s changed (dims/shape/attrs)" % (p, ch))
    return out


def report(ctx, case, moment, path, diffs):
    """one violation per (class-or-cause, path, kind); where the cause is known to lie in the codec, in the serializer's
    handling of Datasets or of names, the key names the cause instead of the class"""
    for name, kind, det in diffs:
        ans = name.split("[")[0].split(".")[0]
        ans = {"transform-X-only": "transform", "predict": "transform"}.get(ans, ans)   # all enter through Preprocessor.transform
        base = dict(rp(case, moment, path), answer=name, diff_kind=kind, detail=det)
        where = "%s (%s, input %s, user attrs %s, params %s)" % (case.label, moment, case.struct, case.attrs, case.kw)
        if kind.startswith("attrs:"):
            cause = kind[len("attrs:"):]
            if "serializer-attrs-in-result" in cause:
                key = "C13:dataset-input:result-attrs:serializer-attrs-in-result"
            else:
                key = "C13:%s:result-attrs:%s" % (path, cause)
            what = "%s: attributes of %s differ after %s: %s (expected: identical attributes)" % (where, name, path, det)
        else:
            k = kind.split(":", 1)[1] if kind.startswith("raised:") else kind
            verb = "raised" if kind.startswith("raised") else "differs (" + kind + ")"
            if path == "nc-codec" and case.attrs in ("True", "list-like", "empty-string", "brackets") and moment == "fresh":
                # the codec's treatment of literal-looking user strings is the cause whatever the structure of the input
                key = "C13:nc-codec:user-attrs=%s:%s:%s" % (case.attrs, ans, k)
            elif case.struct == "name=dim":
                key = "C13:name=feature-dim:%s:%s" % (ans, k)
            else:
                key = "C13:%s:%s:%s:%s:%s" % (case.label, moment, path, ans, k)
            what = "%s: after %s, %s of the rebuilt model %s: %s (expected: identical to the fitted model's answer)" % (where, path, name, verb, det)
        count_report(ctx)
        ctx.violation(key, what, base)


def count_report(ctx):
    ctx.extra["c13_reports"] = ctx.extra.get("c13_reports", 0) + 1


def rp(case, moment, path):
    return dict(kind="model", cls=case.name, rot=case.rot, struct=case.struct, attrs=case.attrs, pv=case.pv, seed=case.seed,
                moment=moment, path=path)


def run_paths(ctx, case, m, moment, o0, paths, first_tree=None):
    """rebuild the model from its tree along each path and compare the answers; `first_tree` is an already serialised
    tree that the first path may consume"""
    cls = type(m)
    user_keys = set(USER_ATTRS[case.attrs][0]) | set(USER_ATTRS[case.attrs][1])
    n_numeric = 0
    sfx = ":" + case.struct if case.struct == "name=dim" else ""
    for i, (pname, pf) in enumerate(paths):
        try:
            dt = pf(first_tree if (i == 0 and first_tree is not None) else m.serialize())
        except Exception as e:
            if pname == "nc-codec" and case.attrs in ("empty-string", "brackets"):
                # the codec itself fails on the user's strings: keyed once, under the codec
                ctx.violation("C13:nc-codec:model-tree:user-attrs=%s:%s" % (case.attrs, C.errkind(e)),
                              "F-13: %s fitted on data whose attributes are %r cannot be read back through the netCDF attribute "
                              "codec: %r (expected: the tree is decoded and the model rebuilt)" % (case.label, USER_ATTRS[case.attrs], e),
                              rp(case, moment, pname))
            elif pname == "json":
                bad = json_offenders(m.serialize())
                for (npath, aname, tname) in bad[:3] or [("?", "?", type(e).__name__)]:
                    ctx.violation("C13:json:attribute-not-serialisable:%s:%s" % (aname, tname),
                                  "%s (%s, input %s): attribute %r of tree node %s holds a %s, which cannot be written as JSON "
                                  "(zarr attributes): %r (expected: every attribute of a serialised model can be stored)"
                                  % (case.label, moment, case.struct, aname, npath, tname, e), rp(case, moment, pname))
            else:
                ctx.violation("C13:%s:%s:%s%s:tree:%s" % (case.label, moment, pname, sfx, C.errkind(e)),
                              "%s (%s, input %s, attrs %s): building the tree for path %s raised %r"
                              % (case.label, moment, case.struct, case.attrs, pname, e), rp(case, moment, pname))
            continue
        try:
            m2 = cls.deserialize(dt)
        except Exception as e:
            count_report(ctx)
            ctx.violation("C13:%s:%s:%s%s:deserialize:%s" % (case.label, moment, pname, sfx, C.errkind(e)),
                          "%s (%s, input %s, user attrs %s, params %s): %s.deserialize(tree) after %s raised %r"
                          % (case.label, moment, case.struct, case.attrs, case.kw, cls.__name__, pname, e), rp(case, moment, pname))
            continue
        o1 = observe(m2, case)
        if pname == "placeholders":
            # answers that need the input data are documented to be unavailable on a model saved without it
            for k in list(o1):
                if is_raised(o1[k]) and "placeholder" in o1[k][2].lower():
                    o1[k] = o0[k]
        diffs, numeric = compare_obs(o0, o1, user_keys)
        n_numeric += numeric
        report(ctx, case, moment, pname, diffs)
    return n_numeric


def run_case(ctx, case, paths, moments):
    t0 = time.time()
    try:
        m = case.build()
    except Exception as e:
        ctx.dist["fit-not-supported/%s/%s" % (case.label, case.struct)] += 1
        if case.struct == "da2" and case.pv == 0:
            ctx.violation("C13:harness:%s:fit" % case.label, "harness: %s could not be fitted on the plain case: %r" % (case.label, e),
                          rp(case, "fit", "-"), has_input=False)
        return
    user_keys = set(USER_ATTRS[case.attrs][0]) | set(USER_ATTRS[case.attrs][1])
    numeric = 0
    dt0 = m.serialize()
    sig0 = tree_signature(dt0)
    o0 = observe(m, case)
    if "fresh" in moments:
        numeric += run_paths(ctx, case, m, "fresh", o0, paths, first_tree=dt0 if paths[0][0] == "direct" else None)
    # the tree must not depend on queries having been answered
    if "after-queries" in moments:
        dt1 = m.serialize()
        d = sig_diff(sig0, tree_signature(dt1))
        if d:
            ctx.violation("C13:%s:after-queries:tree-changed" % case.label,
                          "%s: the serialised tree changed after transform/inverse_transform/components/scores were called: %s"
                          % (case.label, d[:4]), rp(case, "after-queries", "direct"))
            numeric += run_paths(ctx, case, m, "after-queries", o0, [PATHS[0]], first_tree=dt1)
    if "after-compute" in moments:
        try:
            m.compute()
            o2 = observe(m, case)
            diffs, _ = compare_obs(o0, o2, user_keys)
            report(ctx, case, "after-compute", "compute()", diffs)
            d = sig_diff(sig0, tree_signature(m.serialize()))
            if d:
                ctx.violation("C13:%s:after-compute:tree-changed" % case.label,
                              "%s: the serialised tree changed after compute(): %s" % (case.label, d[:4]), rp(case, "after-compute", "direct"))
        except Exception as e:
            ctx.violation("C13:%s:after-compute:%s" % (case.label, C.errkind(e)), "%s: compute() on a fitted model raised %r" % (case.label, e),
                          rp(case, "after-compute", "direct"))
    if "after-rotator-fit" in moments and not case.rot and Z.rotator_for(case.name) is not None:
        base = case.base
        R = Z.rotator_for(case.name)
        try:
            R(n_modes=2, power=1, max_iter=5000, rtol=1e-8).fit(base)
        except Exception:
            ctx.dist["rotator-fit-failed/%s" % case.name] += 1
        else:
            dt2 = base.serialize()
            d = sig_diff(sig0, tree_signature(dt2))
            if d:
                before = ctx.extra.get("c13_reports", 0)
                numeric += run_paths(ctx, case, base, "after-rotator-fit", o0, [PATHS[0]], first_tree=dt2)
                if ctx.extra.get("c13_reports", 0) == before:
                    fam = "cross-set" if case.sp.kind == "cross" else case.label
                    ctx.violation("C13:%s:after-rotator-fit:tree-changed" % fam,
                                  "F-14b: %s: fitting a rotator on the model changed the model's own serialised tree: %s "
                                  "(expected: the fitted model is not modified by a rotator)" % (case.label, d[:4]),
                                  rp(case, "after-rotator-fit", "direct"))
    ctx.case(("model", case.label, case.struct, case.attrs, case.pv, tuple(p for p, _ in paths), tuple(moments)),
             nontrivial=numeric >= 2, tag="%s/%s/attrs=%s" % (case.label, case.struct, case.attrs),
             sample=dict(cls=case.label, struct=case.struct, attrs=case.attrs, params=C.jsonable(case.kw), paths=[p for p, _ in paths],
                         moments=list(moments), numeric_comparisons=numeric))
    ctx.extra.setdefault("case_seconds", []).append(round(time.time() - t0, 2))


ALL_CLASSES = ["EOF", "ComplexEOF", "HilbertEOF", "ExtendedEOF", "SparsePCA", "POP", "OPA", "CPCCA", "MCA", "CCA", "RDA",
               "ComplexCPCCA", "ComplexMCA", "HilbertMCA", "HilbertCPCCA"]
ROTATABLE = ["EOF", "ComplexEOF", "HilbertEOF", "CPCCA", "MCA", "ComplexMCA", "HilbertMCA", "ComplexCPCCA", "HilbertCPCCA"]
STRUCTS = ["da2", "da3aux", "miaux", "da3", "ds", "list", "list1", "mi", "nan", "name=dim", "list12"]
MOMENTS = ["fresh", "after-queries", "after-compute", "after-rotator-fit"]


def plan(ctx):
    """quick: a covering selection (every class x every path x every moment; every structure and attribute set on EOF and on
    one cross-set class); thorough: the product"""
    cases = []
    classes = [(c, False) for c in ALL_CLASSES] + [(c, True) for c in ROTATABLE]
    if True:
        # suspected defects first: a rotator fitted on the model (F-14b), literal-looking user attributes (F-13)
        for i, c in enumerate(ROTATABLE):
            cases.append((Case(c, False, "da2", "none", 0, 100 + i), [PATHS[0], PATHS[1 + i % 3]], ["fresh", "after-queries", "after-rotator-fit"]))
        for j, at in enumerate(USER_ATTRS):
            if at in ("none", "plain"):
                continue
            cases.append((Case("EOF", False, "ds" if j % 2 else "da3", at, 0, 240 + j), PATHS[:3], ["fresh"]))
            cases.append((Case("CPCCA", False, "da2", at, 1, 260 + j), PATHS[1:2], ["fresh"]))
        for j, st in enumerate(STRUCTS[1:]):
            cases.append((Case("EOF", False, st, "plain", j % 4, 200 + j), PATHS, ["fresh"]))
            cases.append((Case("MCA", j % 2 == 1, st, "none", j % 4, 220 + j), PATHS[:1] + [PATHS[1 + j % 3]], ["fresh"]))
        for i, (c, rot) in enumerate(classes):
            if not rot and c in ROTATABLE:
                continue
            mom = ["fresh", "after-queries"] + (["after-compute"] if i % 2 == 0 else [])
            cases.append((Case(c, rot, "da2", "plain" if i % 2 else "none", 0, 120 + i), [PATHS[0], PATHS[1 + i % 3]], mom))
        for j, pv in enumerate((1, 2, 3)):
            cases.append((Case(("EOF", "POP", "SparsePCA")[j], False, "da2", "none", pv, 280 + j), PATHS[:3], ["fresh"]))
            cases.append((Case(("CPCCA", "RDA", "ComplexMCA")[j], False, "da2", "none", pv, 290 + j), [PATHS[0], PATHS[2]], ["fresh"]))
    if not ctx.quick:
        # after the targeted cases: the product class x structure x attributes (parameter variants rotate), in a
        # seed-determined order so that a time-limited run still spreads over all classes
        prod = []
        i = 0
        for (c, rot) in classes:
            for st in STRUCTS:
                for at in USER_ATTRS:
                    i += 1
                    prod.append((Case(c, rot, st, at, i % 4, 1000 + i), PATHS, MOMENTS if st in ("da2", "ds") else ["fresh"]))
        order = ctx.rng.child("c13-plan").np.permutation(len(prod))
        cases += [prod[k] for k in order]
    return cases


def run_models(ctx):
    t0 = time.time()
    budget = ctx.n(150, 900)
    cases = plan(ctx)
    done = 0
    for case, paths, moments in cases:
        if time.time() - t0 > budget:
            ctx.notes.append("time budget reached after %d of %d planned model cases" % (done, len(cases)))
            break
        run_case(ctx, case, paths, moments)
        done += 1
    ctx.extra["model_cases_planned"] = len(cases)
    ctx.extra["model_cases_run"] = done
    secs = ctx.extra.pop("case_seconds", [])
    ctx.extra["model_case_seconds_total"] = round(sum(secs), 1)
    model_viol = [v for v in ctx.violations if v["replay"].get("kind") == "model"]
    ctx.oblige("oracle:deserialize(serialize(model)) answers identically on %d model cases" % done, "oracle", not model_viol,
               "; ".join(v["key"] for v in model_viol[:12]))


def run(ctx):
    C.setup_impl_env()
    if ctx.extra.get("model_ok", True):
        run_codec(ctx)
    else:
        ctx.notes.append("codec correspondence skipped: model does not build")
    run_models(ctx)


def search(ctx):
    """a tie broke without a failing input so far: look at the targeted families of this property"""
    C.setup_impl_env()
    for s in ("", "[m/s]", "True"):
        o = impl_codec(s)[1]
        if o[0] != 0:
            ctx.violation("C13:nc-codec:user-attr:%r" % s, "attribute string %r does not survive the netCDF attribute codec: %r" % (s, o[1]),
                          dict(kind="codec", value=s))


def replay(ctx, rp):
    C.setup_impl_env()
    r = rp.get("replay", rp)
    if r.get("kind") == "codec":
        v = r["value"]
        outs = impl_codec(v)
        print("replay codec value %r: node-level %r, variable-level %r" % (v, outs[0][:2], outs[1][:2]))
        c = make_case(v) if representable(v) else None
        if c is not None and ctx.extra.get("model_ok", True):
            res = coq_outcomes([c], "replay")
            print("replay codec value %r: model outcome %r (0 unchanged, 10+k exception kind k, 20+t other type t)"
                  % (v, res if isinstance(res, str) else res[0][0][0]))
        if outs[1][0] != 0:
            ctx.violation(rp.get("key", "C13:nc-codec:user-attr:%r" % (v,)), "attribute %r does not survive the netCDF codec: %r" % (v, outs[1][1]), r)
        return
    if r.get("kind") == "model":
        case = Case(r["cls"], bool(r.get("rot")), r.get("struct", "da2"), r.get("attrs", "none"), int(r.get("pv", 0)), int(r.get("seed", 0)))
        paths = [p for p in PATHS if p[0] == r.get("path")] or PATHS
        mom = r.get("moment", "fresh")
        run_case(ctx, case, paths, [mom] if mom in MOMENTS else MOMENTS)
        for v in ctx.violations:
            print("replay:", v["key"], "::", v["what"][:300])
        return
    run(ctx)
