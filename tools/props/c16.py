"""C16 — fractional whitening and PCA reduction are exact, invertible changes of basis."""
import numpy as np

from harness import common as C
from harness import eofgen as G

ANCHORS = ["T5whiten", "T9text"]
MODELS = ["WhitenCase"]
RULE = ("xeofs.preprocessing.Whitener and PCA fitted directly on centred (sample, feature) matrices with n_samples > n_features and full column "
        "rank: real and complex x condition number of X in {1 .. 1e6} x alpha in {0, 1/4, 1/3, 1/2, 3/4, 9/10, 1} x data scale 1e-9 .. 1e6 x numpy / dask "
        "(feature dimension in one chunk); PCA n_modes integer / fractional / 'all' x solver full / auto; Coq correspondence of T, Tinv, transformed "
        "data and pattern maps (whitening model) and of the basis and the four PCA maps; in a third of the oracle cases the transformer object was fitted on "
        "unrelated data of the same width and used in both directions before the fit under test; non-trivial: n > p >= 1 and a numeric comparison was made; "
        "distinct by input hash")
PARTIAL = ["the real power lam^((alpha-1)/2) is an oracle: for rational alpha = a/b its defining relation d^(2b) lam^(b-a) = 1 is a premise of "
           "C16_whitened_cov_power_law and is re-checked in Coq on every case; at the real instance the positive answer is unique and d^2 lam is the real "
           "power lam^(a/b) (C16_power_oracle_unique, C16_whitened_eig_is_real_power); irrational alpha is out of reach of the relation",
           "the stored inverse is modelled as V diag(1/d) V^H (the exact inverse, C16_T_Tinv_inverse); np.linalg.inv is compared with it numerically",
           "'leading' principal subspace: C16_pca_spans_leading proves the columns are eigenvectors for the FIRST k singular values of the oracle's list; "
           "that the list is descending is the SVD oracle's property (checked numerically, and proved for the EOF model in C01_descending_nonneg)",
           "randomised back-ends (solver='auto' choosing randomized / dask svd_compressed) are only checked for orthonormality and round trips"]
REFUTED = []
TRUSTED = ["eigen-decomposition of C = X^H X / n, SVD of X and the real power are oracles (numpy.linalg.eigh / svd / **); their residuals are re-checked in Coq",
           "comparison tolerance is 1e-7 relative to the matrix magnitude, widened to 16 eps cond(C) where forming the covariance matrix loses that much"]
ASSUMES = ["n_samples > n_features, full column rank",
           "every eigenvalue of the covariance matrix is above the cut-off of _fractional_matrix_power (premise `whiten_keep` of the theorems)"]

EPS = float(np.finfo(float).eps)
RT = 1e-7
ALPHAS = [(0, 1), (1, 4), (1, 2), (3, 4), (1, 1), (1, 3), (9, 10)]
KEY_CUTOFF = "C16:_fractional_matrix_power:absolute-eps-cutoff"
WFIELD = {1: "shapes", 2: "eigen oracle: C != V diag(lam) V^H", 3: "eigen oracle: V^H V != I", 4: "eigen oracle: V V^H != I", 5: "d dinv != 1",
          6: "exponent (alpha-1)/2", 7: "power oracle: d^(2b) lam^(b-a) != 1", 8: "premise: eigenvalue at or below the cut-off", 9: "is_identity",
          10: "T", 11: "Tinv", 12: "transform(X)", 13: "inverse_transform_data(transform(X))", 14: "transform_components(P)",
          15: "inverse_transform_components(transform_components(P))", 16: "model: un-whitened data != X", 17: "model: patterns do not come back"}
PFIELD = {1: "shapes", 2: "SVD oracle: X != U S Vt", 3: "SVD oracle: U^H U != I", 4: "SVD oracle: Vt Vt^H != I", 5: "basis V", 6: "transform(X)",
          7: "inverse_transform_data(transform(X))", 8: "transform_components(P)", 9: "inverse_transform_components(Q)", 10: "model: V^H V != I",
          11: "model: Q does not come back", 12: "model: all modes but data do not come back", 13: "model: C V != V diag(s^2/n)"}


def cutoff_relative():
    """which cut-off variant the source currently has, as read off by the translator (Gen/T5whiten.v)"""
    import os
    import re
    try:
        txt = open(os.path.join(C.COQ, "Gen", "T5whiten.v")).read()
    except OSError:
        return False
    m = re.search(r"Definition fmp_cutoff_relative : bool := (true|false)\.", txt)
    return bool(m and m.group(1) == "true")


def threshold(lam, relative):
    return EPS * len(lam) * float(np.max(lam)) if relative else EPS


# ---------------------------------------------------------------- generators
def rnd(rng, a, b, cplx):
    M = rng.standard_normal((a, b))
    if cplx:
        M = M + 1j * rng.standard_normal((a, b))
    return M


def gen_matrix(rng, n, p, cond, cplx, scale):
    """centred n x p matrix, singular values scale*sqrt(n)*s with s from 1 down to 1/cond (jittered, distinct)"""
    A = rnd(rng, n, p, cplx)
    A = A - A.mean(axis=0)
    U, _ = np.linalg.qr(A)
    V, _ = np.linalg.qr(rnd(rng, p, p, cplx))
    if p > 1:
        e = np.linspace(0.0, 1.0, p) + np.concatenate([[0.0], rng.uniform(-0.2, 0.2, p - 2) / (p - 1), [0.0]])
        s = cond ** (-np.sort(e))
    else:
        s = np.ones(1)
    X = (U * s) @ V.conj().T * (scale * np.sqrt(n))
    return np.ascontiguousarray(X)


def dataarray(X, dask, chunk_rows=None):
    import xarray as xr
    n, p = X.shape
    arr = X
    if dask:
        import dask.array as da
        arr = da.from_array(X, chunks=(chunk_rows or max(p, (n + 1) // 2), p))
    return xr.DataArray(arr, dims=("sample", "feature"), coords={"sample": np.arange(n), "feature": np.arange(p)})


def patterns(P, first="feature", start=0):
    """patterns (feature x mode); in PC space the feature coordinate carries the mode labels 1..k"""
    import xarray as xr
    a, m = P.shape
    return xr.DataArray(P, dims=(first, "mode"), coords={first: np.arange(start, start + a), "mode": np.arange(1, m + 1)})


def val(da, *dims):
    return np.asarray(da.transpose(*dims).values)


def relerr(a, b):
    a, b = np.asarray(a), np.asarray(b)
    if a.shape != b.shape:
        return float("inf")
    sc = float(np.abs(b).max()) if b.size else 0.0
    d = float(np.abs(a - b).max()) if b.size else 0.0
    if not np.isfinite(d):
        return float("inf")
    return d / sc if sc > 0 else d


def decode(x):
    if isinstance(x, dict) and "re" in x:
        return np.asarray(x["re"], dtype=float) + 1j * np.asarray(x["im"], dtype=float)
    return np.asarray(x, dtype=float)


# ---------------------------------------------------------------- implementation drivers
def prior_use(t, X, dask, P, history):
    """the transformer object was fitted on unrelated data of the same width and used in both directions before the fit under test"""
    rngh = np.random.default_rng(history)
    n0 = X.shape[0] + int(rngh.integers(0, 3))
    X0 = rngh.normal(size=(n0, X.shape[1])) * (np.abs(X).max() or 1.0)
    if np.iscomplexobj(X):
        X0 = X0 + 1j * rngh.normal(size=X0.shape)
    D0 = dataarray(X0, dask)
    t.fit(D0)
    for f in (lambda: t.inverse_transform_data(t.transform(D0)), lambda: t.inverse_transform_components(t.transform_components(patterns(P)))):
        try:
            f()
        except Exception:
            pass


def run_whitener(X, alpha, dask, P, Y=None, history=0):
    from xeofs.preprocessing import Whitener
    D = dataarray(X, dask)
    w = Whitener(alpha=alpha)
    if history:
        prior_use(w, X, dask, P, history)
    w = w.fit(D)
    Xw = w.transform(D)
    Xb = w.inverse_transform_data(Xw)
    Pd = patterns(P)
    Pw = w.transform_components(Pd)
    Pb = w.inverse_transform_components(Pw)
    Pi = w.inverse_transform_components(Pd)
    Pib = w.transform_components(Pi)
    p = X.shape[1]
    rec = dict(isid=bool(w.is_identity), Xw=val(Xw, "sample", "feature"), Xb=val(Xb, "sample", "feature"),
               Pw=val(Pw, "feature", "mode"), Pb=val(Pb, "feature", "mode"), Pib=val(Pib, "feature", "mode"),
               same_object=(Xw is D))
    if w.is_identity:
        rec["T"] = np.ones((1, 1)) * np.asarray(w.T.values)
        rec["Tinv"] = np.ones((1, 1)) * np.asarray(w.Tinv.values)
    else:
        rec["T"] = val(w.T, "feature", "mode")
        rec["Tinv"] = val(w.Tinv, "mode", "feature")
    if Y is not None:
        Yd = dataarray(Y, dask)
        rec["Yb"] = val(w.inverse_transform_data(w.transform(Yd)), "sample", "feature")
    return rec


def run_pca(X, n_modes, solver, irr, dask, P, Qfun, history=0):
    from xeofs.preprocessing import PCA
    D = dataarray(X, dask)
    pca = PCA(n_modes=n_modes, solver=solver, init_rank_reduction=irr)
    if history:
        prior_use(pca, X, dask, P, history)
    pca = pca.fit(D)
    V = val(pca.V, "feature", "mode")
    k = V.shape[1]
    Q = Qfun(k)
    Xt = pca.transform(D)
    Xb = pca.inverse_transform_data(Xt)
    Pt = pca.transform_components(patterns(P))
    Qb = pca.inverse_transform_components(patterns(Q, start=1))
    Qbt = pca.transform_components(Qb)
    return dict(V=V, k=k, Q=Q, Xt=val(Xt, "sample", "feature"), Xb=val(Xb, "sample", "feature"), Pt=val(Pt, "feature", "mode"),
                Qb=val(Qb, "feature", "mode"), Qbt=val(Qbt, "feature", "mode"))


# ---------------------------------------------------------------- oracles on the implementation
def spectrum_of_cov(X):
    n = X.shape[0]
    Cm = X.conj().T @ X / n
    lam, V = np.linalg.eigh(Cm)
    return Cm, lam[::-1].copy(), V[:, ::-1].copy()


def whitener_oracles(ctx, cfg, X, P, Y, rec):
    """independent numpy checks of one fitted Whitener; returns True if any comparison was made"""
    alpha, dask = cfg["alpha"], cfg["dask"]
    sfx = ":dask" if dask else ""
    n, p = X.shape
    rp = dict(kind="whitener", X=X, P=P, Y=Y, alpha=alpha, dask=dask, cond=cfg.get("cond"), scale=cfg.get("scale"), history=cfg.get("history", 0))
    desc = "Whitener(alpha=%g) on %s %dx%d, cond(X)=%.0e, scale=%.0e%s" % (alpha, "complex" if np.iscomplexobj(X) else "real", n, p,
                                                                         cfg.get("cond", 0), cfg.get("scale", 1), " [dask]" if dask else "")
    Cm, lam, V = spectrum_of_cov(X)
    if alpha == 1.0:
        if not rec["isid"]:
            ctx.violation("C16:identity:alpha=1" + sfx, desc + ": is_identity is False", rp)
        for nm, a, b in (("transform(X)", rec["Xw"], X), ("inverse_transform_data", rec["Xb"], X), ("transform_components", rec["Pw"], P),
                         ("inverse_transform_components", rec["Pb"], P)):
            if not np.array_equal(a, b):
                ctx.violation("C16:identity:alpha=1" + sfx, desc + ": %s is not the identity map" % nm, rp)
        return True
    if lam.min() <= 0:
        ctx.dist["skipped:numerically-singular-covariance"] += 1
        return False
    fails = []
    viol = lambda key, what, _rp: fails.append((key, what))  # noqa
    condC = float(lam.max() / lam.min())
    T, Ti = rec["T"], rec["Tinv"]
    I = np.eye(p)
    if relerr(T.conj().T, T) > 1e-10:
        viol("C16:Whitener:T-hermitian" + sfx, desc + ": T is not Hermitian (relative %.3g)" % relerr(T.conj().T, T), rp)
    if relerr(Ti.conj().T, Ti) > max(1e-9, 16 * EPS * condC ** ((1 - alpha) / 2)):
        viol("C16:Whitener:Tinv-hermitian" + sfx, desc + ": Tinv is not Hermitian (relative %.3g)" % relerr(Ti.conj().T, Ti), rp)
    e1, e2 = float(np.abs(T @ Ti - I).max()), float(np.abs(Ti @ T - I).max())
    if not (max(e1, e2) <= RT):
        viol("C16:Whitener:T-Tinv" + sfx, desc + ": T Tinv - I = %.3g, Tinv T - I = %.3g" % (e1, e2), rp)
    # T is C^((alpha-1)/2)
    Tm = (V * lam ** ((alpha - 1) / 2)) @ V.conj().T
    tolT = max(RT, 16 * EPS * condC)
    if not (relerr(T, Tm) <= tolT):
        viol("C16:Whitener:T-value:alpha=%g%s" % (alpha, sfx), desc + ": T differs from C^((alpha-1)/2) by %.3g (relative, tolerance %.1e)" % (relerr(T, Tm), tolT), rp)
    # covariance of the whitened data is C^alpha
    Xw = rec["Xw"]
    Cw = Xw.conj().T @ Xw / n
    Ca = (V * lam ** alpha) @ V.conj().T if alpha != 0 else I.astype(Cm.dtype)
    tolC = max(RT, 16 * EPS * condC ** (1 - alpha))
    if not (relerr(Cw, Ca) <= tolC):
        viol("C16:whitened-cov:alpha=%g%s" % (alpha, sfx), desc + ": covariance of the whitened data differs from C^alpha by %.3g (relative, tolerance %.1e)"
                      % (relerr(Cw, Ca), tolC), rp)
    if not (relerr(rec["Xb"], X) <= RT):
        viol("C16:unwhiten" + sfx, desc + ": inverse_transform_data(transform(X)) differs from X by %.3g (relative)" % relerr(rec["Xb"], X), rp)
    if Y is not None and not (relerr(rec["Yb"], Y) <= RT):
        viol("C16:unwhiten:new-data" + sfx, desc + ": inverse_transform_data(transform(Y)) differs from Y by %.3g (relative)" % relerr(rec["Yb"], Y), rp)
    if not (relerr(rec["Pb"], P) <= RT):
        viol("C16:components-roundtrip" + sfx, desc + ": inverse_transform_components(transform_components(P)) differs from P by %.3g" % relerr(rec["Pb"], P), rp)
    if not (relerr(rec["Pib"], P) <= RT):
        viol("C16:components-roundtrip:inverse-first" + sfx, desc + ": transform_components(inverse_transform_components(P)) differs from P by %.3g" % relerr(rec["Pib"], P), rp)
    # the pattern map is the conjugate transpose of the data map, not its inverse: P -> T^H P
    if not (relerr(rec["Pw"], T.conj().T @ P) <= 1e-9):
        viol("C16:transform_components:operand" + sfx, desc + ": transform_components(P) is not T^H P", rp)
    ndrop = int((lam <= EPS).sum())
    if fails and ndrop and int(np.linalg.matrix_rank(T)) < p:
        # one root cause: the absolute cut-off of _fractional_matrix_power discarded eigenvalues of a full-rank covariance matrix
        ctx.violation(KEY_CUTOFF,
                      "%s: X has full column rank (cond %.1e) but %d of %d covariance eigenvalues (min %.3g, max %.3g) are <= eps = 2.2e-16 in absolute "
                      "terms and are discarded by _fractional_matrix_power: rank(T) = %d, un-whitening error %.3g (relative); failing: %s"
                      % (desc, np.sqrt(lam.max() / lam.min()), ndrop, p, lam.min(), lam.max(), int(np.linalg.matrix_rank(T)), relerr(rec["Xb"], X),
                         ", ".join(k for k, _ in fails)), rp)
    else:
        for key, what in fails:
            ctx.violation(key, what, rp)
    return True


def expected_k(X, n_modes, irr):
    """independent count of modes a variance fraction asks for; None when too close to a boundary to call"""
    n, p = X.shape
    s = np.linalg.svd(X, compute_uv=False)
    npre = max(1, int(min(n, p) * irr))
    tv = X.var(axis=0, ddof=1).sum()
    cum = np.cumsum(s[:npre] ** 2 / (n - 1) / tv)
    if np.any(np.abs(cum - n_modes) < 1e-9):
        return None
    idx = np.nonzero(cum >= n_modes)[0]
    return int(idx[0]) + 1 if idx.size else npre


def pca_oracles(ctx, cfg, X, P, rec):
    import scipy.linalg
    n, p = X.shape
    dask, nm, solver, irr = cfg["dask"], cfg["n_modes"], cfg["solver"], cfg["irr"]
    sfx = ":dask" if dask else ""
    rp = dict(kind="pca", X=X, P=P, n_modes=nm, solver=solver, irr=irr, dask=dask, exact=cfg["exact"], history=cfg.get("history", 0))
    desc = "PCA(n_modes=%r, solver=%r, init_rank_reduction=%g) on %s %dx%d, cond(X)=%.0e%s" % (
        nm, solver, irr, "complex" if np.iscomplexobj(X) else "real", n, p, cfg.get("cond", 0), " [dask]" if dask else "")
    V, k = rec["V"], rec["k"]
    # number of modes
    if nm == "all":
        kexp = min(n, p)
    elif isinstance(nm, int):
        kexp = nm
    else:
        kexp = expected_k(X, nm, irr)
    if kexp is not None and k != kexp:
        ctx.violation("C16:PCA:n_modes:%s%s" % (type(nm).__name__, sfx), desc + ": basis has %d modes, expected %d" % (k, kexp), rp)
    if not (float(np.abs(V.conj().T @ V - np.eye(k)).max()) <= 1e-9):
        ctx.violation("C16:PCA:orthonormal" + sfx, desc + ": V^H V - I = %.3g" % float(np.abs(V.conj().T @ V - np.eye(k)).max()), rp)
    if cfg["exact"]:
        _, s, Vh = scipy.linalg.svd(X, full_matrices=False, lapack_driver="gesvd")
        Vr = Vh.conj().T[:, :k]
        Pi, Pr = V @ V.conj().T, Vr @ Vr.conj().T
        if not (float(np.abs(Pi - Pr).max()) <= RT):
            ctx.violation("C16:PCA:leading-subspace" + sfx, desc + ": projector on the basis differs from the projector on the %d leading right singular vectors by %.3g"
                          % (k, float(np.abs(Pi - Pr).max())), rp)
        if np.any(np.diff(s) > 0):
            ctx.violation("C16:PCA:order" + sfx, desc + ": reference singular values not descending", rp)
    if not (relerr(rec["Xt"], X @ V) <= 1e-9):
        ctx.violation("C16:PCA:transform" + sfx, desc + ": transform(X) is not X V", rp)
    if not (relerr(rec["Pt"], V.conj().T @ P) <= 1e-9):
        ctx.violation("C16:PCA:transform_components" + sfx, desc + ": transform_components(P) is not V^H P", rp)
    if not (relerr(rec["Qbt"], rec["Q"]) <= 1e-9):
        ctx.violation("C16:PCA:components-roundtrip" + sfx, desc + ": transform_components(inverse_transform_components(Q)) differs from Q by %.3g" % relerr(rec["Qbt"], rec["Q"]), rp)
    # data whose rows lie in the retained subspace come back; with all modes that is every row of X
    Xproj = (X @ V) @ V.conj().T
    if not (relerr(rec["Xb"], Xproj) <= 1e-9):
        ctx.violation("C16:PCA:data-roundtrip:span" + sfx, desc + ": inverse_transform_data(transform(X)) is not the projection of X on the basis", rp)
    if k == min(n, p) and not (relerr(rec["Xb"], X) <= RT):
        ctx.violation("C16:PCA:data-roundtrip" + sfx, desc + ": all modes kept but inverse_transform_data(transform(X)) differs from X by %.3g" % relerr(rec["Xb"], X), rp)


def whitener_error(ctx, e, X, P, Y, alpha, dask, cond, scale):
    """an exception from fit / the maps: a consequence of the cut-off when eigenvalues were discarded (the dask inverse of the
    resulting singular T raises at compute time, outside the try/except of the kernel), otherwise its own violation"""
    n, p = X.shape
    rp = dict(kind="whitener", X=X, P=P, Y=Y, alpha=alpha, dask=dask, cond=cond, scale=scale)
    lam = spectrum_of_cov(X)[1]
    if alpha != 1.0 and (lam <= EPS).any():
        ctx.violation(KEY_CUTOFF, "Whitener(alpha=%g) on %dx%d, cond(X)=%.0e, scale=%.0e%s: X has full column rank but %d of %d covariance eigenvalues are <= eps in "
                      "absolute terms and are discarded by _fractional_matrix_power; the maps then raise %r" % (alpha, n, p, cond, scale, " [dask]" if dask else "",
                                                                                                           int((lam <= EPS).sum()), p, e), rp)
    else:
        ctx.violation("C16:error:Whitener:%s%s" % (C.errkind(e), ":dask" if dask else ""), "Whitener(alpha=%g) on %dx%d%s raised %r" % (alpha, n, p, " [dask]" if dask else "", e), rp)


# ---------------------------------------------------------------- oracle runs
def run_whitener_oracles(ctx, rng, N, ladder=True):
    conds = [1.0, 1e1, 1e2, 1e3, 1e4, 1e5, 1e6]
    scales = [1.0, 1.0, 1.0, 1.0, 1e3, 1e6, 1e-3, 1e-6, 1e-9]
    # first a plain ladder of data scales (real, numpy, well conditioned): the property does not depend on the units of X
    fixed = [(20, 3, 10.0, sc, al) for sc in (1.0, 1e-4, 1e-8, 1e4) for al in ((0, 1), (1, 2))] if ladder else []
    for i in range(N):
        cplx = (i % 3 == 2)
        dask = (i % 4 == 1)
        p = int(rng.integers(1, 8))
        n = p + int(rng.integers(1, 30))
        cond = float(conds[int(rng.integers(0, len(conds)))]) if p > 1 else 1.0
        a, b = ALPHAS[i % len(ALPHAS)]
        alpha = a / b
        scale = float(scales[int(rng.integers(0, len(scales)))])
        if i < len(fixed):
            n, p, cond, scale, (a, b) = fixed[i]
            alpha, cplx, dask = a / b, False, False
        X = gen_matrix(rng, n, p, cond, cplx, scale)
        m = int(rng.integers(1, 4))
        P = rnd(rng, p, m, cplx)
        Y = rnd(rng, int(rng.integers(1, 6)), p, cplx) * scale
        history = (7919 * i + 13) if i % 3 == 1 and i >= len(fixed) else 0
        cfg = dict(alpha=alpha, dask=dask, cond=cond, scale=scale, history=history)
        tag = "whitener/%s/%s/alpha=%g/cond=%.0e/scale=%.0e%s" % ("complex" if cplx else "real", "dask" if dask else "numpy", alpha, cond, scale,
                                                                  "/refit" if history else "")
        try:
            rec = run_whitener(X, alpha, dask, P, Y, history)
        except Exception as e:
            ctx.case(("c16w", i, n, p, cplx, dask, alpha, cond, scale), nontrivial=True, tag=tag)
            whitener_error(ctx, e, X, P, Y, alpha, dask, cond, scale)
            continue
        made = whitener_oracles(ctx, cfg, X, P, Y, rec)
        ctx.case(("c16w", C.canon_hash(C.jsonable(X)), alpha, dask), nontrivial=bool(made), tag=tag,
                 sample=dict(cls="Whitener", shape=[n, p], complex=cplx, dask=dask, alpha=alpha, cond=cond, scale=scale))


def pca_config(rng, i, n, p):
    mode = i % 3
    if mode == 0:
        nm = "all"
    elif mode == 1:
        nm = int(rng.integers(1, p + 1))
    else:
        nm = float(np.round(rng.uniform(0.3, 0.99), 3))
    return nm


def run_pca_oracles(ctx, rng, N):
    conds = [1e1, 1e2, 1e3, 1e4, 1e6]
    for i in range(N):
        cplx = (i % 4 == 3)
        dask = (i % 5 == 2)
        p = int(rng.integers(1, 8))
        n = p + int(rng.integers(1, 30))
        cond = float(conds[int(rng.integers(0, len(conds)))]) if p > 1 else 1.0
        scale = float(10.0 ** rng.integers(-6, 7)) if rng.random() < 0.3 else 1.0
        X = gen_matrix(rng, n, p, cond, cplx, scale)
        nm = pca_config(rng, i, n, p)
        if dask and isinstance(nm, float):
            nm = "all"      # a variance fraction is refused for dask input by design
        solver = "full" if (cplx and dask) or isinstance(nm, float) or rng.random() < 0.7 else "auto"
        irr = 1.0 if not isinstance(nm, float) or rng.random() < 0.6 else 0.5
        # which combinations are an exact SVD (see _SVD.fit_transform): full, or auto on small numpy data with more than 80% of the modes
        kreq = min(n, p) if nm == "all" else (nm if isinstance(nm, int) else None)
        exact = solver == "full" or (not dask and kreq is not None and kreq > int(0.8 * min(n, p)))
        m = int(rng.integers(1, 4))
        P = rnd(rng, p, m, cplx)
        seeds = rng.integers(0, 2 ** 31 - 1)
        Qfun = (lambda k, s=seeds, m=m, c=cplx: rnd(np.random.default_rng(int(s)), k, m, c))
        history = (7919 * i + 13) if i % 3 == 1 else 0
        cfg = dict(n_modes=nm, solver=solver, irr=irr, dask=dask, cond=cond, exact=exact, history=history)
        tag = "pca/%s/%s/%s/%s/%s%s" % ("complex" if cplx else "real", "dask" if dask else "numpy", type(nm).__name__, solver,
                                        "exact" if exact else "randomised", "/refit" if history else "")
        try:
            rec = run_pca(X, nm, solver, irr, dask, P, Qfun, history)
        except Exception as e:
            ctx.case(("c16p", i, n, p, cplx, dask, str(nm), solver), nontrivial=True, tag=tag)
            ctx.violation("C16:error:PCA:%s%s" % (C.errkind(e), ":dask" if dask else ""), "PCA(n_modes=%r, solver=%r) on %s %dx%d%s raised %r"
                          % (nm, solver, "complex" if cplx else "real", n, p, " [dask]" if dask else "", e),
                          dict(kind="pca", X=X, P=P, n_modes=nm, solver=solver, irr=irr, dask=dask, exact=exact))
            continue
        pca_oracles(ctx, cfg, X, P, rec)
        ctx.case(("c16p", C.canon_hash(C.jsonable(X)), str(nm), solver, dask), nontrivial=True, tag=tag,
                 sample=dict(cls="PCA", shape=[n, p], complex=cplx, dask=dask, n_modes=nm, solver=solver, k=rec["k"]))


# ---------------------------------------------------------------- Coq correspondence
def wh_case(rng, i, relative):
    cplx = (i % 3 == 2)
    dask = (i % 5 == 3)
    p = int(rng.integers(1, 6))
    n = p + int(rng.integers(1, 8))
    cond = float([1.0, 1e1, 1e2, 1e3, 1e4, 1e6][int(rng.integers(0, 6))]) if p > 1 else 1.0
    scale = float([1.0, 1.0, 1.0, 1e3, 1e-3, 1e-6, 1e-9][int(rng.integers(0, 7))])
    a, b = ALPHAS[i % len(ALPHAS)]
    alpha = a / b
    X = gen_matrix(rng, n, p, cond, cplx, scale)
    m = int(rng.integers(1, 4))
    P = rnd(rng, p, m, cplx)
    try:
        rec = run_whitener(X, alpha, dask, P)
    except Exception as e:
        return dict(error=e, X=X, P=P, alpha=alpha, dask=dask, cond=cond, scale=scale)
    Cm, lam, V = spectrum_of_cov(X)
    thr = threshold(lam, relative)
    if lam.min() <= 0 or np.any((lam > thr / 8) & (lam < thr * 8)):
        return None
    power = (alpha - 1) / 2
    d = lam ** power
    kept = lam[lam > thr]
    condk = float(kept.max() / kept.min()) if kept.size else 1.0
    rt = max(RT, 16 * EPS * condk)
    return dict(n=n, p=p, m=m, cplx=cplx, dask=dask, alpha=alpha, a=a, b=b, power=power, rt=rt, cond=cond, scale=scale, X=X, V=V, lam=lam, d=d,
                dinv=1.0 / d, P=P, dropped=bool((lam <= thr).any()), **rec)


def wh_text(r):
    c = r["cplx"]
    dt = complex if c else float
    M = lambda A: G.c_mat(np.asarray(A, dtype=dt), c)  # noqa
    v = lambda a: G.c_vec(np.asarray(a, dtype=dt), c)  # noqa
    s = lambda x: G.c_scalar(dt(x), c)  # noqa
    return "mkWC %d %d %d %s %s %d %d %s %s %s %s %s %s %s %s %s %s %s %s %s %s" % (
        r["n"], r["p"], r["m"], s(r["alpha"]), s(r["power"]), r["a"], r["b"], C.cf(r["rt"]), M(r["X"]), M(r["V"]), v(r["lam"]), v(r["d"]), v(r["dinv"]),
        M(r["P"]), C.cbool(r["isid"]), M(r["T"]), M(r["Tinv"]), M(r["Xw"]), M(r["Xb"]), M(r["Pw"]), M(r["Pb"]))


def pca_case(rng, i):
    cplx = (i % 3 == 2)
    p = int(rng.integers(1, 6))
    n = p + int(rng.integers(1, 8))
    cond = float([1e1, 1e2, 1e3, 1e6][int(rng.integers(0, 4))]) if p > 1 else 1.0
    X = gen_matrix(rng, n, p, cond, cplx, 1.0 if i % 4 else float(10.0 ** rng.integers(-4, 5)))
    nm = pca_config(rng, i, n, p)
    solver = "auto" if nm == "all" and i % 2 == 0 else "full"
    m = int(rng.integers(1, 4))
    P = rnd(rng, p, m, cplx)
    seed = int(rng.integers(0, 2 ** 31 - 1))
    rec = run_pca(X, nm, solver, 1.0, False, P, lambda k: rnd(np.random.default_rng(seed), k, m, cplx))
    U, s, Vt = np.linalg.svd(X)          # the call the exact back-end makes
    return dict(n=n, p=p, m=m, cplx=cplx, n_modes=nm, solver=solver, cond=cond, X=X, U=U[:, :p], s=s[:p], Vt=Vt[:p, :], P=P, **rec)


def pca_text(r):
    c = r["cplx"]
    dt = complex if c else float
    M = lambda A: G.c_mat(np.asarray(A, dtype=dt), c)  # noqa
    v = lambda a: G.c_vec(np.asarray(a, dtype=dt), c)  # noqa
    return "mkPC %d %d %d %d %s %s %s %s %s %s %s %s %s %s %s" % (
        r["n"], r["p"], r["k"], r["m"], M(r["X"]), M(r["U"]), v(r["s"]), M(r["Vt"]), M(r["P"]), M(r["Q"]), M(r["V"]), M(r["Xt"]), M(r["Xb"]),
        M(r["Pt"]), M(r["Qb"]))


def run_correspondence(ctx):
    rng = ctx.rng.child("c16case").np
    relative = cutoff_relative()
    groups = {"wr": [], "wc": [], "pr": [], "pc": []}
    for i in range(ctx.n(70, 1000)):
        r = wh_case(rng, i, relative)
        if r is None:
            ctx.dist["case-skipped:eigenvalue-near-cut-off"] += 1
            continue
        if "error" in r:
            ctx.case(("c16wc-error", i), nontrivial=True, tag="case/whitener/error")
            whitener_error(ctx, r["error"], r["X"], r["P"], None, r["alpha"], r["dask"], r["cond"], r["scale"])
            continue
        ctx.case(("c16wc", i, r["n"], r["p"], r["alpha"], r["cplx"], r["dask"], r["cond"], r["scale"]), nontrivial=True,
                 tag="case/whitener/%s/alpha=%g%s" % ("complex" if r["cplx"] else "real", r["alpha"], "/cut-off" if r["dropped"] else ""),
                 sample=dict(kind="whitener-correspondence", shape=[r["n"], r["p"]], alpha=r["alpha"], complex=r["cplx"], dask=r["dask"], cond=r["cond"], scale=r["scale"]))
        groups["wc" if r["cplx"] else "wr"].append(r)
    for i in range(ctx.n(40, 600)):
        r = pca_case(rng, i)
        ctx.case(("c16pc", i, r["n"], r["p"], str(r["n_modes"]), r["cplx"], r["solver"]), nontrivial=True,
                 tag="case/pca/%s/%s" % ("complex" if r["cplx"] else "real", type(r["n_modes"]).__name__),
                 sample=dict(kind="pca-correspondence", shape=[r["n"], r["p"]], n_modes=r["n_modes"], k=r["k"], complex=r["cplx"], solver=r["solver"]))
        groups["pc" if r["cplx"] else "pr"].append(r)
    spec = {"wr": ("check_whs_f64 fmp_cutoff_relative", wh_text, WFIELD), "wc": ("check_whs_c64 fmp_cutoff_relative", wh_text, WFIELD),
            "pr": ("check_pcas_f64", pca_text, PFIELD), "pc": ("check_pcas_c64", pca_text, PFIELD)}
    files, plan = [], []
    for g, cases in groups.items():
        fn, text, fields = spec[g]
        for sh in range(0, len(cases), 40):
            body = [C.COQ_HEADER, "From XV Require Import Base.Scalar Base.Mat Base.Instances Model.Whiten Model.WhitenCase Gen.T5whiten.\n",
                    "Definition cases := [\n" + ";\n".join(text(r) for r in cases[sh:sh + 40]) + "].\n",
                    "Eval vm_compute in %s %s cases.\n" % (fn, C.cf(RT))]
            f = C.write_case_file("C16", "%s%d" % (g, sh // 40), "\n".join(body))
            files.append(f)
            plan.append((f, cases[sh:sh + 40], fields, g))
    res = C.coq_eval_files(files)
    nbad, ncmp, ok = 0, 0, True
    for f, cases, fields, g in plan:
        rc, out = res[f]
        if rc != 0:
            ok = False
            ctx.oblige("correspondence:%s" % f.split("/")[-1], "correspondence", False, out[-600:])
            continue
        pairs = C.parse_pairs((C.parse_evals(out) or [""])[0])
        ncmp += len(cases)
        ctx.traces += len(cases)
        flagged = {}
        for ci, fld in pairs:
            flagged.setdefault(ci, []).append(fld)
        for ci, r in enumerate(cases):
            flds = flagged.get(ci, [])
            if g[0] == "w":
                # field 8 is the theorems' premise, not a disagreement: it must fire exactly on the cases the generator marked
                if (8 in flds) != r["dropped"]:
                    nbad += 1
                    ctx.notes.append("cut-off premise: model says %s, generator says %s (alpha=%g)" % (8 in flds, r["dropped"], r["alpha"]))
                if 8 in flds and 10 not in flds and not r["isid"] and relerr(r["Xb"], r["X"]) > RT:
                    ctx.violation(KEY_CUTOFF, "Whitener(alpha=%g) on %dx%d (cond %.0e, scale %.0e): full column rank, but covariance eigenvalues <= eps are discarded "
                                  "(premise whiten_keep of C16_unwhiten fails; the implementation's T equals the model's truncated T and un-whitening does not restore X)" % (r["alpha"], r["n"], r["p"], r["cond"], r["scale"]),
                                  dict(kind="whitener", X=r["X"], P=r["P"], Y=None, alpha=r["alpha"], dask=r["dask"], cond=r["cond"], scale=r["scale"]))
                flds = [x for x in flds if x != 8]
            for fld in flds:
                nbad += 1
                what = fields.get(fld, fld)
                ctx.notes.append("%s model/impl disagree: %s (%s)" % ("whitening" if g[0] == "w" else "PCA", what,
                                                                       {k: r[k] for k in ("n", "p", "cplx", "cond") if k in r}))
                ctx.extra.setdefault("disagreements", []).append(dict(model="whitener" if g[0] == "w" else "pca", field=what, n=r["n"], p=r["p"],
                                                                       complex=r["cplx"], alpha=r.get("alpha"), n_modes=r.get("n_modes")))
    ctx.oblige("correspondence:whitening-and-pca-model (%d cases, rtol %g)" % (ncmp, RT), "correspondence", ok and nbad == 0 and ncmp > 0,
               "%d field disagreements" % nbad)


# ---------------------------------------------------------------- entry points
def run(ctx):
    C.setup_impl_env()
    C.clean_case_files("C16")
    rng = ctx.rng.child("c16").np
    run_whitener_oracles(ctx, rng, ctx.n(140, 2400))
    run_pca_oracles(ctx, rng, ctx.n(80, 1200))
    ctx.oblige("oracle:whitening and PCA invariants on the implementation", "oracle", not ctx.violations,
               "; ".join(v["key"] for v in ctx.violations))
    if ctx.extra.get("model_ok", True):
        run_correspondence(ctx)


def search(ctx):
    """a tie is broken but no input failed yet: widen the oracle run"""
    C.setup_impl_env()
    rng = ctx.rng.child("c16search").np
    run_whitener_oracles(ctx, rng, 600, ladder=False)
    run_pca_oracles(ctx, rng, 300)


def replay(ctx, rp):
    C.setup_impl_env()
    r = rp["replay"]
    X = decode(r["X"])
    P = decode(r["P"])
    print("replay:", rp.get("what"))
    if r["kind"] == "whitener":
        Y = decode(r["Y"]) if r.get("Y") is not None else None
        try:
            rec = run_whitener(X, r["alpha"], r["dask"], P, Y, r.get("history", 0))
        except Exception as e:
            whitener_error(ctx, e, X, P, Y, r["alpha"], r["dask"], r.get("cond") or 0, r.get("scale") or 1)
            for v in ctx.violations:
                print("  still violated:", v["key"], "--", v["what"][:300])
            return
        whitener_oracles(ctx, dict(alpha=r["alpha"], dask=r["dask"], cond=r.get("cond") or 0, scale=r.get("scale") or 1, history=r.get("history", 0)), X, P, Y, rec)
    else:
        m = P.shape[1]
        try:
            rec = run_pca(X, r["n_modes"], r["solver"], r["irr"], r["dask"], P, lambda k: rnd(np.random.default_rng(0), k, m, np.iscomplexobj(X)), r.get("history", 0))
        except Exception as e:
            ctx.violation(rp["key"], "PCA raised %r" % (e,), r)
            return
        pca_oracles(ctx, dict(n_modes=r["n_modes"], solver=r["solver"], irr=r["irr"], dask=r["dask"], exact=r.get("exact", True), cond=0, history=r.get("history", 0)), X, P, rec)
    for v in ctx.violations:
        print("  still violated:", v["key"], "--", v["what"][:300])
