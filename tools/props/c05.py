"""C05 — out-of-sample transform is a per-sample map labelled by the new data."""
import numpy as np

from harness import common as C
from harness import zoo as Z

ANCHORS = ["T7unseen", "T4", "T7mic", "T5rot", "T7chain", "T9text"]
MODELS = ["Mic", "MicCase", "CrossCase"]
RULE = ("fitted transform-capable models (EOF, ComplexEOF, SparsePCA, POP, their rotators, CPCCA family, their rotators, multi.CCA) x new data with "
        "1..N samples, sample coordinates disjoint from / overlapping / equal to the training ones, one or two sample dimensions, a sample "
        "MultiIndex, and EVERY split point of the new data into two parts; non-trivial: >= 2 new samples and >= 2 features; distinct by input hash")
PARTIAL = ["row-wise theorems are proved for the scaler, the EOF projection, the rotator tail and the cross-set chain (scaler, PCA, whitening, projection, normalisation; run at binary64 against the real transform); SparsePCA and POP transforms are covered by the API oracle"]
REFUTED = []
TRUSTED = ["xarray concat/sel along the sample dimension", "translator T7unseen (which back-transformation each transform implementation calls)"]
ASSUMES = []


def new_data(rng, like, n_new, mode, tname="time"):
    """new samples with the feature layout of `like`; mode in disjoint/overlap/equal"""
    import xarray as xr
    base = like.isel({tname: 0}, drop=True)
    shp = (n_new,) + base.shape
    X = rng.standard_normal(shp) + (1j * rng.standard_normal(shp) if np.iscomplexobj(like.values) else 0)
    told = like[tname].values
    if mode == "disjoint":
        t = np.arange(n_new) + int(told.max()) + 5
    elif mode == "overlap":
        t = np.arange(n_new) + int(told[len(told) // 2])
    else:
        t = told[:n_new] if n_new <= len(told) else np.arange(n_new)
    da = xr.DataArray(X, dims=(tname,) + base.dims, coords={tname: t, **{d: like[d].values for d in base.dims}})
    return da


def check_transform(ctx, key, what, tf, new, tname, replay, is_pair=False):
    """labels, no spurious NaN, every split point, via the callable tf(data) -> DataArray"""
    import xarray as xr
    try:
        full = tf(new)
    except Exception as e:
        ctx.violation(key + ":error:" + C.errkind(e), "%s: transform of new data raised %r" % (what, e), replay)
        return
    if list(full[tname].values) != list(new[tname].values):
        ctx.violation(key + ":labels", "%s: scores are not labelled with the new data's sample coordinates (%r vs %r)" % (
            what, list(full[tname].values)[:5], list(new[tname].values)[:5]), replay)
        return
    if np.isnan(np.asarray(full.values, dtype=complex)).any():
        ctx.violation(key + ":nan", "%s: transform of NaN-free new data contains NaN" % what, replay)
        return
    n = new.sizes[tname]
    for cut in range(1, n):
        a, b = new.isel({tname: slice(0, cut)}), new.isel({tname: slice(cut, None)})
        try:
            ta, tb = tf(a), tf(b)
            cat = xr.concat([ta, tb], dim=tname)
        except Exception as e:
            ctx.violation(key + ":split-error:" + C.errkind(e), "%s: transform of a part (split at %d of %d) raised %r" % (what, cut, n, e), replay)
            return
        if not Z.same(cat.transpose(*full.dims).values, full.values, 1e-8):
            ctx.violation(key + ":concat", "%s: transform(A ++ B) != transform(A) ++ transform(B) at split %d of %d" % (what, cut, n), replay)
            return


def run_single(ctx, rng, N):
    specs = Z.specs()
    names = ["EOF", "ComplexEOF", "SparsePCA", "POP"]
    for i in range(N):
        name = names[i % len(names)]
        sp = specs[name]
        n, p = int(rng.integers(8, 14)), int(rng.integers(3, 6))
        X = Z.data2d(rng, n, p, "x", cplx=sp.cplx, red=sp.ordered)
        k = 2
        m = sp.make(k, standardize=bool(rng.random() < 0.3))
        m.fit(X, "time")
        mode = ["disjoint", "overlap", "equal"][i % 3]
        n_new = int(rng.integers(1, 7 if ctx.quick else 9))
        new = new_data(rng, X, n_new, mode)
        replay = dict(kind="single", cls=name, X=np.asarray(X.values), new=np.asarray(new.values), new_time=new.time.values, mode=mode)
        ctx.case(("c05", name, n, p, n_new, mode, i), nontrivial=n_new >= 2, tag="%s/%s" % (name, mode),
                 sample=dict(cls=name, train=[n, p], new_samples=n_new, coords=mode))
        check_transform(ctx, "C05:%s" % name, "%s/%s" % (name, mode), lambda d: m.transform(d), new, "time", replay)
        if name in ("EOF", "ComplexEOF"):
            # the normalised variant divides by the FITTED norms: still a per-sample map
            check_transform(ctx, "C05:%s:normalized" % name, "%s/%s/normalized" % (name, mode), lambda d: m.transform(d, normalized=True), new, "time", replay)
        # repeated sample coordinates (two ensemble members on one time axis, concatenated), one sample of the first member entirely missing:
        # every valid sample comes back under its own label, in order; only the missing one may be omitted or NaN
        if name in ("EOF", "ComplexEOF") and n_new >= 3:
            import xarray as xr
            ctx.case(("c05rep", name, n, p, n_new, i), nontrivial=True, tag="%s/repeated-labels-with-a-missing-sample" % name)
            A, B = new.copy(), new_data(rng, X, n_new, mode).assign_coords(time=new.time.values)
            jm = int(rng.integers(0, n_new))
            A.values[jm] = np.nan
            both = xr.concat([A, B], dim="time")
            try:
                tb = m.transform(both)
                ta, tbb = m.transform(A), m.transform(B)
                want_labels = [t for q, t in enumerate(A.time.values.tolist()) if q != jm] + B.time.values.tolist()
                got = tb.dropna("time", how="all")
                ref = xr.concat([ta.dropna("time", how="all"), tbb], dim="time")
                if list(got.time.values) != want_labels or not Z.same(got.transpose(*ref.dims).values, ref.values, 1e-8):
                    ctx.violation("C05:%s:repeated-labels" % name, "%s: new data with repeated sample labels and one entirely missing sample: the scores carry the labels %r, "
                                  "the valid samples are %r" % (name, list(got.time.values)[:12], want_labels[:12]), dict(replay, repeated=True, missing=jm))
            except Exception as e:
                ctx.violation("C05:%s:repeated-labels:error:%s" % (name, C.errkind(e)), "%s: transform of data with repeated sample labels raised %r" % (name, e), replay)
        # subset of the training samples
        idx = sorted(set(rng.integers(0, n, size=int(rng.integers(1, n))).tolist()))
        sub = X.isel(time=idx)
        try:
            ts = m.transform(sub)
            sc = m.scores().sel(time=sub.time)
            if not Z.same(ts.transpose(*sc.dims).values, sc.values, 1e-7):
                ctx.violation("C05:%s:subset" % name, "%s: transform(subset of training samples) != subset of scores" % name, replay)
        except Exception as e:
            ctx.violation("C05:%s:subset-error:%s" % (name, C.errkind(e)), "%s: transform of a training subset raised %r" % (name, e), replay)
        if name in ("EOF", "ComplexEOF"):
            for power in (1, 2):
                try:
                    rot = Z.rotator_for(name)(n_modes=2, power=power, max_iter=3000, rtol=1e-10)
                    rot.fit(m)
                except RuntimeError:
                    continue
                ctx.case(("c05rot", name, n, p, n_new, mode, power, i), nontrivial=n_new >= 2, tag="%sRotator/%s" % (name, mode))
                check_transform(ctx, "C05:%sRotator" % name, "%sRotator(power=%d)/%s" % (name, power, mode), lambda d: rot.transform(d), new, "time", replay)
                check_transform(ctx, "C05:%sRotator:normalized" % name, "%sRotator(power=%d)/%s/normalized" % (name, power, mode),
                                lambda d: rot.transform(d, normalized=True), new, "time", replay)
                # a subset of the training samples through the ROTATED model: the rotated scores at those samples
                try:
                    ts = rot.transform(sub)
                    sc = rot.scores().sel(time=sub.time)
                    if not Z.same(ts.transpose(*sc.dims).values, sc.values, 1e-6):
                        ctx.violation("C05:%sRotator:subset" % name, "%sRotator(power=%d): transform(subset of training samples) != subset of the rotated scores" % (name, power),
                                      dict(replay, power=power, sub_idx=idx))
                except Exception as e:
                    ctx.violation("C05:%sRotator:subset-error:%s" % (name, C.errkind(e)), "%sRotator(power=%d): transform of a training subset raised %r" % (name, power, e), replay)


def run_structured(ctx, rng, N):
    """two sample dimensions and a sample MultiIndex: new data with the training sample count and with another one, new data on
    a subset of the training labels and on labels overlapping them,
    consecutive transforms of equally sized parts, every split along the first sample dimension"""
    import pandas as pd
    import xarray as xr
    import xeofs as xe

    def labels(t, kind):
        if kind == "two-dims":
            return [int(v) for v in t.year.values], [int(v) for v in t.month.values]
        return [tuple(int(x) for x in v) for v in t.indexes["time"].tolist()], None

    for i in range(N):
        kind = ["two-dims", "multiindex"][i % 2]
        count = ["same-count", "other-count", "subset-of-training-labels", "overlapping-training-labels"][(i // 2) % 4]
        yrs = {"same-count": [2010, 2011, 2012, 2013], "other-count": [2010, 2011], "subset-of-training-labels": [2001, 2003],
               "overlapping-training-labels": [2003, 2004, 2005]}[count]
        p = int(rng.integers(3, 6))
        if kind == "two-dims":
            def mk(years):
                return xr.DataArray(rng.standard_normal((len(years), 4, p)), dims=("year", "month", "x"),
                                    coords={"year": years, "month": [1, 2, 3, 4], "x": np.arange(p)})
            X = mk([2000, 2001, 2002, 2003])
            new = mk(yrs)
            dim, split_dim = ("year", "month"), "year"
        else:
            def mk(years, months):
                mi = pd.MultiIndex.from_product([years, months], names=("yy", "mm"))
                return xr.DataArray(rng.standard_normal((len(mi), p)), dims=("time", "x"), coords={"x": np.arange(p)}).assign_coords(
                    xr.Coordinates.from_pandas_multiindex(mi, "time"))
            X = mk([2000, 2001, 2002, 2003], [1, 2])
            new = mk(yrs, [1, 2, 3] if count == "other-count" else [1, 2])
            dim, split_dim = "time", "time"
        replay = dict(kind=kind, count=count, X=np.asarray(X.values), new=np.asarray(new.values))
        ctx.case(("c05s", kind, count, p, i), nontrivial=True, tag="EOF/%s/%s" % (kind, count), sample=dict(cls="EOF", structure=kind, new=count, features=p))
        key = "C05:EOF:%s" % kind
        try:
            m = xe.single.EOF(n_modes=2)
            m.fit(X, dim)
            t = m.transform(new)
        except Exception as e:
            ctx.violation(key + ":error:" + C.errkind(e), "EOF with %s: transform of new data (%s) raised %r" % (kind, count, e), replay)
            continue
        if labels(t, kind) != labels(new, kind) or np.isnan(t.values).any():
            ctx.violation(key + ":labels", "EOF with %s: scores of new data (%s) are labelled %r, the new data has %r (or contain NaN)" % (
                kind, count, labels(t, kind)[0][:4], labels(new, kind)[0][:4]), replay)
            continue
        # consecutive transforms of parts (equal and unequal sizes) against the transform of the whole
        n = new.sizes[split_dim]
        for cut in range(1, n):
            a, b = new.isel({split_dim: slice(0, cut)}), new.isel({split_dim: slice(cut, None)})
            try:
                ta, tb = m.transform(a), m.transform(b)
            except Exception as e:
                ctx.violation(key + ":split-error:" + C.errkind(e), "EOF with %s: transform of a part (split %d of %d) raised %r" % (kind, cut, n, e), replay)
                break
            if labels(ta, kind) != labels(a, kind) or labels(tb, kind) != labels(b, kind):
                ctx.violation(key + ":labels", "EOF with %s: consecutive transforms of two parts (split %d of %d): the second part is labelled %r, it has %r" % (
                    kind, cut, n, labels(tb, kind)[0][:4], labels(b, kind)[0][:4]), replay)
                break
            cat = np.concatenate([ta.transpose(split_dim, ...).values, tb.transpose(split_dim, ...).values], axis=0)
            if not Z.same(cat, t.transpose(split_dim, ...).transpose(*ta.transpose(split_dim, ...).dims).values, 1e-8):
                ctx.violation(key + ":concat", "EOF with %s: transform(A ++ B) != transform(A) ++ transform(B) at split %d of %d" % (kind, cut, n), replay)
                break
        # the fitted scores keep the training labels after transforms of other data
        sc = m.scores()
        if labels(sc, kind) != labels(X, kind):
            ctx.violation(key + ":fit-labels", "EOF with %s: after transforming other data the fitted scores are labelled %r, the training data has %r" % (
                kind, labels(sc, kind)[0][:4], labels(X, kind)[0][:4]), replay)


def run_structured_cross(ctx, rng, N):
    """cross-set models and their rotators on stacked sample axes: each field's scores carry that field's own new labels,
    also when only the second field is given or the two fields carry different labels"""
    import pandas as pd
    import xarray as xr
    import xeofs as xe

    def labels(t, kind):
        if kind == "two-dims":
            return [int(v) for v in t.year.values], [int(v) for v in t.month.values]
        return [tuple(int(x) for x in v) for v in t.indexes["time"].tolist()], None

    for i in range(N):
        kind = ["two-dims", "multiindex"][i % 2]
        cname = ["MCA", "CPCCA"][(i // 2) % 2]
        p1, p2 = int(rng.integers(3, 5)), int(rng.integers(3, 5))

        def mk(years, p, fname):
            if kind == "two-dims":
                return xr.DataArray(rng.standard_normal((len(years), 3, p)), dims=("year", "month", fname),
                                    coords={"year": years, "month": [1, 2, 3], fname: np.arange(p)})
            mi = pd.MultiIndex.from_product([years, [1, 2, 3]], names=("yy", "mm"))
            return xr.DataArray(rng.standard_normal((len(mi), p)), dims=("time", fname), coords={fname: np.arange(p)}).assign_coords(
                xr.Coordinates.from_pandas_multiindex(mi, "time"))
        dim = ("year", "month") if kind == "two-dims" else "time"
        X, Y = mk([2000, 2001, 2002, 2003], p1, "x"), mk([2000, 2001, 2002, 2003], p2, "y")
        nx, ny = mk([2010, 2011, 2012, 2013], p1, "x"), mk([2020, 2021, 2022, 2023], p2, "y")
        replay = dict(kind=kind, cls=cname)
        ctx.case(("c05sx", kind, cname, p1, p2, i), nontrivial=True, tag="%s/%s/stacked-samples" % (cname, kind), sample=dict(cls=cname, structure=kind))
        try:
            m = (xe.cross.MCA(n_modes=2, use_pca=False) if cname == "MCA" else xe.cross.CPCCA(n_modes=2, use_pca=False, alpha=0.5))
            m.fit(X, Y, dim)
            objs = [(cname, m)]
            try:
                rot = Z.rotator_for(cname)(n_modes=2, max_iter=3000)
                rot.fit(m)
                objs.append((cname + "Rotator", rot))
            except RuntimeError:
                pass
            for oname, o in objs:
                ty = o.transform(Y=ny)
                tx, ty2 = o.transform(X=nx, Y=ny)
                for what, t, ref in (("Y alone", ty, ny), ("X with other labels than Y", tx, nx), ("Y with other labels than X", ty2, ny)):
                    if labels(t, kind) != labels(ref, kind) or np.isnan(np.asarray(t.values, dtype=complex)).any():
                        ctx.violation("C05:%s:%s:labels" % (oname, kind), "%s with %s, transform of %s: scores are labelled %r, that field's new data has %r" % (
                            oname, kind, what, labels(t, kind)[0][:4], labels(ref, kind)[0][:4]), replay)
        except Exception as e:
            ctx.violation("C05:%s:%s:error:%s" % (cname, kind, C.errkind(e)), "%s with %s: transform of new data raised %r" % (cname, kind, e), replay)


def run_cross(ctx, rng, N):
    specs = Z.specs()
    names = ["CPCCA", "MCA", "CCA", "RDA", "ComplexMCA"]
    for i in range(N):
        name = names[i % len(names)]
        sp = specs[name]
        n = int(rng.integers(10, 16))
        p1, p2 = int(rng.integers(3, 6)), int(rng.integers(3, 6))
        X = Z.data2d(rng, n, p1, "x", cplx=sp.cplx)
        Y = Z.data2d(rng, n, p2, "y", cplx=sp.cplx)
        kw = dict(use_pca=bool(rng.random() < 0.5), n_pca_modes="all")
        if name == "CPCCA":
            kw["alpha"] = [float(rng.choice([0.0, 0.5, 1.0])), float(rng.choice([0.0, 0.5, 1.0]))]
        m = sp.make(2, **kw)
        m.fit(X, Y, "time")
        mode = ["disjoint", "overlap", "equal"][i % 3]
        n_new = int(rng.integers(1, 6))
        nx = new_data(rng, X, n_new, mode)
        ny = new_data(rng, Y, n_new, mode)
        replay = dict(kind="cross", cls=name, kw=kw, X=np.asarray(X.values), Y=np.asarray(Y.values), nx=np.asarray(nx.values), ny=np.asarray(ny.values),
                      new_time=nx.time.values, mode=mode)
        ctx.case(("c05x", name, n, p1, p2, n_new, mode, str(kw), i), nontrivial=n_new >= 2, tag="%s/%s" % (name, mode),
                 sample=dict(cls=name, train=[n, p1, p2], new_samples=n_new, coords=mode, kw=kw))
        check_transform(ctx, "C05:%s:X" % name, "%s field X/%s" % (name, mode), lambda d: m.transform(X=d), nx, "time", replay)
        check_transform(ctx, "C05:%s:Y" % name, "%s field Y/%s" % (name, mode), lambda d: m.transform(Y=d), ny, "time", replay)
        check_transform(ctx, "C05:%s:Y:normalized" % name, "%s field Y/%s/normalized" % (name, mode), lambda d: m.transform(Y=d, normalized=True), ny, "time", replay)
        # both fields in ONE call, the second field stamped with other sample labels and (every other time) one field with an entirely
        # missing sample: each field's scores are that field's own - its labels, and the values of transforming it alone
        try:
            ny2 = ny.assign_coords(time=ny.time.values + 1000)
            nx2 = nx
            if i % 2 == 1 and n_new >= 2:
                nx2 = nx.copy()
                nx2.values[int(rng.integers(0, n_new))] = np.nan
            tx, ty = m.transform(X=nx2, Y=ny2)
            ax, ay = m.transform(X=nx2), m.transform(Y=ny2)
            for fld, t, a in (("X", tx, ax), ("Y", ty, ay)):
                if list(t.time.values) != list(a.time.values) or not Z.same(t.transpose(*a.dims).values, a.values, 1e-9):
                    ctx.violation("C05:%s:joint-call" % name, "%s: transform(X=.., Y=..) in one call gives field %s other scores or labels (%r) than transforming that field "
                                  "alone (%r); the fields carry different sample labels%s" % (name, fld, list(t.time.values)[:4], list(a.time.values)[:4],
                                                                                             ", X has an entirely missing sample" if nx2 is not nx else ""),
                                  dict(replay, joint=True, missing_sample=nx2 is not nx))
                    break
        except Exception as e:
            ctx.violation("C05:%s:joint-call:error:%s" % (name, C.errkind(e)), "%s: transform(X=.., Y=..) with differently labelled fields raised %r" % (name, e), replay)
        for power in (1, 2):
            try:
                rot = Z.rotator_for(name)(n_modes=2, power=power, max_iter=3000, rtol=1e-10)
                rot.fit(m)
            except RuntimeError:
                continue
            ctx.case(("c05xr", name, n, p1, p2, n_new, mode, power, str(kw), i), nontrivial=n_new >= 2, tag="%sRotator/%s" % (name, mode))
            check_transform(ctx, "C05:CPCCARotator:X", "rotator(power=%d) on %s field X/%s" % (power, name, mode), lambda d: rot.transform(X=d), nx, "time", replay)
            check_transform(ctx, "C05:CPCCARotator:Y", "rotator(power=%d) on %s field Y/%s" % (power, name, mode), lambda d: rot.transform(Y=d), ny, "time", replay)


def run_cross_model(ctx, rng, N):
    """correspondence: the cross-set transform chain of Proofs/C05_proofs.v (cross_pipeline) at binary64 against
    CPCCA/MCA/CCA/RDA.transform of new data; the stage matrices are read off the fitted model"""
    import xarray as xr
    specs = Z.specs()
    names = ["CPCCA", "MCA", "CCA", "RDA"]
    cases, metas = [], []
    for i in range(N):
        name = names[i % len(names)]
        sp = specs[name]
        n = int(rng.integers(10, 16))
        p1, p2 = int(rng.integers(3, 6)), int(rng.integers(3, 6))
        X, Y = Z.data2d(rng, n, p1, "x"), Z.data2d(rng, n, p2, "y")
        kw = dict(use_pca=bool(rng.random() < 0.6), n_pca_modes=int(rng.integers(2, min(p1, p2) + 1)), standardize=bool(rng.random() < 0.4), solver="full")
        if name == "CPCCA":
            kw["alpha"] = [float(rng.choice([0.0, 0.5, 1.0])), float(rng.choice([0.0, 0.5, 1.0]))]
        k = int(rng.integers(1, 3))
        try:
            m = sp.make(k, **kw)
            m.fit(X, Y, "time")
        except Exception as e:
            ctx.dist["cross-model:fit-refused:" + C.errkind(e)] += 1
            continue
        for fld, D, pre, pca, wh, cname, nname, fname in (("X", X, m.preprocessor1, m.pca1, m.whitener1, "components1", "norm1", m.feature_name[0]),
                                                          ("Y", Y, m.preprocessor2, m.pca2, m.whitener2, "components2", "norm2", m.feature_name[1])):
            normalized = bool(rng.random() < 0.5)
            m_new = int(rng.integers(1, 5))
            new = new_data(rng, D, m_new, "disjoint")
            try:
                exp = (m.transform(X=new, normalized=normalized) if fld == "X" else m.transform(Y=new, normalized=normalized)).transpose("time", "mode").values
                sc = pre.scaler.transformers[0]
                par = sc.get_params()
                p = D.shape[1]
                mean = np.asarray(sc.mean_.values, dtype=float) if par["with_center"] else np.zeros(p)
                std = np.asarray(sc.std_.values, dtype=float) if par["with_std"] else np.ones(p)

                def stage_matrix(stage, q_in):
                    """the matrix of a linear stage, read off by transforming the identity"""
                    if getattr(stage, "is_identity", False):
                        return np.eye(q_in)
                    ref = stage.V if hasattr(stage, "V") else stage.T
                    eye = xr.DataArray(np.eye(q_in), dims=(m.sample_name, fname), coords={fname: ref.coords[fname].values})
                    return np.asarray(stage.transform(eye).transpose(m.sample_name, fname).values, dtype=float)
                Vp = stage_matrix(pca, p)
                T = stage_matrix(wh, Vp.shape[1])
                Cm = np.asarray(m.data[cname].transpose(fname, "mode").values, dtype=float)
                nrm = np.asarray(m.data[nname].values, dtype=float)
            except Exception as e:
                ctx.violation("C05:%s:cross-model:error:%s" % (name, C.errkind(e)), "%s: reading the transform chain / transform(%s=new) raised %r" % (name, fld, e),
                              dict(kind="cross-model", cls=name, kw=kw))
                continue
            fl = "(mkFlags %s %s false)" % (C.cbool(bool(par["with_center"])), C.cbool(bool(par["with_std"])))
            cases.append("mkXC %d %d %d %d %d %s %s %s %s %s %s %s %s %s" % (
                m_new, p, Vp.shape[1], T.shape[1], k, fl, C.cvec(mean), C.cvec(std), C.cmat(np.asarray(new.values, dtype=float)), C.cmat(Vp), C.cmat(T), C.cmat(Cm),
                ("(Some %s)" % C.cvec(nrm)) if normalized else "None", C.cmat(exp)))
            metas.append("%s field %s %r normalized=%s" % (name, fld, kw, normalized))
            ctx.case(("c05xm", name, fld, n, p1, p2, k, str(kw), normalized, i), nontrivial=m_new >= 2, tag="%s/chain-model/%s" % (name, "pca" if kw["use_pca"] else "nopca"))
    if not cases:
        return
    body = [C.COQ_HEADER, "From XV Require Import Base.Scalar Base.Mat Base.Instances Model.ScalerLib Model.CrossCase.\n",
            "Definition cases : list cross_case := [\n" + ";\n".join(cases) + "].\n", "Eval vm_compute in (0%%Z :: cross_mismatches %s cases).\n" % C.cf(1e-8)]
    f = C.write_case_file("C05", "xm", "\n".join(body))
    rc, out = C.coqc_run(f)
    if rc != 0:
        ctx.oblige("correspondence:cross-set transform chain", "correspondence", False, out[-600:])
        return
    ev = C.parse_evals(out)
    bad = [j for j in C.parse_int_list(ev[0] if ev else "") if j > 0]
    ctx.traces += len(cases)
    ctx.oblige("correspondence:cross-set transform chain (scaler, PCA, whitening, projection, normalisation): %d transforms of new data vs cross_pipeline at binary64" % len(cases),
               "correspondence", not bad, "disagreements: %r" % [metas[j - 1] for j in bad[:4]])


def run_multi(ctx, rng, N):
    import xeofs as xe
    for i in range(N):
        n = int(rng.integers(12, 18))
        views = [Z.data2d(rng, n, int(rng.integers(3, 6)), "x") for j in range(2)]
        m = xe.multi.CCA(n_modes=2, pca=False)
        m.fit(views, "time")
        mode = ["disjoint", "overlap", "equal"][i % 3]
        n_new = int(rng.integers(2, 6))
        news = [new_data(rng, v, n_new, mode) for v in views]
        replay = dict(kind="multi", views=[np.asarray(v.values) for v in views], new=[np.asarray(v.values) for v in news], mode=mode)
        ctx.case(("c05m", n, n_new, mode, i), nontrivial=True, tag="multi.CCA/" + mode)
        for j in range(2):
            check_transform(ctx, "C05:multi.CCA", "multi.CCA view %d/%s" % (j, mode), lambda d, j=j: m.transform([d if q == j else news[q] for q in range(2)])[j],
                            news[j], "time", replay)


def run(ctx):
    C.setup_impl_env()
    rng = ctx.rng.child("c05").np
    run_single(ctx, rng, ctx.n(36, 800))
    run_structured(ctx, rng, ctx.n(16, 160))
    run_structured_cross(ctx, rng, ctx.n(4, 60))
    run_cross(ctx, rng, ctx.n(25, 600))
    run_multi(ctx, rng, ctx.n(6, 60))
    run_cross_model(ctx, rng, ctx.n(16, 300))
    from harness import mic
    mic.run(ctx, "C05", ctx.n(150, 1500))
    ctx.oblige("oracle:per-sample transform, own labels, no spurious NaN, every split point", "oracle", not ctx.violations)


def search(ctx):
    ctx.widen(run)


def replay(ctx, rp):
    run(ctx)
