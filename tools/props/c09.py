"""C09 — cross-set models diagonalise the (partially whitened) cross-covariance."""
import numpy as np

from harness import common as C
from harness import eofgen as G
from harness import zoo as Z

ANCHORS = ["T3", "T5cpcca", "T5whiten", "T8fwd", "T7chain", "T7inplace", "T7hist", "T9text"]
MODELS = ["CpccaCase"]
RULE = ("pairs of fields with equal sample count, real and complex, feature counts incl. p > n after PCA, alpha grid in [0,1]^2, use_pca on/off "
        "with integer / fractional / 'all' mode counts, n_modes in 1..rank, MCA/CCA/RDA/CPCCA and Complex/Hilbert variants; non-trivial: >= 6 "
        "samples, >= 2 features per field; distinct by input hash")
PARTIAL = ["the proportionality factor for general alpha rests on the power law of the whitening oracle (proved for the scaling of the SVD specification, "
           "checked numerically on the alpha grid)", "homogeneous/heterogeneous patterns need statsmodels (absent): tested through an independent Pearson correlation"]
REFUTED = []
TRUSTED = ["SVD of the cross-covariance is an oracle (numpy), residuals re-checked in Coq", "Coq.Reals axioms in the correlation theorems"]
ASSUMES = ["score series are not identically zero"]
RT = 1e-7


def frac_power(Cm, power):
    w, V = np.linalg.eigh(Cm)
    w = np.clip(w, 0, None)
    keep = w > np.finfo(float).eps * len(w) * w.max()
    return (V[:, keep] * w[keep] ** power) @ V[:, keep].conj().T


def independent_sigma(Xc, Yc, a1, a2, ddof):
    """singular values of the fractionally whitened cross-covariance, everything with divisor n - ddof"""
    n = Xc.shape[0]
    Cx = Xc.conj().T @ Xc / (n - ddof)
    Cy = Yc.conj().T @ Yc / (n - ddof)
    Tx = frac_power(Cx, (a1 - 1) / 2) if a1 < 1 else np.eye(Cx.shape[0])
    Ty = frac_power(Cy, (a2 - 1) / 2) if a2 < 1 else np.eye(Cy.shape[0])
    Cw = (Xc @ Tx).conj().T @ (Yc @ Ty) / (n - 1)
    return np.linalg.svd(Cw, compute_uv=False)


def pearson(a, b):
    a = a - a.mean(axis=0)
    b = b - b.mean(axis=0)
    return (a.conj() * b).sum(axis=0) / np.sqrt((np.abs(a) ** 2).sum(axis=0) * (np.abs(b) ** 2).sum(axis=0))


def run_models(ctx, rng, N):
    import xeofs as xe
    specs = Z.specs()
    names = ["CPCCA", "MCA", "CCA", "RDA", "ComplexCPCCA", "ComplexMCA", "HilbertMCA", "HilbertCPCCA", "HilbertCCA", "HilbertRDA"]
    cases_r, cases_c, meta_r, meta_c = [], [], [], []
    scf_cases = {False: [], True: []}
    for i in range(N):
        name = names[i % len(names)]
        sp = specs[name]
        n = int(rng.integers(8, 16))
        p1, p2 = int(rng.integers(2, 6)), int(rng.integers(2, 6))
        wide = bool(rng.random() < 0.15)
        if wide:
            p1 = n + 2
        many = (i // len(names)) % 3 == 2 and not sp.ordered
        if many:
            # many features per field and few modes: the exact solver that was asked for must be the one that answers
            # (a randomised back-end with its 10 oversampling vectors is not exact here)
            wide = False
            n = int(rng.integers(60, 80))
            p1, p2 = int(rng.integers(30, 40)), int(rng.integers(30, 40))
        if sp.ordered and name != "HilbertMCA" and not wide:
            n = n + 12      # whitening of the analytic signals needs a well conditioned covariance
        X = Z.data2d(rng, n, p1, "x", cplx=sp.cplx, red=sp.ordered)
        Y = Z.data2d(rng, n, p2, "y", cplx=sp.cplx, red=sp.ordered)
        # fields in small or large physical units (the statements are about the data as given)
        if rng.random() < 0.4:
            X = X * float(10.0 ** rng.integers(-6, 4))
            Y = Y * float(10.0 ** rng.integers(-6, 4))
            ctx.dist["c09:rescaled-fields"] += 1
        # lagged / differently stamped second field: rows are paired by position, the sample labels of Y differ
        lag = [None, "shifted", "disjoint"][int(rng.integers(0, 3))] if rng.random() < 0.4 else None
        if lag:
            Y = Y.assign_coords(time=Y.time.values + (2 if lag == "shifted" else 1000))
        ctx.dist["c09:sample-labels-of-Y:%s" % (lag or "equal")] += 1
        use_pca = True if wide else bool(rng.random() < 0.5)
        npca = rng.choice(["all", "int", "frac"]) if use_pca else "all"
        n_pca = "all" if npca == "all" else (int(min(p1, p2, n - 1)) if npca == "int" else 0.999999)
        kw = dict(use_pca=use_pca, n_pca_modes=n_pca, pca_init_rank_reduction=1.0, solver="full")
        alpha = None
        if name in ("CPCCA", "ComplexCPCCA", "HilbertCPCCA"):
            alpha = [float(rng.choice([0.0, 0.25, 0.5, 0.75, 1.0])), float(rng.choice([0.0, 0.25, 0.5, 0.75, 1.0]))]
            kw["alpha"] = alpha
        else:
            alpha = {"MCA": [1, 1], "ComplexMCA": [1, 1], "HilbertMCA": [1, 1], "CCA": [0, 0], "RDA": [0, 1], "HilbertCCA": [0, 0], "HilbertRDA": [0, 1]}[name]
        if sp.ordered:
            # Hilbert variants: the analytic signal of the (pre-reduced) series is what is whitened and decomposed
            kw["padding"] = ["none", "exp"][int(rng.integers(0, 2))]
        rank = min(p1, p2, n - 1)
        k = int(rng.integers(1, max(2, rank))) if not many else int(rng.integers(1, 4))
        replay = dict(kind="cross", cls=name, kw=kw, k=k, X=np.asarray(X.values), Y=np.asarray(Y.values), y_time=np.asarray(Y.time.values))
        ctx.case(("c09", name, n, p1, p2, k, str(kw), i), nontrivial=n >= 6, tag="%s/alpha=%s/pca=%s%s" % (name, alpha, npca if use_pca else "off", "/many-features" if many else ""),
                 sample=dict(cls=name, shapes=[[n, p1], [n, p2]], k=k, kw=kw))
        try:
            m = sp.make(k, **kw)
            m.fit(X, Y, "time")
        except Exception as e:
            if wide and "rank" in str(e):
                continue
            ctx.violation("C09:error:%s:%s" % (name, C.errkind(e)), "%s%r fit raised %r" % (name, kw, e), replay)
            continue
        d = m.data
        S1 = d["scores1"].transpose("sample", "mode").values
        S2 = d["scores2"].transpose("sample", "mode").values
        sig = d["singular_values"].values
        scale = max(float(np.abs(sig).max()), 1e-300)
        key = "C09:%s" % name
        # diagonal cross-covariance of the score sets equal to the singular values
        Cs = S1.conj().T @ S2 / (n - 1)
        if not np.allclose(Cs, np.diag(sig), atol=1e-7 * scale):
            ctx.violation(key + ":score-crosscov", "%s%r: cross-covariance of the score sets is not diag(singular values) (max dev %.3g)" % (
                name, kw, float(np.abs(Cs - np.diag(sig)).max())), replay)
        if np.any(sig < -1e-12 * scale) or np.any(np.diff(sig) > 1e-9 * scale) or np.iscomplexobj(sig) and np.abs(sig.imag).max() > 0:
            ctx.violation(key + ":sigma-order", "%s: singular values not non-negative and descending: %r" % (name, sig), replay)
        # proportional to the independently whitened cross-covariance; factor depends on n and alpha only
        if not sp.ordered:
            Xc = m.pca1.transform(m.preprocessor1.transform(X)).values if use_pca else m.preprocessor1.transform(X).values
            Yc = m.pca2.transform(m.preprocessor2.transform(Y)).values if use_pca else m.preprocessor2.transform(Y).values
            full_rank = np.linalg.matrix_rank(Xc) == Xc.shape[1] and np.linalg.matrix_rank(Yc) == Yc.shape[1]
            if full_rank:
                ind = independent_sigma(Xc, Yc, alpha[0], alpha[1], ddof=1)[:k]
                factor = ((n - 1) / n) ** ((alpha[0] - 1) / 2 + (alpha[1] - 1) / 2)
                if not np.allclose(sig, ind * factor, rtol=1e-6, atol=1e-9 * scale):
                    ctx.violation(key + ":proportional", "%s%r: singular values %r are not %.6g x those of the independently whitened cross-covariance %r" % (
                        name, kw, sig[:3], factor, ind[:3]), replay)
                if min(alpha) == 1 and abs(factor - 1) > 1e-12:
                    ctx.violation(key + ":mca-factor", "factor differs from one for MCA", replay)
        else:
            # Hilbert variants: the whitening has to be that of the ANALYTIC signal (augmentation first, then whitening)
            from xeofs.utils.hilbert_transform import _hilbert_transform_with_padding as _ht
            Xr = m.pca1.transform(m.preprocessor1.transform(X)).transpose("sample", ...).values if use_pca else m.preprocessor1.transform(X).transpose("sample", ...).values
            Yr = m.pca2.transform(m.preprocessor2.transform(Y)).transpose("sample", ...).values if use_pca else m.preprocessor2.transform(Y).transpose("sample", ...).values
            Xc, Yc = _ht(np.asarray(Xr, float), padding=kw["padding"]), _ht(np.asarray(Yr, float), padding=kw["padding"])
            if kw["padding"] == "none":
                import scipy.signal
                hx = scipy.signal.hilbert(np.asarray(Xr, float), axis=0)
                if not np.allclose(Xc, hx - 1j * hx.imag.mean(axis=0), atol=1e-10 * max(1.0, float(np.abs(hx).max()))):
                    ctx.violation(key + ":hilbert", "%s: the package's Hilbert transform without padding is not the analytic signal" % name, replay)
            well = np.linalg.cond(Xc) < 1e5 and np.linalg.cond(Yc) < 1e5
            if well:
                ind = independent_sigma(Xc, Yc, alpha[0], alpha[1], ddof=1)[:k]
                factor = ((n - 1) / n) ** ((alpha[0] - 1) / 2 + (alpha[1] - 1) / 2)
                ctx.dist["c09:hilbert-variant-against-independent-whitening"] += 1
                if not np.allclose(sig, ind * factor, rtol=1e-6, atol=1e-9 * scale):
                    ctx.violation(key + ":proportional", "%s%r: singular values %r are not %.6g x those of the independently whitened cross-covariance of the analytic signals %r" % (
                        name, kw, sig[:3], factor, ind[:3]), replay)
        # MCA: orthonormal components, squared covariance fractions
        if name in ("MCA", "ComplexMCA", "HilbertMCA"):
            for j, Q in enumerate((d["components1"], d["components2"])):
                Qm = Q.transpose(m.feature_name[j], "mode").values
                if not np.allclose(Qm.conj().T @ Qm, np.eye(k), atol=1e-8):
                    ctx.violation(key + ":orthonormal", "%s: components of field %d are not orthonormal" % (name, j + 1), replay)
            tsc = float(d["total_squared_covariance"].values)
            if name != "HilbertMCA":
                Xw, Yw = d["input_data1"].values, d["input_data2"].values
                Cfull = Xw.conj().T @ Yw / (n - 1)
                if not np.isclose(tsc, np.linalg.norm(Cfull) ** 2, rtol=1e-8):
                    ctx.violation(key + ":total-squared-covariance", "%s: total squared covariance is not the squared Frobenius norm of the cross-covariance" % name, replay)
            scf = m.squared_covariance_fraction().values
            if not np.allclose(scf, sig ** 2 / tsc, rtol=1e-6, atol=1e-9) or np.any(scf < -1e-12) or scf.sum() > 1 + 1e-8:
                ctx.violation(key + ":scf", "%s: squared covariance fractions are not sigma_i^2 / ||C||_F^2 in [0,1] (%r)" % (name, scf), replay)
            if k == rank and use_pca is False and not np.isclose(scf.sum(), 1.0, atol=1e-7):
                ctx.violation(key + ":scf-sum", "%s at full rank: squared covariance fractions sum to %.9g" % (name, scf.sum()), replay)
        # correlations are genuine correlations
        try:
            cc = m.cross_correlation_coefficients().values
            cx = m.correlation_coefficients_X().values
            cy = m.correlation_coefficients_Y().values
        except Exception as e:
            ctx.violation(key + ":corr-error", "%s correlation accessors raised %r" % (name, e), replay)
            continue
        want = np.real(pearson(S1, S2))
        if np.any(np.abs(cc) > 1 + 1e-9) or not np.allclose(cc, want, atol=1e-7):
            ctx.violation("C09:cross-correlation-not-a-correlation", "%s: cross_correlation_coefficients %r differ from the Pearson correlation of the paired scores %r (n=%d: ratio %.6g, n/(n-1)=%.6g)" % (
                name, cc[:3], want[:3], n, float(np.real(cc[0] / want[0])) if want[0] != 0 else float("nan"), n / (n - 1)), replay)
        for nm, M in (("X", cx), ("Y", cy)):
            dg = np.real(np.diag(M))
            if not np.allclose(dg, 1.0, atol=1e-8) or np.any(np.abs(M) > 1 + 1e-8):
                ctx.violation("C09:self-correlation-not-one", "%s: correlation_coefficients_%s has diagonal %r (n=%d, n/(n-1)=%.6g)" % (name, nm, dg[:3], n, n / (n - 1)), replay)
        # CCA: correlation between paired scores equals the canonical correlations (independent, N-1 whitening)
        if name == "CCA" and not use_pca:
            Xc, Yc = m.preprocessor1.transform(X).values, m.preprocessor2.transform(Y).values
            rho = independent_sigma(Xc, Yc, 0.0, 0.0, ddof=1)[:k]
            if not np.allclose(want, rho, atol=1e-7):
                ctx.violation(key + ":canonical-correlations", "CCA: correlation of paired scores %r differs from the canonical correlations %r" % (want[:3], rho[:3]), replay)
        # the model's statements still hold after a rotator was fitted on top of it (the rotator reads the model's results, it does not own them)
        if k >= 2 and i % 3 == 0 and Z.rotator_for(name) is not None:
            try:
                Z.rotator_for(name)(n_modes=k, power=int(rng.choice([1, 2])), max_iter=200, rtol=1e-6).fit(m)
            except RuntimeError:
                pass
            except Exception as e:
                ctx.violation(key + ":rotator-error:" + C.errkind(e), "rotator on %s%r raised %r" % (name, kw, e), replay)
            S1b = m.data["scores1"].transpose("sample", "mode").values
            S2b = m.data["scores2"].transpose("sample", "mode").values
            Csb = S1b.conj().T @ S2b / (n - 1)
            ctx.dist["c09:rechecked-after-rotator-fit"] += 1
            if not np.allclose(Csb, np.diag(m.data["singular_values"].values), atol=1e-7 * scale):
                ctx.violation(key + ":score-crosscov-after-rotator", "%s%r: after a rotator was fitted on the model, the cross-covariance of the model's score sets is no longer "
                              "diag(singular values) (max dev %.3g)" % (name, kw, float(np.abs(Csb - np.diag(sig)).max())), dict(replay, rotator_fitted=True))
        # Coq correspondence of the core (exact backend only: small data)
        if name in ("CPCCA", "MCA", "CCA", "RDA", "ComplexCPCCA", "ComplexMCA"):
            Xw, Yw = d["input_data1"].transpose("sample", m.feature_name[0]).values, d["input_data2"].transpose("sample", m.feature_name[1]).values
            q1, q2 = Xw.shape[1], Yw.shape[1]
            Cm = Xw.conj().T @ Yw / (n - 1)
            r = min(q1, q2)
            if True:   # solver='full': same LAPACK call as the oracle
                Uf, s, Vtf = np.linalg.svd(Cm)
                if G.sign_near_tie(Vtf[:k, :]) or G.sign_near_tie(Uf[:, :k].T):
                    ctx.dist["skipped-in-correspondence:sign-rule-near-tie"] += 1
                    continue
                cplx = sp.cplx
                f = lambda A: G.c_mat(np.asarray(A, dtype=complex if cplx else float), cplx)  # noqa
                v = lambda a: G.c_vec(np.asarray(a, dtype=complex if cplx else float), cplx)  # noqa
                tsc_v = d["total_squared_covariance"].values
                # total squared covariance is un-whitened for alpha < 1: outside the 2-D core model
                tsc_m = (np.linalg.norm(Cm) ** 2) if min(alpha) < 1 else (complex(tsc_v) if cplx else float(tsc_v))
                txt = "mkCC %d %d %d %d %d %s %s %s %s %s %s %s %s %s %s %s" % (
                    n, q1, q2, r, k, f(Xw), f(Yw), f(Uf[:, :r]), v(s[:r]), f(Vtf[:r, :]),
                    f(d["components1"].transpose(m.feature_name[0], "mode").values), f(d["components2"].transpose(m.feature_name[1], "mode").values),
                    v(sig), f(S1), f(S2), G.c_scalar(tsc_m + 0j if cplx else tsc_m, cplx))
                (cases_c if cplx else cases_r).append(txt)
                (meta_c if cplx else meta_r).append((name, kw, k))
                if name in ("MCA", "ComplexMCA") and len(scf_cases[cplx]) < 40:
                    # the residual formula of squared_covariance_fraction() as the model states it (Cpcca.scf_modes), identity whitening
                    scfv = np.asarray(m.squared_covariance_fraction().values)
                    fvx, fvy = np.asarray(m.fraction_variance_X_explained_by_X().values), np.asarray(m.fraction_variance_Y_explained_by_Y().values)
                    scf_cases[cplx].append("mkSC %d %d %d %d %s %s %s %s %s %s %s %s" % (
                        n, q1, q2, k, f(Xw), f(Yw), f(d["components1"].transpose(m.feature_name[0], "mode").values),
                        f(d["components2"].transpose(m.feature_name[1], "mode").values), G.c_scalar(tsc_m + 0j if cplx else tsc_m, cplx), v(scfv), v(fvx), v(fvy)))
    ctx.extra["scf_cases"] = scf_cases
    return cases_r, cases_c, meta_r, meta_c


FIELD = {1: "SVD oracle residual", 2: "singular vectors field 1", 3: "singular vectors field 2", 4: "singular values", 5: "scores 1", 6: "scores 2",
         7: "total squared covariance", 8: "score cross-covariance is diag(sigma)"}


def run(ctx):
    C.setup_impl_env()
    C.clean_case_files("C09")
    rng = ctx.rng.child("c09").np
    cr, cc, mr, mc = run_models(ctx, rng, ctx.n(70, 1400))
    ctx.oblige("oracle:diagonal cross-covariance, proportionality, orthonormality, fractions, correlations", "oracle", not ctx.violations)
    if ctx.extra.get("model_ok", True):
        files, plan = [], []
        for kind, cases, meta, fn in (("r", cr, mr, "check_cps_f64"), ("c", cc, mc, "check_cps_c64")):
            for sh in range(0, len(cases), 40):
                body = [C.COQ_HEADER, "From XV Require Import Base.Scalar Base.Mat Base.Instances Model.Eof Model.Cpcca Model.CpccaCase.\n",
                        "Definition cases := [\n" + ";\n".join(cases[sh:sh + 40]) + "].\n", "Eval vm_compute in %s %s cases.\n" % (fn, C.cf(RT))]
                f = C.write_case_file("C09", "%s%d" % (kind, sh // 40), "\n".join(body))
                files.append(f)
                plan.append((f, meta[sh:sh + 40]))
        res = C.coq_eval_files(files)
        nbad, ncmp, ok = 0, 0, True
        for f, meta in plan:
            rc, out = res[f]
            if rc != 0:
                ok = False
                ctx.oblige("correspondence:%s" % f.split("/")[-1], "correspondence", False, out[-600:])
                continue
            pairs = C.parse_pairs((C.parse_evals(out) or [""])[0])
            ncmp += len(meta)
            ctx.traces += len(meta)
            for ci, fld in pairs:
                nbad += 1
                ctx.notes.append("cross-set model/impl disagree on %s for %s%r k=%d" % (FIELD.get(fld, fld), meta[ci][0], meta[ci][1], meta[ci][2]))
        ctx.oblige("correspondence:cpcca-core (%d cases, rtol %g)" % (ncmp, RT), "correspondence", ok and nbad == 0 and ncmp > 0, "%d field disagreements" % nbad)
        # squared covariance fractions: the source's residual formula, evaluated by the model, against the accessor
        sc = ctx.extra.get("scf_cases", {})
        files = []
        for cplx, fn in ((False, "check_scfs_f64"), (True, "check_scfs_c64")):
            if sc.get(cplx):
                body = [C.COQ_HEADER, "From XV Require Import Base.Scalar Base.Mat Base.Instances Model.Eof Model.Cpcca Model.CpccaCase.\n",
                        "Definition cases := [\n" + ";\n".join(sc[cplx]) + "].\n", "Eval vm_compute in map Z.of_nat (%s %s cases).\n" % (fn, C.cf(1e-7))]
                files.append((C.write_case_file("C09", "scf_%s" % ("c" if cplx else "r"), "\n".join(body)), len(sc[cplx])))
        if files:
            res = C.coq_eval_files([f for f, _ in files])
            bad, tot, ok2 = [], 0, True
            for f, cnt in files:
                rc, out = res[f]
                if rc != 0:
                    ok2 = False
                    ctx.notes.append("scf correspondence file failed: " + out[-400:])
                    continue
                tot += cnt
                bad += C.parse_int_list((C.parse_evals(out) or [""])[0])
            ctx.traces += tot
            ctx.oblige("correspondence:squared covariance fraction and fractions of variance explained, residual formulas of the source (Cpcca.scf_modes, fve_src) vs the accessors: %d MCA / ComplexMCA fits" % tot,
                       "correspondence", ok2 and not bad and tot > 0, "%d disagreeing fits" % len(bad))


def search(ctx):
    ctx.widen(run)


def replay(ctx, rp):
    run(ctx)
