"""C06 — fully missing features/samples are ignored exactly; isolated NaNs are refused."""
import numpy as np

from harness import common as C

ANCHORS = ["T6san", "T4"]
MODELS = ["SanCase"]
RULE = ("(i) Sanitizer decision: every not-null mask at 3x3 (quick) / 3x4 and 4x3 (thorough) through fit_transform, plus sampled "
        "(fit mask, transform mask) pairs up to 8x6 with other sample counts, wrong dimension names and shifted feature coordinates; "
        "outcome (error step or kept labels, dense values, re-inserted values) compared with the Coq model. (ii) public API, "
        "check_nans=True: EOF (DataArray with 1-2 feature dims, Dataset incl. a wholly missing variable, list), EOFRotator on it, "
        "MCA/CPCCA with and without PCA; accepted masks (boundary / interior / per-variable columns, boundary / interior rows) are "
        "compared with the fit on the data with those rows/columns deleted beforehand, isolated-NaN masks and mask mismatches must "
        "raise; cross-set rows missing in X only / Y only / both same / different positions. non-trivial: at least one row or "
        "column missing or at least one NaN, and at least one comparison or refusal checked; distinct by input hash")
PARTIAL = ["scaling with NaN-skipping per-feature statistics commutes with the deletion (C06_scaling_commutes_with_deletion, for every operation "
           "built from the present values of a feature; that the Scaler's statistics are of this kind is read from the source by T4 and tested "
           "through the public API); weights/coslat given as arrays with their own missing values are outside the model",
           "Dataset / list stacking and MultiIndex handling in front of the sanitizer are tested, not modelled"]
REFUTED = ["C06_cross_different_positions_refuted: the faithful cross-set pairing (fields sanitised independently, rows paired by "
           "position, only the counts compared) accepts samples missing at different positions (F-06)"]
TRUSTED = ["numpy/xarray NaN semantics of notnull/any/sum/isin/where(drop=True)/reindex (the model states them on option F)"]
ASSUMES = ["2-D inputs of the sanitizer have unique coordinate labels (reindex looks labels up)"]

TOL = 1e-8
MSG = (("Input must have dimensions", 1), ("Feature coordinates are different", 2),
       ("NaN features in different locations", 3), ("partial NaN entries", 4))


# ------------------------------------------------------------------ (i) decision correspondence
def mask_da(n, p, code, off=0, fname="feature"):
    import xarray as xr
    v = np.arange(n * p, dtype=float).reshape(n, p)
    bits = np.array([(code >> k) & 1 for k in range(n * p)], bool).reshape(n, p)
    v[~bits] = np.nan
    return xr.DataArray(v, dims=("sample", fname), coords={"sample": np.arange(n), fname: np.arange(p) + off})


def ints(a):
    a = np.asarray(a, float).ravel()
    return [(-1 if x != x else int(x)) for x in a]


def impl_sanitizer(c):
    """what Sanitizer(check_nans=True) does: list of ints in the format of SanCase.run_case"""
    from xeofs.preprocessing.sanitizer import Sanitizer
    nf, nt, p, fit, tr, dims_ok, coords_same = c
    s = Sanitizer()

    def code_of(e):
        if isinstance(e, ValueError):
            for m, k in MSG:
                if m in str(e):
                    return [k]
        return [90, C.errkind(e)]
    try:
        s.fit(mask_da(nf, p, fit))
    except Exception as e:
        return code_of(e)
    Xt = mask_da(nt, p, tr, off=0 if coords_same else 100, fname="feature" if dims_ok else "feat2")
    try:
        out = s.transform(Xt)
    except Exception as e:
        return code_of(e)
    out = out.transpose("sample", "feature")
    rows = sum(1 << int(i) for i in out["sample"].values)
    cols = sum(1 << int(j) for j in out["feature"].values)
    feat = s.inverse_transform_data(out).transpose("sample", "feature")
    full = s.inverse_transform_scores(feat).transpose("sample", "feature")
    if list(feat["feature"].values) != list(range(p)) or list(full["sample"].values) != list(range(nf)):
        return [91]
    return [0, rows, cols] + ints(out.values) + [-2] + ints(feat.values) + [-2] + ints(full.values)


def outer_mask(rng, n, p, rows=None, cols=None):
    r = rng.random(n) < 0.7 if rows is None else rows
    c = rng.random(p) < 0.7 if cols is None else cols
    m = np.outer(r, c)
    return sum(1 << k for k in range(n * p) if m.ravel()[k]), r, c


def pair_cases(rng, count, nmax, pmax):
    out = []
    for _ in range(count):
        nf = int(rng.integers(1, nmax + 1))
        p = int(rng.integers(1, pmax + 1))
        nt = nf if rng.random() < 0.5 else int(rng.integers(1, nmax + 1))
        fit, _, fc = outer_mask(rng, nf, p)
        if rng.random() < 0.15:
            fit = int(rng.integers(0, 1 << (nf * p)))
            fc = None
        u = rng.random()
        if u < 0.4 and fc is not None:          # same column support: accepted
            tr, _, _ = outer_mask(rng, nt, p, cols=fc)
        elif u < 0.6:                            # other column support
            tr, _, _ = outer_mask(rng, nt, p)
        elif u < 0.85 and fc is not None:        # same support with one hole: isolated (or mask, if the hole empties a column)
            tr, r, c = outer_mask(rng, nt, p, cols=fc)
            on = [k for k in range(nt * p) if (tr >> k) & 1]
            if on:
                tr &= ~(1 << int(on[int(rng.integers(0, len(on)))]))
        else:
            tr = int(rng.integers(0, 1 << (nt * p)))
        dims_ok = bool(rng.random() > 0.05)
        coords_same = bool(rng.random() > 0.08)
        out.append((nf, nt, p, int(fit), int(tr), dims_ok, coords_same))
    return out


def coq_case(c):
    nf, nt, p, fit, tr, dims_ok, coords_same = c
    return "mkSC %d %d %d %d %d %s %s" % (nf, nt, p, fit, tr, C.cbool(dims_ok), C.cbool(coords_same))


def parse_lists(s):
    """'[[0; 3]; [4]]' -> [[0, 3], [4]]"""
    import re
    s = s.strip()
    inner = s[1:-1] if s.startswith("[") else s
    return [[int(x) for x in re.findall(r"-?\d+", grp)] for grp in re.findall(r"\[([^\[\]]*)\]", inner)]


def decision_correspondence(ctx):
    rng = ctx.rng.child("c06-masks").np
    cases = []
    if ctx.quick:
        cases += [(3, 3, 3, m, m, True, True) for m in range(512)]
        cases += pair_cases(rng, 500, 5, 4)
    else:
        cases += [(3, 3, 3, m, m, True, True) for m in range(512)]
        cases += [(3, 3, 4, m, m, True, True) for m in range(4096)]
        cases += [(4, 4, 3, m, m, True, True) for m in range(4096)]
        cases += pair_cases(rng, 4000, 8, 6)
    impl = []
    for c in cases:
        r = impl_sanitizer(c)
        impl.append(r)
        nf, nt, p, fit, tr, dims_ok, coords_same = c
        full = (1 << (nt * p)) - 1
        kind = "fit_transform" if (fit == tr and nf == nt and dims_ok and coords_same) else "fit/transform"
        ctx.case(dict(san=c), nontrivial=(tr != full or fit != tr),
                 tag="sanitizer/%s/%s" % (kind, {0: "accepted", 1: "dims", 2: "coords", 3: "mask", 4: "isolated"}.get(r[0], "other")),
                 sample=dict(shape=[nt, p], fit_mask=fit, mask=tr, outcome=r[:3]))
    per = 1500
    files, plan = [], []
    for sh in range(0, len(cases), per):
        body = ["From Coq Require Import ZArith List Bool.", "From XV Require Import Model.Sanitizer Model.SanCase.",
                "Import ListNotations.", "Open Scope Z_scope.",
                "Definition cases := [\n" + ";\n".join(coq_case(c) for c in cases[sh:sh + per]) + "].",
                "Eval vm_compute in run_cases cases."]
        f = C.write_case_file("C06", "san%d" % (sh // per), "\n".join(body) + "\n")
        files.append(f)
        plan.append((f, sh))
    res = C.coq_eval_files(files)
    nbad, ncmp = 0, 0
    for f, sh in plan:
        rc, out = res[f]
        if rc != 0:
            ctx.oblige("correspondence:%s" % f.split("/")[-1], "correspondence", False, out[-600:])
            continue
        vals = C.parse_evals(out)
        got = parse_lists(vals[0]) if vals else []
        chunk = cases[sh:sh + per]
        if len(got) != len(chunk):
            ctx.oblige("correspondence:%s" % f.split("/")[-1], "correspondence", False,
                       "model printed %d results for %d cases" % (len(got), len(chunk)))
            continue
        for k, (c, g) in enumerate(zip(chunk, got)):
            ncmp += 1
            if g != impl[sh + k]:
                nbad += 1
                if nbad <= 10:
                    ctx.notes.append("sanitizer model/impl disagree on case %r: model %r impl %r" % (c, g[:12], impl[sh + k][:12]))
                ctx.extra.setdefault("disagreements", []).append(dict(case=list(c), model=g[:20], impl=impl[sh + k][:20]))
    ctx.traces += ncmp
    ctx.oblige("correspondence:sanitizer decision, kept labels, dense values, re-insertion (%d masks / mask pairs, exact)" % ncmp,
               "correspondence", nbad == 0 and ncmp == len(cases), "%d disagreements" % nbad)
    ctx.extra["accepted_masks"] = sum(1 for r in impl if r[0] == 0)
    return cases, impl


# ------------------------------------------------------------------ (ii) public API oracles
LAYOUTS = {
    # name: list of blocks (element index, variable name or None, feature dims, shape)
    "da": [(0, None, ("lat", "lon"), (3, 4))],
    "da1": [(0, None, ("x",), (7,))],
    "ds": [(0, "a", ("lat", "lon"), (2, 3)), (0, "b", ("lat", "lon"), (2, 3))],
    "list": [(0, None, ("lat", "lon"), (2, 3)), (1, None, ("y",), (4,))],
}
CONTAINER = {"da": "da", "da1": "da", "ds": "ds", "list": "list"}


def layout_size(layout):
    return sum(int(np.prod(b[3])) for b in LAYOUTS[layout])


def build(layout, M, tlabels):
    """n x P matrix -> DataArray / Dataset / list with sample dimension `time`"""
    import xarray as xr
    arrs = []
    pos = 0
    for (ei, var, dims, shp) in LAYOUTS[layout]:
        w = int(np.prod(shp))
        blk = M[:, pos:pos + w].reshape((M.shape[0],) + tuple(shp))
        pos += w
        coords = {"time": np.asarray(tlabels)}
        for d, s in zip(dims, shp):
            coords[d] = np.arange(s) * (10.0 if d == "lat" else 1.0)
        arrs.append((ei, var, xr.DataArray(blk.copy(), dims=("time",) + tuple(dims), coords=coords)))
    kind = CONTAINER[layout]
    if kind == "da":
        return arrs[0][2]
    if kind == "ds":
        return xr.Dataset({var: a for _, var, a in arrs})
    return [a for _, _, a in arrs]


def flatten(layout, obj, lead):
    """inverse of build for results: (L x P) matrix with `lead` as first dimension; labels must be the input's"""
    cols = []
    kind = CONTAINER[layout]
    for (ei, var, dims, shp) in LAYOUTS[layout]:
        a = obj if kind == "da" else (obj[var] if kind == "ds" else obj[ei])
        if set(a.dims) != set((lead,) + tuple(dims)):
            raise ValueError("dims %r, expected %r" % (a.dims, (lead,) + tuple(dims)))
        a = a.transpose(lead, *dims)
        for d, s in zip(dims, shp):
            want = np.arange(s) * (10.0 if d == "lat" else 1.0)
            a = a.sortby(d)
            if a.sizes[d] != s or not np.array_equal(np.asarray(a[d].values, float), want):
                raise ValueError("labels of %s: %r" % (d, list(a[d].values)))
        cols.append(np.asarray(a.values).reshape(a.sizes[lead], -1))
    return np.concatenate(cols, axis=1), obj


def lead_labels(layout, obj, lead):
    kind = CONTAINER[layout]
    b = LAYOUTS[layout][0]
    a = obj if kind == "da" else (obj[b[1]] if kind == "ds" else obj[b[0]])
    return list(a[lead].values)


def reduced_da(M, rows, cols, tlabels):
    import xarray as xr
    R = M[np.ix_(rows, cols)]
    return xr.DataArray(R.copy(), dims=("time", "f"), coords={"time": np.asarray(tlabels)[rows], "f": np.arange(len(cols))})


def pick_missing(rng, size, pattern, kmax):
    """indices of fully missing positions"""
    if pattern == "none" or size <= 2:
        return []
    k = int(rng.integers(1, max(1, min(kmax, size - 2)) + 1))
    if pattern == "boundary":
        cand = [0, size - 1][:k]
        return sorted(set(cand))
    if pattern == "interior":
        return sorted(int(x) for x in rng.choice(np.arange(1, size - 1), size=min(k, size - 2), replace=False))
    return sorted(int(x) for x in rng.choice(size, size=k, replace=False))


def make_single_cfg(rng, i):
    layout = ("da", "ds", "list", "da1")[i % 4]
    P = layout_size(layout)
    n = int(rng.integers(8, 13))
    cpat = ("boundary", "interior", "random", "none", "random")[int(rng.integers(0, 5))]
    rpat = ("boundary", "interior", "none", "random")[int(rng.integers(0, 4))]
    cols = pick_missing(rng, P, cpat, 3)
    if layout == "ds" and rng.random() < 0.3:
        cpat = "whole-variable"
        cols = list(range(6, 12)) if rng.random() < 0.5 else list(range(0, 6))
    rows = pick_missing(rng, n, rpat, 3)
    if not cols and not rows:
        cols = [int(rng.integers(0, P))]
        cpat = "random"
    return dict(kind="single", layout=layout, n=n, P=P, seed=int(rng.integers(0, 2 ** 31)), miss_cols=cols, miss_rows=rows,
                cpat=cpat, rpat=rpat, k=2, standardize=bool(rng.random() < 0.4), center=True,
                power=int(rng.integers(1, 3)), rotate=bool(rng.random() < 0.6))


def base_matrix(seed, n, P):
    r = np.random.default_rng(seed)
    Z = r.standard_normal((n, 3)) @ (r.standard_normal((3, P)) * np.array([[3.0], [2.0], [1.2]])) + 0.4 * r.standard_normal((n, P))
    return Z + 2.0 * r.standard_normal(P)


def masked(M, rows, cols):
    A = M.copy()
    A[rows, :] = np.nan
    A[:, cols] = np.nan
    return A


def close(a, b, scale=None):
    a, b = np.asarray(a, float), np.asarray(b, float)
    if a.shape != b.shape:
        return False, "shape %r vs %r" % (a.shape, b.shape)
    if a.size == 0:
        return True, ""
    if np.isnan(a).any() or np.isnan(b).any():
        return False, "NaN among the values on the remaining labels"
    sc = max(1.0, float(np.max(np.abs(b)))) if scale is None else scale
    d = float(np.max(np.abs(a - b)))
    return d <= TOL * sc, "max abs diff %.3g (scale %.3g)" % (d, sc)


def nan_exact(A, rows_missing, cols_missing, what):
    """NaN exactly at the deleted labels of a (rows x cols) table"""
    isn = np.isnan(np.asarray(A, float))
    exp = np.zeros(isn.shape, bool)
    if rows_missing is not None:
        exp[list(rows_missing), :] = True
    if cols_missing is not None:
        exp[:, list(cols_missing)] = True
    if np.array_equal(isn, exp):
        return True, ""
    extra = int((isn & ~exp).sum())
    lack = int((~isn & exp).sum())
    return False, "%s: %d NaN at labels that were not deleted, %d deleted labels carry a value" % (what, extra, lack)


def expect_raise(fn):
    try:
        fn()
    except Exception as e:
        return True, C.errkind(e)
    return False, "no error"


def single_results(layout, m, n):
    sv = np.asarray(m.singular_values().values, float) if hasattr(m, "singular_values") else None
    sc = m.scores()
    sc = np.asarray(sc.transpose("time", "mode").values, float)
    comps, _ = flatten(layout, m.components(), "mode")
    rec, _ = flatten(layout, m.inverse_transform(m.scores()), "time")
    return sv, sc, comps, rec


def ref_results(m):
    sv = np.asarray(m.singular_values().values, float) if hasattr(m, "singular_values") else None
    sc = np.asarray(m.scores().transpose("time", "mode").values, float)
    comps = np.asarray(m.components().transpose("mode", "f").values, float)
    rec = np.asarray(m.inverse_transform(m.scores()).transpose("time", "f").values, float)
    return sv, sc, comps, rec


def compare_fitted(ctx, key, what, cfg, got, ref, keep_r, keep_c, miss_r, miss_c):
    """got: results on the full labels; ref: results of the fit on the reduced data"""
    ok = True
    sv, sc, comps, rec = got
    rsv, rsc, rcomps, rrec = ref

    def bad(sub, why):
        nonlocal ok
        ok = False
        ctx.violation("%s:%s" % (key, sub), "%s: %s — %s (layout %s, missing features %r [%s], missing samples %r [%s])" % (
            what, sub, why, cfg.get("layout"), cfg.get("miss_cols"), cfg.get("cpat"), cfg.get("miss_rows"), cfg.get("rpat")),
            dict(kind="api", cfg=cfg, failed=sub))
    if sv is not None:
        g, why = close(sv, rsv)
        if not g:
            bad("singular-values", "differ from the fit on the reduced data: " + why)
    g, why = nan_exact(sc, miss_r, None, "scores")
    if not g:
        bad("nan-positions:scores", why)
    g, why = close(sc[keep_r, :], rsc)
    if not g:
        bad("scores", "differ on the remaining samples: " + why)
    g, why = nan_exact(comps, None, miss_c, "components")
    if not g:
        bad("nan-positions:components", why)
    g, why = close(comps[:, keep_c], rcomps)
    if not g:
        bad("components", "differ on the remaining features: " + why)
    g, why = nan_exact(rec, miss_r, miss_c, "inverse_transform(scores())")
    if not g:
        bad("nan-positions:reconstruction", why)
    g, why = close(rec[np.ix_(keep_r, keep_c)], rrec)
    if not g:
        bad("reconstruction", "differs on the remaining labels: " + why)
    return ok


def run_single(ctx, cfg):
    from xeofs.single import EOF, EOFRotator
    layout, n, P = cfg["layout"], cfg["n"], cfg["P"]
    M = base_matrix(cfg["seed"], n, P)
    miss_r, miss_c = cfg["miss_rows"], cfg["miss_cols"]
    keep_r = [i for i in range(n) if i not in miss_r]
    keep_c = [j for j in range(P) if j not in miss_c]
    tl = np.arange(n) * 2 + 1
    Xm = build(layout, masked(M, miss_r, miss_c), tl)
    Xr = reduced_da(M, keep_r, keep_c, tl)
    kw = dict(n_modes=cfg["k"], standardize=cfg["standardize"], center=cfg["center"], check_nans=True)
    key = "C06:single:EOF"
    what = "EOF(%s) on %s input" % (", ".join("%s=%r" % kv for kv in kw.items()), layout)
    rp = dict(kind="api", cfg=cfg)
    checked = 0
    try:
        m = EOF(**kw)
        m.fit(Xm, "time")
    except Exception as e:
        ctx.violation(key + ":accepted-mask-refused", "%s: fit raised %s on data whose only NaNs are fully missing features %r / samples %r: %s"
                      % (what, C.errkind(e), miss_c, miss_r, str(e)[:160]), rp)
        return 0
    ref = EOF(**kw)
    ref.fit(Xr, "time")
    try:
        got = single_results(layout, m, n)
    except Exception as e:
        ctx.violation(key + ":results-unreadable", "%s: results could not be read back on the input's labels: %r" % (what, e), rp)
        return 0
    compare_fitted(ctx, key, what, cfg, got, ref_results(ref), keep_r, keep_c, miss_r, miss_c)
    checked += 1
    # isolated NaN: one more hole at a remaining label
    r = np.random.default_rng(cfg["seed"] + 1)
    Mi = masked(M, miss_r, miss_c)
    # the hole must leave its sample partly present inside its own block (list element / variable); a sample that is
    # entirely missing in one list element only is the separate family below
    blocks, pos = [], 0
    for b in LAYOUTS[layout]:
        w = int(np.prod(b[3]))
        blocks.append([j for j in range(pos, pos + w) if j in keep_c])
        pos += w
    cand = [j for blk in blocks if len(blk) >= 2 for j in blk]
    if not cand:
        return checked
    Mi[keep_r[int(r.integers(0, len(keep_r)))], cand[int(r.integers(0, len(cand)))]] = np.nan
    Xi = build(layout, Mi, tl)
    g, k = expect_raise(lambda: EOF(**kw).fit(Xi, "time"))
    if not g:
        ctx.violation(key + ":isolated-not-refused:fit", "%s: fit accepted data with an isolated NaN" % what, dict(rp, failed="isolated-fit"))
    g, k = expect_raise(lambda: m.transform(Xi))
    if not g:
        ctx.violation(key + ":isolated-not-refused:transform", "%s: transform accepted data with an isolated NaN" % what,
                      dict(rp, failed="isolated-transform"))
    # missing features differ from training
    variants = {}
    if len(keep_c) > 2:
        variants["more-missing"] = sorted(miss_c + [keep_c[int(r.integers(0, len(keep_c)))]])
    if miss_c and len(keep_c) > 2:
        variants["fewer-missing"] = miss_c[1:]
        variants["other-missing"] = sorted(miss_c[1:] + [keep_c[int(r.integers(0, len(keep_c)))]])
    for vn, mc in variants.items():
        Xv = build(layout, masked(M, miss_r, mc), tl)
        g, k = expect_raise(lambda: m.transform(Xv))
        if not g:
            ctx.violation("%s:mask-differs-not-refused:%s" % (key, vn),
                          "%s: transform accepted data whose fully missing features %r differ from the training data's %r (%s)"
                          % (what, mc, miss_c, vn), dict(rp, failed="mask-" + vn))
        ctx.dist["api/single/transform-mask-%s/%s" % (vn, "refused" if g else "ACCEPTED")] += 1
    if variants and cfg["seed"] % 2 == 0:
        # the same refusals from a model whose results are deferred (compute=False): what is compared is the mask of the training data,
        # whatever the state of the stored statistics
        try:
            ml = EOF(**dict(kw, compute=False))
            ml.fit(Xm, "time")
            for vn, mc in variants.items():
                Xv = build(layout, masked(M, miss_r, mc), tl)
                g, k = expect_raise(lambda: ml.transform(Xv))
                if not g:
                    ctx.violation("%s:mask-differs-not-refused:%s:deferred" % (key, vn),
                                  "%s with compute=False: transform accepted data whose fully missing features %r differ from the training data's %r (%s)"
                                  % (what, mc, miss_c, vn), dict(rp, failed="mask-" + vn, compute=False))
                ctx.dist["api/single/deferred/transform-mask-%s/%s" % (vn, "refused" if g else "ACCEPTED")] += 1
        except Exception as e:
            ctx.violation(key + ":deferred:error:" + C.errkind(e), "%s with compute=False raised %r" % (what, e), dict(rp, compute=False))
    if layout == "list":
        # a sample entirely missing in ONE list element only is not a fully missing sample: refuse at fit and at transform
        i0 = keep_r[int(r.integers(0, len(keep_r)))]
        Mo = masked(M, miss_r, miss_c)
        Mo[i0, :6] = np.nan
        Xo = build(layout, Mo, tl)
        lkey = "C06:list:sample-missing-in-one-element"
        g, k = expect_raise(lambda: EOF(**kw).fit(Xo, "time"))
        if not g:
            ctx.violation(lkey + ":fit-not-refused", "%s: fit accepted a sample (position %d) that is entirely NaN in the first list element "
                          "only" % (what, i0), dict(rp, failed="list-one-element-fit"))
        try:
            t = m.transform(Xo)
            tv = np.asarray(t.transpose("time", "mode").values, float)
            ctx.violation(lkey + ":transform-not-refused",
                          "%s: transform accepted a sample (position %d) that is entirely NaN in the first list element only; no error, "
                          "%d NaN among the returned scores" % (what, i0, int(np.isnan(tv).sum())), dict(rp, failed="list-one-element-transform"))
            ctx.dist["api/single/list-sample-missing-in-one-element/transform ACCEPTED"] += 1
        except Exception:
            ctx.dist["api/single/list-sample-missing-in-one-element/transform refused"] += 1
    if layout == "list" and len(keep_r) >= 2:
        # the same NUMBER of entirely missing samples in every list element, at DIFFERENT positions: the elements
        # have equally many samples left, but not the same ones - refuse (or delete both), never pair by position
        ia, ib = [int(v) for v in r.choice(keep_r, size=2, replace=False)]
        Mo = masked(M, miss_r, miss_c)
        Mo[ia, :6] = np.nan
        Mo[ib, 6:] = np.nan
        Xo = build(layout, Mo, tl)
        lkey = "C06:list:samples-missing-at-different-positions"
        try:
            mo = EOF(**kw)
            mo.fit(Xo, "time")
            so = np.asarray(mo.scores().transpose("time", "mode").values, float)
            # accepted: then it has to be the fit with both samples deleted everywhere
            Md = masked(M, sorted(set(miss_r) | {ia, ib}), miss_c)
            md = EOF(**kw)
            md.fit(build(layout, Md, tl), "time")
            sd = np.asarray(md.scores().transpose("time", "mode").values, float)
            g = so.shape == sd.shape and bool(np.array_equal(np.isnan(so), np.isnan(sd))) and close(np.abs(np.nan_to_num(so)), np.abs(np.nan_to_num(sd)))[0]
            if not g:
                ctx.violation(lkey + ":fit-pairs-by-position", "%s: fit accepted a list whose elements miss one sample each at different positions "
                              "(%d in the first, %d in the second element) and the result is not the fit with both samples deleted" % (what, ia, ib),
                              dict(rp, failed="list-different-positions-fit", positions=[ia, ib]))
            ctx.dist["api/single/list-samples-missing-at-different-positions/fit ACCEPTED"] += 1
        except Exception:
            ctx.dist["api/single/list-samples-missing-at-different-positions/fit refused"] += 1
    if cfg["rotate"]:
        rkw = dict(n_modes=cfg["k"], power=cfg["power"])
        rkey = "C06:rotated:EOFRotator"
        rwhat = "EOFRotator(%s) on %s" % (", ".join("%s=%r" % kv for kv in rkw.items()), what)
        try:
            rot = EOFRotator(**rkw)
            rot.fit(m)
            rref = EOFRotator(**rkw)
            rref.fit(ref)
            gotr = (None,) + single_results(layout, rot, n)[1:]
            refr = (None,) + ref_results(rref)[1:]
            compare_fitted(ctx, rkey, rwhat, cfg, gotr, refr, keep_r, keep_c, miss_r, miss_c)
            ev, rev = np.asarray(rot.explained_variance().values, float), np.asarray(rref.explained_variance().values, float)
            g, why = close(ev, rev)
            if not g:
                ctx.violation(rkey + ":explained-variance", "%s: rotated explained variance differs from the reduced fit: %s" % (rwhat, why), rp)
            g, k = expect_raise(lambda: rot.transform(Xi))
            if not g:
                ctx.violation(rkey + ":isolated-not-refused:transform", "%s: transform accepted data with an isolated NaN" % rwhat,
                              dict(rp, failed="rot-isolated-transform"))
            checked += 1
        except Exception as e:
            if isinstance(e, RuntimeError) and "did not converge" in str(e):
                ctx.dist["api/rotated/skipped: rotation did not converge"] += 1   # not a statement about NaN handling
            else:
                ctx.violation(rkey + ":error", "%s raised %s: %s" % (rwhat, C.errkind(e), str(e)[:160]), rp)
    return checked


# ---- cross-set
def make_cross_cfg(rng, i):
    scen = ("same", "different-positions", "x-only", "y-only", "none", "same", "different-positions")[i % 7]
    n = int(rng.integers(36, 45))   # well above the number of features: whitening (alpha < 1) must be well conditioned
    cls = ("MCA", "CPCCA")[(i // 7) % 2] if i >= 7 else ("MCA", "CPCCA")[i % 2]
    use_pca = bool(rng.random() < 0.5)
    alpha = [1.0, 0.5, 0.0][int(rng.integers(0, 3))]
    k = int(rng.integers(1, 3))
    idx = [int(x) for x in rng.choice(n, size=2 * k, replace=False)]
    if scen == "same":
        mx, my = sorted(idx[:k]), sorted(idx[:k])
    elif scen == "different-positions":
        mx, my = sorted(idx[:k]), sorted(idx[k:])
    elif scen == "x-only":
        mx, my = sorted(idx[:k]), []
    elif scen == "y-only":
        mx, my = [], sorted(idx[:k])
    else:
        mx, my = [], []
    cx = pick_missing(rng, 12, ("boundary", "interior", "none")[int(rng.integers(0, 3))], 2)
    cy = pick_missing(rng, 7, ("interior", "none", "boundary")[int(rng.integers(0, 3))], 2)
    if scen == "none" and not cx and not cy:
        cx = [5]
    return dict(kind="cross", cls=cls, n=n, seed=int(rng.integers(0, 2 ** 31)), scen=scen, miss_rows_x=mx, miss_rows_y=my,
                miss_cols_x=cx, miss_cols_y=cy, use_pca=use_pca, alpha=alpha, k=2)


def cross_results(m, lx, ly):
    sv = np.asarray(m.data["singular_values"].values, float)
    s1, s2 = m.scores()
    c1, c2 = m.components()
    s1 = np.asarray(s1.transpose("time", "mode").values, float)
    s2 = np.asarray(s2.transpose("time", "mode").values, float)
    if lx is None:
        c1 = np.asarray(c1.transpose("mode", "f").values, float)
        c2 = np.asarray(c2.transpose("mode", "g").values, float)
    else:
        c1, _ = flatten(lx, c1, "mode")
        c2, _ = flatten(ly, c2, "mode")
    return sv, s1, s2, c1, c2


def run_cross(ctx, cfg):
    import xeofs.cross as xc
    n = cfg["n"]
    lx, ly = "da", "da1"
    Px, Py = layout_size(lx), layout_size(ly)
    r = np.random.default_rng(cfg["seed"])
    Z = r.standard_normal((n, 3))
    MX = Z @ r.standard_normal((3, Px)) * 2 + 0.5 * r.standard_normal((n, Px)) + r.standard_normal(Px)
    MY = Z @ r.standard_normal((3, Py)) * 1.5 + 0.5 * r.standard_normal((n, Py)) + r.standard_normal(Py)
    mrx, mry, mcx, mcy = cfg["miss_rows_x"], cfg["miss_rows_y"], cfg["miss_cols_x"], cfg["miss_cols_y"]
    union = sorted(set(mrx) | set(mry))
    keep_r = [i for i in range(n) if i not in union]
    kcx = [j for j in range(Px) if j not in mcx]
    kcy = [j for j in range(Py) if j not in mcy]
    tl = np.arange(n) * 2 + 1
    Xm, Ym = build(lx, masked(MX, mrx, mcx), tl), build(ly, masked(MY, mry, mcy), tl)
    kw = dict(n_modes=cfg["k"], use_pca=cfg["use_pca"], n_pca_modes="all", check_nans=True)
    if cfg["cls"] == "CPCCA":
        kw["alpha"] = cfg["alpha"]
    cls = getattr(xc, cfg["cls"])
    key = "C06:cross:%s" % cfg["cls"]
    what = "%s(%s), samples missing in X %r / in Y %r, features missing in X %r / in Y %r" % (
        cfg["cls"], ", ".join("%s=%r" % kv for kv in kw.items()), mrx, mry, mcx, mcy)
    rp = dict(kind="api", cfg=cfg)
    scen = cfg["scen"]
    try:
        m = cls(**kw)
        m.fit(Xm, Ym, "time")
    except Exception as e:
        if scen in ("x-only", "y-only", "different-positions"):
            ctx.dist["api/cross/%s/refused" % scen] += 1
            return 1            # refusing is one of the two admissible behaviours
        ctx.violation(key + ":accepted-mask-refused", "%s: fit raised %s: %s" % (what, C.errkind(e), str(e)[:160]), rp)
        return 0
    ctx.dist["api/cross/%s/accepted" % scen] += 1
    import xarray as xr
    Xr = xr.DataArray(MX[np.ix_(keep_r, kcx)], dims=("time", "f"), coords={"time": tl[keep_r], "f": np.arange(len(kcx))})
    Yr = xr.DataArray(MY[np.ix_(keep_r, kcy)], dims=("time", "g"), coords={"time": tl[keep_r], "g": np.arange(len(kcy))})
    ref = cls(**kw)
    ref.fit(Xr, Yr, "time")
    sv, s1, s2, c1, c2 = cross_results(m, lx, ly)
    rsv, rs1, rs2, rc1, rc2 = cross_results(ref, None, None)
    g, why = close(sv, rsv)
    if not g:
        if scen == "different-positions":
            ctx.violation("C06:cross:different-positions",
                          "%s: no error, rows paired by position: singular values %s differ from %s of the fit with the union of missing "
                          "samples %r deleted from both fields (%s)" % (what, np.round(sv, 6).tolist(), np.round(rsv, 6).tolist(), union, why),
                          dict(rp, failed="different-positions"))
            return 1
        ctx.violation(key + ":singular-values", "%s: singular values differ from the fit on the reduced data: %s" % (what, why), rp)
    checks = (("scores1", s1, union, None, s1[keep_r, :], rs1), ("scores2", s2, union, None, s2[keep_r, :], rs2),
              ("components1", c1, None, mcx, c1[:, kcx], rc1), ("components2", c2, None, mcy, c2[:, kcy], rc2))
    for nm, tab, mr, mc, a, b in checks:
        g, why = nan_exact(tab, mr, mc, nm)
        if not g:
            ctx.violation("%s:nan-positions:%s" % (key, nm), "%s: %s" % (what, why), rp)
        g, why = close(a, b)
        if not g:
            ctx.violation("%s:%s" % (key, nm), "%s: %s differ on the remaining labels from the reduced fit: %s" % (what, nm, why), rp)
    # isolated NaN in either field: refused at fit and at transform
    Mi = masked(MX, mrx, mcx)
    Mi[keep_r[0], kcx[0]] = np.nan
    Xi = build(lx, Mi, tl)
    g, k = expect_raise(lambda: cls(**kw).fit(Xi, Ym, "time"))
    if not g:
        ctx.violation(key + ":isolated-not-refused:fit", "%s: fit accepted an isolated NaN in X" % what, dict(rp, failed="isolated-fit"))
    g, k = expect_raise(lambda: m.transform(X=Xi))
    if not g:
        ctx.violation(key + ":isolated-not-refused:transform", "%s: transform accepted an isolated NaN in X" % what,
                      dict(rp, failed="isolated-transform"))
    if len(kcy) > 2:
        Yv = build(ly, masked(MY, mry, sorted(mcy + [kcy[1]])), tl)
        g, k = expect_raise(lambda: m.transform(Y=Yv))
        if not g:
            ctx.violation(key + ":mask-differs-not-refused:more-missing", "%s: transform accepted Y with one more fully missing feature" % what,
                          dict(rp, failed="mask-more-missing"))
    return 1


def run_api(ctx, n_single, n_cross, tag="c06-api"):
    rng = ctx.rng.child(tag).np
    for i in range(n_single):
        cfg = make_single_cfg(rng, i)
        try:
            done = run_single(ctx, cfg)
        except Exception as e:
            ctx.violation("C06:single:harness-error:%s" % C.errkind(e), "oracle crashed on %r: %r" % (cfg, e), dict(kind="api", cfg=cfg))
            done = 0
        ctx.case(cfg, nontrivial=done > 0, tag="api/single/%s/cols=%s/rows=%s%s" % (cfg["layout"], cfg["cpat"], cfg["rpat"],
                                                                                    "/rotated" if cfg["rotate"] else ""),
                 sample=dict(layout=cfg["layout"], shape=[cfg["n"], cfg["P"]], missing_features=cfg["miss_cols"],
                             missing_samples=cfg["miss_rows"], standardize=cfg["standardize"]))
    for i in range(n_cross):
        cfg = make_cross_cfg(rng, i)
        try:
            done = run_cross(ctx, cfg)
        except Exception as e:
            ctx.violation("C06:cross:harness-error:%s" % C.errkind(e), "oracle crashed on %r: %r" % (cfg, e), dict(kind="api", cfg=cfg))
            done = 0
        ctx.case(cfg, nontrivial=done > 0, tag="api/cross/%s/%s" % (cfg["cls"], cfg["scen"]),
                 sample=dict(cls=cfg["cls"], n=cfg["n"], scen=cfg["scen"], miss_rows_x=cfg["miss_rows_x"], miss_rows_y=cfg["miss_rows_y"]))


def run_two_sample_dims(ctx, N):
    """two sample dimensions with fully missing samples scattered unevenly over the (time, member) grid, and fully missing
    features: the fit equals the fit on the matrix with those rows and columns deleted beforehand"""
    import xarray as xr
    import xeofs as xe
    rng = ctx.rng.child("c06-2s").np
    for i in range(N):
        nt, nm, p = int(rng.integers(4, 8)), int(rng.integers(2, 4)), int(rng.integers(3, 6))
        M = base_matrix(int(rng.integers(0, 2 ** 31)), nt * nm, p)
        kmiss = int(rng.integers(1, max(2, nt * nm // 3)))
        rows = sorted(int(x) for x in rng.choice(nt * nm, size=kmiss, replace=False))
        cols = sorted(int(x) for x in rng.choice(p, size=int(rng.integers(0, 2)), replace=False))
        A = masked(M, rows, cols)
        keep_r = [r for r in range(nt * nm) if r not in rows]
        keep_c = [c for c in range(p) if c not in cols]
        cfg = dict(kind="two-sample-dims", nt=nt, nm=nm, p=p, miss_rows=rows, miss_cols=cols, standardize=bool(rng.random() < 0.4),
                   center=bool(rng.random() < 0.8), cls=["EOF", "SparsePCA"][i % 2] if i % 4 == 3 else "EOF")
        ctx.case(cfg, nontrivial=len(keep_r) >= 3, tag="api/two-sample-dims/%s" % cfg["cls"],
                 sample=dict(shape=[nt, nm, p], missing_samples=rows, missing_features=cols, center=cfg["center"], standardize=cfg["standardize"]))
        replay = dict(kind="api", cfg=cfg, M=M)
        da = xr.DataArray(A.reshape(nt, nm, p), dims=("time", "member", "x"), coords={"time": np.arange(nt), "member": np.arange(nm) + 10, "x": np.arange(p) * 1.0})
        red = xr.DataArray(M[np.ix_(keep_r, keep_c)], dims=("s", "x"), coords={"s": np.arange(len(keep_r)), "x": np.asarray(keep_c) * 1.0})
        kw = dict(n_modes=2, center=cfg["center"], standardize=cfg["standardize"], solver="full")
        try:
            m = xe.single.EOF(**kw).fit(da, ("time", "member"))
            ref = xe.single.EOF(**kw).fit(red, "s")
            sv, svr = m.singular_values().values, ref.singular_values().values
            comps = m.components().sel(x=red.x.values).transpose("x", "mode").values
            compr = ref.components().transpose("x", "mode").values
            sc = m.scores().stack(s=("time", "member")).transpose("s", "mode").values[keep_r]
            scr = ref.scores().transpose("s", "mode").values
        except Exception as e:
            ctx.violation("C06:two-sample-dims:error:" + C.errkind(e), "EOF on (time, member, x) data with scattered fully missing samples raised %r (%r)" % (e, cfg), replay)
            continue
        sg = np.where(np.sum(comps * compr, axis=0) < 0, -1.0, 1.0)
        scale = max(1.0, float(np.abs(svr).max()))
        if not np.allclose(sv, svr, rtol=1e-7, atol=1e-9 * scale):
            ctx.violation("C06:two-sample-dims:singular-values", "EOF(center=%s, standardize=%s) on (time, member) samples with %d scattered fully missing samples: singular values %r "
                          "differ from the fit on the reduced data %r" % (cfg["center"], cfg["standardize"], len(rows), sv, svr), replay)
        else:
            # transform of data whose entirely missing samples sit elsewhere - among them the FIRST sample of the stacked order: every remaining
            # sample's scores at its own (time, member) label, NaN (or nothing) at the missing ones
            try:
                full = xr.DataArray(M.reshape(nt, nm, p), dims=("time", "member", "x"), coords=da.coords).copy()
                full.values[:, :, cols] = np.nan
                tfull = m.transform(full).stack(s=("time", "member")).transpose("s", "mode").values
                miss2 = sorted(set([0] + [int(x) for x in rng.choice(nt * nm, size=int(rng.integers(0, 3)), replace=False)]))
                part = full.copy()
                part.values.reshape(nt * nm, p)[miss2, :] = np.nan
                tpart = m.transform(part)
                tp = tpart.stack(s=("time", "member")).transpose("s", "mode")
                lab = [tuple(x) for x in tp.indexes["s"].tolist()]
                allab = [(t, mm) for t in range(nt) for mm in (np.arange(nm) + 10).tolist()]
                bad = None
                for q, l in enumerate(allab):
                    if q in miss2:
                        if l in lab and not np.all(np.isnan(tp.values[lab.index(l)])):
                            bad = "the entirely missing sample %r has scores" % (l,)
                    elif l not in lab or not np.allclose(tp.values[lab.index(l)], tfull[q], atol=1e-8 * scale, equal_nan=False):
                        bad = "sample %r does not carry its own scores" % (l,)
                    if bad:
                        break
                if bad:
                    ctx.violation("C06:two-sample-dims:transform-with-missing-samples", "EOF on (time, member) samples: transform of data whose entirely missing samples are %r "
                                  "(stacked positions): %s" % (miss2, bad), dict(replay, transform_missing=miss2))
            except Exception as e:
                ctx.violation("C06:two-sample-dims:transform-with-missing-samples:error:" + C.errkind(e), "transform of (time, member) data with entirely missing samples raised %r" % (e,), replay)
        if not np.allclose(sv, svr, rtol=1e-7, atol=1e-9 * scale):
            pass
        elif not np.allclose(comps * sg, compr, atol=1e-6) or not np.allclose(sc * sg, scr, atol=1e-6 * scale):
            ctx.violation("C06:two-sample-dims:modes", "EOF on (time, member) samples with scattered fully missing samples: components / scores differ from the fit on the reduced data", replay)


def run(ctx):
    C.setup_impl_env()
    C.clean_case_files("C06")
    decision_correspondence(ctx)
    run_api(ctx, ctx.n(48, 600), ctx.n(28, 300))
    run_two_sample_dims(ctx, ctx.n(16, 240))


def search(ctx):
    """a tie is broken and no oracle failed in run(): targeted families — every single/double missing feature and sample of a
    small array through the public API, and the decision on all 3x3 masks against the rank-one criterion itself"""
    C.setup_impl_env()
    # the criterion, independently of the model: accepted iff the mask is an outer product
    for m in range(512):
        bits = np.array([(m >> k) & 1 for k in range(9)], bool).reshape(3, 3)
        outer = np.array_equal(bits, np.outer(bits.any(1), bits.any(0)))
        r = impl_sanitizer((3, 3, 3, m, m, True, True))
        if (r[0] == 0) != outer:
            ctx.violation("C06:sanitizer:decision", "Sanitizer.fit_transform %s the 3x3 mask %s whose NaN pattern is %s" % (
                "accepted" if r[0] == 0 else "refused", bits.astype(int).tolist(),
                "fully missing rows/columns only" if outer else "not made of fully missing rows/columns"),
                dict(kind="mask", case=[3, 3, 3, m, m, True, True]))
            return
    run_api(ctx, 40, 14, tag="c06-search")


def replay(ctx, rp):
    C.setup_impl_env()
    r = rp["replay"]
    print("replay:", rp.get("what"))
    if r.get("kind") == "mask":
        c = tuple(r["case"])
        res = impl_sanitizer(c)
        nf, nt, p, fit, tr = c[:5]
        bits = np.array([(tr >> k) & 1 for k in range(nt * p)], bool).reshape(nt, p)
        outer = np.array_equal(bits, np.outer(bits.any(1), bits.any(0)))
        print("  sanitizer outcome:", res[:3], "outer-product mask:", outer)
        if (res[0] == 0) != outer:
            ctx.violation(rp["key"], rp["what"], r)
        return
    cfg = r["cfg"]
    if cfg["kind"] == "single":
        run_single(ctx, cfg)
    else:
        run_cross(ctx, cfg)
    for v in ctx.violations:
        print("  still fails:", v["key"], "-", v["what"][:200])
    if not ctx.violations:
        print("  no longer fails")
