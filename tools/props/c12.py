"""C12 — dask-backed and deferred fits equal the in-memory fit and stay lazy until asked (partial)."""
import numpy as np

from harness import common as C
from harness import zoo as Z

ANCHORS = ["T7lazy", "T3", "T8fwd"]
MODELS = ["Lazy"]
RULE = ("every dask-capable model class x chunk layout (single chunk, along samples, along features, both, one element per chunk where the back-end "
        "accepts it) x scheduler (synchronous, threads with 1/2/8 workers) x compute in {True, False} x check_nans; scheduler invocations are counted "
        "with a wrapping scheduler callable; results are compared with the in-memory fit; plus EOF with the randomised dask back-end (computed in fit or "
        "deferred) on 70..90 x 45..55 matrices with a prescribed gap after the last requested mode, compared with the exact in-memory fit; non-trivial: a dask-backed input with >= 2 chunks; "
        "distinct by (class, layout, scheduler, flags)")
PARTIAL = ["dask's optimiser, thread interleavings, float summation order and stray .values/bool() inside library calls are runtime behaviour the model "
           "cannot exhibit: covered by the scheduler-call count and the result comparison only",
           "POP and OPA defer their numpy linear algebra as one task since the repairs 376b618 / 37144b5"]
REFUTED = ["C12_allowed_numpy_kernel_refuted: the force-point table before the repairs (numpy-only routines through apply_ufunc(dask='allowed'))"]
TRUSTED = ["translator T7lazy (where dask computations are triggered and which flag guards them)", "dask.config scheduler hook counts every graph execution"]
ASSUMES = ["real data (complex data with dask is documented as unsupported)"]


class Counter:
    def __init__(self, inner):
        self.n = 0
        self.inner = inner

    def __call__(self, dsk, keys, **kw):
        self.n += 1
        return self.inner(dsk, keys, **kw)


def layouts(n, p):
    return [("single", (n, p)), ("samples", (max(2, n // 3), p)), ("features", (n, max(1, p // 2))), ("both", (max(2, n // 2), max(1, p // 2)))]


def make_dask(X, chunks):
    import dask.array as da
    import xarray as xr
    return xr.DataArray(da.from_array(X.values, chunks=chunks), dims=X.dims, coords=X.coords)


def is_lazy(v):
    import dask.array as da
    return isinstance(getattr(v, "data", None), da.Array)


DERIVED_INPUT = ("OPA", "ExtendedEOF-prereduced")   # data["input_data"] holds results of an inner PCA step, not the user's array


def run(ctx):
    C.setup_impl_env(prior_use=0)
    import dask
    import dask.threaded
    import dask.local
    import xeofs as xe
    rng = ctx.rng.child("c12").np
    specs = Z.specs()
    classes = ["EOF", "EOF-uncentred", "ExtendedEOF", "ExtendedEOF-prereduced", "SparsePCA", "MCA", "MCA-prereduced", "CPCCA", "POP", "OPA", "EOFRotator", "MCARotator", "EOF-weighted", "MCA-weighted"]
    scheds = [("synchronous", dask.local.get_sync)] + ([("threads", dask.threaded.get)] if True else [])
    reps = ctx.n(1, 4)
    for rep in range(reps):
        n, p = int(rng.integers(24, 40)), int(rng.integers(6, 10))
        X = Z.data2d(rng, n, p, "x", red=True)
        Y = Z.data2d(rng, n, p - 1, "y", red=True)
        for name in classes:
            base = name.replace("Rotator", "").replace("-uncentred", "").replace("-prereduced", "").replace("-weighted", "")
            sp = specs[base]
            cross = sp.kind == "cross"
            extra = dict(use_pca=False) if cross else {}
            if name.endswith("-prereduced"):
                # the model runs a PCA step of its own in front of its algorithm: that step must be as lazy as the model
                extra = dict(use_pca=True, n_pca_modes=4) if cross else dict(n_pca_modes=4)
            if name.endswith("-uncentred"):
                extra["center"] = False     # the data has a non-zero mean: variances are about the mean whatever the array type

            def build(compute, check_nans, solver="full"):
                kw2 = dict(extra)
                if base == "SparsePCA":
                    kw2.update(max_iter=4)      # lazily built iterations grow the graph: keep it small
                m = sp.make(2, compute=compute, check_nans=check_nans, solver=solver, random_state=3, **kw2)
                return m

            def fit(m, dx, dy, rot_compute=None):
                if name.endswith("-weighted"):
                    # user weights that are themselves held the way the data is held (dask-backed with dask-backed data): a cell-area field
                    # opened lazily next to the data
                    import xarray as xr
                    def wts(d, q):
                        w = xr.DataArray(0.5 + np.arange(d.sizes[q]) / d.sizes[q], dims=(q,), coords={q: d[q].values})
                        return w.chunk({q: max(1, d.sizes[q] // 2)}) if is_lazy(d) else w
                    if cross:
                        m.fit(dx, dy, "time", weights_X=wts(dx, "x"), weights_Y=wts(dy, "y"))
                    else:
                        m.fit(dx, "time", weights=wts(dx, "x"))
                    return m
                m.fit(dx, dy, "time") if cross else m.fit(dx, "time")
                if name.endswith("Rotator"):
                    rc_ = m.get_params()["compute"] if rot_compute is None else rot_compute
                    # a deferred rotation cannot test convergence: it runs exactly max_iter iterations
                    # oblique (power 2: the inverse of the rotation matrix is needed) and orthogonal rotations alternate
                    power = 2 if (name == "EOFRotator") == (rep % 2 == 0) else 1
                    r = Z.rotator_for(base)(n_modes=2, power=power, compute=rc_, max_iter=(200 if rc_ else 4), rtol=1e-6)
                    r.fit(m)
                    return r
                return m

            # reference: in-memory fit
            try:
                ref = fit(build(True, True), X, Y)
            except RuntimeError:
                continue
            ref_sv = ref_values(ref, cross)
            ref_lazy_sv = ref_sv
            if name.endswith("Rotator"):
                # in-memory reference of the deferred rotation: same fixed number of iterations
                ref_lazy_sv = ref_values(fit(build(True, True), X, Y, rot_compute=False), cross)
            for lname, ch in layouts(n, p):
                dx = make_dask(X, ch)
                dy = make_dask(Y, (ch[0], min(ch[1], p - 1)))
                for sname, getter in (scheds if (not ctx.quick or name in ("EOF", "MCA", "EOFRotator")) else scheds[:1]):
                    for compute in (True, False):
                        for check_nans in ((True, False) if not compute else (True,)):
                            tag = "%s/%s/%s/compute=%s/check_nans=%s" % (name, lname, sname, compute, check_nans)
                            replay = dict(kind="dask", cls=name, layout=lname, chunks=ch, scheduler=sname, compute=compute, check_nans=check_nans, X=np.asarray(X.values), Y=np.asarray(Y.values))
                            cnt = Counter(getter)
                            ctx.case((name, lname, sname, compute, check_nans, rep), nontrivial=lname != "single", tag=tag,
                                     sample=dict(cls=name, chunks=list(ch), scheduler=sname, compute=compute, check_nans=check_nans))
                            try:
                                with dask.config.set(scheduler=cnt, num_workers=2):
                                    # the randomised dask back-end differs from the exact in-memory solver: use the library's own choice
                                    m = fit(build(compute, check_nans, solver="full"), dx, dy)
                                    calls_fit = cnt.n
                            except NotImplementedError:
                                ctx.dist["refused:NotImplemented"] += 1
                                continue
                            except Exception as e:
                                ctx.violation("C12:%s:error:%s" % (name, C.errkind(e)), "%s on dask input (%s) raised %r" % (name, tag, e), replay)
                                continue
                            # laziness: no computation at all with compute=False and check_nans=False
                            if not compute and not check_nans:
                                ctx.extra.setdefault("lazy_calls", {}).setdefault(name, []).append(calls_fit)
                                if calls_fit != 0:
                                    ctx.violation("C12:%s:computes-when-lazy" % name,
                                                  "%s(compute=False, check_nans=False).fit triggered %d dask computation(s) [%s]" % (name, calls_fit, tag), replay)
                                stored = [k for k, v in m.data.items() if not is_lazy(v) and v.size > 1 and k not in ("idx_modes_sorted",)]
                                lazy_any = any(is_lazy(v) for v in m.data.values())
                                if not lazy_any:
                                    ctx.violation("C12:%s:results-not-lazy" % name, "%s(compute=False).fit left no dask-backed result" % name, replay)
                            # the input data is never replaced by an in-memory copy
                            for key in ("input_data", "input_data1", "input_data2"):
                                # OPA stores the retained PC series (n x n_pca_modes, results of its inner EOF) under this name,
                                # not the user's data: with compute=True they are computed like any other result; the same holds
                                # for the delay-embedded PC series of a pre-reduced ExtendedEOF
                                if key in m.data and not is_lazy(m.data[key]) and not (name in DERIVED_INPUT and compute):
                                    ctx.violation("C12:%s:input-loaded" % name, "%s: data[%r] is an in-memory array after fit on dask input (%s)" % (name, key, tag), replay)
                            # later compute() yields the eager results
                            try:
                                with dask.config.set(scheduler=getter):
                                    if not compute:
                                        m.compute()
                                    got = ref_values(m, cross)
                            except Exception as e:
                                ctx.violation("C12:%s:compute-error:%s" % (name, C.errkind(e)), "%s.compute() raised %r (%s)" % (name, e, tag), replay)
                                continue
                            # a further compute() (as save() issues) must leave the input lazy as well
                            try:
                                with dask.config.set(scheduler=getter):
                                    m.compute()
                                for key in ("input_data", "input_data1", "input_data2"):
                                    if key in m.data and not is_lazy(m.data[key]) and not (name in DERIVED_INPUT and compute):
                                        ctx.violation("C12:%s:input-loaded-by-second-compute" % name, "%s: data[%r] is an in-memory array after a second compute() (%s)" % (name, key, tag), replay)
                            except Exception as e:
                                ctx.violation("C12:%s:second-compute-error:%s" % (name, C.errkind(e)), "%s: a second compute() raised %r (%s)" % (name, e, tag), replay)
                            refv = ref_sv if compute else ref_lazy_sv
                            for kk in refv:
                                a, b = np.abs(refv[kk]), np.abs(got[kk])
                                if not Z.same(b, a, 1e-5):
                                    ctx.violation("C12:%s:differs-from-in-memory:%s" % (name, kk),
                                                  "%s on dask input (%s): %s differs from the in-memory fit (max diff %.3g)" % (name, tag, kk, float(np.nanmax(np.abs(a - b))) if a.shape == b.shape else float("nan")), replay)
                                    break
                            ctx.traces += 1
    ctx.oblige("oracle:dask fits equal the in-memory fit, stay lazy with compute=False/check_nans=False, keep the input lazy", "oracle", not ctx.violations)
    run_randomised(ctx)
    # correspondence: the model's force-point count (zero / non-zero) per class vs the observed scheduler calls
    if ctx.extra.get("model_ok", True):
        body = [C.COQ_HEADER, "From XV Require Import Gen.T7lazy Model.Lazy.\n",
                "Eval vm_compute in map (fun p => Z.of_nat (List.length (forces p false false false))) "
                "[eof_path; cross_path; eof_rotator_path; cross_rotator_path; pop_path; opa_path].\n"]
        f = C.write_case_file("C12", "forces", "\n".join(body))
        rc, out = C.coqc_run(f)
        if rc != 0:
            ctx.oblige("correspondence:force-points", "correspondence", False, out[-500:])
        else:
            pred = C.parse_int_list((C.parse_evals(out) or [""])[0])
            fam = {"EOF": 0, "EOF-uncentred": 0, "ExtendedEOF": 0, "ExtendedEOF-prereduced": 0, "SparsePCA": 0, "MCA": 1, "MCA-prereduced": 1, "EOF-weighted": 0, "MCA-weighted": 1, "CPCCA": 1, "EOFRotator": 2, "MCARotator": 3, "POP": 4, "OPA": 5}
            bad = []
            for nm, obs in ctx.extra.get("lazy_calls", {}).items():
                p_nonzero = pred[fam[nm]] > 0
                if p_nonzero != (max(obs) > 0):
                    bad.append((nm, pred[fam[nm]], obs))
            ctx.extra["force_points_predicted"] = dict(zip(["eof", "cross", "eof_rotator", "cross_rotator", "pop", "opa"], pred))
            ctx.oblige("correspondence:force-point model vs observed scheduler calls (%d classes)" % len(ctx.extra.get("lazy_calls", {})),
                       "correspondence", not bad, "disagreements: %r" % (bad,))


def run_randomised(ctx):
    """the randomised dask back-end, computed in fit or deferred, against the exact in-memory fit on data with a clear gap after the last
    requested mode (first discarded singular value 0.3 .. 0.5 of the last kept one, flat tail): 'up to the accuracy of the randomised
    solver' is then 1e-5 with the library's default of 4 power iterations, and 5% or worse with none"""
    import dask
    import dask.local
    import xarray as xr
    import xeofs as xe
    rng = ctx.rng.child("c12-randomised").np
    for rep in range(ctx.n(4, 12)):
        n, p, k = int(rng.integers(70, 90)), int(rng.integers(45, 55)), int(rng.integers(1, 4))
        tail = float(rng.choice([0.3, 0.4, 0.5]))
        U, _ = np.linalg.qr(rng.normal(size=(n, n)))
        V, _ = np.linalg.qr(rng.normal(size=(p, p)))
        sv = np.r_[10.0 * 0.8 ** np.arange(k), 10.0 * 0.8 ** (k - 1) * tail * np.ones(p - k)]
        Xv = (U[:, :p] * sv) @ V.T
        X = xr.DataArray(Xv, dims=("time", "x"), coords={"time": np.arange(n), "x": np.arange(p)})
        ref = xe.single.EOF(n_modes=k, solver="full").fit(X, "time")
        rs, rc = np.asarray(ref.singular_values().values), np.asarray(ref.components().transpose("x", "mode").values)
        for lname, ch in (("single", (n, p)), ("samples", (n // 2, p)), ("both", (n // 2, p // 2 + 1))):
            for compute in (True, False):
                tag = "EOF/randomised/%s/compute=%s" % (lname, compute)
                replay = dict(kind="randomised", X=Xv, k=k, chunks=ch, compute=compute, tail=tail)
                ctx.case(("c12r", rep, lname, compute), nontrivial=True, tag=tag,
                         sample=dict(cls="EOF", solver="randomized", shape=[n, p], n_modes=k, gap=tail, chunks=list(ch), compute=compute))
                try:
                    with dask.config.set(scheduler=dask.local.get_sync):
                        m = xe.single.EOF(n_modes=k, solver="randomized", compute=compute, check_nans=compute, random_state=int(rng.integers(1, 1000)))
                        m.fit(make_dask(X, ch), "time")
                        if not compute:
                            m.compute()
                        gs, gc = np.asarray(m.singular_values().values), np.asarray(m.components().transpose("x", "mode").values)
                except NotImplementedError:
                    ctx.dist["refused:NotImplemented"] += 1
                    continue
                except Exception as e:
                    ctx.violation("C12:EOF:randomised:error:%s" % C.errkind(e), "EOF(solver='randomized') on dask input (%s) raised %r" % (tag, e), replay)
                    continue
                es = float(np.max(np.abs(gs - rs) / rs))
                ec = float(np.max(np.abs(np.abs((gc * rc).sum(0)) - 1.0)))
                if not (es < 1e-3 and ec < 1e-3):
                    ctx.violation("C12:EOF:randomised:differs-from-in-memory:compute=%s" % compute,
                                  "EOF(solver='randomized', compute=%s) on dask input (%s, gap %.1f after mode %d): singular values off by %.3g (relative), "
                                  "patterns off by %.3g from the in-memory fit" % (compute, lname, tail, k, es, ec), replay)
                else:
                    # orientation too: wherever the sign convention is decisive (largest positive and largest negative loading of the in-memory mode
                    # differ by more than 1 %), the dask fit - computed in fit or afterwards - has the in-memory fit's orientation
                    for j in range(k):
                        mx, mn = float(rc[:, j].max()), float(-rc[:, j].min())
                        if abs(mx - mn) > 0.01 * max(mx, mn) and float((gc[:, j] * rc[:, j]).sum()) < 0:
                            ctx.violation("C12:EOF:randomised:orientation:compute=%s" % compute,
                                          "EOF(solver='randomized', compute=%s) on dask input (%s): mode %d comes out with the opposite orientation of the in-memory fit "
                                          "(its largest loadings are %.3f and -%.3f: the sign convention is decisive)" % (compute, lname, j + 1, mx, mn), replay)
                            break
                ctx.traces += 1
    ctx.oblige("oracle:randomised dask fit (computed or deferred) equals the in-memory fit on spectra with a gap", "oracle",
               not [v for v in ctx.violations if ":randomised:" in v["key"]])


def ref_values(m, cross):
    out = {}
    d = m.data
    if cross:
        for k in ("singular_values", "squared_covariance"):
            if k in d:
                out[k] = np.asarray(d[k].values)
        out["components1"] = np.asarray(d["components1"].values)
        out["scores1"] = np.asarray(d["scores1"].values)
    else:
        for k in ("norms", "explained_variance", "total_variance", "eigenvalues", "decorrelation_time"):
            if k in d:
                out[k] = np.asarray(d[k].values)
        out["components"] = np.asarray(d["components"].values)
        out["scores"] = np.asarray(d["scores"].values)
        if hasattr(m, "explained_variance_ratio"):
            try:
                out["explained_variance_ratio()"] = np.asarray(m.explained_variance_ratio().values)
            except Exception:
                pass
    return out


def search(ctx):
    ctx.widen(run)


def replay(ctx, rp):
    run(ctx)
