"""T2: the netCDF attribute codec of xeofs/utils/io.py.

* `_should_desanitize` -> a total function `string -> result bool` (indexing the empty string raises
  IndexError, which the short-circuit combinators of Model/PyVal.v propagate) and its lifting to `pyv`;
* the `sanitized_types` tuple of `_sanitize_attrs_nc` -> a list of type tags;
* the loop structure of `_sanitize_attrs_nc` / `_desanitize_attrs_nc`: which attribute dictionaries are
  visited (node level, variable level), under which guard, with which action, over which node set.

Fail-closed: every statement of the three functions has to match the schema below."""
import ast

from .core import TransError, body_nodoc, find_func, parse_file, try_dotted

REL = "xeofs/utils/io.py"

TAGS = {"dict": "TDict", "list": "TList", "bool": "TBool", "type(None)": "TNone", "int": "TInt",
        "float": "TFloat", "str": "TStr"}


def _tag(node):
    src = ast.unparse(node)
    if src not in TAGS:
        raise TransError("sanitized_types: unsupported type %s" % src)
    return TAGS[src]


def _char(c):
    if len(c) != 1 or not (32 <= ord(c) < 127) or c == '"':
        raise TransError("character literal %r" % c)
    return '"%s"%%char' % c


def _cstr(s):
    if '"' in s:
        raise TransError("string literal %r" % s)
    return '"%s"' % s


class RB:
    """boolean expression over the string variable `var`, possibly raising -> Coq term of type result bool"""

    def __init__(self, var):
        self.var = var

    def tr(self, n):
        if isinstance(n, ast.BoolOp):
            comb = "rb_and" if isinstance(n.op, ast.And) else "rb_or"
            parts = [self.tr(v) for v in n.values]
            out = parts[-1]
            for p in reversed(parts[:-1]):     # a or b or c == a or (b or c), evaluated left to right
                out = "(%s %s %s)" % (comb, p, out)
            return out
        if isinstance(n, ast.Compare) and len(n.ops) == 1:
            op, l, r = n.ops[0], n.left, n.comparators[0]
            # attr[i] == "c"
            if isinstance(op, ast.Eq) and isinstance(l, ast.Subscript) and try_dotted(l.value) == self.var:
                idx = l.slice
                if isinstance(idx, ast.UnaryOp) and isinstance(idx.op, ast.USub) and isinstance(idx.operand, ast.Constant):
                    i = -idx.operand.value
                elif isinstance(idx, ast.Constant):
                    i = idx.value
                else:
                    raise TransError("subscript %s" % ast.unparse(idx))
                if not isinstance(i, int) or isinstance(i, bool):
                    raise TransError("non-integer subscript")
                if not (isinstance(r, ast.Constant) and isinstance(r.value, str)):
                    raise TransError("character comparison with %s" % ast.unparse(r))
                return "(py_idx_eq %s (%d)%%Z %s)" % (self.var, i, _char(r.value))
            # attr == "lit"
            if isinstance(op, ast.Eq) and try_dotted(l) == self.var and isinstance(r, ast.Constant) and isinstance(r.value, str):
                return "(Ok (String.eqb %s %s))" % (self.var, _cstr(r.value))
            # attr in ["a", "b"]
            if isinstance(op, ast.In) and try_dotted(l) == self.var and isinstance(r, (ast.List, ast.Tuple)):
                items = []
                for e in r.elts:
                    if not (isinstance(e, ast.Constant) and isinstance(e.value, str)):
                        raise TransError("`in` over non-literal %s" % ast.unparse(e))
                    items.append(_cstr(e.value))
                return "(Ok (existsb (String.eqb %s) [%s]))" % (self.var, "; ".join(items))
        raise TransError("condition %s" % ast.unparse(n)[:80])


def _is_return_const(s, val):
    return isinstance(s, ast.Return) and isinstance(s.value, ast.Constant) and s.value.value is val


def gen_should(tree):
    fn = find_func(tree, "_should_desanitize")
    if [a.arg for a in fn.args.args] != ["attr"]:
        raise TransError("_should_desanitize signature")
    b = body_nodoc(fn)
    if len(b) != 2 or not isinstance(b[0], ast.If) or b[0].orelse or not _is_return_const(b[1], False):
        raise TransError("_should_desanitize: expected `if isinstance(attr, str): ...; return False`")
    t = b[0].test
    nonempty = False
    if isinstance(t, ast.BoolOp) and isinstance(t.op, ast.And) and len(t.values) == 2 and try_dotted(t.values[1]) == "attr":
        # `isinstance(attr, str) and attr`: truthiness of a str is non-emptiness
        nonempty = True
        t = t.values[0]
    if not (isinstance(t, ast.Call) and try_dotted(t.func) == "isinstance" and len(t.args) == 2
            and try_dotted(t.args[0]) == "attr" and try_dotted(t.args[1]) == "str"):
        raise TransError("_should_desanitize: outer test is not isinstance(attr, str) [and attr]")
    inner = b[0].body
    if len(inner) != 1 or not isinstance(inner[0], ast.If) or inner[0].orelse or len(inner[0].body) != 1 \
            or not _is_return_const(inner[0].body[0], True):
        raise TransError("_should_desanitize: expected `if <cond>: return True` inside the str branch")
    cond = RB("attr").tr(inner[0].test)
    out = ["(* _should_desanitize: the condition evaluated when isinstance(attr, str) *)",
           "Definition should_guard_nonempty : bool := %s." % ("true" if nonempty else "false"),
           "Definition should_desanitize_str (attr : string) : result bool :=",
           ("  if py_str_truthy attr then %s else Ok false." % cond) if nonempty else ("  %s." % cond), "",
           "(* `if isinstance(attr, str): if <cond>: return True` ... `return False` *)",
           "Definition should_desanitize (attr : pyv) : result bool :=",
           "  if pyv_isinstance attr [TStr] then",
           "    match attr with",
           "    | PStr s => match should_desanitize_str s with",
           "                | Ok true => Ok true",
           "                | Ok false => Ok false",
           "                | Err e => Err e",
           "                end",
           "    | _ => Ok false",
           "    end",
           "  else Ok false.", ""]
    return out


CAUGHT = {"ValueError": "EValueError", "SyntaxError": "ESyntaxError", "TypeError": "ETypeError", "KeyError": "EKeyError",
          "IndexError": "EKeyError"}


def literal_wrapper(tree, fname):
    """`def f(attr): try: return literal_eval(attr) except (K1, K2): return attr` -> caught kinds"""
    fn = find_func(tree, fname)
    if [a.arg for a in fn.args.args] != ["attr"]:
        raise TransError("%s signature" % fname)
    b = body_nodoc(fn)
    if len(b) != 1 or not isinstance(b[0], ast.Try) or b[0].orelse or b[0].finalbody or len(b[0].handlers) != 1:
        raise TransError("%s: expected a single try/except" % fname)
    tr = b[0]
    if len(tr.body) != 1 or not (isinstance(tr.body[0], ast.Return) and ast.unparse(tr.body[0].value) == "literal_eval(attr)"):
        raise TransError("%s: try body is not `return literal_eval(attr)`" % fname)
    h = tr.handlers[0]
    if h.type is None or len(h.body) != 1 or not (isinstance(h.body[0], ast.Return) and try_dotted(h.body[0].value) == "attr"):
        raise TransError("%s: handler is not `except (...): return attr`" % fname)
    kinds = h.type.elts if isinstance(h.type, ast.Tuple) else [h.type]
    out = []
    for k in kinds:
        nm = try_dotted(k)
        if nm not in CAUGHT:
            raise TransError("%s: caught exception %s" % (fname, nm))
        out.append(CAUGHT[nm])
    return out


def _attr_loop(loop, owner_src, tree=None, caught=None):
    """`for key, attr in <owner>.attrs.items(): if G(attr...): <owner>.attrs[key] = A(attr)` -> (guard, action)"""
    if not (isinstance(loop, ast.For) and not loop.orelse and isinstance(loop.target, ast.Tuple)
            and [try_dotted(e) for e in loop.target.elts] == ["key", "attr"]):
        raise TransError("attribute loop header")
    if ast.unparse(loop.iter) != "%s.attrs.items()" % owner_src:
        raise TransError("attribute loop iterates %s, expected %s.attrs.items()" % (ast.unparse(loop.iter), owner_src))
    if len(loop.body) != 1 or not isinstance(loop.body[0], ast.If) or loop.body[0].orelse:
        raise TransError("attribute loop body is not a single guarded assignment")
    iff = loop.body[0]
    g = iff.test
    if not isinstance(g, ast.Call):
        raise TransError("guard is not a call")
    gname = try_dotted(g.func)
    if gname == "isinstance":
        if not (len(g.args) == 2 and try_dotted(g.args[0]) == "attr" and try_dotted(g.args[1]) == "sanitized_types"):
            raise TransError("isinstance guard %s" % ast.unparse(g))
        guard = "GuardIsSanitizedType"
    elif gname == "_should_desanitize":
        if not (len(g.args) == 1 and try_dotted(g.args[0]) == "attr"):
            raise TransError("guard %s" % ast.unparse(g))
        guard = "GuardShouldDesanitize"
    else:
        raise TransError("unknown guard %s" % gname)
    if len(iff.body) != 1 or not isinstance(iff.body[0], ast.Assign) or len(iff.body[0].targets) != 1:
        raise TransError("guarded statement is not one assignment")
    a = iff.body[0]
    if ast.unparse(a.targets[0]) != "%s.attrs[key]" % owner_src:
        raise TransError("assignment target %s" % ast.unparse(a.targets[0]))
    v = a.value
    if not (isinstance(v, ast.Call) and len(v.args) == 1 and not v.keywords and try_dotted(v.args[0]) == "attr"):
        raise TransError("assigned value %s" % ast.unparse(v))
    fname = try_dotted(v.func)
    act = {"str": "ActStr", "literal_eval": "ActLiteralEval"}.get(fname)
    if act is None:
        if tree is None or fname is None:
            raise TransError("unknown action %s" % ast.unparse(v.func))
        kinds = literal_wrapper(tree, fname)
        if caught is not None:
            if caught and caught != kinds:
                raise TransError("the sites catch different exceptions")
            caught[:] = kinds
        act = "ActLiteralOrStr"
    return guard, act


def gen_loops(tree, fname, expect_types, caught=None):
    fn = find_func(tree, fname)
    b = body_nodoc(fn)
    types = None
    if expect_types:
        if not (isinstance(b[0], ast.Assign) and try_dotted(b[0].targets[0]) == "sanitized_types"
                and isinstance(b[0].value, ast.Tuple)):
            raise TransError("%s: sanitized_types tuple not found" % fname)
        types = [_tag(e) for e in b[0].value.elts]
        b = b[1:]
    if len(b) != 2 or not isinstance(b[0], ast.For) or not (isinstance(b[1], ast.Return) and try_dotted(b[1].value) == "dt"):
        raise TransError("%s: expected one loop over the nodes and `return dt`" % fname)
    outer = b[0]
    if try_dotted(outer.target) != "node" or ast.unparse(outer.iter) != "dt.subtree" or outer.orelse:
        raise TransError("%s: outer loop is not `for node in dt.subtree`" % fname)
    sites = []
    for s in outer.body:
        if isinstance(s, ast.For) and isinstance(s.target, ast.Tuple):
            g, a = _attr_loop(s, "node", tree, caught)
            sites.append(("NodeAttrs", g, a))
        elif isinstance(s, ast.For) and try_dotted(s.target) == "v":
            if ast.unparse(s.iter) != "node.variables" or s.orelse or len(s.body) != 1:
                raise TransError("%s: variable loop" % fname)
            g, a = _attr_loop(s.body[0], "node[v]", tree, caught)
            sites.append(("VarAttrs", g, a))
        else:
            raise TransError("%s: unexpected statement in node loop: %s" % (fname, ast.unparse(s)[:60]))
    return types, sites


def gen_callers(tree):
    """which engines go through the codec in write_model_tree / open_model_tree"""
    out = {}
    for fname, callee in (("write_model_tree", "_sanitize_attrs_nc"), ("open_model_tree", "_desanitize_attrs_nc")):
        fn = find_func(tree, fname)
        engines = None
        for s in ast.walk(fn):
            if isinstance(s, ast.If) and any(isinstance(c, ast.Call) and try_dotted(c.func) == callee for st in s.body for c in ast.walk(st)):
                t = s.test
                if not (isinstance(t, ast.Compare) and isinstance(t.ops[0], ast.In) and try_dotted(t.left) == "engine"
                        and isinstance(t.comparators[0], (ast.List, ast.Tuple))):
                    raise TransError("%s: engine test %s" % (fname, ast.unparse(t)))
                engines = [e.value for e in t.comparators[0].elts]
        if engines is None:
            raise TransError("%s does not call %s under an engine test" % (fname, callee))
        out[fname] = engines
    return out


def gen(repo):
    tree, _ = parse_file(repo, REL)
    out = ["(* generated by tools/py2coq/t2_io.py from %s *)" % REL,
           "From Coq Require Import String Ascii ZArith List Bool.",
           "From XV Require Import Base.Scalar Model.PyVal.",
           "Import ListNotations.", "Open Scope string_scope.", ""]
    types, ssites = gen_loops(tree, "_sanitize_attrs_nc", True)
    caught = []
    _, dsites = gen_loops(tree, "_desanitize_attrs_nc", False, caught)
    out += ["(* sanitized_types of _sanitize_attrs_nc *)",
            "Definition sanitized_types : list pytag := [%s]." % "; ".join(types),
            "Definition is_sanitized_type (attr : pyv) : bool := pyv_isinstance attr sanitized_types.", ""]
    out += gen_should(tree)
    out += ["(* loop structure: for node in dt.subtree: <sites in source order> *)",
            "Inductive attr_site := NodeAttrs | VarAttrs.",
            "Inductive codec_guard := GuardIsSanitizedType | GuardShouldDesanitize.",
            "Inductive codec_action := ActStr | ActLiteralEval | ActLiteralOrStr.",
            "(* exception kinds of literal_eval after which the attribute is left as the string it was *)",
            "Definition desanitize_caught : list nat := [%s]." % "; ".join(caught),
            "Definition sanitize_loops : list (attr_site * codec_guard * codec_action) := [%s]."
            % "; ".join("(%s, %s, %s)" % s for s in ssites),
            "Definition desanitize_loops : list (attr_site * codec_guard * codec_action) := [%s]."
            % "; ".join("(%s, %s, %s)" % s for s in dsites), ""]
    eng = gen_callers(tree)
    out += ["(* engines whose files go through the codec *)",
            "Definition sanitize_engines : list string := [%s]." % "; ".join(_cstr(e) for e in eng["write_model_tree"]),
            "Definition desanitize_engines : list string := [%s]." % "; ".join(_cstr(e) for e in eng["open_model_tree"]), ""]
    return "\n".join(out)
