"""T7 (history): which attributes of self every method of the preprocessing transformers, the data
container and the model classes assigns, mutates in place, or reads."""
import ast
import os

from .core import TransError, body_nodoc, find_class, parse_file, try_dotted

FILES = [
    ("xeofs/preprocessing/list_processor.py", ["GenericListTransformer"]),
    ("xeofs/preprocessing/preprocessor.py", ["Preprocessor"]),
    ("xeofs/preprocessing/scaler.py", ["Scaler"]),
    ("xeofs/preprocessing/dimension_renamer.py", ["DimensionRenamer"]),
    ("xeofs/preprocessing/multi_index_converter.py", ["MultiIndexConverter"]),
    ("xeofs/preprocessing/stacker.py", ["Stacker"]),
    ("xeofs/preprocessing/sanitizer.py", ["Sanitizer"]),
    ("xeofs/preprocessing/concatenator.py", ["Concatenator"]),
    ("xeofs/preprocessing/whitener.py", ["Whitener"]),
    ("xeofs/preprocessing/pca.py", ["PCA"]),
    ("xeofs/data_container/data_container.py", ["DataContainer"]),
    ("xeofs/base_model.py", ["BaseModel"]),
    ("xeofs/single/base_model_single_set.py", ["BaseModelSingleSet"]),
    ("xeofs/cross/base_model_cross_set.py", ["BaseModelCrossSet"]),
    ("xeofs/single/eof.py", ["EOF", "ComplexEOF", "HilbertEOF"]),
    ("xeofs/single/pop.py", ["POP"]),
    ("xeofs/single/opa.py", ["OPA"]),
    ("xeofs/single/eeof.py", ["ExtendedEOF"]),
    ("xeofs/single/sparse_pca.py", ["SparsePCA"]),
    ("xeofs/single/eof_rotator.py", ["EOFRotator"]),
    ("xeofs/cross/cpcca.py", ["CPCCA"]),
    ("xeofs/cross/cpcca_rotator.py", ["CPCCARotator"]),
    ("xeofs/validation/bootstrapper.py", ["EOFBootstrapper"]),
]
MUTATORS = {"append", "extend", "update", "add", "pop", "clear", "insert", "remove", "setdefault", "set_attrs"}


def self_attr(node):
    """self.x or self.x[...] ... -> 'x' (first attribute after self)"""
    n = node
    while isinstance(n, (ast.Subscript, ast.Attribute)):
        if isinstance(n, ast.Attribute) and isinstance(n.value, ast.Name) and n.value.id == "self":
            return n.attr
        n = n.value
    return None


def targets_of(t):
    if isinstance(t, (ast.Tuple, ast.List)):
        for e in t.elts:
            yield from targets_of(e)
    else:
        yield t


def method_effects(fn):
    assigns, mutates, reads = [], [], []
    for n in ast.walk(fn):
        if isinstance(n, (ast.Assign, ast.AnnAssign, ast.AugAssign)):
            tg = n.targets if isinstance(n, ast.Assign) else [n.target]
            for t0 in tg:
                for t in targets_of(t0):
                    a = self_attr(t)
                    if a is None:
                        continue
                    direct = isinstance(t, ast.Attribute) and isinstance(t.value, ast.Name) and t.value.id == "self"
                    if direct and not isinstance(n, ast.AugAssign):
                        assigns.append(a)
                    else:
                        mutates.append(a)     # self.x[...] = .., self.x.y = .., self.x += ..
        elif isinstance(n, ast.Call) and isinstance(n.func, ast.Attribute) and n.func.attr in MUTATORS:
            a = self_attr(n.func.value)
            if a is not None:
                mutates.append(a)
        elif isinstance(n, ast.Attribute) and isinstance(n.value, ast.Name) and n.value.id == "self" and isinstance(n.ctx, ast.Load):
            reads.append(n.attr)
    return sorted(set(assigns)), sorted(set(mutates)), sorted(set(reads))


def gen(repo):
    rows = []
    for rel, classes in FILES:
        tree, _ = parse_file(repo, rel)
        for cls in classes:
            c = find_class(tree, cls)
            for fn in c.body:
                if isinstance(fn, ast.FunctionDef):
                    a, m, r = method_effects(fn)
                    rows.append((cls, fn.name, a, m, r))
    # GenericListTransformer.fit: the reset of `transformers` must come before the loop that appends
    tree, _ = parse_file(repo, "xeofs/preprocessing/list_processor.py")
    fit = [f for f in find_class(tree, "GenericListTransformer").body if isinstance(f, ast.FunctionDef) and f.name == "fit"][0]
    reset_before_append = False
    seen_reset = False
    for s in body_nodoc(fit):
        if isinstance(s, ast.Assign) and try_dotted(s.targets[0]) == "self.transformers" and isinstance(s.value, ast.List) and not s.value.elts:
            seen_reset = True
        if isinstance(s, ast.For):
            has_append = any(isinstance(n, ast.Call) and isinstance(n.func, ast.Attribute) and n.func.attr == "append"
                             and try_dotted(n.func.value) == "self.transformers" for n in ast.walk(s))
            if has_append:
                reset_before_append = seen_reset
    # which transformer classes are instantiated afresh on every fit (by GenericListTransformer.fit)
    fresh = "self.transformer_class(**self.init_kwargs)" in ast.unparse(fit)
    # DataContainer.add must not rename the caller's array: a copy is taken before the name is set
    t2, _ = parse_file(repo, "xeofs/data_container/data_container.py")
    add = [f for f in find_class(t2, "DataContainer").body if isinstance(f, ast.FunctionDef) and f.name == "add"][0]
    copies, named = None, None
    for i, s_ in enumerate(body_nodoc(add)):
        src = ast.unparse(s_)
        if src.startswith("data = data.copy("):
            copies = i
        if src == "data.name = name":
            named = i
    add_copies = copies is not None and named is not None and copies < named
    sl = lambda xs: "[" + "; ".join('"%s"' % x for x in xs) + "]"  # noqa
    out = ["(* generated by tools/py2coq/t7_hist.py: per-method effects on self *)", "From Coq Require Import String List Bool.",
           "Import ListNotations.", "Open Scope string_scope.", "",
           "(* class, method, attributes assigned, attributes mutated in place, attributes read *)",
           "Definition effects : list (string * string * list string * list string * list string) := ["]
    out.append(";\n".join('  ("%s", "%s", %s, %s, %s)' % (c, f, sl(a), sl(m), sl(r)) for c, f, a, m, r in rows))
    out.append("].")
    out.append("Definition list_fit_resets_transformers : bool := %s." % ("true" if reset_before_append else "false"))
    out.append("Definition container_add_copies_before_renaming : bool := %s." % ("true" if add_copies else "false"))
    out.append("Definition list_fit_instantiates_fresh_transformers : bool := %s." % ("true" if fresh else "false"))
    return "\n".join(out) + "\n"
