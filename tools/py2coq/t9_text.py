"""T9text: the statement text of functions whose Gallina counterpart is hand-written (or that only the oracles reach), per property.
Every statement of the function, depth first, first line of its source text (docstrings dropped; nested helper functions included).
The lists are compared in Coq with the text at which the hand-written model was last validated by the correspondence
(Proofs/Text_<id>.v, written by tools/mk_text_tie.py): a change of one of these functions breaks that lemma, i.e. the obligation
"the model of <id> was validated against this text", and the property is re-examined (search for a failing input) instead of trusted."""
import ast

from .core import TransError, body_nodoc, find_class, find_func, parse_file, walk_stmts

SS = "xeofs/single/base_model_single_set.py"
CS = "xeofs/cross/base_model_cross_set.py"
CP = "xeofs/cross/cpcca.py"
ST = "xeofs/preprocessing/stacker.py"
GROUPS = {
    "C01": [(SS, "BaseModelSingleSet", "components"), (SS, "BaseModelSingleSet", "scores"), ("xeofs/single/eof.py", "EOF", "explained_variance"),
            ("xeofs/single/eof.py", "EOF", "explained_variance_ratio"), ("xeofs/single/eof.py", "EOF", "singular_values"),
            ("xeofs/utils/xarray_utils.py", None, "total_variance")],
    "C03": [(SS, "BaseModelSingleSet", "inverse_transform"), (SS, "BaseModelSingleSet", "transform"), (SS, "BaseModelSingleSet", "components"),
            (SS, "BaseModelSingleSet", "scores"), ("xeofs/single/eof.py", "EOF", "_inverse_transform_algorithm"), ("xeofs/single/eof.py", "EOF", "_transform_algorithm")],
    "C04": [(CS, "BaseModelCrossSet", "transform"), (SS, "BaseModelSingleSet", "transform"), ("xeofs/single/eof_rotator.py", "EOFRotator", "_transform_algorithm")],
    "C09": [(CP, "CPCCA", "cross_correlation_coefficients"), (CP, "CPCCA", "correlation_coefficients_X"), (CP, "CPCCA", "correlation_coefficients_Y"),
            (CP, "CPCCA", "fraction_variance_Y_explained_by_X"), (CP, "CPCCA", "_compute_cross_matrix"), (CP, "CPCCA", "_compute_total_squared_covariance"),
            (CP, "CPCCA", "_compute_cross_covariance_diagonal_numpy"), (CP, "CPCCA", "homogeneous_patterns"), (CP, "CPCCA", "heterogeneous_patterns")],
    "C11": [("xeofs/linalg/_numpy/_rotation.py", None, "_promax"), ("xeofs/preprocessing/whitener.py", "Whitener", "transform_components"),
            ("xeofs/preprocessing/whitener.py", "Whitener", "inverse_transform_components")],
    "C16": [("xeofs/preprocessing/whitener.py", "Whitener", "transform"), ("xeofs/preprocessing/whitener.py", "Whitener", "inverse_transform_data"),
            ("xeofs/preprocessing/whitener.py", "Whitener", "inverse_transform_scores"), ("xeofs/preprocessing/whitener.py", "Whitener", "inverse_transform_scores_unseen"),
            ("xeofs/preprocessing/pca.py", "PCA", "transform"), ("xeofs/preprocessing/pca.py", "PCA", "inverse_transform_data"),
            ("xeofs/preprocessing/pca.py", "PCA", "transform_components"), ("xeofs/preprocessing/pca.py", "PCA", "inverse_transform_components"),
            ("xeofs/linalg/_numpy/_utils.py", None, "_fractional_matrix_power")],
    "C18": [("xeofs/single/pop.py", "POP", "components"), ("xeofs/single/pop.py", "POP", "scores"), ("xeofs/single/pop.py", "POP", "scores_amplitude"),
            ("xeofs/single/pop.py", "POP", "components_amplitude"), ("xeofs/single/pop.py", "POP", "eigenvalues"), ("xeofs/single/pop.py", "POP", "damping_times"),
            ("xeofs/single/pop.py", "POP", "periods")],
    "C19": [("xeofs/single/opa.py", "OPA", "components"), ("xeofs/single/opa.py", "OPA", "scores"), ("xeofs/single/opa.py", "OPA", "decorrelation_time"),
            ("xeofs/single/opa.py", "OPA", "filter_patterns")],
    "C20": [("xeofs/validation/bootstrapper.py", "_BaseBootstrapper", "__init__"), ("xeofs/validation/bootstrapper.py", "EOFBootstrapper", "__init__")],
    "C02": [(ST, "Stacker", f) for f in ("_stack", "_unstack_to_dataarray", "_unstack_to_dataset_data", "_unstack_to_dataset_components", "_restore_squeezed_dims",
                                          "_restore_unit_feature_dims", "_reorder_dims", "_match_variables", "fit", "transform", "inverse_transform_data",
                                          "inverse_transform_components", "inverse_transform_scores", "inverse_transform_scores_unseen")],
    "C13": [("xeofs/base_model.py", "BaseModel", f) for f in ("serialize", "deserialize", "_deserialize_attrs", "get_serialization_attrs")] +
           [("xeofs/preprocessing/transformer.py", "Transformer", f) for f in ("_serialize_data", "serialize", "_serialize", "_deserialize_data_node", "deserialize", "_deserialize")] +
           [("xeofs/data_container/data_container.py", "DataContainer", f) for f in ("serialize", "deserialize", "add", "set_attrs")],
    "C14": [("xeofs/single/eof.py", "ComplexEOF", f) for f in ("components_amplitude", "components_phase", "scores_amplitude", "scores_phase")] +
           [("xeofs/data_container/data_container.py", "DataContainer", f) for f in ("add", "__setitem__", "__getitem__", "compute")] +
           [("xeofs/base_model.py", "BaseModel", f) for f in ("compute", "_post_compute", "get_params")],
    "C10": [("xeofs/multi/cca.py", "CCABaseModel", f) for f in ("fit", "_process_data", "_apply_pca")] +
           [("xeofs/multi/cca.py", "CCA", f) for f in ("_fit_algorithm", "_solve_gevp", "_apply_norm", "_D", "_transform", "transform")],
    "C05": [("xeofs/multi/cca.py", "CCA", "_transform"), ("xeofs/multi/cca.py", "CCA", "transform"), (CS, "BaseModelCrossSet", "predict"), (CP, "CPCCA", "_predict_algorithm")],
}


def ident(s):
    return "".join(c if c.isalnum() else "_" for c in s)


def func_text(repo, rel, cls, fn):
    tree, _ = parse_file(repo, rel)
    scope = find_class(tree, cls) if cls else tree
    f = find_func(scope, fn)
    out = []

    def rec(body):
        for st in walk_stmts(body):
            if isinstance(st, (ast.FunctionDef, ast.AsyncFunctionDef)):
                out.append("def %s(%s):" % (st.name, ", ".join(a.arg for a in st.args.args)))
                rec(body_nodoc(st))
            else:
                out.append(ast.unparse(st).split("\n")[0][:150])
    rec(body_nodoc(f))
    if not out:
        raise TransError("%s.%s has no statements" % (cls, fn))
    return out


def name_of(pid, cls, fn):
    return "text_%s_%s_%s" % (pid, ident(cls or "module"), ident(fn))


def tables(repo):
    res = {}
    for pid, fl in GROUPS.items():
        for rel, cls, fn in fl:
            res[name_of(pid, cls, fn)] = (pid, rel, cls, fn, func_text(repo, rel, cls, fn))
    return res


def coq_list(lines):
    return "[%s]" % ";\n   ".join('"%s"' % x.replace("\\", "\\\\").replace('"', "'") for x in lines)


def gen(repo):
    out = ["(* generated by tools/py2coq/t9_text.py: statement text of functions whose Gallina counterpart is hand-written, per property *)",
           "From Coq Require Import String List.", "Import ListNotations.", "Open Scope string_scope.", ""]
    for nm, (pid, rel, cls, fn, lines) in tables(repo).items():
        out.append("(* %s: %s%s *)" % (rel, (cls + ".") if cls else "", fn))
        out.append("Definition %s : list string :=\n  %s.\n" % (nm, coq_list(lines)))
    return "\n".join(out)
