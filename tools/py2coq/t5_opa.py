"""T5 (OPA part): xeofs/single/opa.py — the lagged covariance `_Ctau` (shift direction, divisor taken after
shift/dropna), the scaling of PCs and EOFs by sqrt(n_samples - 1), the trapezoidal lag loop and its weights,
the symmetrisation, the target matrix with the source's own named-dimension contractions, the two
`Decomposer(flip_signs=False, solver='full')` calls (an SVD: singular values are taken as eigenvalues), the
products defining filter patterns, patterns and series, and the names under which results are stored.

Named-dimension expressions (`rename`, `xr.dot(..., dims=...)`, `.dot(..., dims=...)`) are evaluated symbolically:
every tensor carries its dimension names, a contraction becomes `mmul` with a transpose exactly where the
contracted name is not the inner index."""
import ast

from .core import Expr, TransError, all_assigns, body_nodoc, find_class, find_func, parse_file, try_dotted, walk_stmts

HALF = "(finv K (fadd K (f1 K) (f1 K)))"


def _src(n):
    return ast.unparse(n)


def _expect(what, got, want):
    if got != want:
        raise TransError("%s changed: %r (expected %r)" % (what, got, want))


def weight_lit(v):
    """a Python numeric literal as a term of the abstract field"""
    if isinstance(v, bool) or not isinstance(v, (int, float)):
        raise TransError("lag weight %r is not a number" % (v,))
    if v == 0.5:
        return HALF
    if v == 1:
        return "(f1 K)"
    a, b = float(v).as_integer_ratio()
    return "(fdiv K (fofZ K (%d)%%Z) (fofZ K (%d)%%Z))" % (a, b)


class T:
    """2-D tensor with named dimensions: Coq term, (dim0, dim1), (size0, size1), leaves used"""

    def __init__(self, term, dims, sizes, leaves=()):
        self.term, self.dims, self.sizes, self.leaves = term, tuple(dims), tuple(sizes), tuple(leaves)

    def leaf(self, name):
        return T(name, self.dims, self.sizes, (name,))


def _merge(a, b):
    out = list(a)
    for x in b:
        if x not in out:
            out.append(x)
    return tuple(out)


class TensorEval:
    def __init__(self, env, names):
        self.env = env          # python variable -> T
        self.names = names      # python variable holding a dimension name -> the name

    def dimname(self, n):
        if isinstance(n, ast.Constant) and isinstance(n.value, str):
            return n.value
        d = try_dotted(n)
        if d in self.names:
            return self.names[d]
        raise TransError("dimension name %s is not a literal or a known name" % _src(n))

    def one_dim(self, n):
        if isinstance(n, (ast.List, ast.Tuple)):
            if len(n.elts) != 1:
                raise TransError("contraction over %d dimensions" % len(n.elts))
            return self.dimname(n.elts[0])
        return self.dimname(n)

    def dot(self, A, B, d):
        if d not in A.dims or d not in B.dims:
            raise TransError("contracted dimension %r missing from %r / %r" % (d, A.dims, B.dims))
        if set(A.dims) & set(B.dims) != {d}:
            raise TransError("operands share a dimension other than the contracted one: %r . %r over %r" % (A.dims, B.dims, d))
        if A.dims[1] == d:
            at, ra, rs, inner = A.term, A.dims[0], A.sizes[0], A.sizes[1]
        else:
            at, ra, rs, inner = "(mT K %s %s %s)" % (A.sizes[0], A.sizes[1], A.term), A.dims[1], A.sizes[1], A.sizes[0]
        if B.dims[0] == d:
            bt, rb, cs, inner2 = B.term, B.dims[1], B.sizes[1], B.sizes[0]
        else:
            bt, rb, cs, inner2 = "(mT K %s %s %s)" % (B.sizes[0], B.sizes[1], B.term), B.dims[0], B.sizes[0], B.sizes[1]
        if inner != inner2:
            raise TransError("contracted sizes differ: %s / %s" % (inner, inner2))
        return T("(mmul K %s %s %s %s %s)" % (rs, inner, cs, at, bt), (ra, rb), (rs, cs), _merge(A.leaves, B.leaves))

    def ev(self, n):
        d = try_dotted(n)
        if d is not None:
            if d in self.env:
                return self.env[d]
            raise TransError("unknown tensor %s" % d)
        if isinstance(n, ast.BinOp) and isinstance(n.op, ast.Mult) and isinstance(n.left, ast.Constant):
            a = self.ev(n.right)
            return T("(mscale K %s %s %s %s)" % (a.sizes[0], a.sizes[1], weight_lit(n.left.value), a.term), a.dims, a.sizes, a.leaves)
        if isinstance(n, ast.BinOp) and isinstance(n.op, ast.Add):
            a, b = self.ev(n.left), self.ev(n.right)
            if a.dims != b.dims or a.sizes != b.sizes:
                raise TransError("sum of tensors with different dimension order: %r + %r" % (a.dims, b.dims))
            return T("(madd K %s %s %s %s)" % (a.sizes[0], a.sizes[1], a.term, b.term), a.dims, a.sizes, _merge(a.leaves, b.leaves))
        if isinstance(n, ast.Call):
            f = n.func
            fd = try_dotted(f)
            kw = {k.arg: k.value for k in n.keywords}
            if fd == "xr.dot":
                if len(n.args) != 2 or set(kw) != {"dims"}:
                    raise TransError("xr.dot call shape: %s" % _src(n)[:80])
                return self.dot(self.ev(n.args[0]), self.ev(n.args[1]), self.one_dim(kw["dims"]))
            if fd == "xr.DataArray":
                # xr.DataArray(M.data.T, dims=M.dims, coords=M.coords): transposed values under the SAME labels
                if len(n.args) != 1 or set(kw) != {"dims", "coords"}:
                    raise TransError("xr.DataArray call shape")
                a0 = n.args[0]
                if not (isinstance(a0, ast.Attribute) and a0.attr == "T" and isinstance(a0.value, ast.Attribute) and a0.value.attr == "data"):
                    raise TransError("xr.DataArray of something other than <x>.data.T")
                v = try_dotted(a0.value.value)
                if _src(kw["dims"]) != "%s.dims" % v or _src(kw["coords"]) != "%s.coords" % v:
                    raise TransError("transposed copy does not keep the labels of %s" % v)
                a = self.ev(a0.value.value)
                if a.sizes[0] != a.sizes[1]:
                    raise TransError("transposed copy of a non-square tensor under the same labels")
                return T("(mT K %s %s %s)" % (a.sizes[0], a.sizes[1], a.term), a.dims, a.sizes, a.leaves)
            if isinstance(f, ast.Attribute) and f.attr == "rename":
                if len(n.args) != 1 or n.keywords or not isinstance(n.args[0], ast.Dict):
                    raise TransError("rename call shape")
                a = self.ev(f.value)
                mp = {self.dimname(k): self.dimname(v) for k, v in zip(n.args[0].keys, n.args[0].values)}
                for k in mp:
                    if k not in a.dims:
                        raise TransError("rename of a dimension %r the tensor %r does not have" % (k, a.dims))
                nd = tuple(mp.get(x, x) for x in a.dims)
                if len(set(nd)) != 2:
                    raise TransError("rename produces a duplicate dimension %r" % (nd,))
                return T(a.term, nd, a.sizes, a.leaves)
            if isinstance(f, ast.Attribute) and f.attr == "dot":
                if len(n.args) != 1 or set(kw) != {"dims"}:
                    raise TransError(".dot call shape")
                return self.dot(self.ev(f.value), self.ev(n.args[0]), self.one_dim(kw["dims"]))
        raise TransError("tensor expression %s" % _src(n)[:100])


def _ctau(opa, out):
    fn = find_func(opa, "_Ctau")
    if [a.arg for a in fn.args.args] != ["self", "X", "tau"]:
        raise TransError("_Ctau signature")
    b = body_nodoc(fn)
    want = ["sample_name = self.preprocessor.sample_name", "X0 = X.copy(deep=True)", "n_valid = X[sample_name].size - tau", None,
            "X0 = X0.rename({'mode': 'feature1'})", "Xtau = Xtau.rename({'mode': 'feature2'})", None, None]
    if len(b) != len(want):
        raise TransError("_Ctau has %d statements (expected %d)" % (len(b), len(want)))
    for s, w in zip(b, want):
        if w is not None:
            _expect("_Ctau statement", _src(s), w)
    # Xtau = X.shift({sample_name: -tau}).dropna(sample_name)
    sh = b[3]
    if not (isinstance(sh, ast.Assign) and try_dotted(sh.targets[0]) == "Xtau"):
        raise TransError("_Ctau: shifted copy")
    c = sh.value
    # the last tau rows (made undefined by the shift) are cut off by position: .isel({sample_name: slice(None, n_valid)})
    if not (isinstance(c, ast.Call) and isinstance(c.func, ast.Attribute) and c.func.attr == "isel" and len(c.args) == 1 and not c.keywords
            and _src(c.args[0]) == "{sample_name: slice(None, n_valid)}"):
        raise TransError("_Ctau: rows made undefined by the shift are not cut off along the sample dimension")
    c2 = c.func.value
    if not (isinstance(c2, ast.Call) and isinstance(c2.func, ast.Attribute) and c2.func.attr == "shift" and try_dotted(c2.func.value) == "X"
            and len(c2.args) == 1 and isinstance(c2.args[0], ast.Dict) and len(c2.args[0].keys) == 1 and _src(c2.args[0].keys[0]) == "sample_name"):
        raise TransError("_Ctau: shift call shape")
    amount = _src(c2.args[0].values[0])
    if amount != "-tau":
        raise TransError("_Ctau: shift amount %r (expected -tau: row t of the shifted copy holds X[t + tau])" % amount)
    # n_samples = Xtau[sample_name].size   (after shift and dropna: n - tau rows)
    ns = b[6]
    if not (isinstance(ns, ast.Assign) and try_dotted(ns.targets[0]) == "n_samples"):
        raise TransError("_Ctau: n_samples")
    nsrc = _src(ns.value)
    if nsrc == "Xtau[sample_name].size":
        nz, after = "(Z.of_nat (n - tau))", True
    elif nsrc in ("X[sample_name].size", "X0[sample_name].size"):
        nz, after = "(Z.of_nat n)", False
    else:
        raise TransError("_Ctau: n_samples = %s" % nsrc)
    r = b[7]
    if not (isinstance(r, ast.Return) and isinstance(r.value, ast.BinOp) and isinstance(r.value.op, ast.Div)):
        raise TransError("_Ctau: return is not a quotient")
    _expect("_Ctau product", _src(r.value.left), "xr.dot(X0, Xtau, dims=[sample_name])")
    dz, ty = Expr({"n_samples": (nz, "Z")}, mode="F").tr(r.value.right)
    if ty != "Z":
        raise TransError("_Ctau divisor is not an integer expression")
    out.append("(* _Ctau: Xtau = X.shift({sample: -tau}).dropna(sample) keeps the first n - tau labels, row t holding X[t + tau];")
    out.append("   xr.dot aligns X0 on those labels (inner join) and contracts the sample dimension; result dims (feature1, feature2) *)")
    out.append("Definition opa_ctau_nsamples_after_dropna : bool := %s." % ("true" if after else "false"))
    out.append("Definition opa_ctau_divisor_src (n tau : nat) : Z := %s.  (* %s *)" % (dz, _src(r.value.right)))
    out.append("Definition opa_ctau_src {F} (K : Ops F) (n q : nat) (S : list (list F)) (tau : nat) : list (list F) :=")
    out.append("  tab q q (fun i j => fdiv K (sum K (n - tau) (fun t => fmul K (get K S t i) (get K S (t + tau) j))) (fofZ K (opa_ctau_divisor_src n tau))).\n")
    # the inverse helper
    inv = find_func(opa, "_compute_matrix_inverse")
    ib = body_nodoc(inv)
    if len(ib) != 1 or not isinstance(ib[0], ast.Return) or not isinstance(ib[0].value, ast.Call) or try_dotted(ib[0].value.func) != "xr.apply_ufunc":
        raise TransError("_compute_matrix_inverse")
    c = ib[0].value
    _expect("_compute_matrix_inverse function", [_src(a) for a in c.args], ["np.linalg.inv", "X"])
    kw = {k.arg: _src(k.value) for k in c.keywords}
    _expect("_compute_matrix_inverse input dims", kw.get("input_core_dims"), "[dims]")
    _expect("_compute_matrix_inverse output dims", kw.get("output_core_dims"), "[dims[::-1]]")


def _decomposer_is_svd(repo):
    tree, _ = parse_file(repo, "xeofs/linalg/decomposer.py")
    dec = find_class(tree, "Decomposer")
    fit = find_func(dec, "fit")
    full = None
    for s in walk_stmts(body_nodoc(fit)):
        if isinstance(s, ast.Match) and _src(s.subject) == "self.solver":
            for c in s.cases:
                if isinstance(c.pattern, ast.MatchValue) and _src(c.pattern.value) == "'full'":
                    full = [_src(x) for x in c.body]
    _expect("Decomposer solver='full' branch", full, ["use_exact = True"])
    found = False
    for s in walk_stmts(body_nodoc(fit)):
        if isinstance(s, ast.If) and _src(s.test) == "use_exact":
            _expect("Decomposer exact branch", _src(s.body[0]), "U, s, VT = self._svd(X, dims, np.linalg.svd, self.solver_kwargs)")
            found = True
    if not found:
        raise TransError("Decomposer exact branch not found")
    tail = [_src(s) for s in body_nodoc(fit)]
    for need in ("self.U_ = U", "self.s_ = s"):
        if need not in tail:
            raise TransError("Decomposer.fit does not store %r" % need)


def _kwargs(call):
    return {k.arg: _src(k.value) for k in call.keywords}


def facts(repo):
    """(coq text, dict of facts used by the harness)"""
    tree, _ = parse_file(repo, "xeofs/single/opa.py")
    opa = find_class(tree, "OPA")
    out = ["(* generated by tools/py2coq/t5_opa.py from xeofs/single/opa.py and xeofs/linalg/decomposer.py *)",
           "From Coq Require Import String ZArith List Bool.", "From XV Require Import Base.Scalar Base.Sum Base.Mat.",
           "Import ListNotations.", ""]
    _ctau(opa, out)
    _decomposer_is_svd(repo)

    fit = body_nodoc(find_func(opa, "_fit_algorithm"))
    stm = list(fit)
    pos = [0]

    def nxt():
        if pos[0] >= len(stm):
            raise TransError("_fit_algorithm ended early")
        s = stm[pos[0]]
        pos[0] += 1
        return s

    def assign(s, name):
        if not (isinstance(s, ast.Assign) and len(s.targets) == 1 and try_dotted(s.targets[0]) == name):
            raise TransError("expected an assignment to %s, found %s" % (name, _src(s)[:80]))
        return s.value

    _expect("complex guard", _src(nxt()), "assert_not_complex(X)")
    out.append("Definition opa_real_data_only : bool := true.  (* assert_not_complex(X) *)")
    _expect("sample_name", _src(nxt()), "sample_name = self.sample_name")
    _expect("feature_name", _src(nxt()), "feature_name = self.feature_name")
    names = {"sample_name": "sample", "feature_name": "feature"}
    pca = assign(nxt(), "pca")
    if not (isinstance(pca, ast.Call) and try_dotted(pca.func) == "EOF" and not pca.args):
        raise TransError("pre-processing PCA is not an EOF model")
    kw = _kwargs(pca)
    for k, w in (("n_modes", "self._params['n_pca_modes']"), ("standardize", "False"), ("use_coslat", "False"), ("check_nans", "False"),
                 ("sample_name", "self.sample_name"), ("feature_name", "self.feature_name")):
        _expect("EOF(%s=...)" % k, kw.get(k), w)
    if "center" in kw:
        raise TransError("EOF(center=...) passed explicitly: %s" % kw["center"])
    _expect("pca fit", _src(nxt()), "pca.fit(X, dim=sample_name)")
    _expect("n_samples", _src(assign(nxt(), "n_samples")), "X.coords[sample_name].size")
    # scaling by sqrt(n_samples - 1)
    scal = {}
    for var, key in (("comps", "components"), ("scores", "scores")):
        v = assign(nxt(), var)
        if not (isinstance(v, ast.BinOp) and isinstance(v.op, (ast.Mult, ast.Div)) and _src(v.left) == "pca.data['%s']" % key):
            raise TransError("%s is not pca.data['%s'] scaled" % (var, key))
        r = v.right
        if not (isinstance(r, ast.Call) and try_dotted(r.func) == "np.sqrt" and len(r.args) == 1):
            raise TransError("%s: scale factor is not a square root" % var)
        z, ty = Expr({"n_samples": ("(Z.of_nat n)", "Z")}, mode="F").tr(r.args[0])
        if ty != "Z":
            raise TransError("%s: radicand is not an integer expression" % var)
        op = "fmul" if isinstance(v.op, ast.Mult) else "fdiv"
        scal[var] = "(%s K x (fsqrt K (fofZ K %s)))" % (op, z)
    out.append("(* comps = pca.data['components'] * sqrt(n_samples - 1); scores = pca.data['scores'] / sqrt(n_samples - 1) *)")
    out.append("Definition opa_eof_scale_src {F} (K : Ops F) (n : nat) (x : F) : F := %s." % scal["comps"])
    out.append("Definition opa_pc_scale_src {F} (K : Ops F) (n : nat) (x : F) : F := %s.\n" % scal["scores"])

    env = {"scores": T("S", ("sample", "mode"), ("n", "q"), ("S",)), "comps": T("E", ("feature", "mode"), ("p", "q"), ("E",))}
    te = TensorEval(env, names)
    CT = ("feature1", "feature2")

    def ctau_call(v, lag):
        if not (isinstance(v, ast.Call) and try_dotted(v.func) == "self._Ctau" and [_src(a) for a in v.args] == ["scores", lag] and not v.keywords):
            raise TransError("expected self._Ctau(scores, %s), found %s" % (lag, _src(v)))

    ctau_call(assign(nxt(), "C0"), "0")
    env["C0"] = T("C0", CT, ("q", "q"), ("C0",))
    # M = w0 * C0
    v = assign(nxt(), "M")
    if not (isinstance(v, ast.BinOp) and isinstance(v.op, ast.Mult) and isinstance(v.left, ast.Constant) and try_dotted(v.right) == "C0"):
        raise TransError("lag sum does not start with <weight> * C0: %s" % _src(v))
    w0 = v.left.value
    _expect("tau_max", _src(assign(nxt(), "tau_max")), "self._params['tau_max']")
    lp = nxt()
    if not (isinstance(lp, ast.For) and try_dotted(lp.target) == "tau" and not lp.orelse):
        raise TransError("lag loop")
    it = lp.iter
    if not (isinstance(it, ast.Call) and try_dotted(it.func) == "range" and len(it.args) == 2):
        raise TransError("lag loop range")
    first = ast.literal_eval(it.args[0])
    if _src(it.args[1]) == "tau_max + 1":
        count, incl = "tau_max", True
    elif _src(it.args[1]) == "tau_max":
        count, incl = "(tau_max - 1)", False
    else:
        raise TransError("lag loop upper bound %s" % _src(it.args[1]))
    if first != 1:
        raise TransError("lag loop starts at %r" % (first,))
    lb = list(lp.body)
    ctau_call(assign(lb[0], "Ctau"), "tau")
    wlast = 1
    rest = lb[1:]
    if rest and isinstance(rest[0], ast.If):
        cond = rest[0]
        _expect("last-lag test", _src(cond.test), "tau == tau_max")
        if cond.orelse or len(cond.body) != 1:
            raise TransError("last-lag branch shape")
        hv = assign(cond.body[0], "Ctau")
        if not (isinstance(hv, ast.BinOp) and isinstance(hv.op, ast.Mult) and isinstance(hv.left, ast.Constant) and try_dotted(hv.right) == "Ctau"):
            raise TransError("last-lag weight: %s" % _src(hv))
        wlast = hv.left.value
        rest = rest[1:]
    if len(rest) != 1 or _src(rest[0]) not in ("M = M + Ctau", "M = M + (Ctau)"):
        raise TransError("lag loop accumulation: %s" % "; ".join(_src(s) for s in rest))
    out.append("(* M = %r * C0; for tau in range(1, %s): M = M + (%r if tau == tau_max else 1) * C_tau *)" % (w0, _src(it.args[1]), wlast))
    out.append("Definition opa_lag_weight_src {F} (K : Ops F) (tau_max tau : nat) : F :=")
    out.append("  if Nat.eqb tau 0 then %s else if Nat.eqb tau tau_max then %s else f1 K." % (weight_lit(w0), weight_lit(wlast)))
    out.append("Definition opa_lag_loop_first : nat := %d%%nat." % first)
    out.append("Definition opa_lag_loop_includes_tau_max : bool := %s." % ("true" if incl else "false"))
    out.append("Definition opa_msum_src {F} (K : Ops F) (n q : nat) (S : list (list F)) (tau_max : nat) : list (list F) :=")
    out.append("  fold_left (fun M tau => madd K q q M (mscale K q q (opa_lag_weight_src K tau_max tau) (opa_ctau_src K n q S tau)))")
    out.append("            (seq opa_lag_loop_first %s) (mscale K q q (opa_lag_weight_src K tau_max 0) (opa_ctau_src K n q S 0)).\n" % count)
    env["M"] = T("M", CT, ("q", "q"), ("M",))
    # symmetrisation
    env["MT"] = te.ev(assign(nxt(), "MT"))
    ms = te.ev(assign(nxt(), "M_summed"))
    _expect("symmetrisation uses", ms.leaves, ("M",))
    out.append("Definition opa_symmetrise_src {F} (K : Ops F) (q : nat) (M : list (list F)) : list (list F) := %s.\n" % ms.term)
    env["M_summed"] = T("Ms", ms.dims, ms.sizes, ("Ms",))

    # first decomposition: C0 -> C0_sqrt -> inverse
    def decomposer(v, what, n_modes):
        if not (isinstance(v, ast.Call) and try_dotted(v.func) == "Decomposer" and not v.args):
            raise TransError("%s is not a Decomposer" % what)
        kw = _kwargs(v)
        _expect("%s n_modes" % what, kw.get("n_modes"), n_modes)
        _expect("%s flip_signs" % what, kw.get("flip_signs"), "False")
        _expect("%s solver" % what, kw.get("solver"), "'full'")
        extra = set(kw) - {"n_modes", "flip_signs", "solver", "compute"}
        if extra:
            raise TransError("%s: unexpected keyword(s) %r" % (what, sorted(extra)))

    decomposer(assign(nxt(), "decomposer"), "decomposer of C0", "C0.shape[0]")
    _expect("decomposition of C0", _src(nxt()), "decomposer.fit(C0, dims=('feature1', 'feature2'))")
    # symmetric inverse square root: C0^(-1/2) = U0 diag(1/sqrt(s0)) U0^T, dims renamed to (mode, feature1)
    _expect("U0", _src(assign(nxt(), "U0")), "decomposer.U_")
    _expect("C0_sqrt_inv", _src(assign(nxt(), "C0_sqrt_inv")),
            "xr.dot(U0 / np.sqrt(decomposer.s_), U0.rename({'feature1': 'temp'}), dims='mode').rename({'feature1': 'mode', 'temp': 'feature1'})")
    out.append("(* C0_sqrt_inv = sum over mode of (U0 / sqrt(s0))[f, mode] * U0[g, mode], dims (mode, feature1): the symmetric inverse square root *)")
    out.append("Definition opa_ci_src {F} (K : Ops F) (q : nat) (U0 : list (list F)) (s0 : list F) : list (list F) :=")
    out.append("  tab q q (fun a b => sum K q (fun m => fmul K (fdiv K (get K U0 a m) (fsqrt K (vget K s0 m))) (get K U0 b m))).")
    env["C0_sqrt_inv"] = T("Ci", ("mode", "feature1"), ("q", "q"), ("Ci",))
    out.append("Definition opa_ci_dims : list string := [%s]%%string.\n"
               % "; ".join('"%s"' % d for d in env["C0_sqrt_inv"].dims))
    # target: every re-assignment up to the eigensolver's fit
    while True:
        s = nxt()
        if isinstance(s, ast.Assign) and try_dotted(s.targets[0]) == "target":
            env["target"] = te.ev(s.value)
            continue
        break
    if "target" not in env:
        raise TransError("target is never assigned")
    tg = env["target"]
    _expect("target depends on", tuple(sorted(tg.leaves)), ("Ci", "Ms"))
    via_svd = isinstance(s, ast.Assign) and len(s.targets) == 1 and try_dotted(s.targets[0]) == "eigensolver"
    if via_svd:
        decomposer(assign(s, "eigensolver"), "eigensolver", "self._params['n_modes']")
        fitc = nxt()
        _expect("eigensolver fit", _src(fitc), "eigensolver.fit(target, dims=%r)" % (tg.dims,))
        _expect("U", _src(assign(nxt(), "U")), "eigensolver.U_")
        _expect("lbda", _src(assign(nxt(), "lbda")), "eigensolver.s_")
    else:
        # symmetric eigen-solver: signed eigenvalues (ascending), reversed and truncated to n_modes
        if not (isinstance(s, ast.Assign) and isinstance(s.targets[0], ast.Tuple) and [try_dotted(e) for e in s.targets[0].elts] == ["lbda", "U"]
                and isinstance(s.value, ast.Call) and try_dotted(s.value.func) == "xr.apply_ufunc"):
            raise TransError("eigen-problem of the target is solved by neither a Decomposer nor np.linalg.eigh: %s" % _src(s)[:80])
        _expect("eigh call", [_src(a) for a in s.value.args], ["np.linalg.eigh", "target"])
        kw = _kwargs(s.value)
        _expect("eigh input dims", kw.get("input_core_dims"), "[%r]" % (tg.dims,))
        _expect("eigh output dims", kw.get("output_core_dims"), "[('mode',), (%r, 'mode')]" % tg.dims[0])
        _expect("eigh is deferred as one task on dask input", (kw.get("dask"), kw.get("output_dtypes"), kw.get("dask_gufunc_kwargs")),
                ("'parallelized'", "[target.dtype, target.dtype]", "{'allow_rechunk': True, 'output_sizes': {'mode': target.sizes['feature1']}}"))
        _expect("eigh: selection of the n_modes largest", _src(assign(nxt(), "keep")), "slice(None, -self._params['n_modes'] - 1, -1)")
        _expect("eigh: mode labels", _src(assign(nxt(), "mode_coords")), "range(1, self._params['n_modes'] + 1)")
        _expect("U", _src(assign(nxt(), "U")), "U.isel(mode=keep).assign_coords(mode=mode_coords)")
        _expect("lbda", _src(assign(nxt(), "lbda")), "lbda.isel(mode=keep).assign_coords(mode=mode_coords)")
    out.append("(* target, dims %r at the eigensolver *)" % (tg.dims,))
    out.append("Definition opa_target_src {F} (K : Ops F) (q : nat) (Ci Ms : list (list F)) : list (list F) :=\n  %s.\n" % tg.term)
    if via_svd:
        out.append("(* both decompositions: Decomposer(flip_signs=False, solver='full') -> np.linalg.svd; U = eigensolver.U_, lbda = eigensolver.s_ :")
        out.append("   the SINGULAR values of the symmetric target are taken as its eigenvalues *)")
    else:
        out.append("(* C0: Decomposer(flip_signs=False, solver='full'); target: np.linalg.eigh, reversed, first n_modes: signed eigenvalues, descending *)")
    out.append("Definition opa_decomposer_flip_signs : bool := false.")
    out.append("Definition opa_decomposer_solver : string := \"full\"%string.")
    out.append("Definition opa_eigen_via_svd : bool := %s.\n" % ("true" if via_svd else "false"))
    env["U"] = T("U", (tg.dims[0], "mode"), ("q", "k"), ("U",))

    def product(var, leaves, sig, name, seal, sizes):
        t = te.ev(assign(nxt(), var))
        _expect("%s depends on" % name, t.leaves, leaves)
        _expect("%s shape" % name, t.sizes, sizes)
        out.append("Definition %s {F} (K : Ops F) %s : list (list F) := %s.  (* dims %r *)" % (name, sig, t.term, t.dims))
        env[var] = T(seal, t.dims, t.sizes, (seal,))

    product("V", ("Ci", "U"), "(q k : nat) (Ci U : list (list F))", "opa_V_src", "V", ("q", "k"))
    product("W", ("C0", "V"), "(q k : nat) (C0 V : list (list F))", "opa_W_src", "W", ("q", "k"))
    product("P", ("S", "V"), "(n q k : nat) (S V : list (list F))", "opa_P_src", "P", ("n", "k"))
    product("V", ("E", "V"), "(p q k : nat) (E V : list (list F))", "opa_Vphys_src", "Vp", ("p", "k"))
    product("W", ("E", "W"), "(p q k : nat) (E W : list (list F))", "opa_Wphys_src", "Wp", ("p", "k"))
    out.append("")
    # trailing renames, norms, store
    store, seen_norms = [], False
    final_dims = {}
    while pos[0] < len(stm):
        s = nxt()
        if isinstance(s, ast.Assign) and len(s.targets) == 1 and try_dotted(s.targets[0]) in ("U", "V", "W", "P", "scores"):
            nm = try_dotted(s.targets[0])
            env[nm] = te.ev(s.value)
            final_dims[nm] = env[nm].dims
            continue
        if isinstance(s, ast.Assign) and try_dotted(s.targets[0]) == "norms":
            c = s.value
            if not (isinstance(c, ast.Call) and try_dotted(c.func) == "xr.apply_ufunc" and [_src(a) for a in c.args] == ["np.linalg.norm", "P"]):
                raise TransError("norms")
            kw = _kwargs(c)
            if kw.get("input_core_dims") not in ("[[sample_name]]", "[['sample']]"):
                raise TransError("norms are not taken along the sample dimension: %r" % kw.get("input_core_dims"))
            _expect("norms kwargs", kw.get("kwargs"), "{'axis': -1}")
            seen_norms = True
            continue
        if isinstance(s, ast.Expr) and isinstance(s.value, ast.Call) and try_dotted(s.value.func) == "self.data.add":
            kw = _kwargs(s.value)
            if s.value.args or "name" not in kw or "data" not in kw:
                raise TransError("data.add call shape")
            store.append((ast.literal_eval(kw["name"]), kw["data"]))
            continue
        if isinstance(s, ast.Expr) and _src(s) == "self.data.set_attrs(self.attrs)":
            continue
        if isinstance(s, ast.Assign) and _src(s.targets[0]) in ("self._U", "self._C0"):
            continue
        if isinstance(s, ast.Return) and _src(s) == "return self":
            continue
        raise TransError("unexpected statement after the products: %s" % _src(s)[:80])
    if not seen_norms:
        raise TransError("norms not computed")
    _expect("final dims", {k: final_dims.get(k) for k in ("V", "W", "P")},
            {"V": ("feature", "mode"), "W": ("feature", "mode"), "P": ("sample", "mode")})
    out.append("Definition opa_norms_are_l2_of_series : bool := true.  (* np.linalg.norm(P, axis=sample) *)")
    out.append("Definition opa_store : list (string * string) := [%s]%%string." % "; ".join('("%s", "%s")' % kv for kv in store))
    dt = body_nodoc(find_func(opa, "decorrelation_time"))
    if len(dt) != 1 or _src(dt[0]) != "return self.data['decorrelation_time']":
        raise TransError("decorrelation_time accessor")
    out.append("Definition opa_decorrelation_time_accessor : string := \"decorrelation_time\"%string.\n")
    info = dict(eigen_via_svd=via_svd, w0=w0, wlast=wlast, includes_tau_max=incl, nsamples_after_dropna=after_flag(out), store=store)
    return "\n".join(out), info


def after_flag(out):
    for ln in out:
        if ln.startswith("Definition opa_ctau_nsamples_after_dropna"):
            return "true" in ln
    return None


def gen(repo):
    return facts(repo)[0]
