"""regenerate coq/Gen/*.v from the repository's current working tree"""
import importlib
import os
import sys
import traceback

from .core import TransError, write_if_changed

REPO = os.environ.get("VERIF_REPO", "/repo")

# anchor -> (generated file, module, function).  One line per anchor; modules are imported lazily so
# that a broken module only breaks its own anchor.
REGISTRY = {
    "T1": ("T1.v", "t1_validators", "gen"),
    "T2": ("T2.v", "t2_io", "gen"),
    "T3": ("T3.v", "t3_decomposer", "gen"),
    "T3b": ("T3b.v", "t3_decomposer", "gen_sign_xr"),
    "T4": ("T4.v", "t4_scaler", "gen"),
    "T5eof": ("T5eof.v", "t5_eof", "gen"),
    "T5rot": ("T5rot.v", "t5_rot", "gen"),
    "T5flag": ("T5flag.v", "t5_flag", "gen"),
    "T5eeof": ("T5eeof.v", "t5_eeof", "gen"),
    "T5pop": ("T5pop.v", "t5_pop", "gen"),
    "T5opa": ("T5opa.v", "t5_opa", "gen"),
    "T5whiten": ("T5whiten.v", "t5_whiten", "gen"),
    "T5hil": ("T5hil.v", "t5_hilbert", "gen"),
    "T5cpcca": ("T5cpcca.v", "t5_cpcca", "gen"),
    "T5boot": ("T5boot.v", "t5_boot", "gen"),
    "T6san": ("T6san.v", "t6_sanitizer", "gen"),
    "T6lat": ("T6lat.v", "t6_lat", "gen"),
    "T7ser": ("T7ser.v", "t7_serial", "gen"),
    "T7unseen": ("T7unseen.v", "t7_unseen", "gen"),
    "T7hist": ("T7hist.v", "t7_hist", "gen"),
    "T7pipe": ("T7pipe.v", "t7_pipe", "gen"),
    "T7chain": ("T7chain.v", "t7_chain", "gen"),
    "T7inplace": ("T7inplace.v", "t7_inplace", "gen"),
    "T7mic": ("T7mic.v", "t7_mic", "gen"),
    "T7lazy": ("T7lazy.v", "t7_lazy", "gen"),
    "T8": ("T8.v", "t8_kwargs", "gen"),
    "T8fwd": ("T8fwd.v", "t8_forward", "gen"),
    "T9text": ("T9text.v", "t9_text", "gen"),
}


def anchors():
    return REGISTRY


def regen_all(outdir, repo=None, only=None):
    repo = repo or REPO
    status = {}
    os.makedirs(outdir, exist_ok=True)
    for name, (fn, modname, func) in REGISTRY.items():
        if only is not None and name not in only:
            continue
        path = os.path.join(outdir, fn)
        try:
            mod = importlib.import_module(__package__ + "." + modname)
            txt = getattr(mod, func)(repo)
            write_if_changed(path, txt)
            status[name] = "ok"
        except TransError as e:
            status[name] = "anchor no longer matches: %s" % (e,)
        except (SyntaxError, OSError, ImportError, AttributeError) as e:
            status[name] = "translator module or source unreadable: %r" % (e,)
        except Exception as e:  # fail closed
            status[name] = "translator error: %r" % (e,)
            traceback.print_exc()
    return status


if __name__ == "__main__":
    st = regen_all(sys.argv[1] if len(sys.argv) > 1 else "/verif/coq/Gen")
    for k, v in st.items():
        print(k, v)
