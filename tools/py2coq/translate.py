"""regenerate coq/Gen/*.v from the repository's current working tree"""
import os
import sys
import traceback

from .core import TransError, write_if_changed

REPO = os.environ.get("VERIF_REPO", "/repo")


def anchors():
    from . import t3_decomposer, t8_kwargs, t5_eof, t4_scaler, t5_rot
    return {"T3": ("T3.v", t3_decomposer.gen), "T3b": ("T3b.v", t3_decomposer.gen_sign_xr),
            "T8": ("T8.v", t8_kwargs.gen),
            "T5eof": ("T5eof.v", t5_eof.gen),
            "T4": ("T4.v", t4_scaler.gen),
            "T1": ("T1.v", __import__(__package__ + ".t1_validators", fromlist=["gen"]).gen),
            "T5pop": ("T5pop.v", __import__(__package__ + ".t5_pop", fromlist=["gen"]).gen),
            "T5whiten": ("T5whiten.v", __import__(__package__ + ".t5_whiten", fromlist=["gen"]).gen),
            "T6san": ("T6san.v", __import__(__package__ + ".t6_sanitizer", fromlist=["gen"]).gen),
            "T2": ("T2.v", __import__(__package__ + ".t2_io", fromlist=["gen"]).gen), "T7ser": ("T7ser.v", __import__(__package__ + ".t7_serial", fromlist=["gen"]).gen),
            "T5rot": ("T5rot.v", t5_rot.gen)}


def regen_all(outdir, repo=None):
    repo = repo or REPO
    status = {}
    os.makedirs(outdir, exist_ok=True)
    for name, (fn, gen) in anchors().items():
        path = os.path.join(outdir, fn)
        try:
            txt = gen(repo)
            write_if_changed(path, txt)
            status[name] = "ok"
        except TransError as e:
            status[name] = "anchor no longer matches: %s" % (e,)
        except (SyntaxError, OSError) as e:
            status[name] = "source unreadable: %r" % (e,)
        except Exception as e:  # fail closed
            status[name] = "translator error: %r" % (e,)
            traceback.print_exc()
    return status


if __name__ == "__main__":
    st = regen_all(sys.argv[1] if len(sys.argv) > 1 else "/verif/coq/Gen")
    for k, v in st.items():
        print(k, v)
