"""T7 (pipeline): order of the preprocessing stages in Preprocessor (declared, fitted, transformed, undone) and
the numbering rule of DimensionRenamer -> parameters of Model/Pipe.v.  Fail closed."""
import ast

from .core import TransError, body_nodoc, find_class, find_func, parse_file

PRE = "xeofs/preprocessing/preprocessor.py"
REN = "xeofs/preprocessing/dimension_renamer.py"
INVERSES = ["inverse_transform_data", "inverse_transform_components", "inverse_transform_scores", "inverse_transform_scores_unseen"]


def gen(repo):
    tree, _ = parse_file(repo, PRE)
    cls = find_class(tree, "Preprocessor")
    # declared order: keys of the dict returned by transformer_types()
    tt = body_nodoc(find_func(cls, "transformer_types"))
    if len(tt) != 1 or not isinstance(tt[0], ast.Return) or not isinstance(tt[0].value, ast.Call) or ast.unparse(tt[0].value.func) != "dict":
        raise TransError("transformer_types: not `return dict(...)`")
    declared = [kw.arg for kw in tt[0].value.keywords]
    classes = [ast.unparse(kw.value) for kw in tt[0].value.keywords]
    # get_transformers: attributes in declared order, reversed iff inverse
    gt = "\n".join(ast.unparse(s) for s in body_nodoc(find_func(cls, "get_transformers")))
    if gt != "transformers = [getattr(self, t) for t in self.transformer_types().keys()]\nif inverse:\n    transformers = transformers[::-1]\nreturn transformers":
        raise TransError("get_transformers changed")
    # fitted order: the sequence of self.<stage>.fit_transform calls in _fit_algorithm (top-level assignments to X)
    fitted = []
    for s in body_nodoc(find_func(cls, "_fit_algorithm")):
        for n in ast.walk(s):
            if isinstance(n, ast.Call) and isinstance(n.func, ast.Attribute) and n.func.attr == "fit_transform":
                owner = n.func.value
                if not (isinstance(owner, ast.Attribute) and isinstance(owner.value, ast.Name) and owner.value.id == "self"):
                    raise TransError("_fit_algorithm: fit_transform on %s" % ast.unparse(owner))
                if not (isinstance(s, ast.Assign) and ast.unparse(s.targets[0]) == "X"):
                    raise TransError("_fit_algorithm: a stage's output is not passed on as X")
                fitted.append(owner.attr)
    # constructors: which class each stage attribute holds
    held = {}
    for s in body_nodoc(find_func(cls, "__init__")):
        if isinstance(s, ast.Assign) and isinstance(s.value, ast.Call):
            t = s.targets[0]
            if isinstance(t, ast.Attribute) and isinstance(t.value, ast.Name) and t.value.id == "self" and t.attr in declared:
                f = ast.unparse(s.value.func)
                held[t.attr] = ast.unparse(s.value.args[0]) if f == "GenericListTransformer" and s.value.args else f
    if [held.get(d) for d in declared] != classes:
        raise TransError("stage attributes hold %r, transformer_types declares %r" % ([held.get(d) for d in declared], classes))

    def loop_of(name):
        """-> (reversed?, method called on each transformer)"""
        b = body_nodoc(find_func(cls, name))
        loops = [s for s in b if isinstance(s, ast.For)]
        if len(loops) != 1:
            raise TransError("%s: expected one loop over the transformers" % name)
        lp = loops[0]
        it = ast.unparse(lp.iter)
        if it == "self.get_transformers()":
            rev = False
        elif it == "self.get_transformers(inverse=True)":
            rev = True
        else:
            raise TransError("%s: iterates over %s" % (name, it))
        if len(lp.body) != 1 or not isinstance(lp.body[0], ast.Assign) or not isinstance(lp.body[0].value, ast.Call):
            raise TransError("%s: loop body changed" % name)
        call = lp.body[0].value
        tgt = ast.unparse(lp.body[0].targets[0])
        if ast.unparse(call.func.value) != ast.unparse(lp.target) or [ast.unparse(a) for a in call.args] != [tgt]:
            raise TransError("%s: the running value is not passed from stage to stage" % name)
        return rev, call.func.attr
    rows = [("transform",) + loop_of("transform")] + [(nm,) + loop_of(nm) for nm in INVERSES]
    # DimensionRenamer numbering rule
    rtree, _ = parse_file(repo, REN)
    fit = body_nodoc(find_func(find_class(rtree, "DimensionRenamer"), "fit"))
    od = [s for s in fit if isinstance(s, ast.Assign) and ast.unparse(s.targets[0]) == "ordered_dims"]
    if len(od) != 1:
        raise TransError("DimensionRenamer.fit: ordered_dims not assigned once")
    src = ast.unparse(od[0].value)
    if src == "list(sample_dims) + [d for d in X.dims if d not in sample_dims]":
        rule = "ByUser"
    elif src == "sorted(X.dims, key=lambda d: d not in sample_dims)":
        rule = "ByData"
    else:
        raise TransError("DimensionRenamer.fit: ordered_dims = %s" % src)
    dm = [s for s in fit if isinstance(s, ast.Assign) and ast.unparse(s.targets[0]) == "self.dim_mapping"]
    if len(dm) != 1 or ast.unparse(dm[0].value) != "{dim: f'{self.base}{i}' for (i, dim) in enumerate(ordered_dims, start=self.start)}".replace("(i, dim)", "i, dim") \
            and ast.unparse(dm[0].value) != "{dim: f'{self.base}{i}' for (i, dim) in enumerate(ordered_dims, start=self.start)}":
        raise TransError("DimensionRenamer.fit: dim_mapping changed: %s" % (ast.unparse(dm[0].value) if dm else None))
    # cross-set models: which constructor parameter, at which position of the per-field pair, feeds which stage of which field
    ctree, _ = parse_file(repo, "xeofs/cross/base_model_cross_set.py")
    cinit = find_func(find_class(ctree, "BaseModelCrossSet"), "__init__")
    wiring = []
    for st in ast.walk(cinit):
        if isinstance(st, ast.Assign) and isinstance(st.value, ast.Call) and isinstance(st.targets[0], ast.Attribute) \
                and isinstance(st.targets[0].value, ast.Name) and st.targets[0].value.id == "self" \
                and st.targets[0].attr in ("preprocessor1", "preprocessor2", "pca1", "pca2", "whitener1", "whitener2"):
            obj = st.targets[0].attr
            for kw in st.value.keywords:
                v = kw.value
                if isinstance(v, ast.Subscript):
                    if not (isinstance(v.value, ast.Name) and isinstance(v.slice, ast.Constant) and isinstance(v.slice.value, int)):
                        raise TransError("BaseModelCrossSet.__init__: %s(%s=%s)" % (obj, kw.arg, ast.unparse(v)))
                    wiring.append((obj, kw.arg, v.value.id, v.slice.value))
                elif not isinstance(v, ast.Name):
                    raise TransError("BaseModelCrossSet.__init__: %s(%s=%s)" % (obj, kw.arg, ast.unparse(v)))
    if {w[0] for w in wiring} != {"preprocessor1", "preprocessor2", "pca1", "pca2", "whitener1", "whitener2"}:
        raise TransError("BaseModelCrossSet.__init__: stages %r" % sorted({w[0] for w in wiring}))
    # Concatenator: the blocks are cut and re-labelled in insertion order of the fitted coordinates
    ktree, _ = parse_file(repo, "xeofs/preprocessing/concatenator.py")
    kcls = find_class(ktree, "Concatenator")
    loops = [n for n in body_nodoc(find_func(kcls, "_split_dataarray_into_list")) if isinstance(n, ast.For)]
    walked = ast.unparse(loops[0].iter) if len(loops) == 1 else None
    if walked == "enumerate(self.coords_in.values())":
        concat_rule = "Insertion"
    elif walked == "enumerate(sorted(self.coords_in))":
        concat_rule = "SortedKeys"
    else:
        raise TransError("Concatenator._split_dataarray_into_list: blocks are walked as %s" % walked)
    kfit = "\n".join(ast.unparse(n) for n in body_nodoc(find_func(kcls, "fit")))
    if "self.coords_in = {str(i): data.coords[self.feature_name] for (i, data) in enumerate(X)}" not in kfit.replace("for i, data in", "for (i, data) in"):
        raise TransError("Concatenator.fit: coords_in changed")
    # Preprocessor.deserialize rebuilds the per-item transformers in the stored (insertion) order
    dsrc = ast.unparse(find_func(cls, "deserialize"))
    if "for transformer in dt[name].transformers.values():" not in dsrc:
        raise TransError("Preprocessor.deserialize: the per-item transformers are not rebuilt in stored order")
    sl = lambda xs: "[" + "; ".join('"%s"' % x for x in xs) + "]"  # noqa
    out = ["(* generated by tools/py2coq/t7_pipe.py from %s and %s *)" % (PRE, REN), "From Coq Require Import String List Bool.",
           "From XV Require Import Model.Pipe Model.Concat.", "Import ListNotations.", "Open Scope string_scope.", "",
           "Definition declared_order : list string := %s." % sl(declared),
           "Definition declared_classes : list string := %s." % sl(classes),
           "Definition fitted_order : list string := %s." % sl(fitted), "",
           "(* method, iterates in reverse order?, method called on every stage *)",
           "Definition loops : list (string * bool * string) := [",
           ";\n".join('  ("%s", %s, "%s")' % (a, "true" if b else "false", c) for a, b, c in rows), "].", "",
           "Definition renamer_rule : order_rule := %s." % rule, "",
           "(* cross-set constructor wiring: stage object, its keyword, the constructor parameter, the position in the per-field pair *)",
           "Definition cross_wiring : list (string * string * string * nat) := [",
           ";\n".join('  ("%s", "%s", "%s", %d)' % w for w in wiring), "].", "",
           "Definition concat_rule : key_order := %s." % concat_rule]
    return "\n".join(out) + "\n"
