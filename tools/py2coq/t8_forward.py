"""T8fwd: what every model class's constructor does with its own parameters when it calls a parent constructor:
forwarded under the same name, replaced by a literal (pinned), used locally, or dropped."""
import ast
import glob
import os

from .core import TransError, body_nodoc, parse_file, try_dotted

DIRS = ("xeofs/single", "xeofs/cross", "xeofs/multi", "xeofs/validation")


def parent_calls(init):
    out = []
    for n in ast.walk(init):
        if isinstance(n, ast.Call):
            f = try_dotted(n.func)
            if f and f.endswith(".__init__"):
                out.append((f, n))
            elif isinstance(n.func, ast.Attribute) and n.func.attr == "__init__" and isinstance(n.func.value, ast.Call) \
                    and try_dotted(n.func.value.func) == "super":
                out.append(("super().__init__", n))
    return out


def gen(repo):
    rows = []
    for d in DIRS:
        for path in sorted(glob.glob(os.path.join(repo, d, "*.py"))):
            rel = os.path.relpath(path, repo)
            tree, _ = parse_file(repo, rel)
            for cls in tree.body:
                if not isinstance(cls, ast.ClassDef):
                    continue
                init = next((f for f in cls.body if isinstance(f, ast.FunctionDef) and f.name == "__init__"), None)
                if init is None:
                    continue
                calls = parent_calls(init)
                if not calls:
                    continue
                params = [a.arg for a in init.args.args[1:]] + [a.arg for a in init.args.kwonlyargs]
                var_kw = init.args.kwarg.arg if init.args.kwarg else None
                for pname, call in calls:
                    passed = {}
                    for i, a in enumerate(call.args):
                        if try_dotted(a) == "self":
                            continue
                        passed["#%d" % i] = a
                    for k in call.keywords:
                        passed[k.arg if k.arg else "**"] = k.value
                    call_nodes = set(id(x) for x in ast.walk(call))
                    for p in params:
                        how = None
                        for k, v in passed.items():
                            if isinstance(v, ast.Name) and v.id == p:
                                how = "same" if k == p or k.startswith("#") else "as:" + k
                        if how is None:
                            if p in passed:
                                how = "replaced:" + ast.unparse(passed[p])[:40]
                            else:
                                used = any(isinstance(x, ast.Name) and x.id == p and id(x) not in call_nodes for x in ast.walk(init))
                                how = "local" if used else "dropped"
                        rows.append((cls.name, pname, p, how))
                    for k, v in passed.items():
                        if k not in params and not k.startswith("#") and k != "**" and not (isinstance(v, ast.Name) and v.id in params):
                            rows.append((cls.name, pname, k, "pinned:" + ast.unparse(v)[:40]))
                    if "**" in passed and try_dotted(passed["**"]) != var_kw:
                        raise TransError("%s.__init__ splats %s" % (cls.name, ast.unparse(passed["**"])))
    # objects built inside the model classes: which keyword gets which value
    INNER = ("EOF", "ComplexEOF", "HilbertEOF", "PCA", "SVD", "Preprocessor", "Whitener", "Decomposer")
    inner, idx = [], []
    for d in DIRS + ("xeofs/preprocessing",):
        for path in sorted(glob.glob(os.path.join(repo, d, "*.py"))):
            rel = os.path.relpath(path, repo)
            tree, _ = parse_file(repo, rel)
            for cls in tree.body:
                if not isinstance(cls, ast.ClassDef):
                    continue
                for fn in cls.body:
                    if not isinstance(fn, ast.FunctionDef):
                        continue
                    for st in ast.walk(fn):
                        if not isinstance(st, ast.Assign) or len(st.targets) != 1:
                            continue
                        tgt = try_dotted(st.targets[0]) or "?"
                        for call in ast.walk(st.value):
                            if not (isinstance(call, ast.Call) and isinstance(call.func, ast.Name) and call.func.id in INNER and call.keywords):
                                continue
                            for k in call.keywords:
                                if k.arg is None:
                                    inner.append((cls.name, fn.name, tgt, call.func.id, "**", ast.unparse(k.value)[:60]))
                                    continue
                                inner.append((cls.name, fn.name, tgt, call.func.id, k.arg, ast.unparse(k.value)[:60]))
                                v = k.value
                                if cls.name == "BaseModelCrossSet" and fn.name == "__init__" and isinstance(v, ast.Subscript):
                                    if not (isinstance(v.slice, ast.Constant) and isinstance(v.slice.value, int) and isinstance(v.value, ast.Name)):
                                        raise TransError("BaseModelCrossSet.__init__: %s=%s is not name[int]" % (k.arg, ast.unparse(v)))
                                    if not (tgt.startswith("self.") and tgt[-1] in "12"):
                                        raise TransError("BaseModelCrossSet.__init__: per-field value handed to %s" % tgt)
                                    idx.append((tgt[5:], k.arg, int(tgt[-1]), v.slice.value))
    if not idx:
        raise TransError("BaseModelCrossSet.__init__ builds no per-field stage")
    out = ["(* generated by tools/py2coq/t8_forward.py *)", "From Coq Require Import String List Bool.", "Import ListNotations.", "Open Scope string_scope.", "",
           "(* (class, parent constructor called, parameter or keyword, what happens to it) for every row that is not a plain forward *)",
           "Definition ctor_special : list (string * string * string * string) :=\n  [%s].\n"
           % ";\n   ".join('("%s", "%s", "%s", "%s")' % (c, pn, p, h.replace('"', "'")) for c, pn, p, h in rows if h != "same"),
           "Definition ctor_plain_forwards : nat := %d.\n" % sum(1 for r in rows if r[3] == "same"),
           "(* (stage attribute, keyword, number of the field the stage belongs to, index taken from the per-field parameter) in BaseModelCrossSet.__init__ *)",
           "Definition cross_stage_field_indices : list (string * string * nat * nat) :=\n  [%s].\n"
           % ";\n   ".join('("%s", "%s", %d, %d)' % r for r in idx),
           "(* (class, method, target, class of the object built, keyword, value) for every object the model classes build with keywords *)",
           "Definition inner_objects : list (string * string * string * string * string * string) :=\n  [%s].\n"
           % ";\n   ".join('("%s", "%s", "%s", "%s", "%s", "%s")' % tuple(x.replace('"', "'") for x in r) for r in inner)]
    return "\n".join(out)
