"""T6san: xeofs/preprocessing/sanitizer.py — the acceptance expression of the isolated-NaN test, the order
of the checks in Sanitizer.transform, the reductions that define valid features / samples, and the
coordinate each inverse transform re-indexes.  Fail-closed: any statement outside the schema raises."""
import ast

from .core import TransError, body_nodoc, find_class, find_func, parse_file, raises_kind, try_dotted

AXIS = {"self.sample_name": "GAxSample", "self.feature_name": "GAxFeature"}
COORDS = {"GAxSample": "self.sample_coords", "GAxFeature": "self.feature_coords"}


def reduction_of(cls, name):
    """`return X.notnull().<red>(self.<axis>_name)` -> (red, axis)"""
    body = body_nodoc(find_func(cls, name))
    if len(body) != 1 or not isinstance(body[0], ast.Return):
        raise TransError("%s is not a single return" % name)
    c = body[0].value
    if not (isinstance(c, ast.Call) and isinstance(c.func, ast.Attribute) and len(c.args) == 1 and not c.keywords):
        raise TransError("%s: not a reduction call: %s" % (name, ast.unparse(c)))
    if ast.unparse(c.func.value) != "X.notnull()":
        raise TransError("%s: reduction is not over X.notnull(): %s" % (name, ast.unparse(c)))
    red = {"any": "GRAny", "sum": "GRSum"}.get(c.func.attr)
    ax = AXIS.get(try_dotted(c.args[0]))
    if red is None or ax is None:
        raise TransError("%s: unknown reduction/axis: %s" % (name, ast.unparse(c)))
    return red, ax


def single_raise_if(stmt, test_src):
    """`if <test_src>: raise ValueError(...)` with nothing else"""
    if not (isinstance(stmt, ast.If) and not stmt.orelse and ast.unparse(stmt.test) == test_src):
        return False
    if len(stmt.body) != 1 or not isinstance(stmt.body[0], ast.Raise):
        raise TransError("guard `%s` does not only raise" % test_src)
    k = raises_kind(stmt.body)
    if k != "ValueError":
        raise TransError("guard `%s` raises %s, expected ValueError" % (test_src, k))
    return True


def acceptance(stmt):
    """isolated_nans = ~X_valid_features_per_sample.isin([0, X_valid_features.sum().values])"""
    if not (isinstance(stmt, ast.Assign) and len(stmt.targets) == 1 and try_dotted(stmt.targets[0]) == "isolated_nans"):
        raise TransError("expected the assignment of isolated_nans, found: %s" % ast.unparse(stmt)[:80])
    v = stmt.value
    if not (isinstance(v, ast.UnaryOp) and isinstance(v.op, ast.Invert)):
        raise TransError("isolated_nans is not a negated membership test")
    c = v.operand
    if not (isinstance(c, ast.Call) and isinstance(c.func, ast.Attribute) and c.func.attr == "isin"
            and try_dotted(c.func.value) == "X_valid_features_per_sample" and len(c.args) == 1 and not c.keywords
            and isinstance(c.args[0], (ast.List, ast.Tuple))):
        raise TransError("isolated_nans is not ~X_valid_features_per_sample.isin([...])")
    items = []
    for e in c.args[0].elts:
        if isinstance(e, ast.Constant) and isinstance(e.value, int) and not isinstance(e.value, bool) and e.value >= 0:
            items.append("%d" % e.value)
            continue
        if isinstance(e, ast.Attribute) and e.attr == "values":
            e = e.value
        if isinstance(e, ast.Call) and isinstance(e.func, ast.Attribute) and not e.args and not e.keywords \
                and e.func.attr == "sum" and try_dotted(e.func.value) == "X_valid_features":
            items.append("nvalid")      # number of True entries of the valid-feature mask
        elif isinstance(e, ast.Attribute) and e.attr == "size" and try_dotted(e.value) == "X_valid_features":
            items.append("nfeat")       # number of features, valid or not
        else:
            raise TransError("unknown admissible count in isin([...]): %s" % ast.unparse(e))
    return "negb (existsb (Nat.eqb cnt) [%s])" % "; ".join(items)


def inverse_axis(cls, name):
    body = body_nodoc(find_func(cls, name))
    if len(body) == 1 and isinstance(body[0], ast.Return) and try_dotted(body[0].value) == "X":
        return "None"
    if len(body) != 2:
        raise TransError("%s: unexpected body" % name)
    a, iff = body
    for ax_src, ax in AXIS.items():
        coords = COORDS[ax]
        if (isinstance(a, ast.Assign) and try_dotted(a.targets[0]) == "coords_are_equal"
                and ast.unparse(a.value) == "X.coords[%s].identical(%s)" % (ax_src, coords)):
            if not (isinstance(iff, ast.If) and try_dotted(iff.test) == "coords_are_equal" and len(iff.body) == 1
                    and isinstance(iff.body[0], ast.Return) and try_dotted(iff.body[0].value) == "X"
                    and len(iff.orelse) == 1 and isinstance(iff.orelse[0], ast.Return)
                    and ast.unparse(iff.orelse[0].value) == "X.reindex({%s: %s.values})" % (ax_src, coords)):
                raise TransError("%s: not `X if coords equal else X.reindex({axis: fit coords})`" % name)
            return "(Some %s)" % ax
    raise TransError("%s: coordinate comparison not recognised: %s" % (name, ast.unparse(a)[:100]))


def gen(repo):
    tree, _ = parse_file(repo, "xeofs/preprocessing/sanitizer.py")
    cls = find_class(tree, "Sanitizer")
    out = ["(* generated by tools/py2coq/t6_sanitizer.py from xeofs/preprocessing/sanitizer.py *)",
           "From Coq Require Import List Bool Arith.", "Import ListNotations.", "",
           "Inductive san_gaxis := GAxSample | GAxFeature.", "Inductive san_gred := GRAny | GRSum.",
           "Inductive san_gstep := GCheckDims | GCheckCoords | GCheckMask | GCheckIsolated | GWhereDrop.", ""]
    # reductions
    for nm, fn in (("valid_features", "_get_valid_features"), ("valid_samples", "_get_valid_samples"),
                   ("valid_per_sample", "_get_valid_features_per_sample")):
        red, ax = reduction_of(cls, fn)
        out.append("Definition san_%s_red : san_gred * san_gaxis := (%s, %s)." % (nm, red, ax))
    out.append("")
    # the two unconditional checks
    d = body_nodoc(find_func(cls, "_check_input_dims"))
    if not (len(d) == 1 and single_raise_if(d[0], "set(X.dims) != set([self.sample_name, self.feature_name])")):
        raise TransError("_check_input_dims changed: %s" % ast.unparse(d[0])[:120])
    c = body_nodoc(find_func(cls, "_check_input_coords"))
    if not (len(c) == 1 and single_raise_if(c[0], "not X.coords[self.feature_name].identical(self.feature_coords)")):
        raise TransError("_check_input_coords changed: %s" % ast.unparse(c[0])[:120])
    # transform, statement by statement
    tr = body_nodoc(find_func(cls, "transform"))
    steps = []
    flag = None
    assigned = {}
    i = 0

    def call_src(s):
        return ast.unparse(s.value) if isinstance(s, ast.Expr) and isinstance(s.value, ast.Call) else None

    if call_src(tr[0]) != "assert_single_dataarray(X)":
        raise TransError("transform does not start with the input type assertion")
    for s in tr[1:]:
        src = call_src(s)
        if src == "self._check_input_dims(X)":
            steps.append(("GCheckDims", False))
        elif src == "self._check_input_coords(X)":
            steps.append(("GCheckCoords", False))
        elif isinstance(s, ast.Assign) and len(s.targets) == 1 and try_dotted(s.targets[0]) in (
                "X_valid_features", "X_valid_samples", "X_valid_features_per_sample"):
            assigned[try_dotted(s.targets[0])] = ast.unparse(s.value)
        elif isinstance(s, ast.If) and try_dotted(s.test) == "self.check_nans" and not s.orelse:
            for g in s.body:
                if isinstance(g, ast.Assign) and isinstance(g.targets[0], ast.Tuple) and isinstance(g.value, ast.Call) \
                        and try_dotted(g.value.func) == "compute":
                    lhs = [try_dotted(e) for e in g.targets[0].elts]
                    rhs = [try_dotted(e) for e in g.value.args]
                    if lhs != rhs:
                        raise TransError("compute(...) does not assign its arguments back in order")
                elif single_raise_if(g, "not X_valid_features.equals(self.is_valid_feature)"):
                    steps.append(("GCheckMask", True))
                elif isinstance(g, ast.Assign) and try_dotted(g.targets[0]) == "isolated_nans":
                    if flag is not None:
                        raise TransError("isolated_nans assigned twice")
                    flag = acceptance(g)
                elif single_raise_if(g, "isolated_nans.any()"):
                    if flag is None:
                        raise TransError("isolated_nans tested before it is computed")
                    steps.append(("GCheckIsolated", True))
                elif isinstance(g, ast.Assign) and try_dotted(g.targets[0]) == "X":
                    if ast.unparse(g.value) != "X.where(X_valid_features & X_valid_samples, drop=True)":
                        raise TransError("drop step changed: %s" % ast.unparse(g.value))
                    steps.append(("GWhereDrop", True))
                else:
                    raise TransError("unexpected statement under check_nans: %s" % ast.unparse(g)[:100])
        elif isinstance(s, ast.Return):
            if try_dotted(s.value) != "X" or s is not tr[-1]:
                raise TransError("transform does not end with `return X`")
        else:
            raise TransError("unexpected statement in transform: %s" % ast.unparse(s)[:100])
    if assigned != {"X_valid_features": "self._get_valid_features(X)", "X_valid_samples": "self._get_valid_samples(X)",
                    "X_valid_features_per_sample": "self._get_valid_features_per_sample(X)"}:
        raise TransError("mask reductions used by transform changed: %r" % (assigned,))
    if flag is None:
        raise TransError("isolated-NaN test not found")
    out.append("(* one sample is flagged as containing an isolated NaN; cnt = its number of non-null features,")
    out.append("   nvalid = number of features with a non-null value, nfeat = number of features *)")
    out.append("Definition san_isolated_flag (cnt nvalid nfeat : nat) : bool := %s.\n" % flag)
    out.append("(* checks of Sanitizer.transform in source order; the flag says: only when check_nans *)")
    out.append("Definition san_transform_steps : list (san_gstep * bool) := [%s].\n"
               % "; ".join("(%s, %s)" % (a, "true" if b else "false") for a, b in steps))
    # fit: dims check, then coordinates and the valid-feature mask are stored; no NaN test of its own
    fit = body_nodoc(find_func(cls, "fit"))
    fsrc = [ast.unparse(s) for s in fit]
    want = ["assert_single_dataarray(X)", "self._check_input_dims(X)", "self.feature_coords = X.coords[self.feature_name]",
            "self.sample_coords = X.coords[self.sample_name]", "self.is_valid_feature = self._get_valid_features(X)",
            "self.is_valid_sample = self._get_valid_samples(X)", "return self"]
    if fsrc != want:
        raise TransError("Sanitizer.fit changed: %r" % (fsrc,))
    out.append("Definition san_fit_steps : list san_gstep := [GCheckDims].")
    out.append("Definition san_fit_stores_valid_features : bool := true.\n")
    for nm in ("data", "components", "scores", "scores_unseen"):
        out.append("Definition san_inverse_%s_axis : option san_gaxis := %s." % (nm, inverse_axis(cls, "inverse_transform_" + nm)))
    out.append("")
    return "\n".join(out)
