"""T7 (laziness): every place on a fit path where a dask computation is triggered, and the flag guarding it."""
import ast

from .core import TransError, body_nodoc, find_class, find_func, parse_file, try_dotted

# (file, class, methods on the fit path)
PATHS = [
    ("xeofs/preprocessing/scaler.py", "Scaler", ["fit", "transform"]),
    ("xeofs/preprocessing/sanitizer.py", "Sanitizer", ["fit", "transform"]),
    ("xeofs/preprocessing/stacker.py", "Stacker", ["fit", "transform"]),
    ("xeofs/preprocessing/concatenator.py", "Concatenator", ["fit", "transform"]),
    ("xeofs/preprocessing/pca.py", "PCA", ["fit", "transform"]),
    ("xeofs/preprocessing/whitener.py", "Whitener", ["fit", "transform", "_compute_whitener_transform"]),
    ("xeofs/linalg/svd.py", "SVD", ["fit_transform"]),
    ("xeofs/linalg/decomposer.py", "Decomposer", ["fit", "_svd", "_compute_svd_result"]),
    ("xeofs/single/base_model_single_set.py", "BaseModelSingleSet", ["fit"]),
    ("xeofs/cross/base_model_cross_set.py", "BaseModelCrossSet", ["fit"]),
    ("xeofs/single/eof.py", "EOF", ["_fit_algorithm"]),
    ("xeofs/single/eeof.py", "ExtendedEOF", ["_fit_algorithm"]),
    ("xeofs/single/sparse_pca.py", "SparsePCA", ["_fit_algorithm"]),
    ("xeofs/single/pop.py", "POP", ["_fit_algorithm"]),
    ("xeofs/single/opa.py", "OPA", ["_fit_algorithm", "_compute_matrix_inverse", "_Ctau"]),
    ("xeofs/single/eof_rotator.py", "EOFRotator", ["fit", "_fit_algorithm", "_compute_rot_mat_inv_trans"]),
    ("xeofs/cross/cpcca.py", "CPCCA", ["_fit_algorithm", "_compute_cross_matrix", "_compute_total_squared_covariance"]),
    ("xeofs/cross/cpcca_rotator.py", "CPCCARotator", ["fit", "_fit_algorithm", "_compute_rot_mat_inv_trans"]),
]
# numpy.linalg routines that dask arrays dispatch to a lazy dask implementation (__array_function__); every other
# np.linalg.* routine applied to a dask array computes it on the spot
DASK_LAZY = {"np.linalg.inv", "np.linalg.svd", "np.linalg.qr", "np.linalg.cholesky", "np.linalg.solve", "np.linalg.lstsq", "np.linalg.norm"}
COMPUTE_CALLS = {"dask.compute", "dask.base.compute", "compute", "dask_compute"}


def guards_of(stack):
    out = []
    for g in stack:
        src = ast.unparse(g)
        if "compute" in src and "check_nans" not in src:
            out.append("GCompute")
        elif "check_nans" in src:
            out.append("GCheckNans")
        elif "is_based_on_variance" in src:
            out.append("GVarianceThreshold")
        elif "not use_dask" in src.replace("(", "").replace(")", ""):
            out.append("GNotDask")      # only reached for in-memory input (use_dask is checked in gen)
        elif "is_identity" in src or "use_pca" in src or "use_dask" in src or "use_exact" in src or "use_complex" in src:
            continue
        else:
            out.append("GOther")
    return out


def scan(fn, cls, rel):
    sites = []

    def numpy_kernel(call):
        """xr.apply_ufunc(F, ..., dask='allowed') with F a numpy-only routine or a _np_* method"""
        if try_dotted(call.func) != "xr.apply_ufunc" or not call.args:
            return None
        f = try_dotted(call.args[0]) or ""
        allowed = any(kw.arg == "dask" and isinstance(kw.value, ast.Constant) and kw.value.value == "allowed" for kw in call.keywords)
        if allowed and ((f.startswith("np.linalg.") and f not in DASK_LAZY) or f.split(".")[-1].startswith("_np_")):
            return f
        return None

    def visit(stmts, stack):
        for s in stmts:
            if isinstance(s, ast.If):
                visit(s.body, stack + [s.test])
                visit(s.orelse, stack)
                continue
            if isinstance(s, ast.Match):
                for c in s.cases:
                    pat = ast.unparse(c.pattern)
                    # `match self.compute: case True:` guards like `if self.compute`
                    g = ast.parse("%s == %s" % (ast.unparse(s.subject), pat if pat not in ("_",) else "None"), mode="eval").body
                    if pat == "False":
                        continue
                    visit(c.body, stack + [g])
                continue
            if isinstance(s, (ast.For, ast.While, ast.With, ast.Try)):
                visit(getattr(s, "body", []), stack)
                for h in getattr(s, "handlers", []):
                    visit(h.body, stack)
                visit(getattr(s, "orelse", []), stack)
                continue
            for n in ast.walk(s):
                if isinstance(n, ast.Call):
                    f = try_dotted(n.func)
                    if f in COMPUTE_CALLS or (isinstance(n.func, ast.Attribute) and n.func.attr == "compute" and f not in ("self.data.compute",) and not (f or "").startswith("dask.config")):
                        sites.append(("%s.%s:%s" % (cls, fn.name, f or ast.unparse(n.func)), guards_of(stack) or ["GAlways"]))
                    elif f in ("self.data.compute", "self.compute"):
                        sites.append(("%s.%s:%s" % (cls, fn.name, f), guards_of(stack) or ["GAlways"]))
                    k = numpy_kernel(n)
                    if k:
                        sites.append(("%s.%s:apply_ufunc(%s)" % (cls, fn.name, k), guards_of(stack) or ["GAlways"]))
                    if isinstance(n.func, ast.Attribute) and n.func.attr == "item":
                        sites.append(("%s.%s:.item()" % (cls, fn.name), guards_of(stack) or ["GAlways"]))
                elif isinstance(n, ast.Attribute) and n.attr == "values" and isinstance(n.ctx, ast.Load):
                    src = ast.unparse(n)
                    if "coords" in src or src.startswith("self.feature_coords") or src.startswith("self.sample_coords") or ".mode.values" in src:
                        continue   # coordinate labels are always in memory
                    sites.append(("%s.%s:%s" % (cls, fn.name, src), guards_of(stack) or ["GAlways"]))
    visit(body_nodoc(fn), [])
    return sites


def gen(repo):
    rows = []
    for rel, cls, methods in PATHS:
        tree, _ = parse_file(repo, rel)
        c = find_class(tree, cls)
        for mname in methods:
            try:
                fn = find_func(c, mname)
            except TransError:
                raise TransError("%s.%s not found" % (cls, mname))
            rows += scan(fn, cls, rel)
    # `use_dask` must mean "the input is a dask array" wherever a guard relies on it
    dtree, _ = parse_file(repo, "xeofs/linalg/decomposer.py")
    dsrc = ast.unparse(find_func(find_class(dtree, "Decomposer"), "fit"))
    if "use_dask = True if isinstance(X.data, DaskArray) else False" not in dsrc:
        raise TransError("Decomposer.fit: definition of use_dask changed")
    out = ["(* generated by tools/py2coq/t7_lazy.py: dask force points on the fit paths and their guards *)",
           "From Coq Require Import String List Bool.", "Import ListNotations.", "Open Scope string_scope.", "",
           "Inductive lguard := GAlways | GCompute | GCheckNans | GVarianceThreshold | GNotDask | GOther.", "",
           "Definition force_sites : list (string * list lguard) := ["]
    out.append(";\n".join('  ("%s", [%s])' % (site, "; ".join(g)) for site, g in rows))
    out.append("].")
    return "\n".join(out) + "\n"
