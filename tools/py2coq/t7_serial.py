"""T7ser: serialisation footprint of the transformer and model classes.

For each class (with its single-inheritance chain resolved across the source files):
  serialized  keys of the dict returned by `get_serialization_attrs` (for DataContainer: what
              `serialize`/`deserialize` store and restore)
  ctor        parameter names of the constructor that `cls(**params)` reaches
  params      (model classes) keys of `self._params` as built by the reachable constructors
  init_only   attributes assigned by the reachable constructors and by no other method of the chain
              (these are rebuilt by `cls(**params)` during deserialisation)
  reads       (method, attribute) for every `self.<attribute>` read by a post-fit answer method
              (`transform`, `inverse_transform*`, accessors, `predict`, ... and the private methods they call)

Fail-closed: unknown base classes, dynamic `getattr(self, ...)` outside the one known pattern,
`get_serialization_attrs` not returning a `dict(k=self.k, ...)` call all raise TransError."""
import ast
import os

from .core import TransError, find_func, try_dotted

FILES = ["xeofs/base_model.py", "xeofs/data_container/data_container.py",
         "xeofs/preprocessing/transformer.py", "xeofs/preprocessing/scaler.py", "xeofs/preprocessing/stacker.py",
         "xeofs/preprocessing/sanitizer.py", "xeofs/preprocessing/multi_index_converter.py",
         "xeofs/preprocessing/dimension_renamer.py", "xeofs/preprocessing/concatenator.py",
         "xeofs/preprocessing/whitener.py", "xeofs/preprocessing/pca.py", "xeofs/preprocessing/preprocessor.py",
         "xeofs/single/base_model_single_set.py", "xeofs/single/eof.py", "xeofs/single/eof_rotator.py",
         "xeofs/single/pop.py", "xeofs/single/opa.py", "xeofs/single/eeof.py", "xeofs/single/sparse_pca.py",
         "xeofs/cross/mca.py", "xeofs/cross/cca.py", "xeofs/cross/rda.py",
         "xeofs/cross/base_model_cross_set.py", "xeofs/cross/cpcca.py", "xeofs/cross/cpcca_rotator.py"]

# bases outside the package that carry no xeofs state
FOREIGN_BASES = {"ABC", "dict", "BaseEstimator", "TransformerMixin", "object"}
# methods those bases provide (sklearn parameter access, dict protocol): calls, not attribute reads
FOREIGN_METHODS = {"get_params", "set_params", "items", "keys", "values", "get"}

TRANSFORMERS = ["Scaler", "Stacker", "Sanitizer", "MultiIndexConverter", "DimensionRenamer", "Concatenator",
                "Whitener", "PCA", "Preprocessor"]
MODELS = ["BaseModelSingleSet", "BaseModelCrossSet", "EOFRotator", "CPCCARotator", "POP", "OPA",
          # the concrete single-inheritance model classes as well
          "EOF", "ComplexEOF", "HilbertEOF", "ExtendedEOF", "SparsePCA", "CPCCA", "ComplexCPCCA", "HilbertCPCCA", "MCA", "CCA", "RDA"]
CLASSES = TRANSFORMERS + ["DataContainer"] + MODELS

TRANSFORMER_ENTRY = ["transform", "inverse_transform_data", "inverse_transform_components",
                     "inverse_transform_scores", "inverse_transform_scores_unseen"]
CONTAINER_ENTRY = ["__getitem__", "compute", "set_attrs"]
# public methods of a model that are not post-fit answers: fitting, (de)serialisation, IO, parameter access
MODEL_NOT_ANSWER = {"fit", "fit_transform", "compute", "save", "load", "serialize", "deserialize",
                    "get_params", "get_serialization_attrs", "check_needed_module"}


def load_classes(repo):
    classes = {}
    for rel in FILES:
        path = os.path.join(repo, rel)
        tree = ast.parse(open(path).read())
        for n in tree.body:
            if isinstance(n, ast.ClassDef):
                if n.name in classes:
                    raise TransError("class %s defined twice" % n.name)
                classes[n.name] = (rel, n)
    return classes


def chain_of(classes, name, foreign=None):
    """single-inheritance chain inside the package, most derived first"""
    out = []
    cur = name
    while cur is not None:
        if cur not in classes:
            raise TransError("class %s not found in the scanned files" % cur)
        out.append(cur)
        nxt = None
        for b in classes[cur][1].bases:
            bn = try_dotted(b)
            if bn is None:
                raise TransError("%s: base expression %s" % (cur, ast.unparse(b)))
            bn = bn.split(".")[-1]
            if bn in FOREIGN_BASES:
                if foreign is not None:
                    foreign.add(bn)
                continue
            if nxt is not None:
                raise TransError("%s: more than one package base class" % cur)
            nxt = bn
        cur = nxt
    return out


def methods_of(cls):
    return {n.name: n for n in cls.body if isinstance(n, (ast.FunctionDef, ast.AsyncFunctionDef))}


class Chain:
    def __init__(self, classes, name):
        self.foreign = set()
        self.names = chain_of(classes, name, self.foreign)
        self.meths = [methods_of(classes[c][1]) for c in self.names]
        self.all_method_names = set()
        for m in self.meths:
            self.all_method_names |= set(m)

    def resolve(self, meth, start=0):
        for i in range(start, len(self.names)):
            if meth in self.meths[i]:
                return i, self.meths[i][meth]
        return None

    def is_static(self, fn):
        return any(try_dotted(d) in ("staticmethod", "classmethod") for d in fn.decorator_list)


def self_calls(chain, idx, fn):
    """(method name, chain index to start the lookup at) for every call through self / super() / Class.m(self)"""
    out = []
    for c in ast.walk(fn):
        if not isinstance(c, ast.Call) or not isinstance(c.func, ast.Attribute):
            continue
        recv, m = c.func.value, c.func.attr
        if isinstance(recv, ast.Name) and recv.id == "self" and m in chain.all_method_names:
            out.append((m, 0))
        elif isinstance(recv, ast.Call) and try_dotted(recv.func) == "super":
            if not recv.args:
                out.append((m, idx + 1))
            else:
                cn = try_dotted(recv.args[0])
                if cn not in chain.names:
                    raise TransError("super(%s, self) outside the chain %s" % (cn, chain.names))
                out.append((m, chain.names.index(cn) + 1))
        elif isinstance(recv, ast.Name) and recv.id in chain.names and c.args and try_dotted(c.args[0]) == "self":
            out.append((m, chain.names.index(recv.id)))
    return out


def reachable(chain, entries):
    """{(chain index, method name): FunctionDef} reachable from the entry methods"""
    seen = {}
    todo = [(e, 0) for e in entries]
    while todo:
        m, start = todo.pop()
        r = chain.resolve(m, start)
        if r is None:
            continue
        i, fn = r
        if (i, m) in seen:
            continue
        seen[(i, m)] = fn
        todo += self_calls(chain, i, fn)
    return seen


def dynamic_getattr_reads(chain, fn):
    """`getattr(self, t)`: only the Preprocessor pattern `for t in self.transformer_types().keys()` is understood"""
    reads = []
    for c in ast.walk(fn):
        if isinstance(c, ast.Call) and try_dotted(c.func) == "getattr" and c.args and try_dotted(c.args[0]) == "self":
            a = c.args[1]
            if isinstance(a, ast.Constant) and isinstance(a.value, str):
                reads.append(a.value)
                continue
            src = ast.unparse(fn)
            if "self.transformer_types().keys()" not in src:
                raise TransError("dynamic getattr(self, %s) in %s" % (ast.unparse(a), fn.name))
            r = chain.resolve("transformer_types")
            if r is None:
                raise TransError("transformer_types not found")
            ret = [s for s in ast.walk(r[1]) if isinstance(s, ast.Return)]
            if len(ret) != 1 or not (isinstance(ret[0].value, ast.Call) and try_dotted(ret[0].value.func) == "dict"
                                     and not ret[0].value.args):
                raise TransError("transformer_types does not return dict(k=...)")
            reads += [kw.arg for kw in ret[0].value.keywords]
    return reads


def field_reads(chain, fn):
    out = []
    for n in ast.walk(fn):
        if isinstance(n, ast.Attribute) and isinstance(n.value, ast.Name) and n.value.id == "self" \
                and isinstance(n.ctx, ast.Load) and n.attr not in chain.all_method_names:
            if n.attr in FOREIGN_METHODS:
                if n.attr in ("get_params", "set_params") and "BaseEstimator" not in chain.foreign:
                    raise TransError("%s used without the sklearn base" % n.attr)
                if n.attr not in ("get_params", "set_params") and "dict" not in chain.foreign:
                    raise TransError("dict method %s on a non-dict class" % n.attr)
                continue
            out.append(n.attr)
    out += dynamic_getattr_reads(chain, fn)
    return out


MUTATORS = {"update", "append", "extend", "add", "pop", "clear", "insert", "remove", "setdefault", "popitem"}


def field_writes(fn):
    """self.X = ..., self.X: T = ..., self.X += ..., setattr(self, "X", ...); in-place changes of the object held
    by self.X (self.X[k] = ..., self.X.update(...), self.X.add(...)) count as writes of X as well"""
    out = []
    for n in ast.walk(fn):
        if isinstance(n, ast.Subscript) and isinstance(n.ctx, (ast.Store, ast.Del)):
            d = try_dotted(n.value)
            if d and d.startswith("self.") and d.count(".") == 1:
                out.append(d.split(".")[1])
        if isinstance(n, ast.Call) and isinstance(n.func, ast.Attribute) \
                and (n.func.attr in MUTATORS or n.func.attr.startswith("fit")):
            # self.X.fit(...) / self.X.fit_transform(...) change the state of the object held by X
            d = try_dotted(n.func.value)
            if d and d.startswith("self.") and d.count(".") == 1:
                out.append(d.split(".")[1])
        if isinstance(n, ast.Attribute) and isinstance(n.value, ast.Name) and n.value.id == "self" \
                and isinstance(n.ctx, (ast.Store, ast.Del)):
            out.append(n.attr)
        if isinstance(n, ast.Call) and try_dotted(n.func) == "setattr" and n.args and try_dotted(n.args[0]) == "self":
            a = n.args[1]
            if isinstance(a, ast.Constant):
                out.append(a.value)
            else:
                out.append("<dynamic>")
    return out


def serialization_keys(chain, name):
    r = chain.resolve("get_serialization_attrs")
    if r is None:
        raise TransError("%s: get_serialization_attrs not found" % name)
    fn = r[1]
    rets = [s for s in ast.walk(fn) if isinstance(s, ast.Return)]
    if len(rets) != 1:
        raise TransError("%s.get_serialization_attrs: expected a single return" % name)
    v = rets[0].value
    if not (isinstance(v, ast.Call) and try_dotted(v.func) == "dict" and not v.args):
        raise TransError("%s.get_serialization_attrs does not return dict(k=...)" % name)
    keys = []
    for kw in v.keywords:
        if kw.arg is None:
            raise TransError("%s.get_serialization_attrs: **splat" % name)
        if try_dotted(kw.value) != "self." + kw.arg:
            # deserialisation does setattr(obj, key, value): the key must be the attribute it was read from
            raise TransError("%s.get_serialization_attrs: key %s is not self.%s" % (name, kw.arg, kw.arg))
        keys.append(kw.arg)
    return keys


def container_serialized(classes):
    """DataContainer.serialize stores every item and its allow_compute flag; deserialize restores both"""
    cls = classes["DataContainer"][1]
    ser = ast.unparse(find_func(cls, "serialize"))
    des = ast.unparse(find_func(cls, "deserialize"))
    if "for key, data in self.items()" not in ser or "self._allow_compute[key]" not in ser:
        raise TransError("DataContainer.serialize: items / allow_compute not stored")
    if "container[key] = node[key]" not in des or "container._allow_compute[key] = node.attrs['allow_compute']" not in des:
        raise TransError("DataContainer.deserialize: items / allow_compute not restored")
    return ["<items>", "_allow_compute"]


def custom_restored(chain, name):
    """attributes restored by a class's own `deserialize` beyond the generic loop over the tree attributes:
    Preprocessor.deserialize rebuilds every slot named by transformer_types()"""
    r = chain.resolve("deserialize")
    if r is None or chain.names[r[0]] in ("Transformer", "BaseModel", "DataContainer"):
        return []
    src = ast.unparse(r[1])
    if "transformer_types()" not in src or "setattr(preprocessor, name, deserialized)" not in src \
            or "transformer_obj.transformers.append(deserialized)" not in src:
        raise TransError("%s.deserialize: unknown custom deserialisation" % name)
    t = chain.resolve("transformer_types")
    ret = [x for x in ast.walk(t[1]) if isinstance(x, ast.Return)]
    if len(ret) != 1 or not (isinstance(ret[0].value, ast.Call) and try_dotted(ret[0].value.func) == "dict" and not ret[0].value.args):
        raise TransError("transformer_types does not return dict(k=...)")
    return [kw.arg for kw in ret[0].value.keywords]


def ctor_params(chain, name):
    r = chain.resolve("__init__")
    if r is None:
        return [], None
    fn = r[1]
    a = fn.args
    names = [x.arg for x in a.posonlyargs + a.args + a.kwonlyargs if x.arg != "self"]
    return names, fn


def init_reach(chain):
    """constructors reached from the most derived __init__ through super().__init__ (and helper methods they call)"""
    return reachable(chain, ["__init__"])


def params_keys(chain, inits):
    """keys of self._params after the reachable constructors ran: dict literal, .update({..}), .pop("k")"""
    keys = None
    # base constructors run first (super().__init__ is the first statement): process the chain from the base upwards
    for (i, m) in sorted(inits, key=lambda k: -k[0]):
        if m != "__init__":
            continue
        fn = inits[(i, m)]
        for s in ast.walk(fn):
            if isinstance(s, ast.Assign) and len(s.targets) == 1 and try_dotted(s.targets[0]) == "self._params":
                if not isinstance(s.value, ast.Dict):
                    raise TransError("self._params is not a dict literal")
                ks = []
                for k in s.value.keys:
                    if not (isinstance(k, ast.Constant) and isinstance(k.value, str)):
                        raise TransError("self._params: non-literal key")
                    ks.append(k.value)
                if ks or keys is None:
                    keys = ks if keys is None or ks else keys
            if isinstance(s, ast.Call) and try_dotted(s.func) == "self._params.update":
                d = s.args[0] if s.args else None
                if not isinstance(d, ast.Dict):
                    raise TransError("self._params.update with a non-literal")
                for k in d.keys:
                    if not (isinstance(k, ast.Constant) and isinstance(k.value, str)):
                        raise TransError("self._params.update: non-literal key")
                    if keys is None:
                        keys = []
                    if k.value not in keys:
                        keys.append(k.value)
            if isinstance(s, ast.Call) and try_dotted(s.func) == "self._params.pop":
                k = s.args[0]
                if not (isinstance(k, ast.Constant) and keys is not None and k.value in keys):
                    raise TransError("self._params.pop of an unknown key")
                keys.remove(k.value)
    return keys or []


def analyse(classes, name):
    chain = Chain(classes, name)
    if name == "DataContainer":
        serialized = container_serialized(classes)
        entries = CONTAINER_ENTRY
    else:
        serialized = serialization_keys(chain, name)
        if name in TRANSFORMERS:
            entries = TRANSFORMER_ENTRY
        else:
            entries = sorted(m for m in chain.all_method_names if not m.startswith("_") and m not in MODEL_NOT_ANSWER)
    ctor, _ = ctor_params(chain, name)
    inits = init_reach(chain)
    init_w = set()
    for fn in inits.values():
        init_w |= set(field_writes(fn))
    other_w = set()
    for i, ms in enumerate(chain.meths):
        for m, fn in ms.items():
            if (i, m) in inits or m == "__init__":
                continue     # a constructor that `cls(**params)` does not reach never runs on this object
            other_w |= set(field_writes(fn))
    if "<dynamic>" in other_w and name not in MODELS:
        raise TransError("%s: dynamic setattr(self, ...) outside the deserialisation of a model" % name)
    init_only = sorted(w for w in init_w if w not in other_w)
    reads = []
    rs = reachable(chain, entries)
    for (i, m) in sorted(rs, key=lambda k: (k[1], k[0])):
        for f in field_reads(chain, rs[(i, m)]):
            if (m, f) not in reads:
                reads.append((m, f))
    unstored = []
    pkeys = []
    if name in TRANSFORMERS:
        # sklearn get_params() reads getattr(self, <ctor parameter>)
        unstored = [p for p in ctor if p not in init_w]
    if name in MODELS:
        pkeys = params_keys(chain, inits)
    return dict(name=name, chain=chain.names, serialized=serialized, ctor=ctor, params=pkeys, init_only=init_only,
                reads=reads, unstored=unstored, entries=list(entries), custom=custom_restored(chain, name))


def analyse_all(repo):
    classes = load_classes(repo)
    return [analyse(classes, n) for n in CLASSES]


def _sl(xs):
    return "[" + "; ".join('"%s"' % x for x in xs) + "]"


def gen(repo):
    fps = analyse_all(repo)
    out = ["(* generated by tools/py2coq/t7_serial.py: serialisation footprint of transformers and models *)",
           "From Coq Require Import String List Bool.", "Import ListNotations.", "Open Scope string_scope.", "",
           "Record footprint := mkFootprint {",
           "  fp_class : string;",
           "  fp_chain : list string;             (* inheritance chain inside the package *)",
           "  fp_serialized : list string;        (* keys of get_serialization_attrs *)",
           "  fp_ctor : list string;              (* constructor parameters *)",
           "  fp_params : list string;            (* keys of self._params (model classes) *)",
           "  fp_init_only : list string;         (* assigned by the constructors and nowhere else *)",
           "  fp_custom_restored : list string;   (* restored by the class's own deserialize (Preprocessor slots) *)",
           "  fp_ctor_unstored : list string;     (* transformer ctor parameters not stored as attributes *)",
           "  fp_entries : list string;           (* post-fit answer methods *)",
           "  fp_reads : list (string * string)   (* (method, attribute read through self) *)",
           "}.", ""]
    for fp in fps:
        out.append("Definition fp_%s : footprint := mkFootprint \"%s\"" % (fp["name"], fp["name"]))
        out.append("  %s" % _sl(fp["chain"]))
        out.append("  %s" % _sl(fp["serialized"]))
        out.append("  %s" % _sl(fp["ctor"]))
        out.append("  %s" % _sl(fp["params"]))
        out.append("  %s" % _sl(fp["init_only"]))
        out.append("  %s" % _sl(fp["custom"]))
        out.append("  %s" % _sl(fp["unstored"]))
        out.append("  %s" % _sl(fp["entries"]))
        out.append("  [%s]." % "; ".join('("%s", "%s")' % r for r in fp["reads"]))
        out.append("")
    out.append("Definition footprints : list footprint := [%s]." % "; ".join("fp_" + fp["name"] for fp in fps))
    out.append("")
    return "\n".join(out)
