"""T7 (unseen path): which score back-transformation every transform/predict implementation uses."""
import ast
import os

from .core import TransError, body_nodoc, find_class, find_func, parse_file, try_dotted

SITES = [("xeofs/single/base_model_single_set.py", "BaseModelSingleSet", "transform"),
         ("xeofs/cross/base_model_cross_set.py", "BaseModelCrossSet", "transform"),
         ("xeofs/cross/base_model_cross_set.py", "BaseModelCrossSet", "predict"),
         ("xeofs/cross/cpcca_rotator.py", "CPCCARotator", "transform"),
         ("xeofs/multi/cca.py", "CCABaseModel|CCA", "transform")]


def gen(repo):
    rows = []
    for rel, cls, fn in SITES:
        tree, _ = parse_file(repo, rel)
        f = None
        for c in cls.split("|"):
            try:
                f = find_func(find_class(tree, c), fn)
                break
            except TransError:
                continue
        if f is None:
            raise TransError("%s.%s not found" % (cls, fn))
        used = set()
        for n in ast.walk(f):
            if isinstance(n, ast.Call) and isinstance(n.func, ast.Attribute) and n.func.attr in (
                    "inverse_transform_scores", "inverse_transform_scores_unseen"):
                owner = ast.unparse(n.func.value)
                if "preprocessor" in owner:
                    used.add(n.func.attr)
        if not used:
            raise TransError("%s.%s does not back-transform scores through a preprocessor" % (cls, fn))
        for u in sorted(used):
            rows.append(("%s:%s.%s" % (rel, cls.split("|")[-1], fn), "Unseen" if u.endswith("_unseen") else "FitPath"))
    # Preprocessor.inverse_transform_scores_unseen calls the _unseen method of every transformer
    tree, _ = parse_file(repo, "xeofs/preprocessing/preprocessor.py")
    f = find_func(find_class(tree, "Preprocessor"), "inverse_transform_scores_unseen")
    src = ast.unparse(f)
    if "transformer.inverse_transform_scores_unseen(X_it)" not in src:
        raise TransError("Preprocessor.inverse_transform_scores_unseen changed")
    # per transformer: what the unseen variant does
    per = []
    for rel, cls in (("xeofs/preprocessing/sanitizer.py", "Sanitizer"), ("xeofs/preprocessing/multi_index_converter.py", "MultiIndexConverter"),
                     ("xeofs/preprocessing/stacker.py", "Stacker"), ("xeofs/preprocessing/scaler.py", "Scaler"),
                     ("xeofs/preprocessing/concatenator.py", "Concatenator"), ("xeofs/preprocessing/dimension_renamer.py", "DimensionRenamer")):
        tree, _ = parse_file(repo, rel)
        f = find_func(find_class(tree, cls), "inverse_transform_scores_unseen")
        b = body_nodoc(f)
        src = ast.unparse(b[-1])
        if src == "return X":
            k = "UIdentity"
        elif "reference='transform'" in src:
            k = "UTransformReference"
        elif "reindex" in ast.unparse(f):
            k = "UReindexToFit"
        else:
            k = "USameAsFit"
        per.append((cls, k))
    # every method of a model / rotator class that maps scores back through a preprocessor: which path it takes
    allrows = []
    for rel in ("xeofs/single/base_model_single_set.py", "xeofs/single/eof.py", "xeofs/single/eeof.py", "xeofs/single/pop.py", "xeofs/single/opa.py",
                "xeofs/single/sparse_pca.py", "xeofs/single/eof_rotator.py", "xeofs/cross/base_model_cross_set.py", "xeofs/cross/cpcca.py",
                "xeofs/cross/cpcca_rotator.py", "xeofs/multi/cca.py", "xeofs/validation/bootstrapper.py"):
        tree, _ = parse_file(repo, rel)
        for c in tree.body:
            if not isinstance(c, ast.ClassDef):
                continue
            for f in c.body:
                if not isinstance(f, ast.FunctionDef):
                    continue
                used = set()
                for n in ast.walk(f):
                    if isinstance(n, ast.Call) and isinstance(n.func, ast.Attribute) and n.func.attr in ("inverse_transform_scores", "inverse_transform_scores_unseen") \
                            and "preprocessor" in ast.unparse(n.func.value):
                        used.add("Unseen" if n.func.attr.endswith("_unseen") else "FitPath")
                for u in sorted(used):
                    allrows.append((c.name, f.name, u))
    # cross-set classes: a stage of field N (preprocessorN, pcaN, whitenerN) is only ever applied to a value of field N
    import re as _re
    n_field_calls = 0
    for rel in ("xeofs/cross/base_model_cross_set.py", "xeofs/cross/cpcca.py", "xeofs/cross/cpcca_rotator.py"):
        tree, _ = parse_file(repo, rel)
        for n in ast.walk(tree):
            if isinstance(n, ast.Call) and isinstance(n.func, ast.Attribute) and isinstance(n.func.value, ast.Attribute) \
                    and isinstance(n.func.value.value, ast.Name) and n.func.value.value.id == "self":
                m = _re.fullmatch(r"(preprocessor|pca|whitener)([12])", n.func.value.attr)
                if not m or len(n.args) != 1 or not isinstance(n.args[0], ast.Name):
                    continue
                arg = n.args[0].id
                fld = "1" if (arg == "X" or arg.endswith("1")) else ("2" if (arg == "Y" or arg.endswith("2")) else None)
                if fld is None:
                    continue
                n_field_calls += 1
                if fld != m.group(2):
                    raise TransError("%s: %s is applied to %s (line %d)" % (rel, ast.unparse(n.func), arg, n.lineno))
    if n_field_calls < 20:
        raise TransError("cross-set field wiring: only %d stage calls recognised" % n_field_calls)
    out = ["(* generated by tools/py2coq/t7_unseen.py *)", "From Coq Require Import String List Bool.", "Import ListNotations.",
           "Open Scope string_scope.", "", "Inductive score_path := Unseen | FitPath.",
           "Inductive unseen_kind := UIdentity | UTransformReference | UReindexToFit | USameAsFit.", "",
           "Definition transform_sites : list (string * score_path) := [",
           ";\n".join('  ("%s", %s)' % r for r in rows), "].", "",
           "(* class, method, path: every place where scores are mapped back through a preprocessor *)",
           "Definition score_paths : list (string * string * score_path) := [",
           ";\n".join('  ("%s", "%s", %s)' % r for r in allrows), "].", "",
           "(* number of calls self.<stage>N.<method>(value of field N) checked in the cross-set classes (a mismatch fails the translation) *)",
           "Definition cross_field_calls_checked : nat := %d." % n_field_calls, "",
           "Definition unseen_behaviour : list (string * unseen_kind) := [",
           ";\n".join('  ("%s", %s)' % r for r in per), "]."]
    return "\n".join(out) + "\n"
