"""T1: the input validators.  Small pure functions are translated statement by statement into
total Gallina functions returning `result`; for validators embedded in larger methods the
guard (`if <test>: raise <Error>`) is located structurally and translated on its own.

sources: xeofs/utils/sanity_checks.py, utils/xarray_utils.py, preprocessing/{stacker,sanitizer,scaler,
preprocessor,dimension_renamer,whitener}.py, cross/{base_model_cross_set,cpcca}.py,
single/{base_model_single_set,eof}.py"""
import ast

from .core import (ERRK, Expr, TransError, body_nodoc, find_class, find_func, parse_file, raises_kind, try_dotted,
                   walk_stmts)

# python class (as written in isinstance / class patterns) -> pyty tag
TAGS = {"int": "TInt", "float": "TFloat", "str": "TStr", "bool": "TBool", "list": "TList", "tuple": "TTuple",
        "dict": "TDict", "xr.DataArray": "TDataArray", "xr.Dataset": "TDataset", "type(None)": "TNone"}
# which python classes an object carrying each tag is an instance of
INSTANCE_OF = {"TInt": {"int"}, "TBool": {"bool", "int"}, "TFloat": {"float"}, "TStr": {"str"}, "TNone": {"type(None)"},
               "TList": {"list"}, "TTuple": {"tuple"}, "TDict": {"dict"}, "TDataArray": {"xr.DataArray"},
               "TDataset": {"xr.Dataset"}, "TOther": set()}
PYTY = ["TNone", "TBool", "TInt", "TFloat", "TStr", "TList", "TTuple", "TDict", "TDataArray", "TDataset", "TOther"]
# constructors of ValidateLib.pyval: (pattern text, tag, refined binding when matched as int/float/str)
PYVAL = [("VInt z", "TInt"), ("VFloat f", "TFloat"), ("VStr s", "TStr"), ("VBool b", "TBool"), ("VNone", "TNone"),
         ("VList l", "TList"), ("VTuple l", "TTuple"), ("VDict", "TDict"), ("VDataArray", "TDataArray"),
         ("VDataset", "TDataset"), ("VOther", "TOther")]


class VExpr(Expr):
    """adds to core.Expr: environment keys that are whole sub-expressions (`X.shape[0]`, `len(X)`,
    `self.dims_mapping[self.sample_name]`), sets of names, membership in a name list, len(), all(),
    list comprehensions over names, coordinate look-up and comparison, isinstance on a pyval."""

    def tr(self, n):
        key = ast.unparse(n)
        if key in self.env:
            return self.env[key]
        if isinstance(n, ast.Call):
            f = try_dotted(n.func)
            if f == "isinstance" and len(n.args) == 2:
                a, at = self.tr(n.args[0])
                if at == "pyval":
                    a = "(ty_of %s)" % a
                elif at != "pyty":
                    raise TransError("isinstance on a statically typed value")
                tys = n.args[1].elts if isinstance(n.args[1], ast.Tuple) else [n.args[1]]
                tags = []
                for t in tys:
                    tag = TAGS.get(try_dotted(t) or ast.unparse(t))
                    if tag is None:
                        raise TransError("isinstance with type %s" % ast.unparse(t))
                    tags.append(tag)
                return "(pyty_isinstance %s [%s])" % (a, "; ".join(tags)), "bool"
            if f == "len" and len(n.args) == 1:
                a, at = self.tr(n.args[0])
                if at in ("strlist", "strset", "boollist"):
                    return "(Z.of_nat (length %s))" % a, "Z"
                raise TransError("len of %s" % at)
            if f == "set" and len(n.args) == 1:
                arg = n.args[0]
                if isinstance(arg, (ast.List, ast.Tuple)):
                    items = [self.tr(e) for e in arg.elts]
                    if any(t != "string" for _, t in items):
                        raise TransError("set literal of non-strings")
                    return "[%s]" % "; ".join(i for i, _ in items), "strset"
                a, at = self.tr(arg)
                if at in ("strlist", "strset"):
                    return a, "strset"
                raise TransError("set of %s" % at)
            if f == "all" and len(n.args) == 1:
                arg = n.args[0]
                if isinstance(arg, (ast.GeneratorExp, ast.ListComp)):
                    a, at = self.comp(arg)
                else:
                    a, at = self.tr(arg)
                if at != "boollist":
                    raise TransError("all() over %s" % at)
                return "(forallb (fun b : bool => b) %s)" % a, "bool"
            if isinstance(n.func, ast.Attribute) and n.func.attr in ("equals", "identical") and len(n.args) == 1:
                a, at = self.tr(n.func.value)
                b, bt = self.tr(n.args[0])
                if at == bt == "coord" and n.func.attr == "equals":
                    return "(coord_equals %s %s)" % (a, b), "bool"
                if at == bt == "scoord" and n.func.attr == "identical":
                    return "(scoord_identical %s %s)" % (a, b), "bool"
                raise TransError(".%s between %s and %s" % (n.func.attr, at, bt))
        if isinstance(n, (ast.ListComp, ast.GeneratorExp)):
            return self.comp(n)
        if isinstance(n, ast.Subscript):
            a, at = self.tr(n.value)
            k, kt = self.tr(n.slice)
            if at == "coordfn" and kt == "string":
                return "(%s %s)" % (a, k), "coord"
            raise TransError("subscript of %s by %s" % (at, kt))
        if isinstance(n, ast.BinOp) and isinstance(n.op, ast.BitOr):
            a, at = self.tr(n.left)
            b, bt = self.tr(n.right)
            if at == bt == "strset":
                return "(set_union %s %s)" % (a, b), "strset"
            raise TransError("| between %s and %s" % (at, bt))
        return super().tr(n)

    def comp(self, n):
        """[elt for v in iter] / (elt for v in iter) with one plain loop variable"""
        if len(n.generators) != 1:
            raise TransError("nested comprehension")
        g = n.generators[0]
        if g.ifs or g.is_async or not isinstance(g.target, ast.Name):
            raise TransError("comprehension shape")
        it, itt = self.tr(g.iter)
        v = g.target.id
        if itt == "pyval":
            it, vt = "(items_of %s)" % it, "pyval"
        elif itt in ("strlist", "strset"):
            vt = "string"
        else:
            raise TransError("comprehension over %s" % itt)
        sub = type(self)(dict(self.env, **{v: (v, vt)}), self.mode)
        e, et = sub.tr(n.elt)
        if et != "bool":
            raise TransError("comprehension element of type %s" % et)
        return "(map (fun %s => %s) %s)" % (v, e, it), "boollist"

    def cmp(self, op, l, r):
        if isinstance(op, (ast.In, ast.NotIn)) and not isinstance(r, (ast.List, ast.Tuple)):
            a, at = self.tr(l)
            b, bt = self.tr(r)
            if at == "string" and bt in ("strlist", "strset"):
                body = "(str_mem %s %s)" % (a, b)
                return body if isinstance(op, ast.In) else "(negb %s)" % body
            raise TransError("`in` between %s and %s" % (at, bt))
        if isinstance(op, (ast.Eq, ast.NotEq)):
            try:
                a, at = self.tr(l)
                b, bt = self.tr(r)
            except TransError:
                raise
            if at == bt == "strset":
                body = "(set_eqb %s %s)" % (a, b)
                return body if isinstance(op, ast.Eq) else "(negb %s)" % body
        return super().cmp(op, l, r)


def _is_message(v):
    """a string that only feeds an exception message"""
    if isinstance(v, ast.JoinedStr):
        return True
    if isinstance(v, ast.Constant) and isinstance(v.value, str):
        return True
    if isinstance(v, ast.Call) and isinstance(v.func, ast.Attribute) and v.func.attr == "format" and _is_message(v.func.value):
        return True
    if isinstance(v, ast.BinOp) and isinstance(v.op, ast.Add):
        return _is_message(v.left) and _is_message(v.right)
    return False


class Block:
    """statements -> Gallina term of type `result T`.  Sequencing is by duplication of the
    continuation into every branch, which is exactly Python's control flow for if / match / raise."""

    def __init__(self, mode="float", ret=None, guard_only=False):
        self.mode = mode
        self.ret = ret
        self.guard_only = guard_only

    def ex(self, env):
        return VExpr(env, self.mode)

    def tr(self, stmts, env, ind="  "):
        if not stmts:
            return "Ok tt"
        s, rest = stmts[0], list(stmts[1:])
        if isinstance(s, ast.Pass):
            return self.tr(rest, env, ind)
        if isinstance(s, ast.Expr) and isinstance(s.value, ast.Constant) and isinstance(s.value.value, str):
            return self.tr(rest, env, ind)
        if isinstance(s, ast.Raise):
            k = raises_kind([s])
            if k not in ERRK:
                raise TransError("raise of %s" % k)
            return "Err %s" % ERRK[k]        # control leaves: the continuation is not reached
        if isinstance(s, ast.Return):
            if s.value is None or self.guard_only:
                return "Ok tt"
            if self.ret is None:
                raise TransError("return of a value")
            return "Ok %s" % self.ret(s.value, env)
        if isinstance(s, ast.AugAssign) and isinstance(s.target, ast.Name) and _is_message(s.value):
            return self.tr(rest, env, ind)
        if isinstance(s, (ast.Assign, ast.AnnAssign)):
            tgt = s.targets[0] if isinstance(s, ast.Assign) else s.target
            if isinstance(s, ast.Assign) and len(s.targets) != 1:
                raise TransError("multiple assignment")
            if not isinstance(tgt, ast.Name):
                raise TransError("assignment to %s" % ast.unparse(tgt))
            if _is_message(s.value):
                return self.tr(rest, env, ind)
            txt, ty = self.ex(env).tr(s.value)
            env2 = dict(env)
            env2[tgt.id] = (tgt.id, ty)
            return "let %s := %s in\n%s%s" % (tgt.id, txt, ind, self.tr(rest, env2, ind))
        if isinstance(s, ast.If):
            c, ct = self.ex(env).tr(s.test)
            if ct != "bool":
                raise TransError("condition of type %s" % ct)
            a = self.tr(list(s.body) + rest, env, ind + "  ")
            b = self.tr(list(s.orelse) + rest, env, ind + "  ")
            return "if %s\n%sthen (%s)\n%selse (%s)" % (c, ind, a, ind, b)
        if isinstance(s, ast.Match):
            return self.match(s, rest, env, ind)
        raise TransError("statement %s" % type(s).__name__)

    def match(self, s, rest, env, ind):
        subj = try_dotted(s.subject)
        if subj is None or subj not in env:
            raise TransError("match subject")
        stxt, sty = env[subj]
        if sty not in ("pyval", "pyty"):
            raise TransError("match on %s" % sty)
        cases = []
        for c in s.cases:
            if c.guard is not None:
                raise TransError("guarded case")
            p = c.pattern
            if isinstance(p, ast.MatchClass) and not p.patterns and not p.kwd_patterns:
                cls = try_dotted(p.cls)
                if cls not in TAGS:
                    raise TransError("class pattern %s" % cls)
                cases.append((cls, c.body))
            elif isinstance(p, ast.MatchAs) and p.pattern is None and p.name is None:
                cases.append((None, c.body))
            else:
                raise TransError("pattern %s" % type(p).__name__)
        if not cases or cases[-1][0] is not None:
            raise TransError("match without default arm")

        def arm(tag):
            for cls, body in cases:
                if cls is None or cls in INSTANCE_OF[tag]:
                    return cls, body
            raise TransError("no arm")
        out = ["match %s with" % stxt]
        if sty == "pyty":
            for tag in PYTY:
                cls, body = arm(tag)
                out.append("%s| %s => %s" % (ind, tag, self.tr(list(body) + rest, env, ind + "    ")))
        else:
            for pat, tag in PYVAL:
                cls, body = arm(tag)
                env2 = dict(env)
                if cls == "int" and tag == "TInt":
                    env2[subj] = ("z", "Z")
                elif cls == "int" and tag == "TBool":
                    env2[subj] = ("(Z.b2z b)", "Z")        # bool is an int: True == 1, False == 0
                elif cls == "bool":
                    env2[subj] = ("b", "bool")
                elif cls == "float":
                    env2[subj] = ("f", "float")
                elif cls == "str":
                    env2[subj] = ("s", "string")
                else:
                    pat = pat.split()[0] + (" _" if " " in pat else "")
                out.append("%s| %s => %s" % (ind, pat, self.tr(list(body) + rest, env2, ind + "    ")))
        out.append("%send" % ind)
        return "\n".join(out)


def guard_if(body, mentions, before=None):
    """the first `if <test>: raise ...` (top level of `body`) whose test mentions all the given
    names; when `before` is given the guard must precede the first statement for which
    `before(stmt)` holds"""
    for i, s in enumerate(body):
        if before is not None and before(s):
            break
        if isinstance(s, ast.If) and raises_kind(s.body) and not s.orelse:
            src = ast.unparse(s.test)
            if all(m in src for m in mentions):
                return s
    raise TransError("guard mentioning %r not found" % (mentions,))


def call_order(body, wanted):
    """names from `wanted` in the order in which they are first called in `body`"""
    hits = []
    for s in walk_stmts(body):
        if isinstance(s, (ast.If, ast.For, ast.While, ast.With, ast.Try, ast.Match, ast.FunctionDef)):
            nodes = [s.test] if isinstance(s, (ast.If, ast.While)) else ([s.iter] if isinstance(s, ast.For) else [])
        else:
            nodes = [s]
        for top in nodes:
            for c in ast.walk(top):
                if isinstance(c, ast.Call):
                    d = try_dotted(c.func)
                    if d in wanted:
                        hits.append((c.lineno, c.col_offset, d))
    seen, out = set(), []
    for _, _, d in sorted(hits):
        if d not in seen:
            seen.add(d)
            out.append(d)
    return out


def coq_strlist(xs):
    return "[%s]" % "; ".join('"%s"%%string' % x for x in xs)


def gen(repo):
    out = ["(* generated by tools/py2coq/t1_validators.py -- regenerated on every check; do not edit *)\n"
           "From Coq Require Import String ZArith List Bool PrimFloat.\n"
           "From XV Require Import Base.Scalar Base.Instances Model.DecompLib Model.ValidateLib.\n"
           "Import ListNotations.\nOpen Scope bool_scope.\n"]
    # ---------------------------------------------------------------- utils/sanity_checks.py
    tree, _ = parse_file(repo, "xeofs/utils/sanity_checks.py")
    fn = find_func(tree, "sanity_check_n_modes")
    if [a.arg for a in fn.args.args] != ["n_modes"]:
        raise TransError("sanity_check_n_modes signature")
    t = Block().tr(body_nodoc(fn), {"n_modes": ("n_modes", "pyval")})
    out.append("Definition sanity_check_n_modes (n_modes : pyval) : result unit :=\n  %s.\n" % t)

    fn = find_func(tree, "convert_to_dim_type")
    if [a.arg for a in fn.args.args] != ["arg"]:
        raise TransError("convert_to_dim_type signature")

    def ret_dims(v, env):
        # the three shapes a Dims value is returned in: arg | tuple(arg) | (arg,)
        if isinstance(v, ast.Name) and v.id == "arg":
            return "(names_of arg)"
        if isinstance(v, ast.Call) and try_dotted(v.func) == "tuple" and len(v.args) == 1 and try_dotted(v.args[0]) == "arg":
            return "(names_of arg)"
        if isinstance(v, ast.Tuple) and len(v.elts) == 1 and try_dotted(v.elts[0]) == "arg":
            return "[str_of arg]"
        raise TransError("convert_to_dim_type returns %s" % ast.unparse(v))
    t = Block(ret=ret_dims).tr(body_nodoc(fn), {"arg": ("arg", "pyval")})
    out.append("Definition convert_to_dim_type (arg : pyval) : result (list string) :=\n  %s.\n" % t)

    fn = find_func(tree, "validate_input_type")
    if [a.arg for a in fn.args.args] != ["X"]:
        raise TransError("validate_input_type signature")
    t = Block().tr(body_nodoc(fn), {"X": ("X", "pyval")})
    out.append("Definition validate_input_type (X : pyval) : result unit :=\n  %s.\n" % t)

    # ---------------------------------------------------------------- utils/xarray_utils.py
    tree, _ = parse_file(repo, "xeofs/utils/xarray_utils.py")
    fn = find_func(tree, "_check_parameter_number")
    t = Block().tr(body_nodoc(fn), {"len(parameter)": ("len_parameter", "Z"), "n_data": ("n_data", "Z")})
    out.append("Definition utils_check_parameter_number (len_parameter n_data : Z) : result unit :=\n  %s.\n" % t)
    fn = find_func(tree, "_get_feature_dims")
    b = body_nodoc(fn)
    ok = (len(b) == 1 and isinstance(b[0], ast.Return)
          and ast.unparse(b[0].value) == "tuple((dim for dim in data.dims if dim not in sample_dims))")
    if not ok:
        raise TransError("_get_feature_dims is not `tuple(dim for dim in data.dims if dim not in sample_dims)`")
    out.append("Definition get_feature_dims (data_dims sample_dims : list string) : list string :=\n"
               "  filter (fun dim => negb (str_mem dim sample_dims)) data_dims.\n")

    # ---------------------------------------------------------------- preprocessing/stacker.py
    tree, _ = parse_file(repo, "xeofs/preprocessing/stacker.py")
    c = find_class(tree, "Stacker")
    env = {"X": ("xt", "pyty"), "sample_dims": ("sample_dims", "strlist"), "feature_dims": ("feature_dims", "strlist"),
           "X.dims": ("x_dims", "strlist"), "self.sample_name": ("sample_name", "string"),
           "self.feature_name": ("feature_name", "string")}
    t = Block().tr(body_nodoc(find_func(c, "_validate_dims")), env)
    out.append("Definition stacker_validate_dims (xt : pyty) (sample_dims feature_dims : list string) : result unit :=\n  %s.\n" % t)
    t = Block().tr(body_nodoc(find_func(c, "_validate_dimension_names")), env)
    out.append("Definition stacker_validate_dimension_names (xt : pyty) (sample_name feature_name : string)\n"
               "    (x_dims sample_dims feature_dims : list string) : result unit :=\n  %s.\n" % t)
    env = {"self.dims_mapping[self.sample_name]": ("fit_sample_dims", "strlist"),
           "self.dims_mapping[self.feature_name]": ("fit_feature_dims", "strlist"),
           "X.dims": ("x_dims", "strlist"), "X.coords": ("x_coords", "coordfn"),
           "self.coords_in": ("fit_coords", "coordfn")}
    t = Block().tr(body_nodoc(find_func(c, "_validate_transform_dimensions")), env)
    out.append("Definition stacker_validate_transform_dimensions (fit_sample_dims fit_feature_dims x_dims : list string) : result unit :=\n  %s.\n" % t)
    t = Block().tr(body_nodoc(find_func(c, "_validate_transform_feature_coords")), env)
    out.append("Definition stacker_validate_transform_feature_coords (fit_feature_dims : list string)\n"
               "    (fit_coords x_coords : string -> coord) : result unit :=\n  %s.\n" % t)
    names = ["self._validate_dims", "self._validate_dimension_names", "self._validate_indices"]
    out.append("Definition stacker_sanity_check_order : list string := %s.\n"
               % coq_strlist(call_order(body_nodoc(find_func(c, "_sanity_check")), names)))
    names = ["self._validate_transform_data_type", "self._validate_transform_dimensions",
             "self._validate_transform_feature_coords", "self._stack"]
    out.append("Definition stacker_transform_order : list string := %s.\n"
               % coq_strlist(call_order(body_nodoc(find_func(c, "transform")), names)))
    out.append("Definition stacker_fit_order : list string := %s.\n"
               % coq_strlist(call_order(body_nodoc(find_func(c, "fit")), ["self._sanity_check"])))

    # ---------------------------------------------------------------- preprocessing/sanitizer.py
    tree, _ = parse_file(repo, "xeofs/preprocessing/sanitizer.py")
    c = find_class(tree, "Sanitizer")
    env = {"X.dims": ("x_dims", "strlist"), "self.sample_name": ("sample_name", "string"),
           "self.feature_name": ("feature_name", "string"),
           "X.coords[self.feature_name]": ("x_feature_coords", "scoord"),
           "self.feature_coords": ("fit_feature_coords", "scoord")}
    t = Block().tr(body_nodoc(find_func(c, "_check_input_dims")), env)
    out.append("Definition sanitizer_check_input_dims (sample_name feature_name : string) (x_dims : list string) : result unit :=\n  %s.\n" % t)
    t = Block().tr(body_nodoc(find_func(c, "_check_input_coords")), env)
    out.append("Definition sanitizer_check_input_coords (x_feature_coords fit_feature_coords : scoord) : result unit :=\n  %s.\n" % t)
    names = ["assert_single_dataarray", "self._check_input_dims", "self._check_input_coords"]
    out.append("Definition sanitizer_transform_order : list string := %s.\n"
               % coq_strlist(call_order(body_nodoc(find_func(c, "transform")), names)))
    tree2, _ = parse_file(repo, "xeofs/utils/sanity_checks.py")
    t = Block().tr(body_nodoc(find_func(tree2, "assert_single_dataarray")), {"da": ("xt", "pyty")})
    out.append("Definition assert_single_dataarray (xt : pyty) : result unit :=\n  %s.\n" % t)

    # ---------------------------------------------------------------- preprocessing/scaler.py
    tree, _ = parse_file(repo, "xeofs/preprocessing/scaler.py")
    c = find_class(tree, "Scaler")
    t = Block().tr(body_nodoc(find_func(c, "_verify_input")), {"X": ("xt", "pyty")})
    out.append("Definition scaler_verify_input (xt : pyty) : result unit :=\n  %s.\n" % t)
    tb = body_nodoc(find_func(c, "transform"))
    # a `with xr.set_options(...)` block around the arithmetic is transparent for the operand list
    flat = []
    for s in tb:
        flat.extend(s.body if isinstance(s, ast.With) else [s])
    tb = flat
    # which stored arrays the data is combined with, under which flag, in source order
    ops = []
    first_arith = None
    for i, s in enumerate(tb):
        cand = []
        if isinstance(s, ast.If) and isinstance(s.test, ast.Subscript) and try_dotted(s.test.value) == "params":
            flag = s.test.slice.value if isinstance(s.test.slice, ast.Constant) else None
            cand = [(flag, x) for x in s.body]
        elif isinstance(s, ast.Assign):
            cand = [("always", s)]
        for flag, a in cand:
            if isinstance(a, ast.Assign) and try_dotted(a.targets[0]) == "X" and isinstance(a.value, ast.BinOp) \
                    and try_dotted(a.value.left) == "X" and (try_dotted(a.value.right) or "").startswith("self."):
                ops.append((flag, try_dotted(a.value.right)[5:]))
                if first_arith is None:
                    first_arith = i
    if not ops or ops[-1][0] != "always":
        raise TransError("Scaler.transform: arithmetic with stored arrays not recognised: %r" % (ops,))
    out.append("(* Scaler.transform combines the data with these stored arrays (flag, attribute); an entry under\n"
               "   \"always\" means xarray broadcasting against a feature-shaped array happens for every configuration *)\n"
               "Definition scaler_transform_operands : list (string * string) := [%s].\n"
               % "; ".join('("%s"%%string, "%s"%%string)' % (f, a) for f, a in ops))
    # does Scaler.transform itself refuse data lacking fitted dimensions / differing coordinates
    # before the first arithmetic?  (on the pinned tree: no)
    pre = tb[:first_arith]
    pre_src = "\n".join(ast.unparse(x) for x in pre)
    dims_guard = any(isinstance(s, ast.If) and raises_kind(s.body) and "dims" in pre_src for s in walk_stmts(pre))
    src = ast.unparse(find_func(c, "transform"))
    exact = ("arithmetic_join='exact'" in src) or ("join='exact'" in src)
    out.append("Definition scaler_refuses_missing_dims : bool := %s.\n" % ("true" if dims_guard else "false"))
    out.append("Definition scaler_exact_join : bool := %s.\n" % ("true" if exact else "false"))

    # ---------------------------------------------------------------- preprocessing/dimension_renamer.py
    tree, _ = parse_file(repo, "xeofs/preprocessing/dimension_renamer.py")
    c = find_class(tree, "DimensionRenamer")
    tb = body_nodoc(find_func(c, "transform"))
    ok = (len(tb) == 1 and isinstance(tb[0], ast.Try) and len(tb[0].body) == 1 and isinstance(tb[0].body[0], ast.Return)
          and ast.unparse(tb[0].body[0].value) == "X.rename(self.dim_mapping)" and len(tb[0].handlers) == 1
          and try_dotted(tb[0].handlers[0].type) == "ValueError" and raises_kind(tb[0].handlers[0].body) in ERRK)
    if not ok:
        raise TransError("DimensionRenamer.transform is not try: return X.rename(self.dim_mapping) except ValueError: raise")
    out.append("(* DimensionRenamer.transform: X.rename(self.dim_mapping); xarray's refusal is re-raised as *)\n"
               "Definition renamer_transform_error : nat := %s.\n" % ERRK[raises_kind(tb[0].handlers[0].body)])

    # ---------------------------------------------------------------- preprocessing/preprocessor.py
    tree, _ = parse_file(repo, "xeofs/preprocessing/preprocessor.py")
    c = find_class(tree, "Preprocessor")
    tb = body_nodoc(find_func(c, "transform"))
    g = guard_if(tb, ["len(X)", "self.n_data"], before=lambda s: isinstance(s, ast.For))
    t = Block().tr([g], {"len(X)": ("len_X", "Z"), "self.n_data": ("n_data", "Z")})
    out.append("Definition preprocessor_check_item_count (len_X n_data : Z) : result unit :=\n  %s.\n" % t)
    tt = body_nodoc(find_func(c, "transformer_types"))
    if not (len(tt) == 1 and isinstance(tt[0], ast.Return) and isinstance(tt[0].value, ast.Call)
            and try_dotted(tt[0].value.func) == "dict" and not tt[0].value.args):
        raise TransError("Preprocessor.transformer_types is not `return dict(name=Class, ...)`")
    order = [(kw.arg, try_dotted(kw.value)) for kw in tt[0].value.keywords]
    out.append("(* order in which Preprocessor.transform applies its transformers *)\n"
               "Definition preprocessor_transformer_order : list (string * string) := [%s].\n"
               % "; ".join('("%s"%%string, "%s"%%string)' % (a, b) for a, b in order))
    loop = [s for s in tb if isinstance(s, ast.For)]
    if len(loop) != 1 or ast.unparse(loop[0].iter) != "self.get_transformers()":
        raise TransError("Preprocessor.transform does not loop over self.get_transformers()")

    # ---------------------------------------------------------------- preprocessing/whitener.py
    tree, _ = parse_file(repo, "xeofs/preprocessing/whitener.py")
    c = find_class(tree, "Whitener")
    g = guard_if(body_nodoc(find_func(c, "__init__")), ["alpha"])
    t = Block(mode="float").tr([g], {"alpha": ("alpha", "float")})
    out.append("Definition whitener_check_alpha_f64 (alpha : float) : result unit :=\n  %s.\n" % t)
    t = Block(mode="F").tr([g], {"alpha": ("alpha", "F")})
    out.append("Definition whitener_check_alpha {F} (K : Ops F) (alpha : F) : result unit :=\n  %s.\n" % t)

    # ---------------------------------------------------------------- cross/base_model_cross_set.py, cross/cpcca.py
    tree, _ = parse_file(repo, "xeofs/cross/base_model_cross_set.py")
    c = find_class(tree, "BaseModelCrossSet")
    t = Block().tr(body_nodoc(find_func(c, "_check_parameter_number")), {"len(parameter)": ("len_parameter", "Z")})
    out.append("Definition cross_check_parameter_number (len_parameter : Z) : result unit :=\n  %s.\n" % t)
    init = body_nodoc(find_func(c, "__init__"))
    g = guard_if(init, ["feature_name[0]", "feature_name[1]"])
    t = Block().tr([g], {"feature_name[0]": ("fn1", "string"), "feature_name[1]": ("fn2", "string")})
    out.append("Definition cross_check_feature_names (fn1 fn2 : string) : result unit :=\n  %s.\n" % t)
    fit = body_nodoc(find_func(c, "fit"))
    names = ["validate_input_type", "convert_to_dim_type", "self.preprocessor1.fit_transform", "self.preprocessor2.fit_transform",
             "self.pca1.fit_transform", "self.pca2.fit_transform", "self.whitener1.fit_transform", "self.whitener2.fit_transform",
             "self._fit_algorithm"]
    out.append("Definition cross_fit_order : list string := %s.\n" % coq_strlist(call_order(fit, names)))
    tree, _ = parse_file(repo, "xeofs/cross/cpcca.py")
    c = find_class(tree, "CPCCA")
    fn = find_func(c, "_compute_cross_covariance_numpy")
    t = Block(guard_only=True).tr(body_nodoc(fn), {"X.shape[0]": ("n_x", "Z"), "Y.shape[0]": ("n_y", "Z")})
    out.append("Definition cpcca_check_sample_count (n_x n_y : Z) : result unit :=\n  %s.\n" % t)
    names = ["self._compute_cross_matrix", "Decomposer", "decomposer.fit"]
    out.append("Definition cpcca_fit_algorithm_order : list string := %s.\n"
               % coq_strlist(call_order(body_nodoc(find_func(c, "_fit_algorithm")), names)))

    # ---------------------------------------------------------------- single/base_model_single_set.py, single/eof.py
    tree, _ = parse_file(repo, "xeofs/single/base_model_single_set.py")
    c = find_class(tree, "BaseModelSingleSet")
    names = ["validate_input_type", "convert_to_dim_type", "self.preprocessor.fit_transform", "self._fit_algorithm"]
    out.append("Definition single_fit_order : list string := %s.\n"
               % coq_strlist(call_order(body_nodoc(find_func(c, "fit")), names)))
    names = ["validate_input_type", "self.preprocessor.transform", "self._transform_algorithm",
             "self.preprocessor.inverse_transform_scores_unseen"]
    out.append("Definition single_transform_order : list string := %s.\n"
               % coq_strlist(call_order(body_nodoc(find_func(c, "transform")), names)))
    tree, _ = parse_file(repo, "xeofs/single/eof.py")
    c = find_class(tree, "EOF")
    src = ast.unparse(find_func(c, "_inverse_transform_algorithm"))
    out.append("(* EOF._inverse_transform_algorithm selects the components by the mode labels of the scores *)\n"
               "Definition eof_inverse_selects_by_label : bool := %s.\n"
               % ("true" if ".sel(mode=scores.mode)" in src else "false"))
    names = ["Decomposer", "decomposer.fit"]
    out.append("Definition eof_fit_algorithm_order : list string := %s.\n"
               % coq_strlist(call_order(body_nodoc(find_func(c, "_fit_algorithm")), names)))
    # ---------------------------------------------------------------- rotators: constructor guards on n_modes
    for nm, rel, cls in (("eof_rotator", "xeofs/single/eof_rotator.py", "EOFRotator"),
                         ("cpcca_rotator", "xeofs/cross/cpcca_rotator.py", "CPCCARotator")):
        tree, _ = parse_file(repo, rel)
        c = find_class(tree, cls)
        init = body_nodoc(find_func(c, "__init__"))
        guards = [s for s in init if isinstance(s, ast.If) and raises_kind(s.body) and not s.orelse
                  and "n_modes" in ast.unparse(s.test)]
        t = Block().tr(guards, {"n_modes": ("n_modes", "pyval")})
        out.append("(* %s.__init__: the guards on n_modes (none on the pinned tree) *)\n"
                   "Definition %s_check_n_modes (n_modes : pyval) : result unit :=\n  %s.\n" % (cls, nm, t))
        fa = body_nodoc(find_func(c, "_fit_algorithm"))
        if "slice(1, n_modes)" not in "\n".join(ast.unparse(x) for x in fa):
            raise TransError("%s._fit_algorithm does not select modes by slice(1, n_modes)" % cls)

    tree, _ = parse_file(repo, "xeofs/linalg/decomposer.py")
    c = find_class(tree, "Decomposer")
    init = body_nodoc(find_func(c, "__init__"))
    if not (isinstance(init[0], ast.Expr) and ast.unparse(init[0].value) == "sanity_check_n_modes(n_modes)"):
        raise TransError("Decomposer.__init__ does not start with sanity_check_n_modes(n_modes)")
    out.append("Definition decomposer_init_checks_n_modes_first : bool := true.\n")
    return "\n".join(out)
