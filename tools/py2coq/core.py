"""Fail-closed helpers for translating small pure pieces of Python to Gallina text."""
import ast
import os


class TransError(Exception):
    pass


def parse_file(repo, rel):
    path = os.path.join(repo, rel)
    with open(path) as f:
        src = f.read()
    return ast.parse(src), src


def find_class(tree, name):
    for n in tree.body:
        if isinstance(n, ast.ClassDef) and n.name == name:
            return n
    raise TransError("class %s not found" % name)


def find_func(scope, name):
    for n in scope.body:
        if isinstance(n, (ast.FunctionDef,)) and n.name == name:
            return n
    raise TransError("function %s not found" % name)


def body_nodoc(fn):
    b = fn.body
    if b and isinstance(b[0], ast.Expr) and isinstance(b[0].value, ast.Constant) and isinstance(b[0].value.value, str):
        b = b[1:]
    return b


def dotted(node):
    """a.b.c -> 'a.b.c' (Name/Attribute chains only)"""
    if isinstance(node, ast.Name):
        return node.id
    if isinstance(node, ast.Attribute):
        return dotted(node.value) + "." + node.attr
    raise TransError("not a dotted name: " + ast.dump(node)[:80])


def try_dotted(node):
    try:
        return dotted(node)
    except TransError:
        return None


def walk_stmts(body):
    """all statements, depth first, including nested blocks"""
    for s in body:
        yield s
        for fld in ("body", "orelse", "finalbody"):
            sub = getattr(s, fld, None)
            if isinstance(sub, list) and sub and isinstance(sub[0], ast.stmt):
                yield from walk_stmts(sub)
        if isinstance(s, ast.Match):
            for c in s.cases:
                yield from walk_stmts(c.body)
        if isinstance(s, ast.Try):
            for h in s.handlers:
                yield from walk_stmts(h.body)


def find_assign(body, target, nth=0):
    """the nth assignment statement (anywhere below) whose single target is `target`"""
    k = 0
    for s in walk_stmts(body):
        if isinstance(s, ast.Assign) and len(s.targets) == 1 and try_dotted(s.targets[0]) == target:
            if k == nth:
                return s
            k += 1
        if isinstance(s, ast.AnnAssign) and try_dotted(s.target) == target and s.value is not None:
            if k == nth:
                return s
            k += 1
    raise TransError("assignment to %s (#%d) not found" % (target, nth))


def all_assigns(body, target):
    out = []
    for s in walk_stmts(body):
        if isinstance(s, ast.Assign) and len(s.targets) == 1 and try_dotted(s.targets[0]) == target:
            out.append(s)
    return out


def raises_kind(stmts):
    """if the block is (only) a raise of a builtin exception, return its class name"""
    for s in stmts:
        if isinstance(s, ast.Raise):
            e = s.exc
            if isinstance(e, ast.Call):
                e = e.func
            return try_dotted(e)
    return None


ERRK = {"TypeError": "ETypeError", "ValueError": "EValueError", "KeyError": "EKeyError",
        "IndexError": "EKeyError", "NotImplementedError": "ENotImplemented",
        "np.linalg.LinAlgError": "ELinAlg"}


def float_lit(x):
    x = float(x)
    if x == 0:
        return "0%float"
    h = x.hex()
    return "(%s)%%float" % h


class Expr:
    """expression translator. env: python dotted name -> (coq text, type) with type in
    {'Z','bool','F','float','string','pyty'}; mode 'float' emits PrimFloat arithmetic,
    mode 'F' emits operations of an abstract `K : Ops F`."""

    def __init__(self, env, mode="float"):
        self.env = env
        self.mode = mode

    def fop(self, op, a, b):
        if self.mode == "float":
            return "(PrimFloat.%s %s %s)" % ({"+": "add", "-": "sub", "*": "mul", "/": "div"}[op], a, b)
        return "(%s K %s %s)" % ({"+": "fadd", "-": "fsub", "*": "fmul", "/": "fdiv"}[op], a, b)

    def toF(self, t, ty):
        if ty in ("F", "float"):
            return t
        if ty == "Z":
            return "(float_ofZ %s)" % t if self.mode == "float" else "(fofZ K %s)" % t
        raise TransError("cannot coerce %s to scalar" % ty)

    def fty(self):
        return "float" if self.mode == "float" else "F"

    def tr(self, n):
        if isinstance(n, ast.Constant):
            v = n.value
            if isinstance(v, bool):
                return ("true" if v else "false"), "bool"
            if isinstance(v, int):
                return ("%d%%Z" % v if v >= 0 else "(%d)%%Z" % v), "Z"
            if isinstance(v, float):
                if self.mode != "float":
                    raise TransError("float literal in abstract-field expression")
                return float_lit(v), "float"
            if isinstance(v, str):
                return '"%s"%%string' % v, "string"
            raise TransError("constant %r" % (v,))
        d = try_dotted(n)
        if d is not None:
            if d in self.env:
                return self.env[d]
            raise TransError("unknown name %s" % d)
        if isinstance(n, ast.IfExp):
            c, ct = self.tr(n.test)
            a, at = self.tr(n.body)
            b, bt = self.tr(n.orelse)
            if ct != "bool" or at != bt:
                raise TransError("ill-typed conditional expression")
            return "(if %s then %s else %s)" % (c, a, b), at
        if isinstance(n, ast.BoolOp):
            parts = [self.tr(v) for v in n.values]
            if any(t != "bool" for _, t in parts):
                raise TransError("non-bool operand of and/or")
            op = " && " if isinstance(n.op, ast.And) else " || "
            return "(" + op.join(p for p, _ in parts) + ")", "bool"
        if isinstance(n, ast.UnaryOp):
            a, at = self.tr(n.operand)
            if isinstance(n.op, ast.Not) and at == "bool":
                return "(negb %s)" % a, "bool"
            if isinstance(n.op, ast.USub) and at == "Z":
                return "(- %s)%%Z" % a, "Z"
            raise TransError("unary op")
        if isinstance(n, ast.Compare):
            terms = [n.left] + list(n.comparators)
            outs = []
            for op, l, r in zip(n.ops, terms, terms[1:]):
                outs.append(self.cmp(op, l, r))
            return "(" + " && ".join(outs) + ")", "bool"
        if isinstance(n, ast.BinOp):
            a, at = self.tr(n.left)
            b, bt = self.tr(n.right)
            sym = {ast.Add: "+", ast.Sub: "-", ast.Mult: "*", ast.Div: "/", ast.FloorDiv: "//"}.get(type(n.op))
            if sym is None:
                raise TransError("binary op %s" % type(n.op).__name__)
            if at == "Z" and bt == "Z" and sym in "+-*":
                return "(%s %s %s)%%Z" % (a, sym, b), "Z"
            if at == "Z" and bt == "Z" and sym == "//":
                return "(%s / %s)%%Z" % (a, b), "Z"
            if sym == "//":
                raise TransError("floor division on scalars")
            return self.fop(sym, self.toF(a, at), self.toF(b, bt)), self.fty()
        if isinstance(n, ast.Call):
            f = try_dotted(n.func)
            if f == "int" and len(n.args) == 1:
                a, at = self.tr(n.args[0])
                if at == "Z":
                    return a, "Z"
                if at == "float":
                    return "(float_truncZ %s)" % a, "Z"
                raise TransError("int() of %s" % at)
            if f in ("min", "max") and len(n.args) == 2:
                a, at = self.tr(n.args[0])
                b, bt = self.tr(n.args[1])
                if at == bt == "Z":
                    return "(Z.%s %s %s)" % (f, a, b), "Z"
            if f == "isinstance" and len(n.args) == 2:
                a, at = self.tr(n.args[0])
                if at != "pyty":
                    raise TransError("isinstance on non-dynamic value")
                tys = n.args[1].elts if isinstance(n.args[1], ast.Tuple) else [n.args[1]]
                tags = []
                for t in tys:
                    nm = try_dotted(t)
                    tag = {"int": "TInt", "float": "TFloat", "str": "TStr", "bool": "TBool", "list": "TList",
                           "tuple": "TTuple", "dict": "TDict", "xr.DataArray": "TDataArray",
                           "xr.Dataset": "TDataset", "type(None)": "TNone"}.get(nm)
                    if tag is None:
                        raise TransError("isinstance with type %s" % nm)
                    tags.append(tag)
                return "(pyty_isinstance %s [%s])" % (a, "; ".join(tags)), "bool"
            raise TransError("call %s" % (f,))
        raise TransError("expression %s" % type(n).__name__)

    def cmp(self, op, l, r):
        a, at = self.tr(l)
        if isinstance(op, (ast.In, ast.NotIn)):
            if not isinstance(r, (ast.List, ast.Tuple)):
                raise TransError("`in` with non-literal container")
            items = [self.tr(e) for e in r.elts]
            if at == "string" and all(t == "string" for _, t in items):
                body = "(existsb (String.eqb %s) [%s])" % (a, "; ".join(i for i, _ in items))
            else:
                raise TransError("`in` over %s" % at)
            return body if isinstance(op, ast.In) else "(negb %s)" % body
        b, bt = self.tr(r)
        if at == "Z" and bt == "Z":
            sym = {ast.Lt: "<?", ast.LtE: "<=?", ast.Gt: ">?", ast.GtE: ">=?", ast.Eq: "=?"}.get(type(op))
            if sym:
                return "(%s %s %s)%%Z" % (a, sym, b)
            if isinstance(op, ast.NotEq):
                return "(negb (%s =? %s)%%Z)" % (a, b)
        if at == "string" and bt == "string" and isinstance(op, (ast.Eq, ast.NotEq)):
            e = "(String.eqb %s %s)" % (a, b)
            return e if isinstance(op, ast.Eq) else "(negb %s)" % e
        if at == "bool" and bt == "bool" and isinstance(op, ast.Eq):
            return "(Bool.eqb %s %s)" % (a, b)
        if at in ("F", "float", "Z") and bt in ("F", "float", "Z"):
            x, y = self.toF(a, at), self.toF(b, bt)
            leb = "PrimFloat.leb" if self.mode == "float" else "fleb K"
            ltb = "PrimFloat.ltb" if self.mode == "float" else None
            if isinstance(op, ast.LtE):
                return "(%s %s %s)" % (leb, x, y)
            if isinstance(op, ast.GtE):
                return "(%s %s %s)" % (leb, y, x)
            if isinstance(op, ast.Lt):
                return "(%s %s %s)" % (ltb, x, y) if ltb else "(negb (%s %s %s))" % (leb, y, x)
            if isinstance(op, ast.Gt):
                return "(%s %s %s)" % (ltb, y, x) if ltb else "(negb (%s %s %s))" % (leb, x, y)
        raise TransError("comparison %s between %s and %s" % (type(op).__name__, at, bt))


def write_if_changed(path, text):
    old = None
    if os.path.exists(path):
        with open(path) as f:
            old = f.read()
    if old != text:
        os.makedirs(os.path.dirname(path), exist_ok=True)
        with open(path, "w") as f:
            f.write(text)
        return True
    return False
