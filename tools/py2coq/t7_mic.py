"""T7 (MultiIndexConverter): statement shapes of __init__/fit/transform/_inverse_transform -> parameters of Model/Mic.v.
Fail closed: any shape not listed here raises TransError."""
import ast

from .core import TransError, body_nodoc, find_class, find_func, parse_file

REL = "xeofs/preprocessing/multi_index_converter.py"

FIT = """for dim in X.dims:
    index = X.indexes[dim]
    if isinstance(index, pd.MultiIndex):
        self.coords_from_fit[dim] = X.coords[dim]
        self.modified_dimensions.append(dim)
return self"""

TRANSFORM_HEAD = "X_transformed = X.copy(deep=True)"
TRANSFORM_TAIL = ["index = X_transformed.indexes[dim]", "X_transformed = X_transformed.drop_vars(dim)", "X_transformed.coords[dim] = range(index.size)"]
STORE_ALWAYS = ["self.coords_from_transform[dim] = X_transformed.coords[dim]"]
STORE_IF_SIZE = ["coords = X_transformed.coords[dim]", "stored = self.coords_from_transform.get(dim)",
                 "if stored is None or stored.shape != coords.shape:\n    self.coords_from_transform[dim] = coords"]

INV_HEAD = ["X_inverse_transformed = X.copy(deep=True)",
            "match reference:\n    case 'fit':\n        reference_indexes = self.coords_from_fit\n    case 'transform':\n        reference_indexes = self.coords_from_transform"]
INV_TAKE = ["positions = X_inverse_transformed.coords[dim].values",
            "if original_index.sizes[dim] != positions.size:\n    original_index = original_index.isel({dim: positions})"]
INV_REST = ["X_inverse_transformed.coords[dim] = original_index",
            "indexes = [idx for idx in original_index.indexes.keys() if idx != dim]",
            "X_inverse_transformed = X_inverse_transformed.set_index({dim: indexes})"]
WRAPPERS = {"inverse_transform_data": "fit", "inverse_transform_components": "fit", "inverse_transform_scores": "fit",
            "inverse_transform_scores_unseen": "transform"}


def up(stmts):
    return [ast.unparse(s) for s in stmts]


def gen(repo):
    tree, _ = parse_file(repo, REL)
    cls = find_class(tree, "MultiIndexConverter")
    # __init__: three separate fresh containers; a chained assignment or attribute-to-attribute assignment aliases them
    init = body_nodoc(find_func(cls, "__init__"))
    aliased = False
    seen = {}
    for s in init:
        src = ast.unparse(s)
        if src == "super().__init__()":
            continue
        if not isinstance(s, ast.Assign):
            raise TransError("__init__: unexpected statement %r" % src)
        names = []
        for t in s.targets:
            if not (isinstance(t, ast.Attribute) and isinstance(t.value, ast.Name) and t.value.id == "self"):
                raise TransError("__init__: unexpected target in %r" % src)
            names.append(t.attr)
        v = ast.unparse(s.value)
        if v in ("[]", "{}", "dict()", "list()"):
            if len(names) > 1 and {"coords_from_fit", "coords_from_transform"} <= set(names):
                aliased = True
            elif len(names) > 1:
                raise TransError("__init__: chained assignment %r" % src)
        elif v in ("self.coords_from_fit", "self.coords_from_transform"):
            aliased = True
        else:
            raise TransError("__init__: unexpected value in %r" % src)
        for n in names:
            seen[n] = v
    if set(seen) != {"modified_dimensions", "coords_from_fit", "coords_from_transform"}:
        raise TransError("__init__: attributes %r" % sorted(seen))
    # fit
    if "\n".join(up(body_nodoc(find_func(cls, "fit")))) != FIT:
        raise TransError("fit: body changed")
    # transform
    tb = body_nodoc(find_func(cls, "transform"))
    if len(tb) != 3 or ast.unparse(tb[0]) != TRANSFORM_HEAD or ast.unparse(tb[2]) != "return X_transformed" or not isinstance(tb[1], ast.For):
        raise TransError("transform: outline changed")
    loop = tb[1]
    if ast.unparse(loop.target) != "dim" or ast.unparse(loop.iter) != "self.modified_dimensions" or loop.orelse:
        raise TransError("transform: loop header changed")
    lb = up(loop.body)
    if lb == STORE_ALWAYS + TRANSFORM_TAIL:
        store = "StoreAlways"
    elif lb == STORE_IF_SIZE + TRANSFORM_TAIL:
        store = "StoreIfSizeDiffers"
    else:
        raise TransError("transform: loop body changed")
    # _inverse_transform
    ib = body_nodoc(find_func(cls, "_inverse_transform"))
    if len(ib) != 4 or up(ib[:2]) != INV_HEAD or ast.unparse(ib[3]) != "return X_inverse_transformed" or not isinstance(ib[2], ast.For):
        raise TransError("_inverse_transform: outline changed")
    loop = ib[2]
    if [getattr(e, "id", None) for e in getattr(loop.target, "elts", [])] != ["dim", "original_index"] \
            or ast.unparse(loop.iter) != "reference_indexes.items()" or loop.orelse or len(loop.body) != 1 or not isinstance(loop.body[0], ast.If) or loop.body[0].orelse \
            or ast.unparse(loop.body[0].test) != "dim in X_inverse_transformed.dims":
        raise TransError("_inverse_transform: loop changed")
    inner = up(loop.body[0].body)
    if inner == INV_TAKE + INV_REST:
        take = "TakeWhenShorter"
    elif inner == INV_REST:
        take = "TakeNever"
    else:
        raise TransError("_inverse_transform: loop body changed")
    rows = []
    for w, ref in WRAPPERS.items():
        b = up(body_nodoc(find_func(cls, w)))
        if b == ["return self._inverse_transform(X, reference='fit')"]:
            rows.append((w, "RefFit"))
        elif b == ["return self._inverse_transform(X, reference='transform')"]:
            rows.append((w, "RefTransform"))
        else:
            raise TransError("%s: body changed" % w)
    out = ["(* generated by tools/py2coq/t7_mic.py from %s *)" % REL, "From Coq Require Import String List Bool.",
           "From XV Require Import Model.Mic.", "Import ListNotations.", "Open Scope string_scope.", "",
           "Definition src_params : params := mkP %s %s %s." % ("true" if aliased else "false", store, take), "",
           "Definition wrapper_refs : list (string * reference) := [", ";\n".join('  ("%s", %s)' % r for r in rows), "]."]
    return "\n".join(out) + "\n"
