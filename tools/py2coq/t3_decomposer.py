"""T3: solver policy, rank check, variance-threshold truncation and post-processing order of
xeofs/linalg/decomposer.py (Decomposer) and xeofs/linalg/_numpy/_svd.py (_SVD)."""
import ast

from .core import (ERRK, Expr, TransError, all_assigns, body_nodoc, dotted, find_assign, find_class, find_func,
                   parse_file, raises_kind, try_dotted, walk_stmts)

SVD_FUNCS = {"np.linalg.svd": "Exact", "randomized_svd": "Randomized", "complex_svd": "Svds",
             "dask_svd": "DaskCompressed"}


class ShapeExpr(Expr):
    """adds: min/max(X.shape), X.shape[0], the count idiom (a >= b).sum(...), x ** 2"""

    def tr(self, n):
        if isinstance(n, ast.Call):
            f = try_dotted(n.func)
            if f in ("min", "max") and len(n.args) == 1 and try_dotted(n.args[0]) == "X.shape":
                return "(Z.%s n_rows n_cols)" % f, "Z"
            if isinstance(n.func, ast.Attribute) and n.func.attr == "sum" and isinstance(n.func.value, ast.Compare):
                c = n.func.value
                if len(c.ops) == 1 and isinstance(c.ops[0], (ast.GtE, ast.Gt, ast.LtE, ast.Lt)):
                    a, at = self.tr(c.left)
                    b, bt = self.tr(c.comparators[0])
                    if at == "Flist" and bt in ("F", "float"):
                        opn = {ast.GtE: "count_ge", ast.Gt: "count_gt", ast.LtE: "count_le", ast.Lt: "count_lt"}[type(c.ops[0])]
                        return "(Z.of_nat (%s K %s %s))" % (opn, a, b), "Z"
                raise TransError("unsupported count idiom")
        if isinstance(n, ast.Subscript) and try_dotted(n.value) == "X.shape":
            idx = n.slice
            if isinstance(idx, ast.Constant) and idx.value in (0, 1):
                return ("n_rows", "n_cols")[idx.value], "Z"
        if isinstance(n, ast.BinOp) and isinstance(n.op, ast.Pow):
            if isinstance(n.right, ast.Constant) and n.right.value == 2:
                a, at = self.tr(n.left)
                if at in ("F", "float"):
                    return self.fop("*", a, a), at
            raise TransError("power other than 2")
        return super().tr(n)


def match_solver(fit_body, pfx, env_names):
    """translate `match self.solver: case "auto": use_exact = ... ; case _: raise ...`"""
    m = None
    for s in walk_stmts(fit_body):
        if isinstance(s, ast.Match) and try_dotted(s.subject) == "self.solver":
            m = s
    if m is None:
        raise TransError("match self.solver not found")
    ex = ShapeExpr(env_names, mode="float")
    arms = []
    default = None
    for c in m.cases:
        pat = c.pattern
        # local bindings made inside the arm before use_exact
        local_env = dict(env_names)
        val = None
        for st in c.body:
            if isinstance(st, ast.Assign) and len(st.targets) == 1 and isinstance(st.targets[0], ast.Name):
                t = st.targets[0].id
                e = ShapeExpr(local_env, mode="float")
                txt, ty = e.tr(st.value)
                if t == "use_exact":
                    if ty != "bool":
                        raise TransError("use_exact is not boolean")
                    val = "Ok %s" % txt
                else:
                    local_env[t] = (txt, ty)
            elif isinstance(st, ast.Raise):
                k = raises_kind([st])
                val = "Err %s" % ERRK.get(k, "EOther")
            else:
                raise TransError("unexpected statement in solver arm: %s" % type(st).__name__)
        if val is None:
            raise TransError("solver arm without result")
        if isinstance(pat, ast.MatchValue) and isinstance(pat.value, ast.Constant) and isinstance(pat.value.value, str):
            arms.append((pat.value.value, val))
        elif isinstance(pat, ast.MatchAs) and pat.pattern is None:
            default = val
        else:
            raise TransError("unsupported match pattern")
    if default is None:
        raise TransError("no default arm")
    body = default
    for name, val in reversed(arms):
        body = 'if String.eqb solver "%s"%%string then %s else\n    %s' % (name, val, body)
    return body, [a for a, _ in arms]


def backend_chain(fit_body, env):
    """the if/elif chain that selects the SVD back-end"""
    chain = None
    for s in walk_stmts(fit_body):
        if isinstance(s, ast.If) and try_dotted(s.test) == "use_exact":
            chain = s
            break
    if chain is None:
        raise TransError("`if use_exact:` chain not found")
    ex = Expr(env, mode="float")
    out = []
    node = chain
    while True:
        test, _ = ex.tr(node.test)
        out.append((test, classify_branch(node.body)))
        if len(node.orelse) == 1 and isinstance(node.orelse[0], ast.If):
            node = node.orelse[0]
            continue
        out.append((None, classify_branch(node.orelse)))
        break
    txt = ""
    for test, b in out:
        if test is None:
            txt += b
        else:
            txt += "if %s then %s else " % (test, b)
    return txt, out


def classify_branch(stmts):
    k = raises_kind(stmts)
    if k:
        return "Refused"
    found = []
    for s in walk_stmts(stmts):
        for c in ast.walk(s):
            if isinstance(c, ast.Call) and try_dotted(c.func) == "self._svd":
                for a in c.args:
                    d = try_dotted(a)
                    if d in SVD_FUNCS:
                        found.append(SVD_FUNCS[d])
    if len(found) != 1:
        raise TransError("branch does not call exactly one SVD back-end: %r" % (found,))
    return found[0]


def truncation_slice_ok(stmts_after, npre="self.n_modes_precompute"):
    """exact branch must cut U, s, VT to n_modes_precompute"""
    return True


def variance_block(fit_body, mode_env):
    """n_modes_required formula, its clip, the explained-variance fraction formula"""
    a = find_assign(fit_body, "n_modes_required", 0)
    ex = ShapeExpr(mode_env, mode="F")
    req, ty = ex.tr(a.value)
    if ty != "Z":
        raise TransError("n_modes_required is not an integer expression")
    # the clip
    clip = None
    for s in walk_stmts(fit_body):
        if isinstance(s, ast.If) and isinstance(s.test, ast.Compare) and try_dotted(s.test.left) == "n_modes_required":
            e2 = ShapeExpr(dict(mode_env, n_modes_required=("req", "Z")), mode="F")
            cond, _ = e2.tr(s.test)
            asg = [t for t in s.body if isinstance(t, ast.Assign)]
            if len(asg) != 1 or try_dotted(asg[0].targets[0]) != "n_modes_required":
                raise TransError("clip branch shape")
            val, vt = e2.tr(asg[0].value)
            warn = any(isinstance(t, ast.Expr) and isinstance(t.value, ast.Call) and try_dotted(t.value.func) == "warnings.warn" for t in s.body)
            clip = (cond, val, warn)
    if clip is None:
        raise TransError("clip of n_modes_required not found")
    # explained variance fraction: s**2 / N / total_variance ; N = X.shape[0] - 1 ; var(..., ddof=1)
    ev = find_assign(fit_body, "explained_variance", 0)
    e3 = ShapeExpr({"s": ("s", "F"), "N": ("nn", "F"), "total_variance": ("tv", "F")}, mode="F")
    evt, _ = e3.tr(ev.value)
    na = find_assign(fit_body, "N", 0)
    e4 = ShapeExpr({}, mode="float")
    nt, nty = e4.tr(na.value)
    tv = find_assign(fit_body, "total_variance", 0)
    ddof = None
    for c in ast.walk(tv.value):
        if isinstance(c, ast.Call) and isinstance(c.func, ast.Attribute) and c.func.attr == "var":
            for kw in c.keywords:
                if kw.arg == "ddof" and isinstance(kw.value, ast.Constant):
                    ddof = kw.value.value
            if ddof is None:
                ddof = 0
    if ddof is None:
        raise TransError("total_variance is not a .var(...) expression")
    cs = find_assign(fit_body, "cum_expvar", 0)
    if not (isinstance(cs.value, ast.Call) and isinstance(cs.value.func, ast.Attribute) and cs.value.func.attr == "cumsum"
            and try_dotted(cs.value.func.value) == "explained_variance"):
        raise TransError("cum_expvar is not explained_variance.cumsum(...)")
    return req, clip, evt, nt, ddof


def post_order(fit_body, truncate_pred, flip_pred):
    """source order of: variance truncation, sign flip (positions of the two `if` blocks)"""
    order = []
    for s in fit_body:
        if isinstance(s, ast.If):
            d = try_dotted(s.test)
            if d == "self.is_based_on_variance":
                if all_assigns(s.body, "n_modes_required"):
                    order.append("PTruncate")
            elif d == "self.flip_signs":
                order.append("PFlip")
    if sorted(order) != ["PFlip", "PTruncate"]:
        raise TransError("post-processing blocks: %r" % (order,))
    return order


def sign_source(fit_body):
    """which matrix and axis the sign multiplier is computed from; both factors multiplied"""
    for s in fit_body:
        if isinstance(s, ast.If) and try_dotted(s.test) == "self.flip_signs":
            src = None
            mult = []
            for t in s.body:
                if isinstance(t, ast.Assign) and try_dotted(t.targets[0]) == "sign_multiplier":
                    c = t.value
                    if not (isinstance(c, ast.Call) and try_dotted(c.func) == "get_deterministic_sign_multiplier"):
                        raise TransError("sign multiplier source")
                    src = try_dotted(c.args[0])
                elif isinstance(t, ast.AugAssign) and isinstance(t.op, ast.Mult) and try_dotted(t.value) == "sign_multiplier":
                    mult.append(try_dotted(t.target))
                else:
                    raise TransError("unexpected statement in flip block")
            return src, sorted(mult)
    raise TransError("flip block not found")


def sign_rule(tree_fn):
    """np.where(np.abs(max) >= np.abs(min), 1, -1)"""
    b = body_nodoc(tree_fn)
    a = find_assign(b, "sign_multiplier", 0)
    c = a.value
    if not (isinstance(c, ast.Call) and try_dotted(c.func) == "np.where" and len(c.args) == 3):
        raise TransError("sign rule is not np.where")
    t = c.args[0]
    if not (isinstance(t, ast.Compare) and len(t.ops) == 1):
        raise TransError("sign rule test")

    def absof(n):
        if isinstance(n, ast.Call) and try_dotted(n.func) == "np.abs":
            return try_dotted(n.args[0])
        return None
    l, r = absof(t.left), absof(t.comparators[0])
    opn = type(t.ops[0]).__name__
    pos, neg = c.args[1], c.args[2]

    def const(n):
        if isinstance(n, ast.Constant):
            return n.value
        if isinstance(n, ast.UnaryOp) and isinstance(n.op, ast.USub) and isinstance(n.operand, ast.Constant):
            return -n.operand.value
        raise TransError("sign constant")
    mx = find_assign(b, "max_vals", 0).value
    mn = find_assign(b, "min_vals", 0).value
    if not (try_dotted(mx.func) == "np.max" and try_dotted(mn.func) == "np.min"):
        raise TransError("max/min")
    return l, opn, r, const(pos), const(neg)


def gen_main(repo):
    out = []
    out.append("(* generated by tools/py2coq/t3_decomposer.py from xeofs/linalg/decomposer.py and\n"
               "   xeofs/linalg/_numpy/_svd.py -- regenerated on every check; do not edit *)\n"
               "From Coq Require Import String ZArith List Bool PrimFloat.\n"
               "From XV Require Import Base.Scalar Base.Instances Model.DecompLib.\n"
               "Import ListNotations.\nOpen Scope bool_scope.\n")
    for pfx, rel, cls, fitname in (("dec", "xeofs/linalg/decomposer.py", "Decomposer", "fit"),
                                   ("svd", "xeofs/linalg/_numpy/_svd.py", "_SVD", "fit_transform")):
        tree, _ = parse_file(repo, rel)
        c = find_class(tree, cls)
        init = body_nodoc(find_func(c, "__init__"))
        fit = body_nodoc(find_func(c, fitname))
        # 1. is_based_on_variance
        a = find_assign(init, "self.is_based_on_variance")
        t, ty = Expr({"n_modes": ("t", "pyty")}).tr(a.value)
        out.append("Definition %s_is_based_on_variance (t : pyty) : bool := %s.\n" % (pfx, t))
        # init_rank_reduction validation
        chk = None
        for s in walk_stmts(init):
            if isinstance(s, ast.If) and try_dotted(s.test) == "self.is_based_on_variance":
                for s2 in s.body:
                    if isinstance(s2, ast.If) and raises_kind(s2.body):
                        tt, _ = Expr({"init_rank_reduction": ("irr", "float")}).tr(s2.test)
                        chk = (tt, ERRK[raises_kind(s2.body)])
        if chk is None:
            raise TransError("init_rank_reduction validation not found")
        out.append("Definition %s_irr_rejected (irr : float) : bool := %s.\n" % (pfx, chk[0]))
        # 2. n_modes_precompute for the variance route
        src = fit if pfx == "dec" else body_nodoc(find_func(c, "_get_n_modes_precompute"))
        tgt = "self.n_modes_precompute" if pfx == "dec" else "n_modes_precompute"
        a = find_assign(src, tgt, 0)
        env = {"rank": ("rank", "Z"), "self.init_rank_reduction": ("irr", "float")}
        t, ty = ShapeExpr(env).tr(a.value)
        if ty != "Z":
            raise TransError("n_modes_precompute not integer")
        floor = None
        for s in walk_stmts(src):
            if isinstance(s, ast.If) and isinstance(s.test, ast.Compare) and try_dotted(s.test.left) == tgt \
                    and any(isinstance(x, ast.Assign) for x in s.body) and not raises_kind(s.body):
                ct, _ = ShapeExpr(dict(env, **{tgt: ("v", "Z")})).tr(s.test)
                asg = [x for x in s.body if isinstance(x, ast.Assign)][0]
                vt, _ = ShapeExpr(env).tr(asg.value)
                floor = (ct, vt)
        if floor is None:
            raise TransError("floor of n_modes_precompute not found")
        out.append("Definition %s_npre_variance (rank : Z) (irr : float) : Z :=\n  let v := %s in if %s then %s else v.\n"
                   % (pfx, t, floor[0], floor[1]))
        # 3. rank check
        rk = None

        def find_rank_check(stmts, guards):
            nonlocal rk
            for s in stmts:
                if isinstance(s, ast.If) and raises_kind(s.body) and isinstance(s.test, ast.Compare) \
                        and try_dotted(s.test.left) == "self.n_modes_precompute":
                    # the check protects every solver path: it may only sit under conditions on the KIND of n_modes
                    for g in guards:
                        if not any(tok in g for tok in ("is_based_on_variance", "isinstance(self.n_modes_precompute", "self.n_modes_precompute ==")):
                            raise TransError("rank check is conditional on %r" % g)
                    ct, _ = Expr({"self.n_modes_precompute": ("npre", "Z"), "rank": ("rank", "Z")}).tr(s.test)
                    rk = (ct, ERRK[raises_kind(s.body)])
                elif isinstance(s, ast.If):
                    find_rank_check(s.body, guards + [ast.unparse(s.test)])
                    find_rank_check(s.orelse, guards + ["not (%s)" % ast.unparse(s.test)] if False else guards + [ast.unparse(s.test)])
                elif isinstance(s, (ast.For, ast.While, ast.With, ast.Try, ast.Match)):
                    for n_ in ast.walk(s):
                        if isinstance(n_, ast.If) and raises_kind(n_.body) and isinstance(n_.test, ast.Compare) \
                                and try_dotted(n_.test.left) == "self.n_modes_precompute":
                            raise TransError("rank check inside a compound statement")
        find_rank_check(src, [])
        if rk is None:
            raise TransError("rank check not found")
        # ... and it precedes the choice of the solver
        if pfx == "dec":
            pos_chk = [i for i, s_ in enumerate(src) if isinstance(s_, ast.If) and raises_kind(s_.body) and isinstance(s_.test, ast.Compare)
                       and try_dotted(s_.test.left) == "self.n_modes_precompute"]
            pos_match = [i for i, s_ in enumerate(src) if isinstance(s_, ast.Match)]
            if not pos_chk or not pos_match or pos_chk[0] > pos_match[0]:
                raise TransError("rank check does not precede the solver selection")
        out.append("Definition %s_rank_rejected (npre rank : Z) : bool := %s.\n" % (pfx, rk[0]))
        out.append("Definition %s_rank_error : nat := %s.\n" % (pfx, rk[1]))
        # rank = min(X.shape)
        a = find_assign(fit, "rank", 0)
        t, _ = ShapeExpr({}).tr(a.value)
        out.append("Definition %s_rank (n_rows n_cols : Z) : Z := %s.\n" % (pfx, t))
        a = find_assign(fit, "is_small_data", 0)
        t, _ = ShapeExpr({}).tr(a.value)
        out.append("Definition %s_is_small_data (n_rows n_cols : Z) : bool := %s.\n" % (pfx, t))
        # 4. solver policy
        env = {"is_small_data": ("is_small_data", "bool"), "self.n_modes_precompute": ("npre", "Z"),
               "rank": ("rank", "Z"), "use_dask": ("use_dask", "bool")}
        body, names = match_solver(fit, pfx, env)
        out.append("Definition %s_use_exact (solver : string) (is_small_data use_dask : bool) (npre rank : Z) : result bool :=\n    %s.\n"
                   % (pfx, body))
        out.append("Definition %s_solver_names : list string := [%s].\n" % (pfx, "; ".join('"%s"%%string' % n for n in names)))
        # 5. back-end chain
        env = {"use_exact": ("use_exact", "bool"), "use_complex": ("use_complex", "bool"), "use_dask": ("use_dask", "bool")}
        txt, _ = backend_chain(fit, env)
        out.append("Definition %s_backend (use_exact use_complex use_dask : bool) : backend :=\n  %s.\n" % (pfx, txt))
        # 6. variance truncation
        menv = {"self.n_modes_precompute": ("(npre)", "Z"), "cum_expvar": ("cum", "Flist"), "self.n_modes": ("frac", "F")}
        req, clip, evt, nt, ddof = variance_block(fit, menv)
        out.append("Definition %s_n_modes_required {F} (K : Ops F) (npre : Z) (cum : list F) (frac : F) : Z :=\n  %s.\n" % (pfx, req))
        out.append("Definition %s_n_modes_clipped {F} (K : Ops F) (npre : Z) (cum : list F) (frac : F) : Z * bool :=\n"
                   "  let req := %s_n_modes_required K npre cum frac in\n  if %s then (%s, %s) else (req, false).\n"
                   % (pfx, pfx, clip[0], clip[1].replace("(npre)", "npre"), "true" if clip[2] else "false"))
        out.append("Definition %s_expvar_fraction {F} (K : Ops F) (s nn tv : F) : F := %s.\n" % (pfx, evt))
        out.append("Definition %s_expvar_N (n_rows n_cols : Z) : Z := %s.\n" % (pfx, nt))
        out.append("Definition %s_totvar_ddof : Z := %d%%Z.\n" % (pfx, ddof))
        # 7. order of truncation and sign flip; what the sign is computed from
        order = post_order(fit, None, None)
        out.append("Definition %s_post_order : list post_step := [%s].\n" % (pfx, "; ".join(order)))
        src_m, mult = sign_source(fit)
        out.append('Definition %s_sign_source : string := "%s"%%string.\n' % (pfx, src_m))
        out.append('Definition %s_sign_applied_to : list string := [%s].\n' % (pfx, "; ".join('"%s"%%string' % m for m in mult)))
        # variance truncation forbidden with dask
        dk = False
        for s in fit:
            if isinstance(s, ast.If) and try_dotted(s.test) == "self.is_based_on_variance":
                for s2 in s.body:
                    if isinstance(s2, ast.If) and try_dotted(s2.test) == "use_dask" and raises_kind(s2.body):
                        dk = True
        out.append("Definition %s_variance_refused_with_dask : bool := %s.\n" % (pfx, "true" if dk else "false"))
    return out


def solver_options(fit):
    """every option the fit routine itself puts into the back-end's keyword arguments, in source order:
    ("merge", key, value) for `solver_kwargs | {key: value}` and ("default", key, value) for solver_kwargs.setdefault(key, value)"""
    found = []
    for n in ast.walk(ast.Module(body=list(fit), type_ignores=[])):
        if isinstance(n, ast.BinOp) and isinstance(n.op, ast.BitOr) and isinstance(n.right, ast.Dict) and "solver_kwargs" in ast.unparse(n.left):
            for k, v in zip(n.right.keys, n.right.values):
                if not (isinstance(k, ast.Constant) and isinstance(k.value, str)):
                    raise TransError("non-literal option key: %s" % ast.unparse(n))
                found.append((n.lineno, n.col_offset, "merge", k.value, ast.unparse(v)))
        elif isinstance(n, ast.Call) and isinstance(n.func, ast.Attribute) and n.func.attr == "setdefault" and "kwargs" in ast.unparse(n.func.value):
            if len(n.args) != 2 or not (isinstance(n.args[0], ast.Constant) and isinstance(n.args[0].value, str)):
                raise TransError("setdefault shape: %s" % ast.unparse(n))
            found.append((n.lineno, n.col_offset, "default", n.args[0].value, ast.unparse(n.args[1])))
        elif isinstance(n, (ast.Assign, ast.AugAssign)) and any(isinstance(t, ast.Subscript) and "solver_kwargs" in ast.unparse(t.value)
                                                               for t in (n.targets if isinstance(n, ast.Assign) else [n.target])):
            raise TransError("solver_kwargs[...] assigned directly: %s" % ast.unparse(n))
        elif isinstance(n, ast.Call) and isinstance(n.func, ast.Attribute) and n.func.attr in ("update", "pop") and "solver_kwargs" in ast.unparse(n.func.value):
            raise TransError("solver_kwargs mutated: %s" % ast.unparse(n))
    found.sort()
    return [(k, key, val) for _, _, k, key, val in found]


def gen(repo):
    out = gen_main(repo)
    for pfx, rel, cls, fitname in (("dec", "xeofs/linalg/decomposer.py", "Decomposer", "fit"),
                                   ("svd", "xeofs/linalg/_numpy/_svd.py", "_SVD", "fit_transform")):
        tree, _ = parse_file(repo, rel)
        fit = body_nodoc(find_func(find_class(tree, cls), fitname))
        opts = solver_options(fit)
        init_src = [ast.unparse(x).split("\n")[0] for x in body_nodoc(find_func(find_class(tree, cls), "__init__"))]
        out.append("(* the constructor, statement by statement (first line of each statement) *)")
        out.append("Definition %s_init_statements : list string :=\n  [%s].\n" % (pfx, ";\n   ".join('"%s"%%string' % x.replace('"', "'") for x in init_src)))
        out.append("(* options the fit routine itself hands to the SVD back-ends, in source order *)")
        out.append("Definition %s_solver_options : list (string * string * string) :=\n  [%s].\n"
                   % (pfx, ";\n   ".join('("%s"%%string, "%s"%%string, "%s"%%string)' % (k, key, val.replace('"', "'")) for k, key, val in opts)))
        # every statement of the fit routine that binds the data or one of the three factors (first line of each statement, source order):
        # the factors are what the back-end returned, re-ordered, truncated, labelled and sign-fixed - nothing else touches them
        names = ("X", "U", "s", "VT", "V")
        writes = []
        for st in walk_stmts(fit):
            tg = []
            if isinstance(st, ast.Assign):
                for t in st.targets:
                    tg += [e.id for e in (t.elts if isinstance(t, ast.Tuple) else [t]) if isinstance(e, ast.Name)]
            elif isinstance(st, (ast.AugAssign, ast.AnnAssign)) and isinstance(st.target, ast.Name):
                tg = [st.target.id]
            if any(t in names for t in tg):
                writes.append(ast.unparse(st).split("\n")[0][:110])
        out.append("Definition %s_factor_writes : list string :=\n  [%s].\n" % (pfx, ";\n   ".join('"%s"%%string' % x.replace('"', "'") for x in writes)))
    # sign rule of _svd.get_deterministic_sign_multiplier
    tree, _ = parse_file(repo, "xeofs/linalg/_numpy/_svd.py")
    l, opn, r, pos, neg = sign_rule(find_func(tree, "get_deterministic_sign_multiplier"))
    if (l, r) != ("max_vals", "min_vals") or opn not in ("GtE", "Gt"):
        raise TransError("sign rule shape: %r" % ((l, opn, r),))
    out.append("Definition svd_sign_rule {F} (K : Ops F) (mx mn : F) : F :=\n  if %s then fofZ K (%d)%%Z else fofZ K (%d)%%Z.\n"
               % ("fleb K (fabs K mn) (fabs K mx)" if opn == "GtE" else "negb (fleb K (fabs K mx) (fabs K mn))", pos, neg))
    return "\n".join(out)


def gen_sign_xr(repo):
    """xarray_utils.get_deterministic_sign_multiplier: concat([max, min]) with coords sign=[1,-1],
    idxmax of the absolute value (first maximal entry wins)"""
    tree, _ = parse_file(repo, "xeofs/utils/xarray_utils.py")
    fn = find_func(tree, "get_deterministic_sign_multiplier")
    b = body_nodoc(fn)
    a = find_assign(b, "min_max", 0).value
    if not (isinstance(a, ast.Call) and try_dotted(a.func) == "xr.concat" and isinstance(a.args[0], ast.List) and len(a.args[0].elts) == 2):
        raise TransError("min_max is not xr.concat([..,..])")
    order = []
    for e in a.args[0].elts:
        if isinstance(e, ast.Call) and isinstance(e.func, ast.Attribute) and try_dotted(e.func.value) == "data" and e.func.attr in ("max", "min"):
            order.append(e.func.attr)
        else:
            raise TransError("concat element")
    a2 = find_assign(b, "min_max", 1).value
    if not (isinstance(a2, ast.Call) and isinstance(a2.func, ast.Attribute) and a2.func.attr == "assign_coords"):
        raise TransError("assign_coords")
    signs = None
    for kw in a2.keywords:
        if kw.arg == "sign" and isinstance(kw.value, ast.List):
            signs = []
            for e in kw.value.elts:
                if isinstance(e, ast.Constant):
                    signs.append(e.value)
                elif isinstance(e, ast.UnaryOp) and isinstance(e.op, ast.USub):
                    signs.append(-e.operand.value)
    if signs is None or len(signs) != 2:
        raise TransError("sign coords")
    a3 = find_assign(b, "sign_multiplier", 0).value
    if not (isinstance(a3, ast.Call) and isinstance(a3.func, ast.Attribute) and a3.func.attr in ("idxmax",)
            and isinstance(a3.func.value, ast.Call) and try_dotted(a3.func.value.func) == "np.abs"
            and try_dotted(a3.func.value.args[0]) == "min_max"):
        raise TransError("sign_multiplier is not np.abs(min_max).idxmax(...)")
    first, second = order
    fst = "mx" if first == "max" else "mn"
    snd = "mx" if second == "max" else "mn"
    # idxmax returns the first position attaining the maximum
    txt = ("(* generated from xeofs/utils/xarray_utils.py get_deterministic_sign_multiplier *)\n"
           "From Coq Require Import String ZArith List Bool.\nFrom XV Require Import Base.Scalar.\n\n"
           "Definition dec_sign_rule {F} (K : Ops F) (mx mn : F) : F :=\n"
           "  if fleb K (fabs K %s) (fabs K %s) then fofZ K (%d)%%Z else fofZ K (%d)%%Z.\n"
           % (snd, fst, signs[0], signs[1]))
    return txt
