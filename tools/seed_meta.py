"""assemble /verif/seeded/<id>/meta.json from the confirmation run, the note of the seeding agent and the check logs"""
import glob
import json
import os
import re
import sys

ROOT = os.environ.get("SEEDED", os.path.join(os.path.dirname(os.path.abspath(__file__)), "..", "seeded"))
NEEDS = json.load(open(os.path.join(ROOT, "needs.json"))) if os.path.exists(os.path.join(ROOT, "needs.json")) else {}

for d in sorted(glob.glob(os.path.join(ROOT, "C*"))):
    sid = os.path.basename(d)
    conf = json.load(open(os.path.join(d, "confirm.json"))) if os.path.exists(os.path.join(d, "confirm.json")) else {}
    patch = open(os.path.join(d, "patch.diff")).read()
    files = re.findall(r"^\+\+\+ b/(.*)$", patch, re.M)
    checks = {}
    for lg in sorted(glob.glob(os.path.join(d, "check_*.log"))):
        cid = os.path.basename(lg)[6:-4]
        txt = open(lg).read()
        viol = re.findall(r"^VIOLATION property=\S+ replay=\S+(.*)$", txt, re.M)
        checks[cid] = dict(caught=bool(viol), violations=len(viol),
                           with_failing_input=any("no-failing-input-found" not in v for v in viol),
                           first=(viol[0].strip(" #")[:300] if viol else None))
    entry = NEEDS.get(sid, {})
    meta = dict(seed=sid, breaks=entry.get("breaks", sid), files=files, needs=entry.get("needs", "see NOTE.md"),
                confirmed=dict(what_i_ran=["PYTHONPATH=<worktree> /venv/bin/python demo.py (changed tree)",
                                           "PYTHONPATH=<worktree> /venv/bin/python -m pytest -q -p no:cacheprovider --timeout=900 (changed tree)",
                                           "git apply -R patch.diff; demo.py (unchanged tree)"], **conf),
                checks=checks)
    if entry.get("first_pass"):
        meta["first_pass"] = entry["first_pass"]
    json.dump(meta, open(os.path.join(d, "meta.json"), "w"), indent=1)
    print(sid, {k: (v["caught"], v["with_failing_input"]) for k, v in checks.items()})
