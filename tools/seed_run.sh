#!/bin/sh
# usage: seed_run.sh Cnn [check ids...]  -- apply /verif/seeded/Cnn/patch.diff to /repo, run the checks, undo
id=$1; shift; checks=${*:-$id}; S=${SEEDED:-/verif/seeded}
cd /repo && git status --short | grep -q . && { echo "/repo not clean"; exit 2; }
git -C /repo apply $S/$id/patch.diff || { echo "patch does not apply"; exit 3; }
for c in $checks; do
  (cd /verif && ./check $c --tier quick > $S/$id/check_$c.log 2>&1; echo "$id -> $c rc=$? : $(grep -c '^VIOLATION' $S/$id/check_$c.log) violation line(s)"; grep '^VIOLATION' $S/$id/check_$c.log | head -3 | cut -c1-260)
done
git -C /repo checkout -- . 
