"""Write coq/Proofs/Text_<id>.v: the statement text (Gen/T9text.v, regenerated from the source on every run) of the functions whose Gallina
counterpart is hand-written, frozen at the text the model was last validated against by the correspondence. Run by hand after a deliberate
refresh of the model (never by a check): `python3 tools/mk_text_tie.py`."""
import os
import sys

ROOT = os.path.join(os.path.dirname(os.path.abspath(__file__)), "..")
sys.path.insert(0, os.path.join(ROOT, "tools"))
from py2coq import t9_text  # noqa: E402

repo = os.environ.get("VERIF_REPO", "/repo")
tabs = t9_text.tables(repo)
by = {}
for nm, (pid, rel, cls, fn, lines) in tabs.items():
    by.setdefault(pid, []).append((nm, rel, cls, fn, lines))
for pid, items in by.items():
    out = ["(* written by tools/mk_text_tie.py: the source text against which the hand-written model parts of %s were last validated *)" % pid,
           "From Coq Require Import String List.", "From XV Require Import Gen.T9text.", "Import ListNotations.", "Open Scope string_scope.", ""]
    for nm, rel, cls, fn, lines in items:
        out.append("(* %s: %s%s *)" % (rel, (cls + ".") if cls else "", fn))
        out.append("Lemma %s_frozen : %s =\n  %s.\nProof. reflexivity. Qed.\n" % (nm, nm, t9_text.coq_list(lines)))
    out.append("Definition all_frozen : Prop :=\n  %s.\n" % " /\\\n  ".join("%s = %s" % (nm, t9_text.coq_list(lines)) for nm, rel, cls, fn, lines in items))
    proof = "conj " * 0
    terms = ["%s_frozen" % nm for nm, *_ in items]
    def conj(ts):
        return ts[0] if len(ts) == 1 else "(conj %s %s)" % (ts[0], conj(ts[1:]))
    out.append("Lemma all_frozen_holds : all_frozen.\nProof. exact %s. Qed.\n" % conj(terms))
    open(os.path.join(ROOT, "coq", "Proofs", "Text_%s.v" % pid), "w").write("\n".join(out))
    print(pid, len(items), "functions")
