#!/bin/sh
# usage: run_all.sh [tier] [seed]  -- run every claimed check in sequence, print one summary line each
tier=${1:-quick}; seed=${2:-0}
cd "$(dirname "$0")/.." || exit 2
./check --setup > /dev/null 2>&1
for id in $(python3 -c "import json;print(' '.join(c['property_id'] for c in json.load(open('MANIFEST.json'))['checks']))"); do
  VERIF_SEED=$seed ./check $id --tier $tier 2>&1 | grep -E "^(PASS|FAIL|VIOLATION|  broken)" | cut -c1-300
done
