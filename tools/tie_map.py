"""Measure which functions of xeofs are tied to the Coq development by the translator (tools/py2coq), and by which anchors.

For every function or method of the package, two harmless-looking rewrites are applied to a scratch copy of the source, one at a time:
  M1  every expression the function evaluates at statement level (assigned values, returned values, call statements, `if`/`while`
      tests, raised exceptions) is wrapped in an identity call;
  M2  a dummy assignment is inserted as the first statement and another before the last statement.
The translators are re-run on the scratch copy. A function is TIED to an anchor if either rewrite changes that anchor's generated Coq
text or makes the anchor fail closed; it is then part of the text the model is regenerated from or checked against on every run.
Three further rewrites plant what the whole-package scans look for (they say which functions those scans reach):
  M3  `self._verif_probe = None` as the first statement of a method (attribute-effect tables: T7hist, T7ser);
  M4  an in-place arithmetic statement on a local (T7inplace);
  M5  a `.values` access on the first parameter after self (force points on the fit paths: T7lazy).
Functions no rewrite of which moves any anchor are covered by the correspondence and the oracles only.

usage: python3 tools/tie_map.py [-j N]   -> docs/TIES.md, docs/ties.json        (scratch copies under /root/scratch, removed afterwards)"""
import ast
import copy
import json
import multiprocessing
import os
import shutil
import sys
import tempfile

HERE = os.path.dirname(os.path.abspath(__file__))
sys.path.insert(0, HERE)
REPO = os.environ.get("VERIF_REPO", "/repo")
SCRATCH = os.environ.get("VERIF_SCRATCH", "/root/scratch")


def functions(tree):
    out = []

    def walk(node, qual):
        for ch in ast.iter_child_nodes(node):
            if isinstance(ch, (ast.FunctionDef, ast.AsyncFunctionDef)):
                out.append((qual + [ch.name], ch))
                walk(ch, qual + [ch.name])
            elif isinstance(ch, ast.ClassDef):
                walk(ch, qual + [ch.name])
            else:
                walk(ch, qual)
    walk(tree, [])
    return out


def wrap(e):
    return ast.Call(func=ast.Name(id="_verif_identity", ctx=ast.Load()), args=[e], keywords=[])


class M1(ast.NodeTransformer):
    def visit_FunctionDef(self, node):
        if getattr(self, "inside", False):
            return node                 # nested functions are rewritten on their own turn
        self.inside = True
        self.generic_visit(node)
        return node

    def visit_Assign(self, n):
        n.value = wrap(n.value)
        return n

    def visit_AnnAssign(self, n):
        if n.value is not None:
            n.value = wrap(n.value)
        return n

    def visit_AugAssign(self, n):
        n.value = wrap(n.value)
        return n

    def visit_Return(self, n):
        if n.value is not None:
            n.value = wrap(n.value)
        return n

    def visit_Expr(self, n):
        if isinstance(n.value, ast.Constant):
            return n
        n.value = wrap(n.value)
        return n

    def visit_If(self, n):
        n.test = wrap(n.test)
        self.generic_visit(n)
        return n

    def visit_While(self, n):
        n.test = wrap(n.test)
        self.generic_visit(n)
        return n

    def visit_Raise(self, n):
        if n.exc is not None:
            n.exc = wrap(n.exc)
        return n

    def visit_For(self, n):
        n.iter = wrap(n.iter)
        self.generic_visit(n)
        return n


def m2(fn):
    probe = lambda k: ast.Assign(targets=[ast.Name(id="_verif_probe%d" % k, ctx=ast.Store())], value=ast.Constant(value=None), lineno=0)
    body = fn.body
    start = 1 if body and isinstance(body[0], ast.Expr) and isinstance(body[0].value, ast.Constant) and isinstance(body[0].value.value, str) else 0
    fn.body = body[:start] + [probe(0)] + body[start:-1] + [probe(1)] + body[-1:] if len(body) > start else body + [probe(0)]


def m345(fn, mut):
    body = fn.body
    start = 1 if body and isinstance(body[0], ast.Expr) and isinstance(body[0].value, ast.Constant) and isinstance(body[0].value.value, str) else 0
    args = [a.arg for a in fn.args.args]
    if mut == "M3":
        if not args or args[0] != "self":
            return False
        new = ast.parse("self._verif_probe = None").body
    elif mut == "M4":
        new = ast.parse("_verif_probe_a = 1\n_verif_probe_a *= 2").body
    else:
        rest = [a for a in args if a not in ("self", "cls")]
        if not rest:
            return False
        new = ast.parse("_verif_probe_v = %s.values" % rest[0]).body
    fn.body = body[:start] + new + body[start:]
    return True


def regen(repo, out):
    from py2coq import translate
    st = translate.regen_all(out, repo=repo)
    texts = {}
    for name, (fn, _, _) in translate.REGISTRY.items():
        p = os.path.join(out, fn)
        texts[name] = open(p).read() if st.get(name) == "ok" and os.path.exists(p) else "FAILED: " + str(st.get(name))
    return texts


def work(args):
    rel, idx = args
    wd = tempfile.mkdtemp(dir=SCRATCH, prefix="tie_")
    try:
        shutil.copytree(os.path.join(REPO, "xeofs"), os.path.join(wd, "xeofs"))
        out = os.path.join(wd, "gen")
        devnull = open(os.devnull, "w")
        old = sys.stderr
        sys.stderr = devnull
        try:
            base = regen(wd, out)
            src = open(os.path.join(REPO, rel)).read()
            res = {}
            for mut in ("M1", "M2", "M3", "M4", "M5"):
                tree = ast.parse(src)
                qual, fn = functions(tree)[idx]
                if mut == "M1":
                    M1().visit(fn)
                elif mut == "M2":
                    m2(fn)
                elif not m345(fn, mut):
                    continue
                ast.fix_missing_locations(tree)
                open(os.path.join(wd, rel), "w").write(ast.unparse(tree))
                shutil.rmtree(out, ignore_errors=True)
                got = regen(wd, out)
                res[mut] = {a: ("fails closed" if got[a].startswith("FAILED") else "text changes") for a in base if got[a] != base[a]}
                open(os.path.join(wd, rel), "w").write(src)
        finally:
            sys.stderr = old
        return rel, idx, res
    finally:
        shutil.rmtree(wd, ignore_errors=True)


def main():
    nproc = int(sys.argv[sys.argv.index("-j") + 1]) if "-j" in sys.argv else 8
    os.makedirs(SCRATCH, exist_ok=True)
    jobs, names = [], {}
    for root, _, files in sorted(os.walk(os.path.join(REPO, "xeofs"))):
        for f in sorted(files):
            if f.endswith(".py"):
                rel = os.path.relpath(os.path.join(root, f), REPO)
                fs = functions(ast.parse(open(os.path.join(REPO, rel)).read()))
                for i, (qual, fn) in enumerate(fs):
                    names[(rel, i)] = (".".join(qual), fn.end_lineno - fn.lineno + 1)
                    jobs.append((rel, i))
    # the unparsed-but-unchanged source must not move anything: control
    with multiprocessing.Pool(nproc) as pool:
        results = pool.map(work, jobs, chunksize=4)
    table = {}
    for rel, idx, res in results:
        q, nlines = names[(rel, idx)]
        anchors = {}
        for mut, d in res.items():
            for a, how in d.items():
                anchors.setdefault(a, []).append("%s: %s" % (mut, how))
        table.setdefault(rel, []).append(dict(function=q, lines=nlines, anchors=anchors))
    for v in table.values():
        for f in v:
            f["scans"] = {a: h for a, h in f["anchors"].items() if not any(x.startswith(("M1", "M2")) for x in h)}
            f["anchors"] = {a: [x for x in h if x.startswith(("M1", "M2"))] for a, h in f["anchors"].items() if any(x.startswith(("M1", "M2")) for x in h)}
    tot = sum(len(v) for v in table.values())
    tied = sum(1 for v in table.values() for f in v if f["anchors"])
    scanned = sum(1 for v in table.values() for f in v if f["scans"] or f["anchors"])
    lines_tot = sum(f["lines"] for v in table.values() for f in v)
    lines_tied = sum(f["lines"] for v in table.values() for f in v if f["anchors"])
    head = subprocess_head()
    os.makedirs(os.path.join(HERE, "..", "docs"), exist_ok=True)
    json.dump(dict(repo_head=head, functions=tot, tied=tied, reached_by_a_scan_or_tied=scanned, lines=lines_tot, lines_tied=lines_tied, table=table),
              open(os.path.join(HERE, "..", "docs", "ties.json"), "w"), indent=1, sort_keys=True)
    md = ["# Which functions of xeofs the translator ties to the Coq development", "",
          "Generated by `tools/tie_map.py` (see its docstring for the two rewrites) against /repo at `%s`." % head, "",
          "%d of %d functions and methods (%d of %d source lines inside functions) are tied: a harmless-looking rewrite of the function changes a "
          "generated Coq file or makes a translator anchor fail closed, so the obligations are re-checked against (or refuse) the new text. The other "
          "functions are reached by the correspondence checks and the oracles only (they run, but their text is not part of any obligation). "
          "Counting also the whole-package scans (a planted attribute write, in-place operation or `.values` access in the function is seen by T7hist / T7ser / "
          "T7inplace / T7lazy), %d of %d functions are reached." % (tied, tot, lines_tied, lines_tot, scanned, tot), ""]
    for rel in sorted(table):
        fs = table[rel]
        md.append("## %s (%d of %d tied)" % (rel, sum(1 for f in fs if f["anchors"]), len(fs)))
        md.append("")
        for f in fs:
            if f["anchors"]:
                md.append("* `%s` (%d lines): %s" % (f["function"], f["lines"], "; ".join("%s [%s]" % (a, ", ".join(sorted(set(h)))) for a, h in sorted(f["anchors"].items()))))
        sc = {}
        for f in fs:
            if not f["anchors"] and f["scans"]:
                sc.setdefault(", ".join(sorted(f["scans"])), []).append(f["function"])
        for k in sorted(sc):
            md.append("* scanned only (%s): %s" % (k, ", ".join("`%s`" % r for r in sc[k])))
        rest = [f["function"] for f in fs if not f["anchors"] and not f["scans"]]
        if rest:
            md.append("* not tied: " + ", ".join("`%s`" % r for r in rest))
        md.append("")
    open(os.path.join(HERE, "..", "docs", "TIES.md"), "w").write("\n".join(md))
    print("functions %d, tied %d; lines %d, tied %d" % (tot, tied, lines_tot, lines_tied))


def subprocess_head():
    import subprocess
    try:
        return subprocess.run(["git", "-C", REPO, "rev-parse", "--short", "HEAD"], capture_output=True, text=True).stdout.strip()
    except Exception:
        return "?"


if __name__ == "__main__":
    main()
