"""Correspondence of Model/Mic.v with xeofs.preprocessing.MultiIndexConverter: random operation histories
(fit / transform / the four inverse methods, with entries removed in between) run on the real class and in Coq."""
import numpy as np

from . import common as C

DIMS = ["a", "b", "c"]
INV = {"data": ("inverse_transform_data", "RefFit"), "comps": ("inverse_transform_components", "RefFit"),
       "scores": ("inverse_transform_scores", "RefFit"), "unseen": ("inverse_transform_scores_unseen", "RefTransform")}


def make_data(rng, kinds, sizes, base):
    """kinds: per dim 'M'/'P'; labels drawn from `base` so that different calls get different labels"""
    import pandas as pd
    import xarray as xr
    nd = len(kinds)
    da = xr.DataArray(np.zeros(sizes), dims=DIMS[:nd])
    for i, k in enumerate(kinds):
        d = DIMS[i]
        n = sizes[i]
        if k == "M":
            l1 = [base + int(x) for x in rng.integers(0, 5, size=n)]
            l2 = list(range(1, n + 1))
            rng.shuffle(l2)
            mi = pd.MultiIndex.from_arrays([l1, [int(x) for x in l2]], names=(d + "_1", d + "_2"))
            da = da.assign_coords(xr.Coordinates.from_pandas_multiindex(mi, d))
        else:
            da = da.assign_coords({d: [base + int(x) for x in rng.permutation(n)]})
    return da


def canon(da):
    import pandas as pd
    out = []
    for d in da.dims:
        idx = da.indexes[d]
        if isinstance(idx, pd.MultiIndex):
            out.append((DIMS.index(d), "M", [int(a) * 100 + int(b) for a, b in idx.tolist()]))
        else:
            out.append((DIMS.index(d), "P", [int(v) for v in idx.tolist()]))
    return out


def coq_data(c):
    return "[" + "; ".join("(%d%%nat, %s)" % (d, ("Multi [%s]%%Z" % "; ".join(str(v) for v in vals)) if k == "M" else
                                               ("Plain [%s]%%nat" % "; ".join(str(v) for v in vals))) for d, k, vals in c) + "]"


def coq_out(o):
    return "None" if o is None else "Some " + coq_data(o)


def gen_history(rng, L):
    """returns (python ops, coq op strings, implementation outputs, description)"""
    from xeofs.preprocessing.multi_index_converter import MultiIndexConverter
    nd = int(rng.integers(1, 4))
    kinds = [("M" if rng.random() < 0.6 else "P") for _ in range(nd)]
    if "M" not in kinds:
        kinds[int(rng.integers(0, nd))] = "M"
    sizes = [int(rng.integers(2, 5)) for _ in range(nd)]
    conv = None
    last_tr = None
    last_fit_X = last_tr_X = None
    ops, outs, desc, viol = [], [], [], []
    base = 0
    for step in range(L):
        if conv is None:
            kind = "fit"
        else:
            kind = str(rng.choice(["fit", "transform", "transform", "inverse", "inverse", "inverse"]))
        if kind == "inverse" and last_tr is None:
            kind = "transform"
        base += 10
        if kind == "fit":
            if rng.random() < 0.3:           # another structure on refit
                nd = int(rng.integers(1, 4))
                kinds = [("M" if rng.random() < 0.6 else "P") for _ in range(nd)]
                sizes = [int(rng.integers(2, 5)) for _ in range(nd)]
            X = make_data(rng, kinds, sizes, base)
            conv = MultiIndexConverter()
            conv.fit(X)
            last_tr = None
            last_fit_X = X
            ops.append("OFit " + coq_data(canon(X)))
            outs.append(None)
            desc.append("fit%r" % (sizes,))
        elif kind == "transform":
            sz = list(sizes)
            if rng.random() < 0.4:           # another number of entries along one dimension
                j = int(rng.integers(0, nd))
                sz[j] = int(rng.integers(2, 6))
            X = make_data(rng, kinds, sz, base)
            try:
                T = conv.transform(X)
                last_tr = T
                last_tr_X = X
                outs.append(canon(T))
            except Exception:
                outs.append(None)
            ops.append("OTransform " + coq_data(canon(X)))
            desc.append("transform%r" % (sz,))
        else:
            which = str(rng.choice(list(INV)))
            Y = last_tr
            r = rng.random()
            if r < 0.35 and which == "unseen":          # entries removed (fully missing samples)
                j = int(rng.integers(0, Y.ndim))
                keep = sorted(set(int(x) for x in rng.integers(0, Y.shape[j], size=max(1, Y.shape[j] - 1))))
                Y = Y.isel({Y.dims[j]: keep})
            elif r < 0.5 and Y.ndim > 1:                 # an array lacking a dimension
                j = int(rng.integers(0, Y.ndim))
                Y = Y.isel({Y.dims[j]: 0}, drop=True)
            meth, ref = INV[which]
            untouched = Y is last_tr
            try:
                R = getattr(conv, meth)(Y)
                outs.append(canon(R))
                # the property itself, on the implementation's answer
                if untouched and which == "unseen" and canon(R) != canon(last_tr_X):
                    viol.append("unseen path: labels %r restored for new data labelled %r" % (canon(R), canon(last_tr_X)))
                if untouched and which != "unseen":
                    fitM = {c[0]: c[2] for c in canon(last_fit_X) if c[1] == "M"}
                    got = {c[0]: c[2] for c in canon(R)}
                    if any(len(got.get(d, [])) == len(v) and got[d] != v for d, v in fitM.items()):
                        viol.append("fit path: labels %r restored, the fit data has %r" % (canon(R), canon(last_fit_X)))
            except Exception as e:
                outs.append(None)
                if untouched and which == "unseen":
                    viol.append("unseen path: back-transformation of the transformed new data raised %r" % (e,))
            ops.append("OInverse %s %s" % (ref, coq_data(canon(Y))))
            desc.append("%s%r" % (meth, tuple(Y.shape)))
    return ops, outs, desc, viol


def correspondence(ctx, pid, rng, N, L=7):
    """N random histories; one Coq file; returns the list of mismatching histories (descriptions)"""
    cases = []
    for i in range(N):
        ops, outs, desc, viol = gen_history(rng, int(rng.integers(2, L + 1)))
        cases.append((ops, outs, desc))
        ctx.dist["mic:len%d" % len(ops)] += 1
        ctx.case(("mic", i, tuple(desc)), nontrivial=len(ops) >= 3, tag="MultiIndexConverter/history-len%d" % len(ops))
        for v in viol:
            ctx.violation("%s:MultiIndexConverter:%s" % (pid, v.split(":")[0].replace(" ", "-")), "MultiIndexConverter history %r: %s" % (desc, v),
                          dict(kind="mic-history", ops=ops, outputs=[repr(o) for o in outs]))
    body = [C.COQ_HEADER, "From XV Require Import Model.Mic Model.MicCase Gen.T7mic.\n",
            "Definition cases : list (list op * list (option data)) := ["]
    body.append(";\n".join("  ([%s],\n   [%s])" % ("; ".join(o), "; ".join(coq_out(x) for x in out)) for o, out, _ in cases))
    body.append("].\nEval vm_compute in (0%Z :: mismatches src_params cases).\n")
    f = C.write_case_file(pid, "mic", "\n".join(body))
    rc, out = C.coqc_run(f)
    if rc != 0:
        return None, out[-800:], cases
    ev = C.parse_evals(out)
    bad = [i for i in C.parse_int_list(ev[0] if ev else "") if i > 0]
    return bad, "", cases


def run(ctx, pid, N):
    rng = ctx.rng.child(pid + "mic").np
    bad, err, cases = correspondence(ctx, pid, rng, N)
    if bad is None:
        ctx.oblige("correspondence:MultiIndexConverter histories vs Model/Mic.v", "correspondence", False, err)
        return
    for i in bad[:3]:
        ops, outs, desc = cases[i - 1]
        ctx.extra.setdefault("mic_mismatch", []).append(dict(history=desc, ops=ops, implementation=[repr(o) for o in outs]))
    ctx.oblige("correspondence:MultiIndexConverter, %d random histories (fit/transform/4 inverse methods, removed entries) vs Model/Mic.v" % N,
               "correspondence", not bad, "model and implementation differ on histories %r (first: %r)" % (bad[:5], cases[bad[0] - 1][2] if bad else None))
