"""Enumerated / sampled input layouts for the structural properties (C02, C05, C07)."""
import itertools

import numpy as np


def coord_values(kind, size, rng, dim):
    import pandas as pd
    if kind == "asc":
        return np.arange(size) * 2 + 1
    if kind == "unsorted":
        v = np.arange(size) * 3 + 5
        return v[::-1].copy() if size > 1 else v
    if kind == "str":
        return np.array(["%s%c" % (dim[:1], c) for c in "qcmbx"[:size]])
    if kind == "datetime":
        return pd.date_range("2001-01-01", periods=size, freq="D").values
    raise ValueError(kind)


def make_array(dims, sizes, kinds, rng, base=0.0, name=None, extra_coord=False, coord_attrs=False):
    """DataArray with unique integer-valued entries (exact comparisons)"""
    import xarray as xr
    n = int(np.prod(sizes))
    data = (np.arange(n, dtype=float) * 1.0 + base).reshape(sizes)
    coords = {d: coord_values(k, s, rng, d) for d, s, k in zip(dims, sizes, kinds)}
    da = xr.DataArray(data, dims=dims, coords=coords, name=name)
    if coord_attrs:
        # coordinates documented the way files from a data centre are (units, long_name)
        for d in dims:
            da[d].attrs.update({"units": "unit_of_" + d, "long_name": d + " coordinate"})
    if extra_coord:
        d0 = dims[-1]
        da = da.assign_coords({"aux_" + d0: (d0, np.arange(sizes[-1]) * 0.5)})
    return da


def layouts(rng, quick=True):
    """yield dicts describing layouts: container kind, dims (array order), sample dims (user order), kinds"""
    out = []
    dim_pool_s = ["time", "run", "member"]
    dim_pool_f = ["lat", "lon", "lev"]
    kinds_all = ["asc", "unsorted", "str", "datetime"]
    for container in ("DataArray", "Dataset", "list"):
        for ns in (1, 2, 3):
            for nf in (1, 2, 3):
                sd = dim_pool_s[:ns]
                fd = dim_pool_f[:nf]
                alld = sd + fd
                perms = list(itertools.permutations(alld))
                if quick or len(perms) > 24:
                    idxs = rng.choice(len(perms), size=min(len(perms), 3 if quick else 12), replace=False)
                    perms = [perms[i] for i in idxs]
                for perm in perms:
                    for rep in range(1 if quick else 2):
                        kinds = [str(rng.choice(kinds_all)) for _ in perm]
                        sizes = [int(rng.integers(2, 4)) for _ in perm]
                        if nf >= 2 and rng.random() < 0.25:
                            # a feature dimension of length one (a single level, a single station)
                            fpos = [q for q, d in enumerate(perm) if d in fd]
                            sizes[fpos[int(rng.integers(0, len(fpos)))]] = 1
                        sorder = list(rng.permutation(sd))
                        out.append(dict(container=container, dims=list(perm), sizes=sizes, kinds=kinds, sample_dims=[str(x) for x in sorder],
                                        names=("sample", "feature") if rng.random() < 0.6 else ("smp", "ftr"),
                                        extra_coord=bool(rng.random() < 0.3), multiindex=None, coord_attrs=bool(rng.random() < 0.4),
                                        ds_mode="equal" if rng.random() < 0.75 else "different"))
    # long lists (more than ten items: positions need two digits), every item with its own feature labels
    for n_items, kinds in ((12, ["asc", "unsorted"]), (11, ["datetime", "str"])) if quick else ((12, ["asc", "unsorted"]), (11, ["datetime", "str"]), (23, ["unsorted", "unsorted"])):
        out.append(dict(container="list", dims=["time", "lat"], sizes=[3, 3], kinds=kinds, sample_dims=["time"], names=("sample", "feature"),
                        extra_coord=False, multiindex=None, ds_mode="equal", n_items=n_items))
    # feature dimensions of length one: a single station per variable (a Dataset of two variables: two features), a single level of a grid
    for container, dims_, sizes_ in (("Dataset", ["time", "lat"], [4, 1]), ("Dataset", ["time", "lat", "lon"], [4, 1, 3]), ("Dataset", ["lon", "time", "lat"], [3, 4, 1]),
                                     ("DataArray", ["time", "lat", "lon"], [4, 1, 3]), ("list", ["time", "lat", "lon"], [4, 3, 1])):
        out.append(dict(container=container, dims=dims_, sizes=sizes_, kinds=["asc"] * len(dims_), sample_dims=["time"], names=("sample", "feature"),
                        extra_coord=False, multiindex=None, ds_mode="equal"))
    # MultiIndex layouts: one sample dim or one feature dim is itself a MultiIndex
    for container in ("DataArray", "Dataset", "list"):
        for which in ("sample", "feature"):
            out.append(dict(container=container, dims=["time", "lat", "lon"], sizes=[3, 2, 2], kinds=["asc", "asc", "str"],
                            sample_dims=["time"] if which == "feature" else ["st"], names=("sample", "feature"), extra_coord=False,
                            multiindex=which, ds_mode="equal"))
    return out


def build(lay, rng):
    """build the input object(s) for a layout; returns (obj, list_of_items) where items are the DataArrays in
    feature-concatenation order (Dataset variables in data_vars order, list elements in order)"""
    import xarray as xr
    dims, sizes, kinds = lay["dims"], lay["sizes"], lay["kinds"]

    def one(base, name, drop_dim=None):
        d, s, k = list(dims), list(sizes), list(kinds)
        if drop_dim is not None and drop_dim in d and len([x for x in d if x not in lay["sample_dims"]]) > 1:
            i = d.index(drop_dim)
            d.pop(i), s.pop(i), k.pop(i)
        da = make_array(d, s, k, rng, base=base, name=name, extra_coord=lay["extra_coord"], coord_attrs=lay.get("coord_attrs", False))
        if lay["multiindex"] == "feature":
            da = da.stack(ff=("lat", "lon"))
        if lay["multiindex"] == "sample":
            # a 2-level MultiIndex sample dimension 'st'
            da = make_array(["la", "lb", "lat", "lon"], [2, 2, 2, 2], ["asc", "str", "asc", "str"], rng, base=base, name=name).stack(st=("la", "lb"))
        return da
    if lay["container"] == "DataArray":
        da = one(0.0, "v")
        return da, [da]
    if lay["container"] == "Dataset":
        a = one(0.0, "a")
        fdims = [d for d in dims if d not in lay["sample_dims"]]
        b = one(1000.0, "b", drop_dim=(fdims[-1] if lay["ds_mode"] == "different" and lay["multiindex"] is None else None))
        ds = xr.Dataset({"a": a, "b": b})
        return ds, [ds["a"], ds["b"]]
    if lay.get("n_items"):
        first = one(0.0, "v0")
        items = [first]
        for j in range(1, lay["n_items"]):
            it = one(1000.0 * j, "v%d" % j)
            # the shared sample coordinate must be identical; the feature labels are each item's own
            it = it.assign_coords({d: first[d].values for d in lay["sample_dims"]})
            for d in it.dims:
                if d in lay["sample_dims"]:
                    continue
                v = it[d].values
                if v.dtype.kind in "iuf":
                    v = v + 100 * j
                elif v.dtype.kind == "M":
                    v = v + np.timedelta64(10 * j, "D")
                else:
                    v = np.array(["%s%d" % (x, j) for x in v])
                it = it.assign_coords({d: v})
            items.append(it)
        return items, items
    a = one(0.0, "a")
    b = one(1000.0, "b")
    if lay["multiindex"] is None:
        # a second list item with its own feature dims (subset) and sizes
        fd = [d for d in dims if d not in lay["sample_dims"]]
        keep = lay["sample_dims"] + fd[:1]
        sel = {d: 0 for d in dims if d not in keep}
        b = b.isel(sel, drop=True)
    return [a, b], [a, b]
