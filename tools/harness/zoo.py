"""Catalogue of model classes with builders and uniform fit/transform/scores adapters,
for the API-level property oracles."""
import numpy as np

from . import common as C


def data2d(rng, n, p, name="x", cplx=False, scale=1.0, offset=True, tname="time", tcoords=None, red=False):
    import xarray as xr
    X = rng.standard_normal((n, p))
    if red:  # persistent series (cumulative noise), for time-ordered methods
        X = np.cumsum(X, axis=0) * 0.5 + rng.standard_normal((n, p)) * 0.3
    if cplx:
        X = X + 1j * rng.standard_normal((n, p))
    X = X * scale
    if offset:
        X = X + rng.standard_normal(p) * 3 * scale
    t = np.arange(n) if tcoords is None else tcoords
    return xr.DataArray(X, dims=(tname, name), coords={tname: t, name: np.arange(p)})


class Spec:
    def __init__(self, name, kind, make, cplx=False, ordered=False, transform=True, inverse=True):
        self.name, self.kind, self.make, self.cplx = name, kind, make, cplx
        self.ordered, self.has_transform, self.has_inverse = ordered, transform, inverse


def specs():
    import xeofs as xe
    S = []
    sg = xe.single
    cr = xe.cross
    S.append(Spec("EOF", "single", lambda k, **kw: sg.EOF(n_modes=k, **kw)))
    S.append(Spec("ComplexEOF", "single", lambda k, **kw: sg.ComplexEOF(n_modes=k, **kw), cplx=True))
    S.append(Spec("HilbertEOF", "single", lambda k, **kw: sg.HilbertEOF(n_modes=k, **kw), ordered=True, transform=False))
    S.append(Spec("ExtendedEOF", "single", lambda k, **kw: sg.ExtendedEOF(n_modes=k, tau=1, embedding=2, **kw), ordered=True, transform=False, inverse=False))
    S.append(Spec("SparsePCA", "single", lambda k, **kw: sg.SparsePCA(n_modes=k, alpha=1e-3, **kw), inverse=False))
    S.append(Spec("POP", "single", lambda k, **kw: sg.POP(n_modes=k, n_pca_modes=max(k, 2) + 1, **kw), ordered=True, inverse=False))
    S.append(Spec("OPA", "single", lambda k, **kw: sg.OPA(n_modes=k, tau_max=2, n_pca_modes=max(k, 2) + 1, **kw), ordered=True, transform=False, inverse=False))
    for nm, cls, cx in (("CPCCA", cr.CPCCA, False), ("MCA", cr.MCA, False), ("CCA", cr.CCA, False), ("RDA", cr.RDA, False),
                        ("ComplexCPCCA", cr.ComplexCPCCA, True), ("ComplexMCA", cr.ComplexMCA, True),
                        ("HilbertMCA", cr.HilbertMCA, False), ("HilbertCPCCA", cr.HilbertCPCCA, False), ("HilbertCCA", cr.HilbertCCA, False),
                        ("HilbertRDA", cr.HilbertRDA, False)):
        S.append(Spec(nm, "cross", (lambda cls_: (lambda k, **kw: cls_(n_modes=k, **kw)))(cls), cplx=cx,
                      ordered=nm.startswith("Hilbert"), transform=not nm.startswith("Hilbert")))
    return {s.name: s for s in S}


def rotator_for(name):
    import xeofs as xe
    return {"EOF": xe.single.EOFRotator, "ComplexEOF": xe.single.ComplexEOFRotator, "HilbertEOF": xe.single.HilbertEOFRotator,
            "CPCCA": xe.cross.CPCCARotator, "MCA": xe.cross.MCARotator, "CCA": xe.cross.CPCCARotator, "RDA": xe.cross.CPCCARotator,
            "ComplexCPCCA": xe.cross.ComplexCPCCARotator, "ComplexMCA": xe.cross.ComplexMCARotator,
            "HilbertMCA": xe.cross.HilbertMCARotator, "HilbertCPCCA": xe.cross.HilbertCPCCARotator, "HilbertCCA": xe.cross.HilbertCPCCARotator,
            "HilbertRDA": xe.cross.HilbertCPCCARotator}.get(name)


def vals(da, *dims):
    return np.asarray(da.transpose(*dims).values)


def same(a, b, tol=1e-7):
    a, b = np.asarray(a), np.asarray(b)
    if a.shape != b.shape:
        return False
    sc = max(float(np.nanmax(np.abs(b))) if b.size else 0.0, 1e-300)
    return bool(np.allclose(a, b, rtol=tol, atol=tol * sc, equal_nan=True))
