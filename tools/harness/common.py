"""Shared harness utilities: environment, PRNG, Coq literal writer, coqc runner,
canonicalisation helpers, evidence/violation bookkeeping."""
import hashlib
import importlib.machinery
import json
import os
import random
import re
import subprocess
import sys
import time
import types
import warnings

VERIF = os.environ.get("VERIF_ROOT", "/verif")
REPO = os.environ.get("VERIF_REPO", "/repo")
COQ = os.path.join(VERIF, "coq")
BUILD = os.path.join(VERIF, "build")
NCPU = 16


def setup_impl_env(prior_use=6):
    """Make `import xeofs` resolve to REPO's working tree; stub the optional
    statsmodels dependency so cross-set classes can be constructed; give every `prior_use`-th model object a call history
    before its first fit (install_prior_use; 0 = off)."""
    os.environ.setdefault("PYTHONHASHSEED", "0")
    os.environ["XEOFS_VERIF"] = "1"
    if REPO not in sys.path:
        sys.path.insert(0, REPO)
    if "statsmodels" not in sys.modules:
        try:
            import statsmodels  # noqa: F401
        except Exception:
            m = types.ModuleType("statsmodels")
            m.__spec__ = importlib.machinery.ModuleSpec("statsmodels", None)
            sys.modules["statsmodels"] = m
    warnings.filterwarnings("ignore")
    try:
        install_prior_use(prior_use)
    except Exception:
        pass


# ---------------------------------------------------------------- Coq text
def cf(x):
    """float -> exact Coq PrimFloat literal"""
    x = float(x)
    if x != x:
        return "nan"
    if x == float("inf"):
        return "infinity"
    if x == float("-inf"):
        return "neg_infinity"
    if x == 0.0:
        return "0" if str(x)[0] != "-" else "(-0)"
    h = x.hex()
    if h.startswith("-"):
        return "(" + h + ")"
    return h


def cvec(v):
    return "[" + "; ".join(cf(x) for x in v) + "]"


def cmat(A):
    return "[" + "; ".join(cvec(r) for r in A) + "]"


def cz(n):
    n = int(n)
    return str(n) if n >= 0 else "(%d)" % n


def czlist(v):
    return "[" + "; ".join(cz(x) for x in v) + "]"


def cnatlist(v):
    return "[" + "; ".join("%d%%nat" % int(x) for x in v) + "]"


def cbool(b):
    return "true" if b else "false"


def cstr(s):
    return '"' + s.replace('"', '""') + '"'


COQ_HEADER = """From Coq Require Import ZArith List Bool PrimFloat String.
Import ListNotations.
Open Scope float_scope.
"""


def coqc_run(path, timeout=600):
    """compile one .v file with the project load path; return (rc, stdout+stderr)"""
    cmd = ["timeout", str(timeout), "coqc", "-Q", COQ, "XV", "-w", "none", path]
    p = subprocess.run(cmd, capture_output=True, text=True, cwd=COQ)
    return p.returncode, p.stdout + p.stderr


def coq_eval_files(files, timeout=600):
    """compile several case files in parallel; return {path: (rc, out)}"""
    from concurrent.futures import ThreadPoolExecutor
    with ThreadPoolExecutor(max_workers=NCPU) as ex:
        res = list(ex.map(lambda f: coqc_run(f, timeout), files))
    return dict(zip(files, res))


_EVAL_RE = re.compile(r"=\s*(.*?)\s*:\s*[A-Za-z(]", re.S)


def parse_evals(out):
    """split coqc output into the values printed by successive Eval commands"""
    vals = []
    # each Eval prints '     = value\n     : type'
    for m in re.finditer(r"^\s*=\s(.*?)^\s*:\s", out, re.S | re.M):
        vals.append(" ".join(m.group(1).split()))
    return vals


def parse_int_list(s):
    return [int(x) for x in re.findall(r"-?\d+", s.replace("%Z", "").replace("%nat", ""))]


def parse_pairs(s):
    return [(int(a), int(b)) for a, b in re.findall(r"\(\s*(-?\d+)(?:%\w+)?\s*,\s*(-?\d+)(?:%\w+)?\s*\)", s)]


def cases_dir(pid):
    d = os.path.join(COQ, "Cases")
    os.makedirs(d, exist_ok=True)
    return d


def write_case_file(pid, shard, body):
    path = os.path.join(cases_dir(pid), "%s_%s.v" % (pid, shard))
    with open(path, "w") as f:
        f.write(body)
    return path


def clean_case_files(pid):
    d = cases_dir(pid)
    for fn in os.listdir(d):
        if fn.startswith(pid + "_"):
            try:
                os.remove(os.path.join(d, fn))
            except OSError:
                pass


# ---------------------------------------------------------------- misc
def canon_hash(obj):
    return hashlib.sha1(json.dumps(obj, sort_keys=True, default=str).encode()).hexdigest()


def jsonable(x):
    import numpy as np
    if isinstance(x, dict):
        return {str(k): jsonable(v) for k, v in x.items()}
    if isinstance(x, (list, tuple)):
        return [jsonable(v) for v in x]
    if isinstance(x, np.ndarray):
        if np.iscomplexobj(x):
            return {"re": x.real.tolist(), "im": x.imag.tolist()}
        return x.tolist()
    if isinstance(x, (np.integer,)):
        return int(x)
    if isinstance(x, (np.floating,)):
        return float(x)
    if isinstance(x, (np.bool_,)):
        return bool(x)
    if isinstance(x, complex):
        return {"re": x.real, "im": x.imag}
    if isinstance(x, (str, int, float, bool)) or x is None:
        return x
    return repr(x)


class Rng:
    """single PRNG; every random choice of a run derives from it"""

    def __init__(self, seed):
        import numpy as np
        self.seed = int(seed)
        self.np = np.random.default_rng(self.seed)
        self.py = random.Random(self.seed)

    def child(self, tag):
        h = int(hashlib.sha1(("%d/%s" % (self.seed, tag)).encode()).hexdigest()[:12], 16)
        return Rng(h)


def errkind(e):
    if e is None:
        return "ok"
    if isinstance(e, NotImplementedError):
        return "NotImplemented"
    if isinstance(e, TypeError):
        return "TypeError"
    if isinstance(e, (KeyError, IndexError)):
        return "KeyError"
    try:
        import numpy as np
        if isinstance(e, np.linalg.LinAlgError):
            return "LinAlg"
    except Exception:
        pass
    if isinstance(e, ValueError):
        return "ValueError"
    if isinstance(e, AttributeError):
        return "AttributeError"
    if isinstance(e, RuntimeError):
        return "RuntimeError"
    return "other:" + type(e).__name__


def now():
    return time.time()


# ---------------------------------------------------------------- call history before the fit under test
ACCESSORS = ("components", "scores", "components_amplitude", "components_phase", "scores_amplitude", "scores_phase",
             "explained_variance", "explained_variance_ratio", "singular_values", "squared_covariance_fraction",
             "covariance_fraction_CD95", "fraction_variance_X_explained_by_X", "fraction_variance_Y_explained_by_Y",
             "fraction_variance_Y_explained_by_X", "cross_correlation_coefficients", "correlation_coefficients_X",
             "correlation_coefficients_Y", "homogeneous_patterns", "heterogeneous_patterns", "eigenvalues", "damping_times",
             "periods", "filter_patterns", "decorrelation_time", "get_params")


def query_all(m):
    """every accessor, without arguments and with normalized=False / True; errors are ignored (each accessor has its own check)"""
    for name in ACCESSORS:
        f = getattr(m, name, None)
        if f is None:
            continue
        for kw in ({}, {"normalized": False}, {"normalized": True}):
            try:
                f(**kw)
            except Exception:
                pass


def exercise(m, *data, light=False):
    """call everything a user may have called on a fitted model before the calls under test: every accessor, transform of
    the data, inverse_transform of the scores, compute(), serialize(). Errors are ignored here (each has its own check);
    the point is the state the calls may leave behind."""
    for name in ACCESSORS:
        f = getattr(m, name, None)
        if f is None:
            continue
        for kw in ({}, {"normalized": False}, {"normalized": True}):
            try:
                f(**kw)
            except Exception:
                pass
    for kw in ({}, {"normalized": True}):
        try:
            t = m.transform(*data, **kw)
        except Exception:
            t = None
        if t is not None:
            try:
                m.inverse_transform(*(t if isinstance(t, (list, tuple)) and len(data) > 1 else (t,)))
            except Exception:
                pass
    try:
        s = m.scores()
        m.inverse_transform(*(s if isinstance(s, (list, tuple)) else (s,)))
    except Exception:
        pass
    for name in (() if light else ("compute", "serialize")):
        try:
            getattr(m, name)()
        except Exception:
            pass


def other_like(rng, da, scale=1.0):
    """data with the structure of `da` (dims, coords, NaN pattern) and unrelated values"""
    import numpy as np
    v = np.asarray(da.values)
    sd = float(np.nanstd(np.abs(v)) or 1.0)
    # unrelated values in the units of `da`: anomalies AND mean state of the data's own size (an offset of order one on data of order 1e-8
    # would be numerically rank-one data, which uncentred models may rightly refuse)
    w = (rng.normal(size=v.shape) * scale + rng.normal()) * sd
    if np.iscomplexobj(v):
        w = w + 1j * rng.normal(size=v.shape)
    w = np.where(np.isnan(v), np.nan, w)
    return da.copy(data=w.astype(v.dtype))


# ---------------------------------------------------------------- prior use of model objects, for every check
_PRIOR = {"count": 0, "every": 0, "installed": False, "busy": False, "seen": set(), "done": 0, "failed": 0, "last": False,
          "fits": 0, "queried": 0, "last_queried": False}


def other_like_any(rng, obj):
    """other_like for DataArray, Dataset and (nested) lists of them; None if the object is something else"""
    import xarray as xr
    if isinstance(obj, xr.DataArray):
        return other_like(rng, obj)
    if isinstance(obj, xr.Dataset):
        return obj.copy(data={k: other_like(rng, v).values for k, v in obj.data_vars.items()})
    if isinstance(obj, (list, tuple)):
        items = [other_like_any(rng, o) for o in obj]
        return None if any(i is None for i in items) else type(obj)(items)
    return None


def install_prior_use(every=6):
    """From now on, every `every`-th model object (single-set or cross-set) whose fit is called for the first time is first
    fitted on unrelated data of the same structure and driven through its accessors, transform and inverse_transform;
    the fit the check asked for follows. By C14 no answer may depend on that; each check's oracles then also cover
    objects with a call history. every=0 switches it off."""
    import numpy as np
    if every and os.environ.get("VERIF_PRIOR_USE_EVERY"):
        every = int(os.environ["VERIF_PRIOR_USE_EVERY"])      # replays: every object, so that a recorded case meets the same history
    _PRIOR["every"] = every
    if _PRIOR["installed"] or not every:
        return
    from xeofs.cross.base_model_cross_set import BaseModelCrossSet
    from xeofs.single.base_model_single_set import BaseModelSingleSet

    def wrap(cls, nfields):
        orig = cls.fit

        def fit(self, *a, **kw):
            if _PRIOR["every"] and not _PRIOR["busy"] and id(self) not in _PRIOR["seen"]:
                _PRIOR["seen"].add(id(self))
                _PRIOR["count"] += 1
                _PRIOR["last"] = False
                if _PRIOR["count"] % _PRIOR["every"] == 0:
                    _PRIOR["busy"] = True
                    try:
                        rng = np.random.default_rng(_PRIOR["count"])
                        others = [other_like_any(rng, x) for x in a[:nfields]]
                        if len(others) == nfields and all(o is not None for o in others) and not any(
                                "dask" in type(getattr(o, "data", None)).__module__ for o in others if hasattr(o, "data")):
                            orig(self, *others, *a[nfields:], **kw)
                            exercise(self, *others, light=True)
                            _PRIOR["done"] += 1
                            _PRIOR["last"] = True
                    except Exception:
                        _PRIOR["failed"] += 1
                    finally:
                        _PRIOR["busy"] = False
            res = orig(self, *a, **kw)
            # every fourth completed fit (of an eager model on in-memory data) is followed at once by a round of queries: every accessor
            # without arguments and with both settings of `normalized`. Reading results changes nothing (C14): whatever the check reads
            # afterwards must be what the fit left.
            if _PRIOR["every"] and not _PRIOR["busy"]:
                _PRIOR["fits"] += 1
                _PRIOR["last_queried"] = False
                if _PRIOR["fits"] % 4 == 2 or os.environ.get("VERIF_QUERY_EVERY") == "1":
                    _PRIOR["busy"] = True
                    try:
                        eager = bool(self.get_params().get("compute", True))
                        lazy_in = any("dask" in type(getattr(x, "data", None)).__module__ for x in a[:nfields] if hasattr(x, "data"))
                        if eager and not lazy_in:
                            query_all(self)
                            _PRIOR["queried"] += 1
                            _PRIOR["last_queried"] = True
                    except Exception:
                        pass
                    finally:
                        _PRIOR["busy"] = False
            return res
        cls.fit = fit
    wrap(BaseModelSingleSet, 1)
    wrap(BaseModelCrossSet, 2)

    def wrap_rotator(cls):
        orig = cls.fit

        def fit(self, model, *a, **kw):
            res = orig(self, model, *a, **kw)
            # the same round of queries after every fourth fit of an eager rotator, on the rotator and on the model it was fitted on
            if _PRIOR["every"] and not _PRIOR["busy"]:
                _PRIOR["fits"] += 1
                _PRIOR["last_queried"] = False
                if _PRIOR["fits"] % 4 == 2 or os.environ.get("VERIF_QUERY_EVERY") == "1":
                    _PRIOR["busy"] = True
                    try:
                        if bool(self.get_params().get("compute", True)) and bool(model.get_params().get("compute", True)):
                            query_all(self)
                            query_all(model)
                            _PRIOR["queried"] += 1
                            _PRIOR["last_queried"] = True
                    except Exception:
                        pass
                    finally:
                        _PRIOR["busy"] = False
            return res
        cls.fit = fit
    try:
        from xeofs.cross.cpcca_rotator import CPCCARotator
        from xeofs.single.eof_rotator import EOFRotator
        wrap_rotator(EOFRotator)
        wrap_rotator(CPCCARotator)
    except Exception:
        pass
    _PRIOR["installed"] = True


def prior_use_counts():
    return dict(objects_seen=_PRIOR["count"], with_prior_use=_PRIOR["done"], prior_use_refused=_PRIOR["failed"], every=_PRIOR["every"],
                fits_seen=_PRIOR["fits"], fits_followed_by_a_round_of_queries=_PRIOR["queried"])
