"""Correspondence of Model/Pipe.v (renaming stage) with xeofs.preprocessing.DimensionRenamer on random layouts."""
import numpy as np

from . import common as C

NAMES = ["a", "b", "c", "d", "e"]


def run(ctx, pid, N):
    import xarray as xr
    from xeofs.preprocessing.dimension_renamer import DimensionRenamer
    rng = ctx.rng.child(pid + "ren").np
    cases, descs = [], []
    for i in range(N):
        nd = int(rng.integers(2, 6))
        xdims = [NAMES[j] for j in rng.permutation(len(NAMES))[:nd]]
        ns = int(rng.integers(1, nd))
        sample = [xdims[j] for j in rng.permutation(nd)[:ns]]
        start = int(rng.integers(0, 4))
        X = xr.DataArray(np.zeros([2] * nd), dims=xdims)
        r = DimensionRenamer(base="dim", start=start)
        r.fit(X, tuple(sample), tuple(d for d in xdims if d not in sample))
        m = [(NAMES.index(k), int(v[3:])) for k, v in r.dim_mapping.items()]
        T = r.transform(X)
        renamed = [int(d[3:]) for d in T.dims]
        back = [NAMES.index(d) for d in r.inverse_transform_data(T).dims]
        nat = lambda xs: "[" + "; ".join("%d" % x for x in xs) + "]%nat"  # noqa
        cases.append("(%d%%nat, %s, %s, [%s], %s, %s)" % (start, nat([NAMES.index(d) for d in sample]), nat([NAMES.index(d) for d in xdims]),
                                                        "; ".join("(%d%%nat, %d%%nat)" % kv for kv in m), nat(renamed), nat(back)))
        descs.append("dims=%r sample=%r start=%d" % (xdims, sample, start))
        ctx.dist["renamer:%d-dims/%d-sample" % (nd, ns)] += 1
        ctx.case(("ren", tuple(xdims), tuple(sample), start), nontrivial=nd >= 3, tag="DimensionRenamer/%dd/%ds" % (nd, ns))
        # the property on the implementation: the i-th sample dimension is numbered start + i, and renaming is undone
        if [int(r.dim_mapping[d][3:]) for d in sample] != list(range(start, start + ns)):
            ctx.violation("%s:DimensionRenamer:sample-numbering" % pid, "DimensionRenamer numbers the sample dimensions %r as %r (dims %r): not the user's order" % (
                sample, [r.dim_mapping[d] for d in sample], xdims), dict(kind="renamer", dims=xdims, sample=sample, start=start))
        if [NAMES[j] for j in back] != xdims:
            ctx.violation("%s:DimensionRenamer:roundtrip" % pid, "DimensionRenamer inverse gives dims %r for %r" % ([NAMES[j] for j in back], xdims),
                          dict(kind="renamer", dims=xdims, sample=sample, start=start))
    body = [C.COQ_HEADER, "From XV Require Import Model.Pipe Model.PipeCase Gen.T7pipe.\n", "Definition cases : list ren_case := [",
            ";\n".join("  " + c for c in cases), "].\nEval vm_compute in (0%Z :: ren_mismatches renamer_rule cases).\n"]
    f = C.write_case_file(pid, "ren", "\n".join(body))
    rc, out = C.coqc_run(f)
    if rc != 0:
        ctx.oblige("correspondence:DimensionRenamer vs Model/Pipe.v", "correspondence", False, out[-600:])
        return
    ev = C.parse_evals(out)
    bad = [i for i in C.parse_int_list(ev[0] if ev else "") if i > 0]
    ctx.oblige("correspondence:DimensionRenamer, %d random layouts (mapping, renamed dims, undone dims) vs Model/Pipe.v" % N, "correspondence", not bad,
               "disagreements on %r" % [descs[i - 1] for i in bad[:4]])
