"""Correspondence of Model/Pipe.v (renaming stage) with xeofs.preprocessing.DimensionRenamer on random layouts."""
import numpy as np

from . import common as C

NAMES = ["a", "b", "c", "d", "e"]


def run(ctx, pid, N):
    import xarray as xr
    from xeofs.preprocessing.dimension_renamer import DimensionRenamer
    rng = ctx.rng.child(pid + "ren").np
    cases, descs = [], []
    for i in range(N):
        nd = int(rng.integers(2, 6))
        xdims = [NAMES[j] for j in rng.permutation(len(NAMES))[:nd]]
        ns = int(rng.integers(1, nd))
        sample = [xdims[j] for j in rng.permutation(nd)[:ns]]
        start = int(rng.integers(0, 4))
        X = xr.DataArray(np.zeros([2] * nd), dims=xdims)
        r = DimensionRenamer(base="dim", start=start)
        r.fit(X, tuple(sample), tuple(d for d in xdims if d not in sample))
        m = [(NAMES.index(k), int(v[3:])) for k, v in r.dim_mapping.items()]
        T = r.transform(X)
        renamed = [int(d[3:]) for d in T.dims]
        back = [NAMES.index(d) for d in r.inverse_transform_data(T).dims]
        nat = lambda xs: "[" + "; ".join("%d" % x for x in xs) + "]%nat"  # noqa
        cases.append("(%d%%nat, %s, %s, [%s], %s, %s)" % (start, nat([NAMES.index(d) for d in sample]), nat([NAMES.index(d) for d in xdims]),
                                                        "; ".join("(%d%%nat, %d%%nat)" % kv for kv in m), nat(renamed), nat(back)))
        descs.append("dims=%r sample=%r start=%d" % (xdims, sample, start))
        ctx.dist["renamer:%d-dims/%d-sample" % (nd, ns)] += 1
        ctx.case(("ren", tuple(xdims), tuple(sample), start), nontrivial=nd >= 3, tag="DimensionRenamer/%dd/%ds" % (nd, ns))
        # the property on the implementation: the i-th sample dimension is numbered start + i, and renaming is undone
        if [int(r.dim_mapping[d][3:]) for d in sample] != list(range(start, start + ns)):
            ctx.violation("%s:DimensionRenamer:sample-numbering" % pid, "DimensionRenamer numbers the sample dimensions %r as %r (dims %r): not the user's order" % (
                sample, [r.dim_mapping[d] for d in sample], xdims), dict(kind="renamer", dims=xdims, sample=sample, start=start))
        if [NAMES[j] for j in back] != xdims:
            ctx.violation("%s:DimensionRenamer:roundtrip" % pid, "DimensionRenamer inverse gives dims %r for %r" % ([NAMES[j] for j in back], xdims),
                          dict(kind="renamer", dims=xdims, sample=sample, start=start))
    body = [C.COQ_HEADER, "From XV Require Import Model.Pipe Model.PipeCase Gen.T7pipe.\n", "Definition cases : list ren_case := [",
            ";\n".join("  " + c for c in cases), "].\nEval vm_compute in (0%Z :: ren_mismatches renamer_rule cases).\n"]
    f = C.write_case_file(pid, "ren", "\n".join(body))
    rc, out = C.coqc_run(f)
    if rc != 0:
        ctx.oblige("correspondence:DimensionRenamer vs Model/Pipe.v", "correspondence", False, out[-600:])
        return
    ev = C.parse_evals(out)
    bad = [i for i in C.parse_int_list(ev[0] if ev else "") if i > 0]
    ctx.oblige("correspondence:DimensionRenamer, %d random layouts (mapping, renamed dims, undone dims) vs Model/Pipe.v" % N, "correspondence", not bad,
               "disagreements on %r" % [descs[i - 1] for i in bad[:4]])


def run_concat(ctx, pid, N):
    """Concatenator round trips (1..13 items of 1..3 features, labels of each item its own) against Model/Concat.v"""
    import xarray as xr
    from xeofs.preprocessing.concatenator import Concatenator
    rng = ctx.rng.child(pid + "concat").np
    cases, descs = [], []
    for i in range(N):
        n_items = int(rng.integers(1, 14))
        items = []
        for j in range(n_items):
            w = int(rng.integers(1, 4))
            labels = (rng.permutation(50)[:w] + 100 * j).astype(int)
            vals = (np.arange(w) + 10 * j + 1000 * i).astype(float)
            items.append(xr.DataArray(vals[None, :], dims=("sample", "feature"), coords={"sample": [0], "feature": labels}))
        ctx.case(("concat", i, n_items), nontrivial=n_items >= 2, tag="Concatenator/%s items" % ("1-10" if n_items <= 10 else "11-13"))
        c = Concatenator()
        try:
            J = c.fit_transform(items)
            joined = [int(v) for v in J.values[0]]
        except Exception as e:
            ctx.violation("%s:Concatenator:error:%s" % (pid, C.errkind(e)), "Concatenator.fit_transform raised %r on %d items" % (e, n_items), dict(kind="concat", n_items=n_items))
            continue
        try:
            back = c.inverse_transform_data(J)
            back_c = "Some [%s]" % "; ".join("[%s]" % "; ".join("(%d, %d)%%Z" % (int(l), int(v)) for l, v in zip(b.feature.values, b.values[0])) for b in back)
            ok = len(back) == n_items and all(list(b.feature.values) == list(a.feature.values) and np.array_equal(b.values, a.values) for a, b in zip(items, back))
        except Exception:
            back_c, ok = "None", False
        if not ok:
            ctx.violation("%s:Concatenator:roundtrip" % pid, "Concatenator: cutting the joined array of %d items back does not return the items with their own labels" % n_items,
                          dict(kind="concat", n_items=n_items, labels=[list(map(int, a.feature.values)) for a in items]))
        its = "[%s]" % "; ".join("[%s]" % "; ".join("(%d, %d)%%Z" % (int(l), int(v)) for l, v in zip(a.feature.values, a.values[0])) for a in items)
        cases.append("(%s, [%s]%%Z, %s)" % (its, "; ".join(str(v) for v in joined), back_c))
        descs.append("%d items" % n_items)
    body = [C.COQ_HEADER, "From XV Require Import Model.Concat Model.ConcatCase Gen.T7pipe.\n", "Definition cases : list concat_case := [",
            ";\n".join("  " + c for c in cases), "].\nEval vm_compute in (0%Z :: concat_mismatches concat_rule cases).\n"]
    f = C.write_case_file(pid, "concat", "\n".join(body))
    rc, out = C.coqc_run(f)
    if rc != 0:
        ctx.oblige("correspondence:Concatenator vs Model/Concat.v", "correspondence", False, out[-600:])
        return
    ev = C.parse_evals(out)
    bad = [i for i in C.parse_int_list(ev[0] if ev else "") if i > 0]
    ctx.oblige("correspondence:Concatenator, %d lists of 1..13 items (joined values, items cut back) vs Model/Concat.v" % N, "correspondence", not bad,
               "disagreements on %r" % [descs[i - 1] for i in bad[:4]])
