"""Generators and implementation drivers shared by the EOF-family numeric properties."""
import numpy as np

from . import common as C


def spectrum(rng, r, kind):
    if kind == "random":
        s = np.sort(np.abs(rng.standard_normal(r)) + 0.05)[::-1]
    elif kind == "geometric":
        s = 2.0 ** -np.arange(r)
    elif kind == "repeated":
        s = np.ones(r)
        s[: max(1, r // 2)] = 2.0
    elif kind == "rankdef":
        s = np.sort(np.abs(rng.standard_normal(r)) + 0.1)[::-1]
        s[max(1, r // 2):] = 0.0
    elif kind == "clustered":
        s = np.sort(1.0 + 1e-3 * rng.standard_normal(r))[::-1]
    else:
        raise ValueError(kind)
    return s.astype(float)


def matrix_with_spectrum(rng, n, p, s, cplx=False):
    r = min(n, p)
    def rnd(a, b):
        M = rng.standard_normal((a, b))
        if cplx:
            M = M + 1j * rng.standard_normal((a, b))
        return M
    U, _ = np.linalg.qr(rnd(n, r))
    V, _ = np.linalg.qr(rnd(p, r))
    return (U * s[:r]) @ V.conj().T


def make_case(rng, quick=True, force=None, missing=False):
    """one structured, mostly-valid configuration for an EOF-type fit"""
    force = force or {}
    cls = force.get("cls", rng.choice(["EOF", "EOF", "EOF", "ComplexEOF", "HilbertEOF", "ExtendedEOF"]))
    shape_kind = rng.choice(["tall", "tall", "wide", "square", "onefeature"])
    if shape_kind == "tall":
        n, p = int(rng.integers(4, 11)), int(rng.integers(2, 6))
    elif shape_kind == "wide":
        n, p = int(rng.integers(3, 6)), int(rng.integers(5, 9))
    elif shape_kind == "square":
        n = p = int(rng.integers(3, 7))
    else:
        n, p = int(rng.integers(3, 9)), 1
    if cls == "ExtendedEOF":
        n = max(n, 7)
    use_coslat = bool(rng.random() < 0.25) and p >= 2
    nlat = nlon = None
    if use_coslat:
        nlat = 2 if p % 2 == 0 else 1
        nlon = p // nlat
        p = nlat * nlon
    kind = str(rng.choice(["random", "random", "geometric", "repeated", "rankdef", "clustered"]))
    scale = float(10.0 ** rng.integers(-8, 9)) if rng.random() < 0.4 else 1.0
    cplx = cls == "ComplexEOF"
    s = spectrum(rng, min(n, p), kind)
    X = matrix_with_spectrum(rng, n, p, s, cplx) * scale
    offs = rng.standard_normal(p) * scale * (3.0 if rng.random() < 0.7 else 0.0)
    X = X + offs
    center = bool(rng.random() < 0.8)
    standardize = bool(rng.random() < 0.3) and kind != "rankdef"
    weights = None
    if rng.random() < 0.3:
        weights = (0.5 + rng.random(p)).astype(float)
    solver = str(rng.choice(["full", "full", "auto", "randomized"]))
    seed = int(rng.integers(0, 2 ** 31 - 1))
    cfg = dict(cls=str(cls), n=n, p=p, nlat=nlat, nlon=nlon, center=center, standardize=standardize,
               use_coslat=use_coslat, pole=bool(use_coslat and nlat and nlat > 1 and rng.random() < 0.4), weights=None if weights is None else weights.tolist(), solver=solver,
               random_state=seed, spectrum=kind, scale=scale, cplx=cplx, k=None,
               X_re=np.real(X).tolist(), X_im=(np.imag(X).tolist() if cplx else None))
    if missing and cls in ("EOF", "ComplexEOF") and n >= 6 and rng.random() < 0.2:
        # one or two entirely missing samples: they are deleted before the decomposition, N is the number of samples that are left
        cfg["missing_rows"] = sorted(set(int(x) for x in rng.integers(0, n, size=int(rng.integers(1, 3)))))
    if cls == "ExtendedEOF":
        cfg["tau"] = int(rng.integers(1, 3))
        cfg["embedding"] = int(rng.integers(2, 4))
        cfg["n_pca_modes"] = None if rng.random() < 0.5 else int(rng.integers(1, min(n, p) + 1))
    if cls == "HilbertEOF":
        cfg["padding"] = str(rng.choice(["exp", "none"]))
        cfg["decay_factor"] = float(rng.choice([0.05, 0.2]))
    cfg.update(force)
    return cfg


def lat_values(cfg):
    """latitudes of a coslat case; with cfg["pole"] the grid contains a pole exactly (weight sqrt(cos) ~ 7.8e-9, not zero)"""
    nlat = cfg["nlat"]
    if nlat > 1:
        return np.linspace(-90.0, 75.0, nlat) if cfg.get("pole") else np.linspace(-60.0, 75.0, nlat)
    return np.array([40.0])


def build_input(cfg):
    import xarray as xr
    n, p = cfg["n"], cfg["p"]
    X = np.asarray(cfg["X_re"], dtype=float)
    if cfg.get("X_im") is not None:
        X = X + 1j * np.asarray(cfg["X_im"], dtype=float)
    if cfg.get("missing_rows"):
        X = X.copy()
        X[list(cfg["missing_rows"])] = np.nan
    if cfg.get("use_coslat"):
        nlat, nlon = cfg["nlat"], cfg["nlon"]
        lats = lat_values(cfg)
        da = xr.DataArray(X.reshape(n, nlat, nlon), dims=("time", "lat", "lon"),
                          coords={"time": np.arange(n), "lat": lats, "lon": np.arange(nlon) * 10.0})
        w = None
        if cfg.get("weights") is not None:
            w = xr.DataArray(np.asarray(cfg["weights"]).reshape(nlat, nlon), dims=("lat", "lon"),
                             coords={"lat": lats, "lon": np.arange(nlon) * 10.0})
    else:
        da = xr.DataArray(X, dims=("time", "x"), coords={"time": np.arange(n), "x": np.arange(p)})
        w = None
        if cfg.get("weights") is not None:
            w = xr.DataArray(np.asarray(cfg["weights"]), dims=("x",), coords={"x": np.arange(p)})
    return da, w


def build_model(cfg, k):
    import xeofs as xe
    kw = dict(n_modes=k, center=cfg["center"], standardize=cfg["standardize"], use_coslat=cfg["use_coslat"],
              solver=cfg["solver"], random_state=cfg["random_state"])
    kw.update(cfg.get("extra_kw", {}))
    cls = cfg["cls"]
    if cls == "EOF":
        return xe.single.EOF(**kw)
    if cls == "ComplexEOF":
        return xe.single.ComplexEOF(**kw)
    if cls == "HilbertEOF":
        return xe.single.HilbertEOF(padding=cfg.get("padding", "exp"), decay_factor=cfg.get("decay_factor", 0.2), **kw)
    if cls == "ExtendedEOF":
        return xe.single.ExtendedEOF(tau=cfg["tau"], embedding=cfg["embedding"], n_pca_modes=cfg.get("n_pca_modes"), **kw)
    raise ValueError(cls)


def inner(model, cfg):
    """the object whose data container holds the 2-D decomposition"""
    return model.model if cfg["cls"] == "ExtendedEOF" else model


def independent_preprocess(cfg):
    """centre / standardise / weight the raw numbers without using xeofs (EOF, ComplexEOF only)"""
    X = np.asarray(cfg["X_re"], dtype=float)
    if cfg.get("X_im") is not None:
        X = X + 1j * np.asarray(cfg["X_im"], dtype=float)
    if cfg.get("missing_rows"):
        X = np.delete(X, list(cfg["missing_rows"]), axis=0)
    n, p = X.shape
    Y = X.copy()
    if cfg["center"]:
        Y = Y - Y.mean(axis=0)
    if cfg["standardize"]:
        sd = X.std(axis=0)
        sd = np.clip(sd, np.finfo(np.float32).eps, None)
        Y = Y / sd
    if cfg.get("use_coslat"):
        nlat, nlon = cfg["nlat"], cfg["nlon"]
        lats = lat_values(cfg)
        w = np.sqrt(np.clip(np.cos(np.deg2rad(lats)), 0, 1))
        Y = Y * np.repeat(w, nlon)
    if cfg.get("weights") is not None:
        Y = Y * np.asarray(cfg["weights"])
    return Y


def c_scalar(x, cplx):
    if cplx:
        return "(%s, %s)" % (C.cf(np.real(x)), C.cf(np.imag(x)))
    return C.cf(np.real(x))


def c_vec(v, cplx):
    return "[" + "; ".join(c_scalar(x, cplx) for x in np.asarray(v).ravel()) + "]"


def c_mat(A, cplx):
    A = np.asarray(A)
    return "[" + "; ".join(c_vec(r, cplx) for r in A) + "]"


def sign_near_tie(Vt_rows, rel=1e-12):
    """the deterministic sign of a mode compares |max| with |min| of its loadings; when the two agree to a few ulps
    the outcome depends on how the absolute value of a (complex) number is rounded (numpy hypot vs sqrt(re^2+im^2)):
    such modes have no sign a float model can predict"""
    for row in np.asarray(Vt_rows):
        a, b = abs(np.max(row)), abs(np.min(row))
        if abs(a - b) <= rel * max(a, b, 1e-300):
            return True
    return False
