"""History correspondence for the `sorted` flag protocol (Model/FlagState.v, parameters from Gen/T5flag.v):
random sequences of fit / compute() on ONE EOFRotator, MCARotator or POP object; after every operation the flag and the
order of the stored modes (as positions in the last fit's unsorted output) are compared with the model's state."""
import numpy as np

from harness import common as C
from harness import zoo as Z


def positions(stored, fresh):
    """position in `fresh` of every entry of `stored` (values are distinct up to rounding)"""
    out = []
    for v in stored:
        d = np.abs(fresh - v)
        out.append(int(np.argmin(d)))
    return out


def natlist(v):
    return "[" + "; ".join("%d%%nat" % int(x) for x in v) + "]"


def gen_history(rng, cls, L):
    import xarray as xr
    import xeofs as xe
    n, p = int(rng.integers(14, 22)), int(rng.integers(6, 9))
    k = int(rng.integers(3, 5))

    def data(cols):
        X = rng.standard_normal((n, cols)) @ np.diag(np.linspace(2.0, 0.6, cols)) @ rng.standard_normal((cols, cols))
        return xr.DataArray(X, dims=("time", "x"), coords={"time": np.arange(n), "x": np.arange(cols)})
    if cls == "POP":
        obj = xe.single.POP(n_modes=k, n_pca_modes=k, compute=False, solver="full")
        key = "eigenvalues"
    elif cls == "EOFRotator":
        obj = xe.single.EOFRotator(n_modes=k, power=int(rng.integers(1, 3)), compute=False, max_iter=3000, rtol=1e-9)
        key = "explained_variance"
    else:
        obj = xe.cross.MCARotator(n_modes=k, power=int(rng.integers(1, 3)), compute=False, max_iter=3000, rtol=1e-9)
        key = "squared_covariance"
    ops, obs, desc, viol = [], [], [], []
    fresh = None
    for step in range(L):
        kind = "fit" if step == 0 else str(rng.choice(["fit", "compute", "compute"]))
        if kind == "fit":
            if cls == "POP":
                obj.fit(data(p), "time")
            elif cls == "EOFRotator":
                m = xe.single.EOF(n_modes=k + 1, solver="full")
                m.fit(data(p), "time")
                obj.fit(m)
            else:
                m = xe.cross.MCA(n_modes=k + 1, use_pca=False, solver="full")
                m.fit(data(p), data(p - 1), "time")
                obj.fit(m)
            fresh = np.asarray(obj.data[key].values).copy()
            idx = [int(v) for v in np.asarray(obj.data["idx_modes_sorted"].values)]
            ops.append("FFit _ %s %s" % (natlist(range(len(fresh))), natlist(idx)))
        else:
            obj.compute()
            ops.append("FCompute _")
        stored = np.asarray(obj.data[key].values)
        if len(set(np.round(np.abs(fresh) / np.abs(fresh).max(), 9))) < len(fresh):
            return None          # two modes of equal weight: positions are not defined
        pos = positions(stored, fresh)
        obs.append((bool(obj.sorted), pos))
        desc.append(kind)
        # the invariant itself, on the implementation's record: the stored modes are the last fit's modes, in the sorting order
        # exactly when the flag (which transform consults) says so; and after compute() they are sorted
        want = idx if obj.sorted else list(range(len(fresh)))
        if pos != want:
            viol.append("after %r the flag is %s but the stored modes are in order %r of the last fit's output (sorting permutation %r)" % (desc, obj.sorted, pos, idx))
        elif kind == "compute" and not obj.sorted:
            viol.append("after %r compute() left the flag unset" % (desc,))
    return ops, obs, desc, viol


def run(ctx, pid, N, classes=("EOFRotator", "MCARotator", "POP")):
    C.setup_impl_env()
    rng = ctx.rng.child(pid + "flag").np
    cases = []
    for i in range(N):
        cls = classes[i % len(classes)]
        try:
            h = gen_history(rng, cls, int(rng.integers(2, 8)))
        except RuntimeError as e:
            if "converge" in str(e):
                ctx.dist["flag:rotation-did-not-converge"] += 1
                continue
            raise
        if h is None:
            ctx.dist["flag:skipped-equal-weights"] += 1
            continue
        ops, obs, desc, viol = h
        cases.append((cls, ops, obs, desc))
        for v in viol[:1]:
            ctx.violation("%s:%s:flag-history" % (pid, cls), "%s object, %s" % (cls, v), dict(kind="flag-history", cls=cls, history=desc, ops=ops))
        ctx.dist["flag:%s:len%d" % (cls, len(ops))] += 1
        ctx.case(("flag", pid, cls, i, tuple(desc)), nontrivial=len(ops) >= 3 and "compute" in desc, tag="%s/flag-history-len%d" % (cls, len(ops)))
    proto = {"EOFRotator": "EOFRotator", "MCARotator": "CPCCARotator", "POP": "POP"}
    body = [C.COQ_HEADER, "From XV Require Import Model.FlagState Model.FlagCase Gen.T5flag.\n",
            "Definition cases : list fcase := ["]
    body.append(";\n".join('  ("%s"%%string, [%s],\n   [%s])' % (proto[c], "; ".join(o), "; ".join("(%s, %s)" % (C.cbool(b), natlist(v)) for b, v in ob))
                           for c, o, ob, _ in cases))
    body.append("].\nEval vm_compute in (0%Z :: fmismatches flag_protocol cases).\n")
    f = C.write_case_file(pid, "flag", "\n".join(body))
    rc, out = C.coqc_run(f)
    if rc != 0:
        ctx.oblige("correspondence:sorted-flag histories vs Model/FlagState.v", "correspondence", False, out[-800:])
        return
    ev = C.parse_evals(out)
    bad = [i for i in C.parse_int_list(ev[0] if ev else "") if i > 0]
    for i in bad[:3]:
        c, o, ob, d = cases[i - 1]
        ctx.extra.setdefault("flag_mismatch", []).append(dict(cls=c, history=d, observed=[[b, v] for b, v in ob]))
    ctx.oblige("correspondence:sorted-flag protocol, %d random fit/compute histories on EOFRotator, MCARotator and POP objects vs Model/FlagState.v" % len(cases),
               "correspondence", not bad, "model and implementation differ on histories %r (first: %r)" % (bad[:5], cases[bad[0] - 1][3] if bad else None))
