"""check driver: regenerate Gen/ from /repo, build the Coq development, check hygiene
and Print Assumptions, run the property's correspondence and oracles, decide."""
import argparse
import fcntl
import importlib
import json
import os
import re
import subprocess
import sys
import time
import traceback
from collections import Counter

HERE = os.path.dirname(os.path.abspath(__file__))
sys.path.insert(0, os.path.dirname(HERE))
from harness import common as C  # noqa: E402

ALLOWED_AXIOMS = {
    # standard-library axioms that may appear (named in DESIGN.md section 6)
    "ClassicalDedekindReals.sig_forall_dec",
    "ClassicalDedekindReals.sig_not_dec",
    "FunctionalExtensionality.functional_extensionality_dep",
    # excluded middle: reached through Coq.Reals' exp / ln / Rpower (C16_whitened_eig_is_real_power only)
    "Classical_Prop.classic",
}
PRIM_OK = re.compile(r"^(PrimFloat|Uint63|PrimInt63|FloatOps|FloatAxioms|Sint63|SpecFloat|PrimString)\.|^(float|int)\s*:")
FORBIDDEN = re.compile(
    r"\b(Admitted|admit|Axiom|Axioms|Parameter|Parameters|Conjecture|Conjectures)\b|Unset\s+Guard|"
    r"bypass_check|type-in-type|impredicative-set|Admit\s+Obligations|Unset\s+Positivity|Unset\s+Universe")


class Ctx:
    def __init__(self, pid, tier, seed):
        self.pid, self.tier, self.seed = pid, tier, seed
        self.rng = C.Rng(seed)
        self.t0 = time.time()
        self.obligations = []     # dicts: name, kind, ok, detail
        self.evaluations = 0
        self.hashes = set()
        self.samples = []
        self.dist = Counter()
        self.violations = []      # dicts: key, what, replay, has_input
        self.known_hits = []
        self.notes = []
        self.traces = 0
        self.assumptions_text = {}
        self.extra = {}
        self.broken = []          # names of broken proof/translator/correspondence ties
        self.findings = load_findings(pid)

    # -- bookkeeping
    def oblige(self, name, kind, ok, detail=""):
        self.obligations.append(dict(name=name, kind=kind, ok=bool(ok), detail=str(detail)[:2000]))
        if not ok:
            self.broken.append(name)

    def case(self, canon, nontrivial=True, tag=None, sample=None):
        self.evaluations += 1
        if nontrivial:
            self.hashes.add(C.canon_hash(canon))
        if tag is not None:
            self.dist[tag] += 1
        if sample is not None and len(self.samples) < 4:
            self.samples.append(C.jsonable(sample))

    def violation(self, key, what, replay, has_input=True):
        """key identifies the call site / witness; known findings are matched on it"""
        for f in self.findings:
            if f.get("status") == "finding" and f.get("key") == key:
                if key not in [k for k, _ in self.known_hits]:
                    self.known_hits.append((key, f.get("what", what)))
                return False
        # collapse duplicates of the same key
        for v in self.violations:
            if v["key"] == key:
                v["count"] = v.get("count", 1) + 1
                return True
        if C._PRIOR.get("last") and isinstance(replay, dict):
            what += " [the model object last fitted had a call history: fitted on unrelated data of the same structure and queried before]"
            replay = dict(replay, model_object_had_call_history=True)
        if C._PRIOR.get("last_queried") and isinstance(replay, dict):
            what += " [the last fit was followed by a round of queries: every accessor, with and without normalized]"
            replay = dict(replay, fit_followed_by_queries=True)
        self.violations.append(dict(key=key, what=what, replay=C.jsonable(replay), has_input=has_input, count=1))
        return True

    @property
    def quick(self):
        return self.tier == "quick"

    def n(self, quick, thorough):
        if getattr(self, "search_mode", False):
            return min(thorough, max(4 * quick, quick + 1))
        return quick if self.tier == "quick" else thorough

    def widen(self, run):
        """a tie broke and the regular run found no failing input: run the generators again on a fresh random stream and
        four times as many cases (bounded by the thorough size); only violations found are kept"""
        n_obl, broken = len(self.obligations), list(self.broken)
        self.search_mode = True
        self.rng = self.rng.child("search")
        try:
            run(self)
        finally:
            self.search_mode = False
            del self.obligations[n_obl:]
            self.broken = broken


def load_findings(pid):
    p = os.path.join(C.VERIF, "known_findings.json")
    if not os.path.exists(p):
        return []
    try:
        data = json.load(open(p))
    except Exception:
        return []
    return [f for f in data.get("findings", []) if f.get("property") == pid]


# ------------------------------------------------------------------ build
def regen(ctx=None):
    from py2coq import translate
    return translate.regen_all(os.path.join(C.COQ, "Gen"))


def write_coqproject():
    files = []
    for sub in ("Base", "Gen", "Model", "Proofs", "Props"):
        d = os.path.join(C.COQ, sub)
        if os.path.isdir(d):
            for fn in sorted(os.listdir(d)):
                if fn.endswith(".v"):
                    files.append("%s/%s" % (sub, fn))
    txt = "-Q . XV\n-arg -w -arg -notation-overridden,-deprecated-hint-without-locality,-deprecated-instance-without-locality,-inexact-float\n" + "\n".join(files) + "\n"
    p = os.path.join(C.COQ, "_CoqProject")
    old = open(p).read() if os.path.exists(p) else None
    if old != txt or not os.path.exists(os.path.join(C.COQ, "Makefile")):
        open(p, "w").write(txt)
        subprocess.run(["coq_makefile", "-f", "_CoqProject", "-o", "Makefile"], cwd=C.COQ, check=True,
                       capture_output=True)


def make(targets, timeout=2400):
    """full .vo build of the given targets (and everything they need), under a lock"""
    os.makedirs(C.BUILD, exist_ok=True)
    with open(os.path.join(C.BUILD, "lock"), "w") as lk:
        fcntl.flock(lk, fcntl.LOCK_EX)
        write_coqproject()
        cmd = ["timeout", str(timeout), "make", "-k", "-j%d" % C.NCPU] + targets
        p = subprocess.run(cmd, cwd=C.COQ, capture_output=True, text=True)
        return p.returncode, p.stdout + p.stderr, " ".join(cmd)


def failed_files(make_out):
    bad = []
    for m in re.finditer(r'File "\./([^"]+)", line (\d+)[^\n]*\n(?:Warning)', make_out):
        pass
    for m in re.finditer(r'File "\./([^"]+)", line (\d+), characters [\d-]+:\s*\nError', make_out):
        bad.append((m.group(1), int(m.group(2))))
    for m in re.finditer(r"\*\*\* \[[^\]]*: ([^\]\s]+\.vo)\]", make_out):
        f = m.group(1)[:-1]
        if f not in [b[0] for b in bad]:
            bad.append((f, 0))
    return bad


def hygiene():
    """no Admitted/Axiom/... anywhere in the development; Variable/Hypothesis only in Sections"""
    problems = []
    for sub in ("Base", "Gen", "Model", "Proofs", "Props", "Cases"):
        d = os.path.join(C.COQ, sub)
        if not os.path.isdir(d):
            continue
        for fn in sorted(os.listdir(d)):
            if not fn.endswith(".v"):
                continue
            txt = open(os.path.join(d, fn)).read()
            txt_nc = strip_comments(txt)
            for i, line in enumerate(txt_nc.split("\n"), 1):
                if FORBIDDEN.search(line):
                    problems.append("%s/%s:%d: %s" % (sub, fn, i, line.strip()[:100]))
            depth = 0
            for i, line in enumerate(txt_nc.split("\n"), 1):
                if re.match(r"\s*Section\s+\w+", line):
                    depth += 1
                elif re.match(r"\s*End\s+\w+", line) and depth > 0:
                    depth -= 1
                elif depth == 0 and re.match(r"\s*(Variable|Variables|Hypothesis|Hypotheses|Context)\b", line):
                    problems.append("%s/%s:%d: %s outside Section" % (sub, fn, i, line.strip()[:60]))
    return problems


def strip_comments(txt):
    out, depth, i = [], 0, 0
    while i < len(txt):
        if txt.startswith("(*", i):
            depth += 1
            i += 2
        elif txt.startswith("*)", i) and depth > 0:
            depth -= 1
            i += 2
        else:
            if depth == 0:
                out.append(txt[i])
            elif txt[i] == "\n":
                out.append("\n")
            i += 1
    return "".join(out)


def check_props_file(ctx, pid):
    """compile Props/<pid>.v on its own, capture the Print Assumptions text"""
    path = os.path.join(C.COQ, "Props", pid + ".v")
    if not os.path.exists(path):
        ctx.oblige("Props/%s.v" % pid, "theorem", False, "missing")
        return
    src = strip_comments(open(path).read())
    names = re.findall(r"^\s*(?:Theorem|Example)\s+(\w+)", src, re.M)
    # the file may contain nothing but statements closed by `exact`
    for m in re.finditer(r"Proof\.(.*?)Qed\.", src, re.S):
        body = m.group(1).strip()
        if not re.fullmatch(r"(exact\s+[^.]+(\.[A-Za-z_][^.]*)*\.|intros\.\s*exact\s+[^.]+\.|vm_compute;\s*reflexivity\.|reflexivity\.)", body, re.S):
            if not body.startswith("exact"):
                ctx.oblige("Props/%s.v:proof-shape" % pid, "hygiene", False, body[:200])
    rc, out = C.coqc_run(path, timeout=900)
    if rc != 0:
        # which theorem failed?
        ctx.oblige("Props/%s.v" % pid, "theorem", False, out[-1500:])
        return
    # split Print Assumptions blocks: they follow in order of the Print commands
    printed = re.findall(r"Print Assumptions\s+(\w+)\.", src)
    blocks = re.split(r"(?=Closed under the global context|Axioms:|Section Variables:)", out)
    blocks = [b for b in blocks if b.strip()]
    ok_all = True
    for i, nm in enumerate(printed):
        b = blocks[i].strip() if i < len(blocks) else "?"
        ctx.assumptions_text[nm] = b[:600]
        ok = b.startswith("Closed under the global context")
        if not ok and b.startswith("Axioms:"):
            ax = re.findall(r"^([\w.]+)\s*:", b[len("Axioms:"):], re.M)
            ok = all(a in ALLOWED_AXIOMS or PRIM_OK.match(a + " :") or PRIM_OK.match(a) for a in ax)
        ctx.oblige("theorem:" + nm, "theorem", ok, b[:300])
        ok_all = ok_all and ok
    for nm in names:
        if nm not in printed:
            ctx.oblige("theorem:%s (no Print Assumptions)" % nm, "hygiene", False)
    if not printed:
        ctx.oblige("Props/%s.v has theorems" % pid, "hygiene", False)


# ------------------------------------------------------------------ main
def run_check(pid, tier, seed, replay=None):
    ctx = Ctx(pid, tier, seed)
    mod = importlib.import_module("props." + pid.lower())
    gen_status = {}
    try:
        gen_status = regen(ctx)
    except Exception as e:  # translator crashed: tie broken for everything
        gen_status = {"translator": "crash: %r" % (e,)}
        traceback.print_exc()
    needed = getattr(mod, "ANCHORS", [])
    for a in needed:
        st = gen_status.get(a, "missing")
        ctx.oblige("translator:" + a, "generated", st == "ok", st)
    targets = ["Props/%s.vo" % pid] + ["Model/%s.vo" % m for m in getattr(mod, "MODELS", [])] + list(getattr(mod, "TARGETS", []))
    rc, out, cmd = make(targets)
    ctx.extra["checker_cmd"] = "cd %s && %s ; coqc -Q . XV Props/%s.v" % (C.COQ, cmd, pid)
    bad = failed_files(out) if rc != 0 else []
    for f, line in bad:
        ctx.oblige("build:%s:%d" % (f, line), "theorem", False, extract_error(out, f))
    if rc != 0 and not bad:
        ctx.oblige("build", "theorem", False, out[-1500:])
    hy = hygiene()
    ctx.oblige("hygiene: no Admitted/Axiom/Parameter/unguarded Variable", "hygiene", not hy, "; ".join(hy[:10]))
    if not any(f.startswith("Props/%s" % pid) or f.startswith("Proofs/") or f.startswith("Model/") or f.startswith("Gen/") or f.startswith("Base/") for f, _ in bad):
        check_props_file(ctx, pid)
    else:
        check_props_file(ctx, pid)
    model_ok = not any(f.startswith(("Model/", "Base/", "Gen/")) for f, _ in bad)
    ctx.extra["model_ok"] = model_ok
    if tier == "thorough" and rc == 0:
        coqchk(ctx, pid)
    # correspondence + oracles
    try:
        if replay:
            rp_ = json.load(open(replay))
            if (rp_.get("replay") or {}).get("model_object_had_call_history") if isinstance(rp_.get("replay"), dict) else False:
                os.environ["VERIF_PRIOR_USE_EVERY"] = "1"
            if (rp_.get("replay") or {}).get("fit_followed_by_queries") if isinstance(rp_.get("replay"), dict) else False:
                os.environ["VERIF_QUERY_EVERY"] = "1"      # replays: a round of queries after every fit, so that a recorded case meets it again
            mod.replay(ctx, rp_)
        else:
            mod.run(ctx)
    except Exception as e:
        traceback.print_exc()
        ctx.oblige("harness", "correspondence", False, "harness crashed: %r" % (e,))
    # broken tie without a concrete failing input -> search
    if ctx.broken and not ctx.violations and hasattr(mod, "search"):
        try:
            mod.search(ctx)
        except Exception as e:
            traceback.print_exc()
            ctx.notes.append("search crashed: %r" % (e,))
    pu = C.prior_use_counts()
    if pu["objects_seen"]:
        ctx.extra["model_objects_given_a_call_history_before_their_first_fit"] = pu
    return finish(ctx, mod)


def coqchk(ctx, pid):
    """thorough tier: re-check the compiled property file and everything it depends on with the independent checker"""
    cmd = ["timeout", "3000", "coqchk", "-silent", "-o", "-Q", C.COQ, "XV", "XV.Props.%s" % pid]
    p = subprocess.run(cmd, capture_output=True, text=True, cwd=C.COQ)
    out = p.stdout + p.stderr
    m = re.search(r"\* Axioms:(.*?)\n\s*\n\* Constants/Inductives relying on type-in-type:(.*?)\n\s*\n\* Constants/Inductives relying on unsafe \(co\)fixpoints:(.*?)\n\s*\n\* Inductives whose positivity is assumed:(.*?)\n", out, re.S)
    ok = p.returncode == 0 and m is not None
    detail = out[-600:]
    if m:
        axioms = [a.strip() for a in m.group(1).split("\n") if a.strip() and a.strip() != "<none>"]
        unsafe = [x.strip() for g in (2, 3, 4) for x in m.group(g).split("\n") if x.strip() and x.strip() != "<none>"]
        # coqchk lists the axioms of every LOADED library file (not only those a theorem depends on): the real-number
        # axioms, excluded middle (Coq.Logic.Classical_Prop.classic, loaded by Coq.Reals) and the primitive
        # float / 63-bit integer operations with their specification axioms
        lib_ok = ("Coq.Floats.", "Coq.Numbers.Cyclic.Int63.", "Coq.Logic.Classical_Prop.classic")
        bad_ax = [a for a in axioms if not (any(a.endswith(k) for k in ALLOWED_AXIOMS) or a.startswith(lib_ok))]
        ctx.extra["coqchk_axioms"] = [a for a in axioms if not a.startswith(lib_ok[:2])]
        ctx.extra["coqchk_primitive_axioms"] = len([a for a in axioms if a.startswith(lib_ok[:2])])
        ok = ok and not unsafe and not bad_ax
        detail = "axioms: %r; unsafe: %r" % (axioms, unsafe)
    ctx.oblige("coqchk: Props/%s.vo and its dependencies re-checked by the independent checker" % pid, "theorem", ok, detail)


def extract_error(out, f):
    m = re.search(r'File "\./%s", line \d+, characters [\d-]+:\s*\nError:?(.*?)(?=\nmake|\nFile |\Z)' % re.escape(f), out, re.S)
    return (m.group(0)[:1200] if m else "")


def finish(ctx, mod):
    pid = ctx.pid
    os.makedirs(os.path.join(C.VERIF, "replays"), exist_ok=True)
    lines = []
    status = 0
    for key, what in ctx.known_hits:
        lines.append("KNOWN-FINDING: property=%s %s" % (pid, what))
    nviol = 0
    for i, v in enumerate(ctx.violations):
        rp = os.path.join(C.VERIF, "replays", "%s_%d.json" % (pid, i))
        json.dump(dict(property=pid, key=v["key"], what=v["what"], count=v.get("count", 1), replay=v["replay"],
                       seed=ctx.seed, tier=ctx.tier), open(rp, "w"), indent=1)
        lines.append("VIOLATION property=%s replay=%s # %s" % (pid, rp, v["what"][:160].replace("\n", " ")))
        nviol += 1
        status = 1
    if ctx.broken and not ctx.violations:
        rp = os.path.join(C.VERIF, "replays", "%s_broken.json" % pid)
        json.dump(dict(property=pid, no_longer_checks=ctx.broken,
                       obligations=[o for o in ctx.obligations if not o["ok"]], seed=ctx.seed, tier=ctx.tier),
                  open(rp, "w"), indent=1)
        lines.append("VIOLATION property=%s replay=%s no-failing-input-found" % (pid, rp))
        nviol += 1
        status = 1
    n_ob = len(ctx.obligations)
    n_ok = sum(1 for o in ctx.obligations if o["ok"])
    ev = dict(
        property_id=pid, tier=ctx.tier, seed=int(ctx.seed), level="proof",
        coverage=dict(
            obligations=n_ob, discharged=n_ok,
            checker_cmd=ctx.extra.get("checker_cmd", "make"),
            trusted_base=getattr(mod, "TRUSTED", []) + [
                "Coq 8.16.1 kernel + vm_compute (no native_compute)",
                "translator tools/py2coq (fail-closed Python ast schemas)",
                "correspondence harness tools/harness (differential testing at rtol 1e-8)"],
            evaluations=ctx.evaluations, distinct_nontrivial=len(ctx.hashes),
            traces_validated_against_impl=ctx.traces,
            rule=getattr(mod, "RULE", ""),
            samples=ctx.samples[:4] if ctx.samples else [dict(obligation=o["name"]) for o in ctx.obligations[:3]],
            input_distribution={str(k): v for k, v in sorted(ctx.dist.items(), key=lambda kv: str(kv[0]))},
            obligations_list=[dict(name=o["name"], kind=o["kind"], ok=o["ok"]) for o in ctx.obligations],
            print_assumptions=ctx.assumptions_text,
            partial=getattr(mod, "PARTIAL", []), refuted=getattr(mod, "REFUTED", []),
            known_findings_hit=[k for k, _ in ctx.known_hits],
            notes=ctx.notes[:20], **{k: v for k, v in ctx.extra.items() if k not in ("checker_cmd",)}),
        assumptions=getattr(mod, "ASSUMES", []),
        wall_s=round(time.time() - ctx.t0, 2), violations=nviol)
    os.makedirs(os.path.join(C.VERIF, "evidence"), exist_ok=True)
    json.dump(ev, open(os.path.join(C.VERIF, "evidence", pid + ".json"), "w"), indent=1, default=str)
    for ln in lines:
        print(ln)
    print("%s %s tier=%s seed=%d obligations=%d/%d evaluations=%d nontrivial=%d wall=%.1fs" % (
        "FAIL" if status else "PASS", pid, ctx.tier, ctx.seed, n_ok, n_ob, ctx.evaluations, len(ctx.hashes),
        time.time() - ctx.t0))
    if status:
        for o in ctx.obligations:
            if not o["ok"]:
                print("  broken: %s :: %s" % (o["name"], o["detail"][:300].replace("\n", " | ")))
    return status


def setup():
    regen()
    rc, out, cmd = make([])
    print(out[-3000:])
    return rc


def main():
    ap = argparse.ArgumentParser()
    ap.add_argument("pid", nargs="?")
    ap.add_argument("--tier", default=None)
    ap.add_argument("--setup", action="store_true")
    ap.add_argument("--replay")
    a = ap.parse_args()
    seed = int(os.environ.get("VERIF_SEED", "0") or 0)
    if a.setup:
        sys.exit(setup())
    tier = a.tier or os.environ.get("VERIF_TIER")
    if a.replay:
        # a replay runs in the tier and with the seed of the run that recorded it (checks whose replay re-runs the generator need both)
        try:
            rec = json.load(open(a.replay))
            tier = tier or rec.get("tier")
            if "VERIF_SEED" not in os.environ and rec.get("seed") is not None:
                seed = int(rec["seed"])
        except Exception:
            pass
    sys.exit(run_check(a.pid, tier or "quick", seed, a.replay))


if __name__ == "__main__":
    main()
