#!/bin/sh
# usage: coqgoal.sh file.v LINE  -- show the goal just before the tactic sentence containing LINE:COL error
# crude: feed lines 1..LINE-1 plus "Show." to coqtop
f=$1; l=$2
head -n $((l-1)) "$f" > /tmp/t/_goal.v
echo "Show." >> /tmp/t/_goal.v
cd /verif/coq && coqtop -Q . XV -w none -quiet < /tmp/t/_goal.v 2>&1 | tail -${3:-40}
