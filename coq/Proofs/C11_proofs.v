(* C11 / C04 (rotator part) — rotation re-expresses the retained subspace. *)
From Coq Require Import ZArith List Bool Ring Field Setoid Lia Arith Permutation.
From XV Require Import Base.Scalar Base.Sum Base.Mat Base.MatAlg Model.Eof Model.Rot Proofs.C01_proofs.
Import ListNotations.

Section C11.
Context {F : Type} (K : Ops F).
Hypothesis FL : FieldLaws K.
Add Field Ffc11 : (FL_field K FL).
Notation "0" := (f0 K). Notation "1" := (f1 K).
Infix "+" := (fadd K). Infix "*" := (fmul K). Infix "-" := (fsub K). Infix "/" := (fdiv K).
Notation cj := (fconj K).
Notation mat := (@mat F). Notation vec := (@vec F).
Notation get := (get K). Notation vget := (vget K).
Notation mmul := (mmul K). Notation mH := (mH K). Notation mI := (mI K). Notation mdiag := (mdiag K).
Notation colscale := (colscale K). Notation mscale := (mscale K). Notation wf := (wf K).
Notation sum := (sum K).

Ltac mx := mat_unfold; apply tab_ext; intros i j Hi Hj; get_simpl.

Definition unitary (k : nat) (R : mat) : Prop :=
  wf k k R /\ mmul k k k R (mH k k R) = mI k /\ mmul k k k (mH k k R) R = mI k.

(* ---- Varimax: every iterate is unitary (induction over the iterations) ---- *)
Lemma unitary_I k : unitary k (mI k).
Proof. split; [apply wf_mI|]. split; rewrite (mH_I K FL); apply (mmul_I_l K FL); apply wf_mI. Qed.

Lemma unitary_mul k A B : unitary k A -> unitary k B -> unitary k (mmul k k k A B).
Proof. intros (WA & A1 & A2) (WB & B1 & B2). split; [apply wf_mmul|]. split; rewrite (mH_mmul K FL).
  - rewrite (mmul_assoc K FL k k k k A). rewrite <- (mmul_assoc K FL k k k k B). rewrite B1.
    rewrite (mmul_I_l K FL) by apply wf_mH. exact A1.
  - rewrite (mmul_assoc K FL k k k k (mH k k B)). rewrite <- (mmul_assoc K FL k k k k (mH k k A)). rewrite A2.
    rewrite (mmul_I_l K FL) by exact WB. exact B2. Qed.

Lemma varimax_unitary k (answers : list (mat * mat)) :
  Forall (fun a => unitary k (fst a) /\ unitary k (snd a)) answers -> unitary k (varimax_run K k answers).
Proof. unfold varimax_run. generalize (unitary_I k). generalize (mI k).
  induction answers as [|a rest IH]; intros R0 HR0 Hall; cbn [fold_left]; [exact HR0|].
  inversion Hall as [|? ? [Ha1 Ha2] Hrest]; subst. apply IH; [|exact Hrest].
  unfold varimax_step. apply unitary_mul; assumption. Qed.

(* ---- reconstruction from rotated modes ---- *)
Section Recon.
Variables (n p k : nat) (Vk Un : mat) (lam : vec) (R RinvT : mat) (c : F).
Notation out := (rot_fit K n p k Vk Un lam R RinvT).
Notation L := (colscale p k Vk (vmap K k (fsqrt K) lam)).
Notation D := (r_expvar out).

(* RinvT is the inverse conjugate transpose of R *)
Hypothesis HR : mmul k k k RinvT (mH k k R) = mI k.
(* square roots behave: sqrt D_j is a non-zero real, sqrt(D_j (n-1)) = c sqrt D_j *)
Hypothesis He : forall j, (j < k)%nat -> fsqrt K (vget D j) <> 0 /\ cj (fsqrt K (vget D j)) = fsqrt K (vget D j).
Hypothesis Hc : forall j, (j < k)%nat ->
  fsqrt K (vget D j * fofZ K (Z.of_nat n - 1)) = c * fsqrt K (vget D j).

Lemma rot_recon :
  rot_inverse K n p k out (r_scores out) = mscale n p c (mmul n k p Un (mH p k L)).
Proof.
  set (RL := mmul p k k L R).
  assert (HA : rot_inverse K n p k out (r_scores out)
               = mscale n p c (mmul n k p (mmul n k k Un RinvT) (mH p k RL))).
  { unfold rot_inverse, rot_fit. cbn [r_comps r_scores].
    fold RL.
    set (Dv := vtab k (fun j => sum p (fun f => get RL f j * cj (get RL f j)))).
    assert (HD : D = Dv) by reflexivity.
    set (sg := col_signs K p k (tab p k (fun f j => get RL f j / vget (vmap K k (fsqrt K) Dv) j))).
    assert (Hsg : sign_vec K k sg).
    { intros j Hj. unfold sg, col_signs. rewrite vget_vtab by exact Hj. apply (sign_rule_unit K FL). }
    mx. rewrite <- (sum_scale_l K FL). apply (sum_ext K). intros l Hl. get_simpl.
    destruct (Hsg l Hl) as [Hs1 Hs2]. destruct (He l Hl) as [He1 He2]. specialize (Hc l Hl).
    rewrite HD in He1, He2, Hc.
    assert (Hdiv : forall a b, a / b = a * finv K b).
    { intros a b. destruct (FL_field K FL) as [_ _ Fdiv _]. apply Fdiv. }
    rewrite Hdiv. rewrite !(FL_conj_mul K FL). rewrite Hs1.
    assert (Hcinv : cj (finv K (fsqrt K (vget Dv l))) = finv K (fsqrt K (vget Dv l))).
    { set (x := fsqrt K (vget Dv l)) in *.
      assert (Hx : cj (finv K x) * x = 1).
      { rewrite <- He2 at 2. rewrite <- (FL_conj_mul K FL). replace (finv K x * x) with 1 by (field; exact He1).
        apply (FL_conj_1 K FL). }
      replace (cj (finv K x)) with (cj (finv K x) * x * finv K x) by (field; exact He1). rewrite Hx. ring. }
    rewrite Hcinv. rewrite Hc.
    transitivity (c * (sum k (fun l0 => get Un i l0 * get RinvT l0 l) * cj (get RL j l)) *
                  (vget sg l * vget sg l) * (fsqrt K (vget Dv l) * finv K (fsqrt K (vget Dv l)))).
    - ring.
    - rewrite Hs2. replace (fsqrt K (vget Dv l) * finv K (fsqrt K (vget Dv l))) with 1 by (field; exact He1). ring. }
  rewrite HA. f_equal. unfold RL. rewrite (mH_mmul K FL p k k). rewrite (mmul_assoc K FL n k k p).
  rewrite <- (mmul_assoc K FL k k k p RinvT). rewrite HR. rewrite (mmul_I_l K FL) by apply wf_mH. reflexivity. Qed.

End Recon.

(* ---- power 1: R unitary, RinvT = R ---- *)
Lemma rot_scores_orthonormal n k Un R :
  mmul k n k (mH n k Un) Un = mI k -> unitary k R ->
  let Ur := mmul n k k Un R in mmul k n k (mH n k Ur) Ur = mI k.
Proof. intros HU (WR & R1 & R2) Ur. unfold Ur. rewrite (mH_mmul K FL n k k).
  rewrite (mmul_assoc K FL k k n k). rewrite <- (mmul_assoc K FL k n k k (mH n k Un)). rewrite HU.
  rewrite (mmul_I_l K FL) by exact WR. exact R2. Qed.

(* ---- transform of the training data reproduces the (sorted or unsorted) scores ---- *)
Lemma msel_cols_colscale m k A d idx : (forall j, (j < length idx)%nat -> (nth j idx O < k)%nat) ->
  msel_cols K m idx (colscale m k A d) = colscale m (length idx) (msel_cols K m idx A) (vsel K idx d).
Proof. intros Hidx. unfold msel_cols, Mat.colscale, vsel. apply tab_ext. intros i j Hi Hj.
  specialize (Hidx j Hj). rewrite !get_tab by lia. rewrite vget_vtab by lia. reflexivity. Qed.

Section Transform.
Variables (n p k : nat) (Vk Un : mat) (lam sv : vec) (R RinvT : mat) (X : mat) (idx : list nat).
Hypothesis Hidx : length idx = k /\ forall j, (j < k)%nat -> (nth j idx O < k)%nat.
(* X Vk = Un diag(sv) with non-zero sv: the unrotated projections divided by the singular values are Un *)
Hypothesis HXV : mmul n p k X Vk = colscale n k Un sv.
Hypothesis Hsv : forall j, (j < k)%nat -> vget sv j <> 0.
Hypothesis HUn : wf n k Un.
Notation fitted := (rot_fit K n p k Vk Un lam R RinvT).

Lemma proj_is_Un : tab n k (fun i j => get (mmul n p k X Vk) i j / vget sv j) = Un.
Proof. rewrite HXV. apply (wf_ext K n k); [apply wf_tab|exact HUn|]. intros i j Hi Hj. rewrite get_tab by assumption.
  unfold Mat.colscale. rewrite get_tab by assumption. field. apply Hsv; exact Hj. Qed.

Lemma rot_transform_training_unsorted :
  rot_transform K n p k Vk sv RinvT false idx fitted X = r_scores fitted.
Proof. unfold rot_transform. rewrite proj_is_Un. reflexivity. Qed.

Lemma rot_transform_training_sorted :
  rot_transform K n p k Vk sv RinvT true idx (rot_sort K n p idx fitted) X = r_scores (rot_sort K n p idx fitted).
Proof. destruct Hidx as [Hl Hn]. unfold rot_transform. rewrite proj_is_Un. unfold rot_sort. cbn [r_norms r_sign r_scores].
  unfold rot_fit. cbn [r_scores r_norms r_sign].
  rewrite !msel_cols_colscale by (rewrite Hl; exact Hn). rewrite Hl. reflexivity. Qed.
End Transform.

End C11.
