(* C09 — correlations are genuine correlations when covariance and standard deviations use the same
   normalisation (real instance): Cauchy-Schwarz, self-correlation one; and the quantity the code
   reports when they differ. *)
From Coq Require Import ZArith List Bool Reals Lra Lia Arith.
From XV Require Import Base.Scalar Base.Sum Base.Mat Base.RInst.
Import ListNotations.
Open Scope R_scope.

Definition dotR (n : nat) (x y : nat -> R) : R := sum OR n (fun i => x i * y i).

Lemma dotR_nonneg n x : 0 <= dotR n x x.
Proof. unfold dotR. induction n as [|n IH]; cbn [sum f0 fadd OR]; [lra|]. nra. Qed.

Lemma dotR_S n x y : dotR (S n) x y = dotR n x y + x n * y n.
Proof. reflexivity. Qed.

(* Cauchy-Schwarz, by induction on the length *)
Lemma cauchy_schwarz n x y : dotR n x y * dotR n x y <= dotR n x x * dotR n y y.
Proof. induction n as [|n IH]; [unfold dotR; cbn; lra|]. rewrite !dotR_S.
  pose proof (dotR_nonneg n x) as HA. pose proof (dotR_nonneg n y) as HB.
  remember (dotR n x x) as A eqn:EA. remember (dotR n y y) as B eqn:EB. remember (dotR n x y) as Cc eqn:EC.
  remember (x n) as a eqn:Ea. remember (y n) as b eqn:Eb. clear EA EB EC Ea Eb.
  (* 2 a b C <= A b^2 + B a^2 *)
  assert (H2 : 2 * a * b * Cc <= A * b * b + B * a * a).
  { assert (Hsq : (2 * a * b * Cc) * (2 * a * b * Cc) <= (A * b * b + B * a * a) * (A * b * b + B * a * a)).
    { assert (4 * (a * a) * (b * b) * (Cc * Cc) <= 4 * (a * a) * (b * b) * (A * B)).
      { pose proof (Rle_0_sqr a) as Ha. pose proof (Rle_0_sqr b) as Hb. unfold Rsqr in Ha, Hb.
        apply Rmult_le_compat_l; [apply Rmult_le_pos; [apply Rmult_le_pos; [lra|exact Ha]|exact Hb]|exact IH]. }
      assert (Hid : (A * b * b + B * a * a) * (A * b * b + B * a * a) =
                    (A * b * b - B * a * a) * (A * b * b - B * a * a) + 4 * (a * a) * (b * b) * (A * B)) by ring.
      pose proof (Rle_0_sqr (A * b * b - B * a * a)) as Hsqr. unfold Rsqr in Hsqr.
      replace ((2 * a * b * Cc) * (2 * a * b * Cc)) with (4 * (a * a) * (b * b) * (Cc * Cc)) by ring. lra. }
    assert (Hpos : 0 <= A * b * b + B * a * a) by nra.
    destruct (Rle_dec (2 * a * b * Cc) 0) as [Hneg|Hp]; [lra|]. nra. }
  nra. Qed.

(* correlation as the code computes it: covariance with divisor (n - ddc) of the series divided by their
   standard deviations with divisor (n - dds); series are centred (scores of centred data) *)
Definition corr_model (n : nat) (ddc dds : Z) (x y : nat -> R) : R :=
  (sum OR n (fun i => (x i / sqrt (dotR n x x / IZR (Z.of_nat n - dds))) * (y i / sqrt (dotR n y y / IZR (Z.of_nat n - dds)))))
  / IZR (Z.of_nat n - ddc).

Lemma corr_model_formula n ddc dds x y : 0 < dotR n x x -> 0 < dotR n y y -> 0 < IZR (Z.of_nat n - dds) ->
  corr_model n ddc dds x y =
  dotR n x y / (sqrt (dotR n x x) * sqrt (dotR n y y)) * (IZR (Z.of_nat n - dds) / IZR (Z.of_nat n - ddc)).
Proof. intros Hx Hy Hd. unfold corr_model.
  set (sx := sqrt (dotR n x x / IZR (Z.of_nat n - dds))). set (sy := sqrt (dotR n y y / IZR (Z.of_nat n - dds))).
  assert (Hsx : sx = sqrt (dotR n x x) / sqrt (IZR (Z.of_nat n - dds))).
  { unfold sx. unfold Rdiv. rewrite sqrt_mult_alt by lra. rewrite sqrt_inv. reflexivity. }
  assert (Hsy : sy = sqrt (dotR n y y) / sqrt (IZR (Z.of_nat n - dds))).
  { unfold sy. unfold Rdiv. rewrite sqrt_mult_alt by lra. rewrite sqrt_inv. reflexivity. }
  assert (H1 : 0 < sqrt (dotR n x x)) by (apply sqrt_lt_R0; exact Hx).
  assert (H2 : 0 < sqrt (dotR n y y)) by (apply sqrt_lt_R0; exact Hy).
  assert (H3 : 0 < sqrt (IZR (Z.of_nat n - dds))) by (apply sqrt_lt_R0; exact Hd).
  rewrite (sum_ext OR n _ (fun i => fmul OR (x i * y i) (/ (sx * sy)))).
  2:{ intros i Hi. cbn [fmul OR]. field. rewrite Hsx, Hsy. split; apply Rgt_not_eq; apply Rdiv_lt_0_compat; assumption. }
  rewrite (sum_scale_r OR OR_FieldLaws). cbn [fmul OR]. fold (dotR n x y). rewrite Hsx, Hsy.
  assert (Hs : sqrt (IZR (Z.of_nat n - dds)) * sqrt (IZR (Z.of_nat n - dds)) = IZR (Z.of_nat n - dds)) by (apply sqrt_sqrt; lra).
  set (sd := sqrt (IZR (Z.of_nat n - dds))) in *. set (ax := sqrt (dotR n x x)) in *. set (ay := sqrt (dotR n y y)) in *.
  clearbody sd ax ay. rewrite <- Hs.
  destruct (Req_dec (IZR (Z.of_nat n - ddc)) 0) as [Hz|Hnz].
  - rewrite Hz. unfold Rdiv. rewrite Rinv_0. ring.
  - field. repeat split; lra. Qed.

(* consistent normalisation: genuine correlation, within [-1, 1], self-correlation exactly one *)
Theorem corr_bounds n dd x y : 0 < dotR n x x -> 0 < dotR n y y -> 0 < IZR (Z.of_nat n - dd) ->
  -1 <= corr_model n dd dd x y <= 1.
Proof. intros Hx Hy Hd. rewrite corr_model_formula by assumption.
  replace (IZR (Z.of_nat n - dd) / IZR (Z.of_nat n - dd)) with 1 by (field; lra). rewrite Rmult_1_r.
  pose proof (cauchy_schwarz n x y) as CS.
  assert (H1 : 0 < sqrt (dotR n x x)) by (apply sqrt_lt_R0; exact Hx).
  assert (H2 : 0 < sqrt (dotR n y y)) by (apply sqrt_lt_R0; exact Hy).
  set (d := sqrt (dotR n x x) * sqrt (dotR n y y)). assert (Hdpos : 0 < d) by (unfold d; nra).
  assert (Hd2 : d * d = dotR n x x * dotR n y y).
  { unfold d. transitivity ((sqrt (dotR n x x) * sqrt (dotR n x x)) * (sqrt (dotR n y y) * sqrt (dotR n y y))); [ring|].
    rewrite !sqrt_sqrt by lra. reflexivity. }
  assert (Hc : dotR n x y * dotR n x y <= d * d) by lra.
  assert (Habs : - d <= dotR n x y <= d) by nra.
  split.
  - apply (Rmult_le_reg_r d); [exact Hdpos|]. unfold Rdiv. rewrite Rmult_assoc, Rinv_l by lra. lra.
  - apply (Rmult_le_reg_r d); [exact Hdpos|]. unfold Rdiv. rewrite Rmult_assoc, Rinv_l by lra. lra. Qed.

Theorem self_corr_one n dd x : 0 < dotR n x x -> 0 < IZR (Z.of_nat n - dd) -> corr_model n dd dd x x = 1.
Proof. intros Hx Hd. rewrite corr_model_formula by assumption.
  rewrite sqrt_sqrt by lra. field. split; lra. Qed.

(* covariance by N-1 but standard deviations by N: the "self-correlation" is n/(n-1), not one *)
Theorem self_corr_mixed n x : (2 <= n)%nat -> 0 < dotR n x x ->
  corr_model n 1 0 x x = IZR (Z.of_nat n) / IZR (Z.of_nat n - 1).
Proof. intros Hn Hx. assert (0 < IZR (Z.of_nat n - 0)) by (apply IZR_lt; lia).
  rewrite corr_model_formula by assumption. rewrite sqrt_sqrt by lra. rewrite Z.sub_0_r.
  assert (0 < IZR (Z.of_nat n - 1)) by (apply IZR_lt; lia). field. split; lra. Qed.

Example self_corr_mixed_example : corr_model 2 1 0 (fun i => if Nat.eqb i 0 then 1 else -1) (fun i => if Nat.eqb i 0 then 1 else -1) = 2.
Proof. rewrite self_corr_mixed; [cbn; lra|lia|unfold dotR; cbn; lra]. Qed.
