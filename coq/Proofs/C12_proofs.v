(* C12 — laziness of the fit paths (force-point logic) and chunk invariance of the reductions. *)
From Coq Require Import String ZArith List Bool Ring Field Lia Arith.
From XV Require Import Base.Scalar Base.Sum Gen.T7lazy Model.Lazy.
Import ListNotations.

(* compute = False and check_nans = False (integer n_modes): no site on the fit path fires *)
Lemma no_force_when_lazy :
  forces eof_path false false false = [] /\ forces cross_path false false false = [] /\
  forces eof_rotator_path false false false = [] /\ forces cross_rotator_path false false false = [].
Proof. repeat split; vm_compute; reflexivity. Qed.

(* with compute = True the container is computed, and with check_nans = True the NaN masks are *)
Lemma compute_forces_container :
  In "BaseModelSingleSet.fit:self.data.compute"%string (forces eof_path true false false) /\
  In "BaseModelCrossSet.fit:self.data.compute"%string (forces cross_path true false false) /\
  In "Sanitizer.transform:compute"%string (forces eof_path false true false).
Proof. repeat split; vm_compute; tauto. Qed.

(* POP and OPA: their numpy linear algebra is deferred as one task (apply_ufunc(dask="parallelized")), no site fires *)
Lemma pop_opa_no_force_when_lazy : forces pop_path false false false = [] /\ forces opa_path false false false = [].
Proof. split; vm_compute; reflexivity. Qed.

(* what the table looked like before the repairs 376b618 / 37144b5: a numpy-only routine handed a dask array through
   apply_ufunc(dask="allowed") fires whatever the flags *)
Definition sites_before_repair : list (string * list lguard) :=
  [("POP._fit_algorithm:apply_ufunc(self._np_solve_pop_system)", [GAlways]); ("OPA._fit_algorithm:apply_ufunc(np.linalg.eigh)", [GAlways])].
Lemma allowed_numpy_kernel_refuted :
  filter (fun s => fires false false false (snd s)) sites_before_repair <> [].
Proof. vm_compute. discriminate. Qed.

Section Chunks.
Context {F : Type} (K : Ops F).
Hypothesis FL : FieldLaws K.
Add Field Ffc12 : (FL_field K FL).

(* a partition of the index range into consecutive chunks of the given sizes *)
Fixpoint chunked_sum (off : nat) (sizes : list nat) (f : nat -> F) : F :=
  match sizes with
  | [] => f0 K
  | c :: rest => fadd K (sum K c (fun i => f (off + i)%nat)) (chunked_sum (off + c) rest f)
  end.

(* the reduction over any chunk partition equals the unchunked reduction (exact arithmetic) *)
Lemma chunk_invariance sizes : forall off f, chunked_sum off sizes f = sum K (fold_right Nat.add 0%nat sizes) (fun i => f (off + i)%nat).
Proof. induction sizes as [|c rest IH]; intros off f; cbn [chunked_sum fold_right].
  - reflexivity.
  - rewrite IH. rewrite (sum_split K FL c). f_equal. apply (sum_ext K). intros i Hi. f_equal. lia. Qed.

(* combining the partial results in any tree order: regrouping two adjacent chunk lists *)
Lemma chunk_regroup s1 s2 off f :
  chunked_sum off (s1 ++ s2) f = fadd K (chunked_sum off s1 f) (chunked_sum (off + fold_right Nat.add 0%nat s1) s2 f).
Proof. revert off; induction s1 as [|c rest IH]; intros off; cbn [chunked_sum app fold_right].
  - rewrite Nat.add_0_r. ring.
  - rewrite IH. replace (off + (c + fold_right Nat.add 0%nat rest))%nat with (off + c + fold_right Nat.add 0%nat rest)%nat by lia. ring. Qed.
End Chunks.
