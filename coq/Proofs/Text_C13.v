(* written by tools/mk_text_tie.py: the source text against which the hand-written model parts of C13 were last validated *)
From Coq Require Import String List.
From XV Require Import Gen.T9text.
Import ListNotations.
Open Scope string_scope.

(* xeofs/base_model.py: BaseModel.serialize *)
Lemma text_C13_BaseModel_serialize_frozen : text_C13_BaseModel_serialize =
  ["ds_root = xr.Dataset(attrs=dict(params=self.get_params()))";
   "dt = xr.DataTree(ds_root, name=type(self).__name__)";
   "for key, attr in self.get_serialization_attrs().items():";
   "if hasattr(attr, 'serialize'):";
   "dt[key] = attr.serialize()";
   "dt.attrs[key] = '_is_tree'";
   "dt.attrs[key] = attr";
   "return dt"].
Proof. reflexivity. Qed.

(* xeofs/base_model.py: BaseModel.deserialize *)
Lemma text_C13_BaseModel_deserialize_frozen : text_C13_BaseModel_deserialize =
  ["model = cls(**dt.attrs['params'])";
   "model._deserialize_attrs(dt)";
   "return model"].
Proof. reflexivity. Qed.

(* xeofs/base_model.py: BaseModel._deserialize_attrs *)
Lemma text_C13_BaseModel__deserialize_attrs_frozen : text_C13_BaseModel__deserialize_attrs =
  ["for key, attr in dt.attrs.items():";
   "if key == 'params':";
   "continue";
   "if attr == '_is_tree':";
   "deserialized_obj = getattr(self, str(key)).deserialize(dt[str(key)])";
   "deserialized_obj = attr";
   "setattr(self, str(key), deserialized_obj)"].
Proof. reflexivity. Qed.

(* xeofs/base_model.py: BaseModel.get_serialization_attrs *)
Lemma text_C13_BaseModel_get_serialization_attrs_frozen : text_C13_BaseModel_get_serialization_attrs =
  ["raise NotImplementedError"].
Proof. reflexivity. Qed.

(* xeofs/preprocessing/transformer.py: Transformer._serialize_data *)
Lemma text_C13_Transformer__serialize_data_frozen : text_C13_Transformer__serialize_data =
  ["multiindexes = {}";
   "name_map = None";
   "if isinstance(data, xr.Dataset):";
   "ds = data";
   "coords = {}";
   "data_vars = {}";
   "if data.name in data.coords and data.identical(data.coords[data.name]):";
   "if isinstance(data.to_index(), pd.MultiIndex):";
   "multiindexes[data.name] = [n for n in data.to_index().names]";
   "coords[data.name] = data";
   "if data.name is None or data.name in data.coords:";
   "data = data.rename(key)";
   "data_vars[data.name] = data";
   "ds = xr.Dataset(data_vars=data_vars, coords=coords)";
   "name_map = data.name";
   "ds = ds.reset_index(list(multiindexes.keys()))";
   "ds.attrs['multiindexes'] = multiindexes";
   "ds.attrs['name_map'] = {key: name_map}";
   "return ds"].
Proof. reflexivity. Qed.

(* xeofs/preprocessing/transformer.py: Transformer.serialize *)
Lemma text_C13_Transformer_serialize_frozen : text_C13_Transformer_serialize =
  ["return self._serialize()"].
Proof. reflexivity. Qed.

(* xeofs/preprocessing/transformer.py: Transformer._serialize *)
Lemma text_C13_Transformer__serialize_frozen : text_C13_Transformer__serialize =
  ["dt = xr.DataTree()";
   "params = self.get_params()";
   "attrs = self.get_serialization_attrs()";
   "dt.attrs['params'] = params";
   "for key, attr in attrs.items():";
   "if isinstance(attr, (xr.DataArray, xr.Dataset)):";
   "ds = self._serialize_data(key, attr)";
   "dt[key] = xr.DataTree(ds, name=key)";
   "dt.attrs[key] = '_is_node'";
   "if isinstance(attr, dict) and any([isinstance(val, xr.DataArray) for val in attr.values()]):";
   "dt_attr = xr.DataTree()";
   "for k, v in attr.items():";
   "ds = self._serialize_data(k, v)";
   "dt_attr[k] = xr.DataTree(ds, name=k)";
   "dt[key] = dt_attr";
   "dt.attrs[key] = '_is_tree'";
   "dt.attrs[key] = attr";
   "return dt"].
Proof. reflexivity. Qed.

(* xeofs/preprocessing/transformer.py: Transformer._deserialize_data_node *)
Lemma text_C13_Transformer__deserialize_data_node_frozen : text_C13_Transformer__deserialize_data_node =
  ["dt.dataset = dt.dataset.set_index(dt.attrs.get('multiindexes', {}))";
   "data_key = dt.attrs['name_map'][key]";
   "if data_key is not None:";
   "return dt[data_key]";
   "ds = dt.to_dataset()";
   "for attr in ('multiindexes', 'name_map'):";
   "ds.attrs.pop(attr, None)";
   "return ds"].
Proof. reflexivity. Qed.

(* xeofs/preprocessing/transformer.py: Transformer.deserialize *)
Lemma text_C13_Transformer_deserialize_frozen : text_C13_Transformer_deserialize =
  ["return cls._deserialize(dt)"].
Proof. reflexivity. Qed.

(* xeofs/preprocessing/transformer.py: Transformer._deserialize *)
Lemma text_C13_Transformer__deserialize_frozen : text_C13_Transformer__deserialize =
  ["transformer = cls(**dt.attrs['params'])";
   "for key, attr in dt.attrs.items():";
   "if key == 'params':";
   "continue";
   "if attr == '_is_node':";
   "data = transformer._deserialize_data_node(key, dt[key])";
   "setattr(transformer, key, data)";
   "if attr == '_is_tree':";
   "data = {}";
   "for k, v in dt[key].items():";
   "data[k] = transformer._deserialize_data_node(k, dt[key][k])";
   "setattr(transformer, key, data)";
   "setattr(transformer, key, attr)";
   "return transformer"].
Proof. reflexivity. Qed.

(* xeofs/data_container/data_container.py: DataContainer.serialize *)
Lemma text_C13_DataContainer_serialize_frozen : text_C13_DataContainer_serialize =
  ["dt = xr.DataTree(name='data')";
   "for key, data in self.items():";
   "if not data.name:";
   "data.name = key";
   "dt[key] = xr.DataTree(data.to_dataset())";
   "dt[key].attrs = {key: '_is_node', 'allow_compute': self._allow_compute[key]}";
   "return dt"].
Proof. reflexivity. Qed.

(* xeofs/data_container/data_container.py: DataContainer.deserialize *)
Lemma text_C13_DataContainer_deserialize_frozen : text_C13_DataContainer_deserialize =
  ["container = cls()";
   "for key, node in dt.items():";
   "container[key] = node[key]";
   "container._allow_compute[key] = node.attrs['allow_compute']";
   "return container"].
Proof. reflexivity. Qed.

(* xeofs/data_container/data_container.py: DataContainer.add *)
Lemma text_C13_DataContainer_add_frozen : text_C13_DataContainer_add =
  ["data = data.copy(deep=False)";
   "data.name = name";
   "super().__setitem__(name, data)";
   "self._allow_compute[name] = True if allow_compute else False"].
Proof. reflexivity. Qed.

(* xeofs/data_container/data_container.py: DataContainer.set_attrs *)
Lemma text_C13_DataContainer_set_attrs_frozen : text_C13_DataContainer_set_attrs =
  ["attrs = self._validate_attrs(attrs)";
   "for key in self.keys():";
   "self[key].attrs = attrs"].
Proof. reflexivity. Qed.

Definition all_frozen : Prop :=
  text_C13_BaseModel_serialize = ["ds_root = xr.Dataset(attrs=dict(params=self.get_params()))";
   "dt = xr.DataTree(ds_root, name=type(self).__name__)";
   "for key, attr in self.get_serialization_attrs().items():";
   "if hasattr(attr, 'serialize'):";
   "dt[key] = attr.serialize()";
   "dt.attrs[key] = '_is_tree'";
   "dt.attrs[key] = attr";
   "return dt"] /\
  text_C13_BaseModel_deserialize = ["model = cls(**dt.attrs['params'])";
   "model._deserialize_attrs(dt)";
   "return model"] /\
  text_C13_BaseModel__deserialize_attrs = ["for key, attr in dt.attrs.items():";
   "if key == 'params':";
   "continue";
   "if attr == '_is_tree':";
   "deserialized_obj = getattr(self, str(key)).deserialize(dt[str(key)])";
   "deserialized_obj = attr";
   "setattr(self, str(key), deserialized_obj)"] /\
  text_C13_BaseModel_get_serialization_attrs = ["raise NotImplementedError"] /\
  text_C13_Transformer__serialize_data = ["multiindexes = {}";
   "name_map = None";
   "if isinstance(data, xr.Dataset):";
   "ds = data";
   "coords = {}";
   "data_vars = {}";
   "if data.name in data.coords and data.identical(data.coords[data.name]):";
   "if isinstance(data.to_index(), pd.MultiIndex):";
   "multiindexes[data.name] = [n for n in data.to_index().names]";
   "coords[data.name] = data";
   "if data.name is None or data.name in data.coords:";
   "data = data.rename(key)";
   "data_vars[data.name] = data";
   "ds = xr.Dataset(data_vars=data_vars, coords=coords)";
   "name_map = data.name";
   "ds = ds.reset_index(list(multiindexes.keys()))";
   "ds.attrs['multiindexes'] = multiindexes";
   "ds.attrs['name_map'] = {key: name_map}";
   "return ds"] /\
  text_C13_Transformer_serialize = ["return self._serialize()"] /\
  text_C13_Transformer__serialize = ["dt = xr.DataTree()";
   "params = self.get_params()";
   "attrs = self.get_serialization_attrs()";
   "dt.attrs['params'] = params";
   "for key, attr in attrs.items():";
   "if isinstance(attr, (xr.DataArray, xr.Dataset)):";
   "ds = self._serialize_data(key, attr)";
   "dt[key] = xr.DataTree(ds, name=key)";
   "dt.attrs[key] = '_is_node'";
   "if isinstance(attr, dict) and any([isinstance(val, xr.DataArray) for val in attr.values()]):";
   "dt_attr = xr.DataTree()";
   "for k, v in attr.items():";
   "ds = self._serialize_data(k, v)";
   "dt_attr[k] = xr.DataTree(ds, name=k)";
   "dt[key] = dt_attr";
   "dt.attrs[key] = '_is_tree'";
   "dt.attrs[key] = attr";
   "return dt"] /\
  text_C13_Transformer__deserialize_data_node = ["dt.dataset = dt.dataset.set_index(dt.attrs.get('multiindexes', {}))";
   "data_key = dt.attrs['name_map'][key]";
   "if data_key is not None:";
   "return dt[data_key]";
   "ds = dt.to_dataset()";
   "for attr in ('multiindexes', 'name_map'):";
   "ds.attrs.pop(attr, None)";
   "return ds"] /\
  text_C13_Transformer_deserialize = ["return cls._deserialize(dt)"] /\
  text_C13_Transformer__deserialize = ["transformer = cls(**dt.attrs['params'])";
   "for key, attr in dt.attrs.items():";
   "if key == 'params':";
   "continue";
   "if attr == '_is_node':";
   "data = transformer._deserialize_data_node(key, dt[key])";
   "setattr(transformer, key, data)";
   "if attr == '_is_tree':";
   "data = {}";
   "for k, v in dt[key].items():";
   "data[k] = transformer._deserialize_data_node(k, dt[key][k])";
   "setattr(transformer, key, data)";
   "setattr(transformer, key, attr)";
   "return transformer"] /\
  text_C13_DataContainer_serialize = ["dt = xr.DataTree(name='data')";
   "for key, data in self.items():";
   "if not data.name:";
   "data.name = key";
   "dt[key] = xr.DataTree(data.to_dataset())";
   "dt[key].attrs = {key: '_is_node', 'allow_compute': self._allow_compute[key]}";
   "return dt"] /\
  text_C13_DataContainer_deserialize = ["container = cls()";
   "for key, node in dt.items():";
   "container[key] = node[key]";
   "container._allow_compute[key] = node.attrs['allow_compute']";
   "return container"] /\
  text_C13_DataContainer_add = ["data = data.copy(deep=False)";
   "data.name = name";
   "super().__setitem__(name, data)";
   "self._allow_compute[name] = True if allow_compute else False"] /\
  text_C13_DataContainer_set_attrs = ["attrs = self._validate_attrs(attrs)";
   "for key in self.keys():";
   "self[key].attrs = attrs"].

Lemma all_frozen_holds : all_frozen.
Proof. exact (conj text_C13_BaseModel_serialize_frozen (conj text_C13_BaseModel_deserialize_frozen (conj text_C13_BaseModel__deserialize_attrs_frozen (conj text_C13_BaseModel_get_serialization_attrs_frozen (conj text_C13_Transformer__serialize_data_frozen (conj text_C13_Transformer_serialize_frozen (conj text_C13_Transformer__serialize_frozen (conj text_C13_Transformer__deserialize_data_node_frozen (conj text_C13_Transformer_deserialize_frozen (conj text_C13_Transformer__deserialize_frozen (conj text_C13_DataContainer_serialize_frozen (conj text_C13_DataContainer_deserialize_frozen (conj text_C13_DataContainer_add_frozen text_C13_DataContainer_set_attrs_frozen))))))))))))). Qed.
