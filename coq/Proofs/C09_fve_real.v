(* C09 at the real instance: the fractions of variance explained that the source computes lie in [0, 1]. *)
From Coq Require Import ZArith List Bool Reals Lra Lia.
From XV Require Import Base.Scalar Base.Sum Base.Mat Base.MatAlg Base.RInst Model.Eof Model.Cpcca Proofs.C09_scf Proofs.C19_real.
Import ListNotations.
Open Scope R_scope.

Lemma frob2_nonneg_R m q (A : list (list R)) : 0 <= frob2 OR m q A.
Proof. unfold frob2. apply sum_nonneg_R. intros i Hi. apply sum_nonneg_R. intros j Hj. cbn [fmul fconj OR]. nra. Qed.

Theorem fve_in_unit_interval (n p : nat) (X u : list (list R)) : wf OR n p X -> wf OR p 1 u ->
  mmul OR 1 p 1 (mH OR p 1 u) u = mI OR 1 -> 0 < frob2 OR n p X ->
  0 <= fve_src OR n p X u <= 1.
Proof. intros WX Wu Hu Hpos.
  rewrite (fve_src_is_score_norm_over_total OR OR_FieldLaws n p X u WX Wu Hu) by (cbn [f0 OR]; lra).
  pose proof (resid_frob2 OR OR_FieldLaws n p X u WX Wu Hu) as Hr. cbn [fsub OR] in Hr.
  pose proof (frob2_nonneg_R n p (mode_resid OR n p X u)) as H1.
  pose proof (frob2_nonneg_R n 1 (mode_scores OR n p X u)) as H2.
  cbn [fdiv OR]. split.
  - apply Rmult_le_pos; [exact H2 | left; apply Rinv_0_lt_compat; exact Hpos].
  - apply (Rmult_le_reg_r (frob2 OR n p X)); [exact Hpos|]. unfold Rdiv. rewrite Rmult_assoc, Rinv_l by lra. lra. Qed.
