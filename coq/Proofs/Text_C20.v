(* written by tools/mk_text_tie.py: the source text against which the hand-written model parts of C20 were last validated *)
From Coq Require Import String List.
From XV Require Import Gen.T9text.
Import ListNotations.
Open Scope string_scope.

(* xeofs/validation/bootstrapper.py: _BaseBootstrapper.__init__ *)
Lemma text_C20__BaseBootstrapper___init___frozen : text_C20__BaseBootstrapper___init__ =
  ["self._params = {'n_bootstraps': n_bootstraps, 'seed': seed}";
   "self.attrs: dict[str, Any] = {'model': 'BaseBootstrapper'}";
   "self.attrs.update(self._params)";
   "self.attrs.update({'software': 'xeofs', 'version': __version__, 'date': datetime.now().strftime('%Y-%m-%d %H:%M:%S')})";
   "self.data = DataContainer()"].
Proof. reflexivity. Qed.

(* xeofs/validation/bootstrapper.py: EOFBootstrapper.__init__ *)
Lemma text_C20_EOFBootstrapper___init___frozen : text_C20_EOFBootstrapper___init__ =
  ["super().__init__(n_bootstraps=n_bootstraps, seed=seed)";
   "self.attrs.update({'model': 'Bootstrapped EOF analysis'})"].
Proof. reflexivity. Qed.

Definition all_frozen : Prop :=
  text_C20__BaseBootstrapper___init__ = ["self._params = {'n_bootstraps': n_bootstraps, 'seed': seed}";
   "self.attrs: dict[str, Any] = {'model': 'BaseBootstrapper'}";
   "self.attrs.update(self._params)";
   "self.attrs.update({'software': 'xeofs', 'version': __version__, 'date': datetime.now().strftime('%Y-%m-%d %H:%M:%S')})";
   "self.data = DataContainer()"] /\
  text_C20_EOFBootstrapper___init__ = ["super().__init__(n_bootstraps=n_bootstraps, seed=seed)";
   "self.attrs.update({'model': 'Bootstrapped EOF analysis'})"].

Lemma all_frozen_holds : all_frozen.
Proof. exact (conj text_C20__BaseBootstrapper___init___frozen text_C20_EOFBootstrapper___init___frozen). Qed.
