(* C20 — bootstrap members are sign-aligned EOF analyses of resamples.
   Part 1 (abstract field with involution): the member IS the EOF fit of the centred resample,
   so the C01 theorems apply to it verbatim; centred columns sum to zero; sign alignment by a
   vector of real units keeps the components orthonormal; the scores are the projection of the
   original samples, and on the resampled rows they coincide with the member's own scores.
   Part 2 (real instance): order facts (C01_order applied to the centred resample), the
   alignment inequality and the zero-correlation error branch; member dimension. *)
From Coq Require Import ZArith List Bool Ring Field Setoid Lia Arith Reals Lra.
From XV Require Import Base.Scalar Base.Sum Base.Mat Base.MatAlg Base.RInst Model.Eof Model.Boot
  Proofs.C01_proofs Proofs.C01_order.
Import ListNotations.

(* ------------------------------------------------------------------ abstract field *)
Section C20.
Context {F : Type} (K : Ops F).
Hypothesis FL : FieldLaws K.
Add Field Ffc20 : (FL_field K FL).
Notation "0" := (f0 K). Notation "1" := (f1 K).
Infix "+" := (fadd K). Infix "*" := (fmul K). Infix "-" := (fsub K). Infix "/" := (fdiv K).
Notation mat := (@mat F). Notation vec := (@vec F).
Notation get := (get K). Notation vget := (vget K).
Notation mmul := (mmul K). Notation mH := (mH K). Notation mI := (mI K). Notation mdiag := (mdiag K).
Notation colscale := (colscale K). Notation msub := (msub K).
Notation sum := (sum K).

(* ---- centring ---- *)
Lemma get_center_cols n p X i j : (i < n)%nat -> (j < p)%nat ->
  get (center_cols K n p X) i j = get X i j - colmean K n X j.
Proof. intros Hi Hj. unfold center_cols, sub_rowvec, Mat.msub, rowrep, col_means. get_simpl. reflexivity. Qed.

Lemma get_sub_rowvec n p X mu i j : (i < n)%nat -> (j < p)%nat ->
  get (sub_rowvec K n p X mu) i j = get X i j - vget mu j.
Proof. intros Hi Hj. unfold sub_rowvec, Mat.msub, rowrep. get_simpl. reflexivity. Qed.

Lemma wf_center_cols n p X : wf K n p (center_cols K n p X).
Proof. apply wf_msub. Qed.

Lemma sum_const n c : sum n (fun _ => c) = sum n (fun _ => 1) * c.
Proof. rewrite <- (sum_scale_r K FL). apply (sum_ext K). intros i _. ring. Qed.

(* the columns of a centred matrix sum to zero.  [fofZ K n] must be the n-fold sum of ones
   (true in every ordered field and at the real instance, see [ones_R]) and non-zero *)
Lemma center_cols_colsum n p X :
  sum n (fun _ => 1) = fofZ K (Z.of_nat n) -> fofZ K (Z.of_nat n) <> 0 ->
  forall j, (j < p)%nat -> colsum K n (center_cols K n p X) j = 0.
Proof. intros Hones Hn j Hj. unfold colsum.
  rewrite (sum_ext K n _ (fun i => get X i j - colmean K n X j))
    by (intros i Hi; apply get_center_cols; assumption).
  rewrite (sum_sub K FL), sum_const, Hones. unfold colmean, colsum. field. exact Hn. Qed.

(* ---- the member is the EOF analysis of the centred resample ---- *)
Variables (n p r k : nat) (X : mat) (idx : list nat) (U Vt : mat) (s : vec).
Notation Xb := (msel_rows K p idx X).
Notation Xc := (center_cols K n p Xb).
Notation a := (U, s, Vt).
Notation mem := (boot_member K n p r k X idx a).

Lemma member_fit_eq : b_fit mem = eof_fit K n p r k Xc a.
Proof. reflexivity. Qed.

Lemma member_mean_eq : b_mean mem = col_means K n p Xb.
Proof. reflexivity. Qed.

(* scores = (X - 1 mean_b) V_b : the projection of the ORIGINAL samples, centred with the
   member's own mean, on the member's components *)
Lemma member_scores_projection :
  b_scores mem = mmul n p k (msub n p X (rowrep K n p (col_means K n p Xb))) (e_comps (b_fit mem)).
Proof. reflexivity. Qed.

Hypothesis OK : svd_ok K n p r Xc a.
Hypothesis Hk : (k <= r)%nat.

Lemma member_components_orthonormal :
  mmul k p k (mH p k (e_comps (b_fit mem))) (e_comps (b_fit mem)) = mI k.
Proof. rewrite member_fit_eq. exact (fit_components_orthonormal K FL n p r k Xc U Vt s OK Hk). Qed.

Lemma member_expvar_eigen :
  mmul p p k (cov K n p Xc) (e_comps (b_fit mem)) = colscale p k (e_comps (b_fit mem)) (e_expvar (b_fit mem)) /\
  e_expvar (b_fit mem) = vmap K k (sq_over K n) (vfirstn K k s).
Proof. rewrite member_fit_eq. exact (fit_expvar_eigen K FL n p r k Xc U Vt s OK Hk). Qed.

Lemma member_own_scores : eof_transform K n p k (b_fit mem) Xc = e_scores (b_fit mem).
Proof. rewrite member_fit_eq. exact (fit_transform_training K FL n p r k Xc U Vt s OK Hk). Qed.

(* on the resampled rows the projection of the original samples is the member's own score:
   row idx_i of (X - 1 mean_b) is row i of the centred resample *)
Lemma member_scores_on_resampled_rows : idx_ok n idx ->
  forall i j, (i < n)%nat -> (j < k)%nat ->
  get (b_scores mem) (nth i idx O) j = get (e_scores (b_fit mem)) i j.
Proof. intros [Hlen Hall] i j Hi Hj. rewrite <- member_own_scores.
  assert (Hii : (nth i idx O < n)%nat).
  { rewrite Forall_forall in Hall. apply Hall. apply nth_In. lia. }
  unfold boot_member. cbn [b_scores b_fit]. unfold eof_transform, Mat.mmul. get_simpl.
  apply (sum_ext K). intros l Hl. f_equal.
  rewrite get_sub_rowvec, get_center_cols by assumption.
  unfold col_means, boot_resample. get_simpl. unfold msel_rows. rewrite get_tab by lia. reflexivity. Qed.

(* ---- alignment by a vector of real units keeps the components orthonormal ---- *)
Lemma aligned_orthonormal (V : mat) (sg : vec) :
  mmul k p k (mH p k V) V = mI k -> sign_vec K k sg ->
  mmul k p k (mH p k (colscale p k V sg)) (colscale p k V sg) = mI k.
Proof. intros HV Hsg. rewrite <- (mmul_diag_r K FL). rewrite (mH_mmul K FL p k k).
  rewrite (G_herm K FL k sg Hsg).
  rewrite (mmul_assoc K FL k k p k). rewrite <- (mmul_assoc K FL k p k k (mH p k V)).
  rewrite HV. rewrite (mmul_I_l K FL) by apply wf_mdiag. exact (G_unit K FL k k sg (le_n k) Hsg). Qed.

Lemma member_aligned_orthonormal (M : mat) :
  sign_vec K k (boot_signs K n k (b_scores mem) M) ->
  let o := boot_align K n p k mem M in
  mmul k p k (mH p k (bm_comps o)) (bm_comps o) = mI k.
Proof. intros Hsg o. unfold o, boot_align. cbn [bm_comps].
  apply aligned_orthonormal; [exact member_components_orthonormal|exact Hsg]. Qed.

(* alignment does not touch the variances *)
Lemma aligned_expvar (M : mat) :
  bm_expvar (boot_align K n p k mem M) = e_expvar (b_fit mem) /\
  bm_totvar (boot_align K n p k mem M) = e_totvar (b_fit mem).
Proof. split; reflexivity. Qed.

End C20.

(* ------------------------------------------------------------------ member dimension *)
Section Dim.
Context {F : Type} (K : Ops F).

Lemma members_length n p r k X M idxs ans : length (boot_members K n p r k X M idxs ans) = length idxs.
Proof. revert ans. induction idxs as [|idx rest IH]; intros ans; cbn [boot_members length]; [reflexivity|].
  rewrite IH. reflexivity. Qed.

Lemma indices_length draw B : length (boot_indices draw B) = B.
Proof. unfold boot_indices. rewrite map_length, seq_length. reflexivity. Qed.

Lemma run_length n p r k B X M draw ans :
  length (boot_run K n p r k B X M draw ans) = B /\ length (boot_coords B) = B /\
  (forall i, (i < B)%nat -> nth i (boot_coords B) 0%Z = (Z.of_nat i + 1)%Z).
Proof. split; [|split].
  - unfold boot_run. rewrite members_length. apply indices_length.
  - unfold boot_coords. rewrite map_length, seq_length. reflexivity.
  - intros i Hi. unfold boot_coords. apply (nth_map_seq 0%Z (fun i => (Z.of_nat i + 1)%Z)). exact Hi. Qed.

(* member i is the aligned analysis of the i-th draw with the i-th oracle answer *)
Lemma members_nth n p r k X M idxs ans i d : (i < length idxs)%nat ->
  nth i (boot_members K n p r k X M idxs ans) d =
  boot_one K n p r k X M (nth i idxs []) (nth i ans (svd_dflt (F:=F))).
Proof. revert ans i. induction idxs as [|idx rest IH]; intros ans i Hi; cbn [length] in Hi; [lia|].
  cbn [boot_members]. destruct i as [|i].
  - cbn [nth]. destruct ans; reflexivity.
  - cbn [nth]. rewrite IH by lia. destruct ans as [|a0 ans]; cbn [tl nth]; [destruct i; reflexivity|reflexivity]. Qed.

(* reproducibility given the oracles: same draws and same SVD answers, same members *)
Lemma run_deterministic n p r k B X M draw1 draw2 ans :
  (forall i, (i < B)%nat -> draw1 i = draw2 i) ->
  boot_run K n p r k B X M draw1 ans = boot_run K n p r k B X M draw2 ans.
Proof. intros H. unfold boot_run, boot_indices. f_equal. apply map_seq_ext. intros i _ Hi. apply H. lia. Qed.
End Dim.

(* ------------------------------------------------------------------ real instance *)
Open Scope R_scope.

Lemma ones_R n : sum OR n (fun _ => 1) = IZR (Z.of_nat n).
Proof. induction n as [|n IH]; [reflexivity|]. cbn [sum fadd OR]. rewrite IH.
  rewrite Nat2Z.inj_succ, succ_IZR. reflexivity. Qed.

Lemma center_cols_colsum_R n p X : (1 <= n)%nat ->
  forall j, (j < p)%nat -> colsum OR n (center_cols OR n p X) j = 0.
Proof. intros Hn. apply (center_cols_colsum OR OR_FieldLaws n p X).
  - exact (ones_R n).
  - cbn [fofZ OR f0]. apply not_0_IZR. lia. Qed.

Lemma sum_R_prefix_le k r f : (k <= r)%nat -> (forall i, (i < r)%nat -> 0 <= f i) -> sum OR k f <= sum OR r f.
Proof. intros Hk Hf. induction r as [|r IH].
  - replace k with O by lia. lra.
  - destruct (Nat.eq_dec k (S r)) as [->|Hne]; [lra|].
    assert (sum OR k f <= sum OR r f) by (apply IH; [lia|intros; apply Hf; lia]).
    cbn [sum fadd OR]. specialize (Hf r ltac:(lia)). lra. Qed.

Section Order.
Variables (n p r k : nat) (X : list (list R)) (idx : list nat) (U Vt : list (list R)) (s : list R).
Notation Xc := (center_cols OR n p (msel_rows OR p idx X)).
Notation mem := (boot_member OR n p r k X idx (U, s, Vt)).
Hypothesis OK : svd_ok OR n p r Xc (U, s, Vt).
Hypothesis Hord : desc_nonneg r s.
Hypothesis Hk : (k <= r)%nat.
Hypothesis Hn : (2 <= n)%nat.

Let nn1_pos : 0 < IZR (Z.of_nat n - 1).
Proof. apply IZR_lt. lia. Qed.

Let Hc : forall j, (j < p)%nat -> colsum OR n Xc j = 0.
Proof. apply center_cols_colsum_R. lia. Qed.

Notation sgv := (row_signs OR k (mrows OR k p Vt)).

Lemma member_unfold_sg : b_fit mem = eof_fit_sg OR n p r k Xc (U, s, Vt) sgv.
Proof. reflexivity. Qed.

Lemma member_expvar_desc_nonneg : desc_nonneg k (e_expvar (b_fit mem)).
Proof. rewrite member_unfold_sg. exact (expvar_desc_nonneg n p r k Xc U Vt s sgv Hord Hk Hn). Qed.

Lemma member_totvar_is_sum :
  e_totvar (b_fit mem) = sum OR r (fun i => vget OR s i * vget OR s i / IZR (Z.of_nat n - 1)).
Proof. rewrite member_unfold_sg. exact (totvar_is_sum n p r k Xc U Vt s sgv OK Hk Hn Hc). Qed.

Let term_nonneg : forall i, (i < r)%nat -> 0 <= vget OR s i * vget OR s i / IZR (Z.of_nat n - 1).
Proof. intros i Hi. destruct Hord as [Hp _]. specialize (Hp i Hi).
  apply Rmult_le_pos; [nra|left; apply Rinv_0_lt_compat; exact nn1_pos]. Qed.

(* each explained variance is at most the member's total variance *)
Lemma member_expvar_le_totvar i : (i < k)%nat -> vget OR (e_expvar (b_fit mem)) i <= e_totvar (b_fit mem).
Proof. intros Hi. rewrite member_totvar_is_sum. rewrite member_unfold_sg.
  rewrite (expvar_get n p r k Xc U Vt s sgv Hk Hn i Hi).
  apply (sum_R_term_le r (fun i => vget OR s i * vget OR s i / IZR (Z.of_nat n - 1)) i); [exact term_nonneg|lia]. Qed.

(* and so is their sum over the k retained modes *)
Lemma member_expvar_sum_le_totvar : sum OR k (vget OR (e_expvar (b_fit mem))) <= e_totvar (b_fit mem).
Proof. rewrite member_totvar_is_sum.
  rewrite (sum_ext OR k _ (fun i => vget OR s i * vget OR s i / IZR (Z.of_nat n - 1))).
  - apply sum_R_prefix_le; [exact Hk|exact term_nonneg].
  - intros i Hi. rewrite member_unfold_sg. exact (expvar_get n p r k Xc U Vt s sgv Hk Hn i Hi). Qed.

Lemma member_is_eof_order :
  desc_nonneg k (e_expvar (b_fit mem)) /\
  (forall i, (i < k)%nat -> vget OR (e_expvar (b_fit mem)) i <= e_totvar (b_fit mem)) /\
  sum OR k (vget OR (e_expvar (b_fit mem))) <= e_totvar (b_fit mem).
Proof. split; [exact member_expvar_desc_nonneg|split; [exact member_expvar_le_totvar|exact member_expvar_sum_le_totvar]]. Qed.
End Order.

(* ---- np.sign and the alignment ---- *)
Lemma sgn_R_pos x : 0 < x -> sgn OR x = 1.
Proof. intros H. unfold sgn. cbn [fleb f0 fofZ OR].
  replace (Rleb 0 x) with true by (symmetry; apply Rleb_true; lra).
  replace (Rleb x 0) with false by (symmetry; apply Rleb_false; lra). reflexivity. Qed.
Lemma sgn_R_neg x : x < 0 -> sgn OR x = -1.
Proof. intros H. unfold sgn. cbn [fleb f0 fofZ OR].
  replace (Rleb 0 x) with false by (symmetry; apply Rleb_false; lra). reflexivity. Qed.
Lemma sgn_R_zero : sgn OR 0 = 0.
Proof. unfold sgn. cbn [fleb f0 fofZ OR].
  replace (Rleb 0 0) with true by (symmetry; apply Rleb_true; lra). reflexivity. Qed.

Lemma sgn_R_mul_nonneg x : 0 <= sgn OR x * x.
Proof. destruct (Rtotal_order x 0) as [H|[H|H]].
  - rewrite sgn_R_neg by exact H. lra.
  - subst x. lra.
  - rewrite sgn_R_pos by exact H. lra. Qed.

Lemma sgn_R_unit x : x <> 0 -> sgn OR x * sgn OR x = 1.
Proof. intros Hx. destruct (Rtotal_order x 0) as [H|[H|H]].
  - rewrite sgn_R_neg by exact H. lra.
  - contradiction.
  - rewrite sgn_R_pos by exact H. lra. Qed.

(* dividing by positive numbers does not change the sign *)
Lemma sgn_R_div_pos x d : 0 < d -> sgn OR (x / d) = sgn OR x.
Proof. intros Hd. assert (Hi : 0 < / d) by (apply Rinv_0_lt_compat; exact Hd).
  destruct (Rtotal_order x 0) as [H|[H|H]].
  - rewrite (sgn_R_neg x H). apply sgn_R_neg. unfold Rdiv. nra.
  - subst x. unfold Rdiv. rewrite Rmult_0_l. reflexivity.
  - rewrite (sgn_R_pos x H). apply sgn_R_pos. unfold Rdiv. nra. Qed.

Definition cross (n : nat) (Z M : list (list R)) (j : nat) : R := sum OR n (fun i => get OR Z i j * get OR M i j).

Section Align0.
Variables (n p k : nat) (b : boot_out (F:=R)) (M : list (list R)).
Notation Z := (b_scores b).
Notation o := (boot_align OR n p k b M).

Lemma aligned_cross j : (j < k)%nat ->
  cross n (bm_scores o) M j = vget OR (bm_signs o) j * cross n Z M j.
Proof. intros Hj. unfold cross, boot_align. cbn [bm_scores bm_signs].
  change Rmult with (fmul OR). rewrite <- (sum_scale_l OR OR_FieldLaws).
  apply (sum_ext OR). intros i Hi. unfold Mat.colscale. rewrite get_tab by lia. cbn [fmul OR]. ring. Qed.

(* error branch: a vanishing correlation zeroes the member's mode (np.sign 0 = 0) *)
Lemma zero_correlation_zeroes_member j : (j < k)%nat -> boot_corr OR n Z M j = 0 ->
  vget OR (bm_signs o) j = 0 /\
  (forall i, (i < p)%nat -> get OR (bm_comps o) i j = 0) /\
  (forall i, (i < n)%nat -> get OR (bm_scores o) i j = 0).
Proof. intros Hj Hc.
  assert (Hs : vget OR (boot_signs OR n k Z M) j = 0).
  { unfold boot_signs. rewrite vget_vtab by exact Hj. rewrite Hc. apply sgn_R_zero. }
  unfold boot_align. cbn [bm_signs bm_comps bm_scores]. split; [exact Hs|split].
  - intros i Hi. unfold Mat.colscale. rewrite get_tab by lia. rewrite Hs. cbn [fmul OR]. ring.
  - intros i Hi. unfold Mat.colscale. rewrite get_tab by lia. rewrite Hs. cbn [fmul OR]. ring. Qed.

(* so a zeroed mode is no longer a unit vector: the orthonormality of the member is lost *)
Lemma zeroed_member_not_orthonormal j : (j < k)%nat -> boot_corr OR n Z M j = 0 ->
  get OR (mmul OR k p k (mH OR p k (bm_comps o)) (bm_comps o)) j j <> get OR (mI OR k) j j.
Proof. intros Hj Hc. destruct (zero_correlation_zeroes_member j Hj Hc) as (_ & Hz & _).
  unfold Mat.mmul, Mat.mI, Mat.mH. rewrite !get_tab by lia.
  rewrite (sum_zero' OR OR_FieldLaws).
  - unfold Sum.delta. rewrite Nat.eqb_refl. cbn [f0 f1 OR]. lra.
  - intros i Hi. rewrite get_tab by lia. rewrite Hz by exact Hi. cbn [fmul fconj f0 OR]. ring. Qed.

(* all signs are units when no correlation vanishes: the hypothesis of member_aligned_orthonormal *)
Lemma signs_sign_vec :
  (forall j, (j < k)%nat -> boot_corr OR n Z M j <> 0) -> sign_vec OR k (bm_signs o).
Proof. intros H j Hj. split; [reflexivity|].
  unfold boot_align. cbn [bm_signs]. unfold boot_signs. rewrite vget_vtab by exact Hj.
  apply sgn_R_unit. apply H. exact Hj. Qed.
End Align0.

Section Align.
Variables (n p k : nat) (b : boot_out (F:=R)) (M : list (list R)).
Notation Z := (b_scores b).
Notation o := (boot_align OR n p k b M).
Hypothesis Hn : (1 <= n)%nat.

Let n_pos : 0 < IZR (Z.of_nat n).
Proof. apply IZR_lt. lia. Qed.

(* with positive standard deviations the alignment sign is the sign of sum_i z_ij m_ij *)
Lemma sign_is_sign_of_cross j : (j < k)%nat -> 0 < col_std OR n Z j -> 0 < col_std OR n M j ->
  vget OR (bm_signs o) j = sgn OR (cross n Z M j).
Proof. intros Hj Hz Hm. unfold boot_align. cbn [bm_signs]. unfold boot_signs. rewrite vget_vtab by exact Hj.
  unfold boot_corr, corr_formula, mean_prod. cbn [fdiv OR fofZ].
  rewrite (sgn_R_div_pos _ _ Hm), (sgn_R_div_pos _ _ Hz), (sgn_R_div_pos _ _ n_pos). reflexivity. Qed.

(* after alignment every member mode correlates non-negatively with the model's mode *)
Lemma sign_aligned j : (j < k)%nat -> 0 < col_std OR n Z j -> 0 < col_std OR n M j ->
  0 <= cross n (bm_scores o) M j.
Proof. intros Hj Hz Hm. rewrite (aligned_cross n p k b M j Hj), (sign_is_sign_of_cross j Hj Hz Hm). apply sgn_R_mul_nonneg. Qed.

(* if the correlation does not vanish the sign is a unit: nothing is lost, and the
   cross product is strictly positive *)
Lemma sign_aligned_strict j : (j < k)%nat -> 0 < col_std OR n Z j -> 0 < col_std OR n M j ->
  cross n Z M j <> 0 ->
  vget OR (bm_signs o) j * vget OR (bm_signs o) j = 1 /\ 0 < cross n (bm_scores o) M j.
Proof. intros Hj Hz Hm Hc. rewrite (aligned_cross n p k b M j Hj), (sign_is_sign_of_cross j Hj Hz Hm). split.
  - apply sgn_R_unit. exact Hc.
  - destruct (Rtotal_order (cross n Z M j) 0) as [H|[H|H]]; [rewrite sgn_R_neg by exact H; lra|contradiction|rewrite sgn_R_pos by exact H; lra]. Qed.

End Align.

(* non-vacuity: four samples, one feature; the resample [0;0;2;2] draws two rows twice; the
   SVD answer below is admissible for the centred resample and its singular values are ordered *)
Example member_premises_example :
  let X := [[1];[5];[-1];[7]] in let idx := [0%nat;0%nat;2%nat;2%nat] in
  idx_ok 4 idx /\
  svd_ok OR 4 1 1 (center_cols OR 4 1 (msel_rows OR 1 idx X)) ([[/2];[/2];[-/2];[-/2]], [2], [[1]]) /\
  desc_nonneg 1 [2].
Proof. cbv zeta. split; [split; [reflexivity|repeat constructor]|split].
  - unfold svd_ok, unitary_cols, unitary_rows, real_vec, wf, vwf. repeat split; try reflexivity;
    try (unfold center_cols, sub_rowvec, rowrep, col_means, colmean, colsum, msel_rows, Mat.msub, mmul, mH, mI, mdiag, tab, vtab;
         cbn [map seq sum get vget nth length fmul fadd fsub fdiv f0 f1 fconj fofZ OR delta Nat.eqb Z.of_nat Pos.of_succ_nat Pos.succ];
         repeat (f_equal; try lra)).
  - split.
    + intros i Hi. destruct i as [|i]; cbn [vget nth]; [lra|lia].
    + intros i j Hij Hj. destruct j as [|j]; [|lia]. destruct i as [|i]; [|lia]. cbn [vget nth]. lra.
Qed.
