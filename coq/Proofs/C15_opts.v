(* the options the two decomposition front-ends themselves hand to the SVD back-ends (Gen/T3.v, regenerated from
   decomposer.py and _svd.py): what is merged in, what is only a default a user can override, and nothing else *)
From Coq Require Import String List Bool.
From XV Require Import Gen.T3.
Import ListNotations.
Open Scope string_scope.

Lemma solver_options_known :
  dec_solver_options =
  [("merge", "n_components", "self.n_modes_precompute"); ("merge", "random_state", "self.random_state");
   ("merge", "k", "self.n_modes_precompute"); ("merge", "random_state", "self.random_state"); ("merge", "solver", "'lobpcg'");
   ("merge", "k", "self.n_modes_precompute"); ("merge", "seed", "self.random_state");
   ("default", "compute", "self.compute"); ("default", "n_power_iter", "4"); ("default", "iterator", "'QR'")] /\
  svd_solver_options =
  [("merge", "n_components", "self.n_modes_precompute"); ("merge", "random_state", "self.random_state");
   ("merge", "k", "self.n_modes_precompute"); ("merge", "random_state", "self.random_state"); ("merge", "solver", "'lobpcg'");
   ("merge", "k", "self.n_modes_precompute"); ("merge", "seed", "self.random_state");
   ("default", "compute", "False"); ("default", "n_power_iter", "4"); ("default", "iterator", "'QR'")].
Proof. split; reflexivity. Qed.

(* apart from the `compute` option itself, no option value mentions the compute flag: the deferred fit runs the
   algorithm the computed fit runs (same sketch size, same number of power iterations, same seed) *)
Fixpoint contains (sub s : string) : bool :=
  match s with
  | EmptyString => prefix sub s
  | String _ r => prefix sub s || contains sub r
  end.
(* the flag is reachable as self.compute or as the 'compute' entry of the option dictionary *)
Definition mentions_compute (v : string) : bool := contains "self.compute" v || contains "'compute'" v.
Definition opt_independent_of_compute (o : string * string * string) : bool :=
  let '(_, key, v) := o in String.eqb key "compute" || negb (mentions_compute v).
Lemma options_independent_of_compute :
  forallb opt_independent_of_compute dec_solver_options = true /\ forallb opt_independent_of_compute svd_solver_options = true.
Proof. split; vm_compute; reflexivity. Qed.

(* the variant of seed 3/C12 (power iterations switched off for deferred fits) is refuted by the same predicate *)
Example compute_dependent_option_refuted :
  opt_independent_of_compute ("default", "n_power_iter", "4 if solver_kwargs['compute'] else 0") = false.
Proof. vm_compute. reflexivity. Qed.

(* the two constructors, statement by statement: n_modes reaches the variance test as the user gave it (an integral float such as 1.0
   is a fraction, not a count), and is stored unchanged *)
Lemma init_statements_known :
  dec_init_statements =
  ["sanity_check_n_modes(n_modes)"; "self.is_based_on_variance = False if isinstance(n_modes, int) else True"; "if self.is_based_on_variance:";
   "self.n_modes = n_modes"; "self.n_modes_precompute = n_modes"; "self.init_rank_reduction = init_rank_reduction"; "self.flip_signs = flip_signs";
   "self.compute = compute"; "self.solver = solver"; "self.random_state = random_state"; "self.component_dim_name = component_dim_name";
   "self.solver_kwargs = solver_kwargs"] /\
  svd_init_statements =
  ["sanity_check_n_modes(n_modes)"; "self.is_based_on_variance = True if isinstance(n_modes, float) else False"; "if self.is_based_on_variance:";
   "self.n_modes = n_modes"; "self.n_modes_precompute = n_modes"; "self.init_rank_reduction = init_rank_reduction"; "self.flip_signs = flip_signs";
   "self.solver = solver"; "self.random_state = random_state"; "self.solver_kwargs = solver_kwargs"; "self.is_complex = is_complex"].
Proof. split; reflexivity. Qed.

(* ---- the decomposition factors are only touched by the statements known here (Gen/T3.v: dec_factor_writes, svd_factor_writes): the call of the
   back-end, the re-ordering of the iterative complex solver, the truncations, the mode labels and the sign fix. In particular no statement
   rescales, floors or clips the singular values, and the data handed to the threshold rule is the data the routine was given *)
Lemma dec_factor_writes_known : dec_factor_writes =
  ["U, s, VT = self._svd(X, dims, np.linalg.svd, self.solver_kwargs)"%string;
   "U = U[:, :self.n_modes_precompute]"%string;
   "s = s[:self.n_modes_precompute]"%string;
   "VT = VT[:self.n_modes_precompute, :]"%string;
   "U, s, VT = self._svd(X, dims, randomized_svd, solver_kwargs)"%string;
   "U, s, VT = self._svd(X / scale, dims, complex_svd, solver_kwargs)"%string;
   "s = s * scale"%string;
   "U = U[:, idx_sort]"%string;
   "s = s[idx_sort]"%string;
   "VT = VT[idx_sort, :]"%string;
   "U, s, VT = self._svd(X, dims, dask_svd, solver_kwargs)"%string;
   "U, s, VT = self._compute_svd_result(U, s, VT)"%string;
   "U = U.assign_coords(mode=range(1, U.mode.size + 1))"%string;
   "s = s.assign_coords(mode=range(1, U.mode.size + 1))"%string;
   "VT = VT.assign_coords(mode=range(1, U.mode.size + 1))"%string;
   "U = U.sel(mode=slice(1, n_modes_required))"%string;
   "s = s.sel(mode=slice(1, n_modes_required))"%string;
   "VT = VT.sel(mode=slice(1, n_modes_required))"%string;
   "VT *= sign_multiplier"%string;
   "U *= sign_multiplier"%string].
Proof. reflexivity. Qed.
Lemma svd_factor_writes_known : svd_factor_writes =
  ["U, s, VT = self._svd(X, np.linalg.svd, self.solver_kwargs)"%string;
   "U = U[:, :self.n_modes_precompute]"%string;
   "s = s[:self.n_modes_precompute]"%string;
   "VT = VT[:self.n_modes_precompute, :]"%string;
   "U, s, VT = self._svd(X, randomized_svd, solver_kwargs)"%string;
   "U, s, VT = self._svd(X / scale, complex_svd, solver_kwargs)"%string;
   "s = s * scale"%string;
   "U = U[:, idx_sort]"%string;
   "s = s[idx_sort]"%string;
   "VT = VT[idx_sort, :]"%string;
   "U, s, VT = self._svd(X, dask_svd, solver_kwargs)"%string;
   "U, s, VT = wait_on(U, s, VT)"%string;
   "V = VT.conj().T"%string;
   "V *= sign_multiplier"%string;
   "U *= sign_multiplier"%string;
   "U = U[:, :n_modes_required]"%string;
   "s = s[:n_modes_required]"%string;
   "V = V[:, :n_modes_required]"%string].
Proof. reflexivity. Qed.
