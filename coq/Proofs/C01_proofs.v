(* C01 — EOF modes are the exact eigen-decomposition: algebra over an abstract field
   with involution (real: conj = id; complex: any field with conjugation). *)
From Coq Require Import ZArith List Bool Ring Field Setoid Lia Arith.
From XV Require Import Base.Scalar Base.Sum Base.Mat Base.MatAlg Model.Eof.
Import ListNotations.

Section C01.
Context {F : Type} (K : Ops F).
Hypothesis FL : FieldLaws K.
Add Field Ffc01 : (FL_field K FL).
Notation "0" := (f0 K). Notation "1" := (f1 K).
Infix "+" := (fadd K). Infix "*" := (fmul K). Infix "-" := (fsub K). Infix "/" := (fdiv K).
Notation cj := (fconj K).
Notation mat := (@mat F). Notation vec := (@vec F).
Notation get := (get K). Notation vget := (vget K).
Notation mmul := (mmul K). Notation mH := (mH K). Notation mI := (mI K). Notation mdiag := (mdiag K).
Notation mrows := (mrows K). Notation mcols := (mcols K). Notation wf := (wf K). Notation vwf := (vwf K).
Notation colscale := (colscale K). Notation rowscale := (rowscale K).
Notation msub := (msub K). Notation mscale := (mscale K).
Notation trace := (trace K). Notation frob2 := (frob2 K).
Notation sum := (sum K). Notation delta := (delta K).

Ltac mx := mat_unfold; apply tab_ext; intros i j Hi Hj; get_simpl.

Definition unit_vec (k : nat) (sg : vec) : Prop := forall i, (i < k)%nat -> vget sg i * cj (vget sg i) = 1.

(* ---- diagonal facts ---- *)
Lemma mdiag_comm n d e : mmul n n n (mdiag n d) (mdiag n e) = mmul n n n (mdiag n e) (mdiag n d).
Proof. rewrite !(mmul_diag_l K FL). mx. ring. Qed.

Lemma mH_mdiag n d : mH n n (mdiag n d) = mdiag n (vmap K n cj d).
Proof. mx. rewrite (FL_conj_mul K FL), (cj_delta K FL). unfold Sum.delta. rewrite (Nat.eqb_sym j i).
  destruct (Nat.eqb_spec i j) as [->|]; ring. Qed.

Lemma unit_diag k sg : unit_vec k sg -> mmul k k k (mdiag k sg) (mH k k (mdiag k sg)) = mI k.
Proof. intros Hu. rewrite mH_mdiag, (mmul_diag_l K FL). mx.
  unfold Sum.delta. destruct (Nat.eqb_spec i j) as [->|]; [|ring].
  replace (vget sg j * (1 * cj (vget sg j))) with (vget sg j * cj (vget sg j)) by ring. apply Hu; lia. Qed.

Lemma unit_diag' k sg : unit_vec k sg -> mmul k k k (mH k k (mdiag k sg)) (mdiag k sg) = mI k.
Proof. intros Hu. rewrite mH_mdiag, (mmul_diag_l K FL). mx.
  unfold Sum.delta. destruct (Nat.eqb_spec i j) as [->|]; [|ring].
  replace (cj (vget sg j) * (1 * vget sg j)) with (vget sg j * cj (vget sg j)) by ring. apply Hu; lia. Qed.

(* ---- the two basic SVD identities ---- *)
Variables (n p r : nat) (X U Vt : mat) (s : vec).
Hypothesis OK : svd_ok K n p r X (U, s, Vt).

Let HX : wf n p X. Proof. apply OK. Qed.
Let HU : wf n r U. Proof. apply OK. Qed.
Let HVt : wf r p Vt. Proof. apply OK. Qed.
Let Hs : vwf r s. Proof. apply OK. Qed.
Let Hfac : X = mmul n r p (mmul n r r U (mdiag r s)) Vt. Proof. apply OK. Qed.
Let HUU : mmul r n r (mH n r U) U = mI r. Proof. apply OK. Qed.
Let HVV : mmul r p r Vt (mH r p Vt) = mI r. Proof. apply OK. Qed.
Let Hreal : real_vec K r s. Proof. apply OK. Qed.

Notation V := (mH r p Vt).       (* p x r *)
Notation S := (mdiag r s).

(* X V = U S *)
Lemma XV_eq_US : mmul n p r X V = mmul n r r U S.
Proof. rewrite Hfac. rewrite (mmul_assoc K FL). rewrite HVV. apply (mmul_I_r K FL). apply wf_mmul. Qed.

(* U^H X = S Vt *)
Lemma UHX_eq_SVt : mmul r n p (mH n r U) X = mmul r r p S Vt.
Proof. rewrite Hfac. rewrite (mmul_assoc K FL n r r p). rewrite <- (mmul_assoc K FL r n r p).
  rewrite HUU. apply (mmul_I_l K FL). apply wf_mmul. Qed.

Lemma S_herm : mH r r S = S.
Proof. apply (mH_diag K FL). exact Hreal. Qed.

(* X^H X = V S S Vt  (spectral decomposition of the Gram matrix) *)
Lemma gram_spectral : mmul p n p (mH n p X) X = mmul p r p (mmul p r r V (mmul r r r S S)) Vt.
Proof. rewrite Hfac at 1. rewrite (mH_mmul K FL n r p), (mH_mmul K FL n r r), S_herm.
  rewrite (mmul_assoc K FL p r n p). rewrite (mmul_assoc K FL r r n p). rewrite UHX_eq_SVt.
  rewrite <- (mmul_assoc K FL r r r p). rewrite <- (mmul_assoc K FL p r r p). reflexivity. Qed.

(* ---- truncation to k modes and the sign flip ---- *)
Variables (k : nat) (sg : vec).
Hypothesis Hk : (k <= r)%nat.
Definition sign_vec (k : nat) (sg : vec) : Prop :=
  forall i, (i < k)%nat -> cj (vget sg i) = vget sg i /\ vget sg i * vget sg i = 1.
Hypothesis Hsg : sign_vec k sg.

Notation Uk := (mcols n k U).
Notation sk := (vfirstn K k s).
Notation Vtk := (mrows k p Vt).
Notation G := (mdiag k sg).
Notation Sk := (mdiag k sk).
Notation Vk := (mH k p Vtk).     (* p x k *)

Lemma G_herm : mH k k G = G.
Proof. apply (mH_diag K FL). intros i Hi. apply Hsg; exact Hi. Qed.

Lemma G_unit : mmul k k k G G = mI k.
Proof. rewrite (mmul_diag_l K FL). mx. unfold Sum.delta. destruct (Nat.eqb_spec i j) as [->|]; [|ring].
  destruct (Hsg j Hj) as [_ H2]. replace (vget sg j * (1 * vget sg j)) with (vget sg j * vget sg j) by ring. exact H2. Qed.

Lemma Sk_herm : mH k k Sk = Sk.
Proof. apply (mH_diag K FL). intros i Hi. unfold vfirstn. rewrite vget_vtab by exact Hi. apply Hreal; lia. Qed.

Lemma G_Sk_comm : mmul k k k G Sk = mmul k k k Sk G.
Proof. apply mdiag_comm. Qed.

Lemma Vtk_orth : mmul k p k Vtk (mH k p Vtk) = mI k.
Proof. rewrite (mH_mrows K r p k Vt Hk). rewrite <- (mrows_mmul K r p k k Vt (mcols p k V) Hk).
  rewrite <- (mcols_mmul K r p r k Vt V Hk). rewrite HVV. apply (mcols_I K); exact Hk. Qed.

Lemma Uk_orth : mmul k n k (mH n k Uk) Uk = mI k.
Proof. rewrite (mH_mcols K n r k U Hk). rewrite <- (mrows_mmul K r n k k (mH n r U) Uk Hk).
  rewrite <- (mcols_mmul K r n r k (mH n r U) U Hk). rewrite HUU. apply (mcols_I K); exact Hk. Qed.

(* U (first k columns of S) = U_k S_k *)
Lemma U_Scols : mmul n r k U (mcols r k S) = mmul n k k Uk Sk.
Proof. rewrite (mmul_diag_r K FL). mx.
  rewrite (sum_ext K r _ (fun l => (get U i l * vget s l) * delta l j)).
  2:{ intros l Hl. get_simpl. ring. }
  rewrite (sum_delta_r K FL r j (fun l => get U i l * vget s l)) by lia. reflexivity. Qed.

Lemma Srows_Vt : mmul k r p (mrows k r S) Vt = mmul k k p Sk Vtk.
Proof. rewrite (mmul_diag_l K FL). mx.
  rewrite (sum_ext K r _ (fun l => delta i l * (vget s l * get Vt l j))).
  2:{ intros l Hl. get_simpl. unfold Sum.delta. destruct (Nat.eqb_spec i l) as [->|]; ring. }
  rewrite (sum_delta_l K FL r i (fun l => vget s l * get Vt l j)) by lia. reflexivity. Qed.

(* X V_k = U_k S_k *)
Lemma XVk : mmul n p k X Vk = mmul n k k Uk Sk.
Proof. rewrite (mH_mrows K r p k Vt Hk). rewrite <- (mcols_mmul K n p r k X V Hk).
  rewrite XV_eq_US. rewrite (mcols_mmul K n r r k U S Hk). apply U_Scols. Qed.

(* U_k^H X = S_k Vt_k *)
Lemma UkHX : mmul k n p (mH n k Uk) X = mmul k k p Sk Vtk.
Proof. rewrite (mH_mcols K n r k U Hk). rewrite <- (mrows_mmul K r n p k (mH n r U) X Hk).
  rewrite UHX_eq_SVt. rewrite (mrows_mmul K r r p k S Vt Hk). apply Srows_Vt. Qed.

(* the model's outputs, written with matrices *)
Definition comps := e_comps (eof_fit_sg K n p r k X (U, s, Vt) sg).
Definition scores := e_scores (eof_fit_sg K n p r k X (U, s, Vt) sg).

Lemma comps_eq : comps = mmul p k k Vk G.
Proof. unfold comps, eof_fit_sg. cbn [e_comps]. rewrite <- (mmul_diag_l K FL).
  rewrite (mH_mmul K FL k k p). rewrite G_herm. reflexivity. Qed.

Lemma compsH_eq : mH p k comps = mmul k k p G Vtk.
Proof. unfold comps, eof_fit_sg. cbn [e_comps]. rewrite <- (mmul_diag_l K FL).
  apply (mH_invol K FL). apply wf_mmul. Qed.

Lemma scores_eq : scores = mmul n k k (mmul n k k Uk G) Sk.
Proof. unfold scores, eof_fit_sg. cbn [e_scores]. rewrite <- !(mmul_diag_r K FL). reflexivity. Qed.

(* (a) components are orthonormal *)
Lemma comps_orthonormal : mmul k p k (mH p k comps) comps = mI k.
Proof. rewrite compsH_eq, comps_eq. rewrite (mmul_assoc K FL k k p k). rewrite <- (mmul_assoc K FL k p k k).
  rewrite Vtk_orth. rewrite (mmul_I_l K FL) by apply wf_mdiag. apply G_unit. Qed.

(* (e) = C04: projecting the fitted matrix on the components gives the scores *)
Lemma transform_training : eof_transform K n p k (eof_fit_sg K n p r k X (U, s, Vt) sg) X = scores.
Proof. unfold eof_transform. fold comps. rewrite comps_eq, scores_eq. rewrite <- (mmul_assoc K FL n p k k).
  rewrite XVk. rewrite !(mmul_assoc K FL n k k k). rewrite G_Sk_comm. reflexivity. Qed.

(* (b) scores are mutually orthogonal with squared norms s_i^2 *)
Lemma scores_gram : mmul k n k (mH n k scores) scores = mmul k k k Sk Sk.
Proof. rewrite scores_eq. rewrite (mH_mmul K FL n k k), (mH_mmul K FL n k k), Sk_herm, G_herm.
  rewrite (mmul_assoc K FL k k n k). rewrite (mmul_assoc K FL k k n k).
  rewrite <- (mmul_assoc K FL k n k k (mH n k Uk)). rewrite <- (mmul_assoc K FL k n k k (mH n k Uk)).
  rewrite Uk_orth. rewrite (mmul_I_l K FL k k G) by apply wf_mdiag.
  rewrite <- (mmul_assoc K FL k k k k G G). rewrite G_unit. rewrite (mmul_I_l K FL) by apply wf_mdiag. reflexivity. Qed.

(* (c) each retained component is an eigenvector of X^H X with eigenvalue s_i^2 *)
Lemma gram_eigen : mmul p p k (mmul p n p (mH n p X) X) comps = mmul p k k comps (mmul k k k Sk Sk).
Proof. rewrite comps_eq. rewrite (mmul_assoc K FL p n p k). rewrite <- (mmul_assoc K FL n p k k X).
  rewrite XVk.
  (* X^H U_k = V_k S_k *)
  assert (HXU : mmul p n k (mH n p X) Uk = mmul p k k Vk Sk).
  { rewrite <- (mH_invol K FL n k Uk) at 1 by apply wf_mcols. rewrite <- (mH_mmul K FL k n p).
    rewrite UkHX. rewrite (mH_mmul K FL k k p). rewrite Sk_herm. reflexivity. }
  rewrite (mmul_assoc K FL n k k k Uk). rewrite <- (mmul_assoc K FL p n k k). rewrite HXU.
  rewrite !(mmul_assoc K FL p k k k). f_equal.
  rewrite <- G_Sk_comm. rewrite <- (mmul_assoc K FL k k k k Sk G Sk). rewrite <- G_Sk_comm.
  rewrite (mmul_assoc K FL k k k k G Sk Sk). reflexivity. Qed.

(* reconstruction from k modes: scores comps^H = U_k S_k Vt_k (signs cancel) *)
Lemma recon_eq : eof_inverse K n p k (eof_fit_sg K n p r k X (U, s, Vt) sg) scores = mmul n k p (mmul n k k Uk Sk) Vtk.
Proof. unfold eof_inverse. fold comps. rewrite compsH_eq, scores_eq.
  rewrite (mmul_assoc K FL n k k p). rewrite <- (mmul_assoc K FL k k k p Sk G). rewrite <- G_Sk_comm.
  rewrite (mmul_assoc K FL k k k p G Sk). rewrite (mmul_assoc K FL n k k p Uk G).
  rewrite <- (mmul_assoc K FL k k k p G G). rewrite G_unit. rewrite (mmul_I_l K FL) by apply wf_mmul.
  rewrite <- (mmul_assoc K FL n k k p). reflexivity. Qed.

(* ---- Frobenius norms through the SVD ---- *)
Lemma gram_e (e : vec) : real_vec K r e ->
  let B := mmul n r p (mmul n r r U (mdiag r e)) Vt in
  mmul p n p (mH n p B) B = mmul p r p (mmul p r r V (mmul r r r (mdiag r e) (mdiag r e))) Vt.
Proof. intros He B. unfold B.
  assert (HE : mH r r (mdiag r e) = mdiag r e) by (apply (mH_diag K FL); exact He).
  rewrite (mH_mmul K FL n r p), (mH_mmul K FL n r r), HE.
  rewrite (mmul_assoc K FL p r n p). rewrite (mmul_assoc K FL r r n p).
  rewrite (mmul_assoc K FL n r r p U). rewrite <- (mmul_assoc K FL r n r p (mH n r U) U). rewrite HUU.
  rewrite (mmul_I_l K FL r p) by apply wf_mmul.
  rewrite <- (mmul_assoc K FL r r r p). rewrite <- (mmul_assoc K FL p r r p). reflexivity. Qed.

Lemma frob2_UeVt (e : vec) : real_vec K r e ->
  frob2 n p (mmul n r p (mmul n r r U (mdiag r e)) Vt) = sum r (fun i => vget e i * vget e i).
Proof. intros He. rewrite (frob2_trace' K FL). rewrite (gram_e e He).
  rewrite (trace_mmul_comm K FL p r). rewrite <- (mmul_assoc K FL r p r r). rewrite HVV.
  rewrite (mmul_I_l K FL r r) by apply wf_mmul.
  rewrite (mdiag_mul K FL). rewrite (trace_diag K FL). apply (sum_ext K). intros i Hi.
  unfold vmap2. rewrite vget_vtab by exact Hi. reflexivity. Qed.

Lemma frob2_X : frob2 n p X = sum r (fun i => vget s i * vget s i).
Proof. rewrite Hfac at 1. apply frob2_UeVt. exact Hreal. Qed.

(* zero padding: U_k S_k Vt_k = U diag(s_0..s_{k-1},0,..,0) Vt *)
Definition spad : vec := vtab r (fun i => if Nat.ltb i k then vget s i else 0).
Definition stail : vec := vtab r (fun i => if Nat.ltb i k then 0 else vget s i).

Lemma trunc_pad : mmul n k p (mmul n k k Uk Sk) Vtk = mmul n r p (mmul n r r U (mdiag r spad)) Vt.
Proof. rewrite !(mmul_diag_r K FL). mx.
  rewrite (sum_trunc K FL k r) by (try exact Hk; intros l H1 H2; get_simpl; unfold spad; rewrite vget_vtab by lia;
    replace (Nat.ltb l k) with false by (symmetry; apply Nat.ltb_ge; lia); ring).
  apply (sum_ext K). intros l Hl. get_simpl. unfold spad, vfirstn. rewrite !vget_vtab by lia.
  replace (Nat.ltb l k) with true by (symmetry; apply Nat.ltb_lt; lia). reflexivity. Qed.

Lemma resid_tail : msub n p X (mmul n k p (mmul n k k Uk Sk) Vtk) = mmul n r p (mmul n r r U (mdiag r stail)) Vt.
Proof. rewrite trunc_pad. rewrite Hfac at 1. rewrite <- (mmul_msub_l K FL). rewrite <- (mmul_msub_r K FL).
  f_equal. f_equal. mx. unfold spad, stail. rewrite !vget_vtab by lia. destruct (Nat.ltb i k); ring. Qed.

(* (f) the k-mode reconstruction error is the sum of the discarded squared singular values *)
Lemma recon_error :
  frob2 n p (msub n p X (eof_inverse K n p k (eof_fit_sg K n p r k X (U, s, Vt) sg) scores))
  = sum r (fun i => if Nat.ltb i k then 0 else vget s i * vget s i).
Proof. rewrite recon_eq, resid_tail. rewrite frob2_UeVt.
  - apply (sum_ext K). intros i Hi. unfold stail. rewrite vget_vtab by exact Hi. destruct (Nat.ltb i k); ring.
  - intros i Hi. unfold stail. rewrite vget_vtab by exact Hi. destruct (Nat.ltb i k); [apply (FL_conj_0 K FL)|apply Hreal; exact Hi]. Qed.

(* (g) with centred columns the ddof=1 total variance is the sum of all s_i^2/(n-1) *)
Lemma totvar_centred :
  fofZ K (Z.of_nat n) <> 0 -> fofZ K (Z.of_nat n - 1) <> 0 ->
  (forall j, (j < p)%nat -> colsum K n X j = 0) ->
  totvar K n p X = sum r (fun i => sq_over K n (vget s i)).
Proof. intros Hn Hn1 Hc. unfold totvar.
  rewrite (sum_ext K p _ (fun j => sum n (fun i => get X i j * cj (get X i j)))).
  2:{ intros j Hj. apply (sum_ext K). intros i Hi. unfold colmean. rewrite Hc by exact Hj.
      replace (get X i j - 0 / fofZ K (Z.of_nat n)) with (get X i j) by (field; exact Hn). reflexivity. }
  rewrite (sum_swap K FL). fold (frob2 n p X). rewrite frob2_X. unfold sq_over.
  assert (Hd : forall a b, fdiv K a b = a * finv K b).
  { intros a b. destruct (FL_field K FL) as [_ _ Fdiv _]. apply Fdiv. }
  rewrite Hd. rewrite <- (sum_scale_r K FL). apply (sum_ext K). intros i Hi. rewrite Hd. reflexivity. Qed.

(* (c') covariance form: (X^H X/(n-1)) comps = comps diag(expvar) *)
Definition expvar := e_expvar (eof_fit_sg K n p r k X (U, s, Vt) sg).
Definition cov : mat := mscale p p (finv K (fofZ K (Z.of_nat n - 1))) (mmul p n p (mH n p X) X).

Lemma cov_eigen : mmul p p k cov comps = colscale p k comps expvar.
Proof. unfold cov. rewrite (mmul_mscale_l K FL). rewrite gram_eigen. rewrite (mdiag_mul K FL).
  rewrite (mmul_diag_r K FL). mx. unfold expvar, eof_fit_sg. cbn [e_expvar]. unfold vmap, vmap2, sq_over.
  rewrite !vget_vtab by lia.
  assert (Hd : forall a b, fdiv K a b = a * finv K b).
  { intros a b. destruct (FL_field K FL) as [_ _ Fdiv _]. apply Fdiv. }
  rewrite Hd. unfold vfirstn. rewrite !vget_vtab by lia. ring. Qed.

End C01.

(* the sign vector computed by the model is a vector of real units *)
Section Signs.
Context {F : Type} (K : Ops F).
Hypothesis FL : FieldLaws K.
Add Field Ffc01s : (FL_field K FL).

Lemma sign_rule_unit mx mn : let x := sign_rule K mx mn in fconj K x = x /\ fmul K x x = f1 K.
Proof. unfold sign_rule. destruct (fleb K (fabs K mn) (fabs K mx)).
  - rewrite (FL_ofZ_1 K FL). split; [apply (FL_conj_1 K FL)|ring].
  - rewrite (FL_ofZ_m1 K FL). split; [rewrite (cj_opp K FL), (FL_conj_1 K FL); reflexivity|ring]. Qed.

Lemma row_signs_sign_vec k Vtk : sign_vec K k (row_signs K k Vtk).
Proof. intros i Hi. unfold row_signs. rewrite vget_vtab by exact Hi. apply sign_rule_unit. Qed.
End Signs.

(* ---- the statements for [eof_fit], whose signs are the ones the model computes ---- *)
Section Final.
Context {F : Type} (K : Ops F).
Hypothesis FL : FieldLaws K.
Variables (n p r k : nat) (X U Vt : @mat F) (s : @vec F).
Hypothesis OK : svd_ok K n p r X (U, s, Vt).
Hypothesis Hk : (k <= r)%nat.
Notation out := (eof_fit K n p r k X (U, s, Vt)).
Notation sgv := (row_signs K k (mrows K k p Vt)).

Lemma eof_fit_unfold : out = eof_fit_sg K n p r k X (U, s, Vt) sgv.
Proof. reflexivity. Qed.

Lemma fit_components_orthonormal : mmul K k p k (mH K p k (e_comps out)) (e_comps out) = mI K k.
Proof. exact (comps_orthonormal K FL n p r X U Vt s OK k sgv Hk (row_signs_sign_vec K FL k _)). Qed.

Lemma fit_scores_gram :
  mmul K k n k (mH K n k (e_scores out)) (e_scores out) = mdiag K k (vmap2 K k (fmul K) (e_norms out) (e_norms out)).
Proof. rewrite <- (mdiag_mul K FL). exact (scores_gram K FL n p r X U Vt s OK k sgv Hk (row_signs_sign_vec K FL k _)). Qed.

Lemma fit_norms : e_norms out = vfirstn K k s.
Proof. reflexivity. Qed.

Lemma fit_expvar : e_expvar out = vmap K k (sq_over K n) (vfirstn K k s).
Proof. reflexivity. Qed.

Lemma fit_cov_eigen : mmul K p p k (cov K n p X) (e_comps out) = colscale K p k (e_comps out) (e_expvar out).
Proof. exact (cov_eigen K FL n p r X U Vt s OK k sgv Hk (row_signs_sign_vec K FL k _)). Qed.

Lemma fit_expvar_eigen :
  mmul K p p k (cov K n p X) (e_comps out) = colscale K p k (e_comps out) (e_expvar out) /\
  e_expvar out = vmap K k (sq_over K n) (vfirstn K k s).
Proof. split; [exact fit_cov_eigen|exact fit_expvar]. Qed.

Lemma fit_transform_training : eof_transform K n p k out X = e_scores out.
Proof. exact (transform_training K FL n p r X U Vt s OK k sgv Hk (row_signs_sign_vec K FL k _)). Qed.

Lemma fit_recon_error :
  frob2 K n p (msub K n p X (eof_inverse K n p k out (e_scores out)))
  = sum K r (fun i => if Nat.ltb i k then f0 K else fmul K (vget K s i) (vget K s i)).
Proof. exact (recon_error K FL n p r X U Vt s OK k sgv Hk (row_signs_sign_vec K FL k _)). Qed.

Lemma fit_full_reconstruction :
  let outr := eof_fit K n p r r X (U, s, Vt) in eof_inverse K n p r outr (e_scores outr) = X.
Proof. intros outr. unfold outr.
  change (e_scores (eof_fit K n p r r X (U, s, Vt)))
    with (scores K n p r X U Vt s r (row_signs K r (mrows K r p Vt))).
  change (eof_fit K n p r r X (U, s, Vt)) with (eof_fit_sg K n p r r X (U, s, Vt) (row_signs K r (mrows K r p Vt))).
  rewrite (recon_eq K FL n p r X U Vt s r _ (le_n r) (row_signs_sign_vec K FL r _)).
  destruct OK as (HX & HU & HVt & Hs & Hfac & _).
  rewrite Hfac. f_equal; [f_equal|].
  - rewrite HU at 2. reflexivity.
  - f_equal. rewrite Hs at 2. reflexivity.
  - rewrite HVt at 2. reflexivity. Qed.
End Final.
