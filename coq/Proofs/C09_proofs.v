(* C09 — cross-set models diagonalise the (partially whitened) cross-covariance: corollaries of the
   SVD lemmas of C01 applied to the cross-covariance matrix C = Xw^H Yw / (n-1). *)
From Coq Require Import ZArith List Bool Ring Field Setoid Lia Arith.
From XV Require Import Base.Scalar Base.Sum Base.Mat Base.MatAlg Model.Eof Model.Cpcca Proofs.C01_proofs.
Import ListNotations.

Section C09.
Context {F : Type} (K : Ops F).
Hypothesis FL : FieldLaws K.
Add Field Ffc09 : (FL_field K FL).
Notation mat := (@mat F). Notation vec := (@vec F).
Notation mmul := (mmul K). Notation mH := (mH K). Notation mI := (mI K). Notation mdiag := (mdiag K).
Notation mrows := (mrows K). Notation mcols := (mcols K). Notation mscale := (mscale K).

Variables (n p1 p2 r k : nat) (X Y U Vt : mat) (s sg : vec).
Notation C := (cross_cov K n p1 p2 X Y).
Hypothesis OK : svd_ok K p1 p2 r C (U, s, Vt).
Hypothesis Hk : (k <= r)%nat.
Hypothesis Hsg : sign_vec K k sg.
Hypothesis Hn : fofZ K (Z.of_nat n - 1) <> f0 K.

Notation out := (cpcca_fit_sg K n p1 p2 r k X Y (U, s, Vt) sg).
Notation Uk := (mcols p1 k U).
Notation Vtk := (mrows k p2 Vt).
Notation G := (mdiag k sg).
Notation Sk := (mdiag k (vfirstn K k s)).

Lemma Q1_eq : cp_Q1 out = mmul p1 k k Uk G.
Proof. unfold cpcca_fit_sg. cbn [cp_Q1]. rewrite <- (mmul_diag_r K FL). reflexivity. Qed.

Lemma Q2_eq : cp_Q2 out = mmul p2 k k (mH k p2 Vtk) G.
Proof. unfold cpcca_fit_sg. cbn [cp_Q2]. rewrite <- (mmul_diag_l K FL). rewrite (mH_mmul K FL k k p2).
  rewrite (G_herm K FL k sg Hsg). reflexivity. Qed.

(* singular vectors of each field are orthonormal (MCA: these are the components) *)
Lemma Q1_orthonormal : mmul k p1 k (mH p1 k (cp_Q1 out)) (cp_Q1 out) = mI k.
Proof. rewrite Q1_eq. rewrite (mH_mmul K FL p1 k k). rewrite (G_herm K FL k sg Hsg).
  rewrite (mmul_assoc K FL k k p1 k). rewrite <- (mmul_assoc K FL k p1 k k (mH p1 k Uk)).
  rewrite (Uk_orth K p1 p2 r C U Vt s OK k Hk). rewrite (mmul_I_l K FL) by apply wf_mdiag.
  apply (G_unit K FL r k sg Hk Hsg). Qed.

Lemma Q2_orthonormal : mmul k p2 k (mH p2 k (cp_Q2 out)) (cp_Q2 out) = mI k.
Proof. exact (comps_orthonormal K FL p1 p2 r C U Vt s OK k sg Hk Hsg). Qed.

Lemma Q12_orthonormal : mmul k p1 k (mH p1 k (cp_Q1 out)) (cp_Q1 out) = mI k /\ mmul k p2 k (mH p2 k (cp_Q2 out)) (cp_Q2 out) = mI k.
Proof. exact (conj Q1_orthonormal Q2_orthonormal). Qed.

(* Q1^H C Q2 = diag(sigma_k): the cross-covariance of the two score sets is diagonal with the
   reported singular values on the diagonal *)
Lemma core_diag : mmul k p2 k (mmul k p1 p2 (mH p1 k (cp_Q1 out)) C) (cp_Q2 out) = Sk.
Proof. rewrite Q1_eq, Q2_eq. rewrite (mH_mmul K FL p1 k k). rewrite (G_herm K FL k sg Hsg).
  rewrite (mmul_assoc K FL k k p1 p2 G). rewrite (UkHX K FL p1 p2 r C U Vt s OK k Hk).
  rewrite (mmul_assoc K FL k k p2 k G). rewrite <- (mmul_assoc K FL k p2 k k).
  rewrite (mmul_assoc K FL k k p2 k Sk). rewrite (Vtk_orth K p1 p2 r C U Vt s OK k Hk).
  rewrite (mmul_I_r K FL k k) by apply wf_mdiag.
  rewrite <- (mmul_assoc K FL k k k k G Sk G). rewrite (G_Sk_comm K FL s k sg).
  rewrite (mmul_assoc K FL k k k k). rewrite (G_unit K FL r k sg Hk Hsg). apply (mmul_I_r K FL). apply wf_mdiag. Qed.

(* in terms of the scores: S1^H S2 / (n-1) = diag(sigma_k) *)
Lemma score_crosscov_diag :
  mscale k k (finv K (fofZ K (Z.of_nat n - 1))) (mmul k n k (mH n k (cp_S1 out)) (cp_S2 out)) = Sk.
Proof. rewrite <- core_diag. unfold cpcca_fit_sg at 1 2. cbn [cp_S1 cp_S2]. fold out.
  rewrite (mH_mmul K FL n p1 k). rewrite (mmul_assoc K FL k p1 n k). rewrite <- (mmul_assoc K FL p1 n p2 k).
  unfold cross_cov. rewrite (mmul_mscale_r K FL k p1 p2). rewrite (mmul_mscale_l K FL k p2 k).
  rewrite (mmul_assoc K FL k p1 p2 k). reflexivity. Qed.

(* squared covariance: sum of all sigma_i^2 equals the squared Frobenius norm of the cross-covariance *)
Lemma scf_total : frob2 K p1 p2 C = sum K r (fun i => fmul K (vget K s i) (vget K s i)).
Proof. exact (frob2_X K FL p1 p2 r C U Vt s OK). Qed.

End C09.
