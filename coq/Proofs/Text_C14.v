(* written by tools/mk_text_tie.py: the source text against which the hand-written model parts of C14 were last validated *)
From Coq Require Import String List.
From XV Require Import Gen.T9text.
Import ListNotations.
Open Scope string_scope.

(* xeofs/single/eof.py: ComplexEOF.components_amplitude *)
Lemma text_C14_ComplexEOF_components_amplitude_frozen : text_C14_ComplexEOF_components_amplitude =
  ["amplitudes = abs(self.data['components'])";
   "if not normalized:";
   "amplitudes = amplitudes * self.data['norms']";
   "amplitudes.name = 'components_amplitude'";
   "return self.preprocessor.inverse_transform_components(amplitudes)"].
Proof. reflexivity. Qed.

(* xeofs/single/eof.py: ComplexEOF.components_phase *)
Lemma text_C14_ComplexEOF_components_phase_frozen : text_C14_ComplexEOF_components_phase =
  ["comps = self.data['components']";
   "comp_phase = xr.apply_ufunc(np.angle, comps, dask='allowed', keep_attrs=True)";
   "comp_phase.name = 'components_phase'";
   "return self.preprocessor.inverse_transform_components(comp_phase)"].
Proof. reflexivity. Qed.

(* xeofs/single/eof.py: ComplexEOF.scores_amplitude *)
Lemma text_C14_ComplexEOF_scores_amplitude_frozen : text_C14_ComplexEOF_scores_amplitude =
  ["scores = self.data['scores'].copy()";
   "if normalized:";
   "scores = scores / self.data['norms']";
   "amplitudes = abs(scores)";
   "amplitudes.name = 'scores_amplitude'";
   "return self.preprocessor.inverse_transform_scores(amplitudes)"].
Proof. reflexivity. Qed.

(* xeofs/single/eof.py: ComplexEOF.scores_phase *)
Lemma text_C14_ComplexEOF_scores_phase_frozen : text_C14_ComplexEOF_scores_phase =
  ["scores = self.data['scores']";
   "phases = xr.apply_ufunc(np.angle, scores, dask='allowed', keep_attrs=True)";
   "phases.name = 'scores_phase'";
   "return self.preprocessor.inverse_transform_scores(phases)"].
Proof. reflexivity. Qed.

(* xeofs/data_container/data_container.py: DataContainer.add *)
Lemma text_C14_DataContainer_add_frozen : text_C14_DataContainer_add =
  ["data = data.copy(deep=False)";
   "data.name = name";
   "super().__setitem__(name, data)";
   "self._allow_compute[name] = True if allow_compute else False"].
Proof. reflexivity. Qed.

(* xeofs/data_container/data_container.py: DataContainer.__setitem__ *)
Lemma text_C14_DataContainer___setitem___frozen : text_C14_DataContainer___setitem__ =
  ["super().__setitem__(__key, __value)";
   "self._allow_compute[__key] = self._allow_compute.get(__key, True)"].
Proof. reflexivity. Qed.

(* xeofs/data_container/data_container.py: DataContainer.__getitem__ *)
Lemma text_C14_DataContainer___getitem___frozen : text_C14_DataContainer___getitem__ =
  ["try:";
   "return super().__getitem__(__key)";
   "raise KeyError(f'Cannot find data '{__key}'. Please fit the model first by calling .fit().')"].
Proof. reflexivity. Qed.

(* xeofs/data_container/data_container.py: DataContainer.compute *)
Lemma text_C14_DataContainer_compute_frozen : text_C14_DataContainer_compute =
  ["computed_data = {k: v for k, v in self.items() if self._allow_compute[k]}";
   "computed_data, = dask.compute(computed_data, **kwargs)";
   "for k, v in computed_data.items():";
   "self[k] = v"].
Proof. reflexivity. Qed.

(* xeofs/base_model.py: BaseModel.compute *)
Lemma text_C14_BaseModel_compute_frozen : text_C14_BaseModel_compute =
  ["dt = self.serialize()";
   "data_objs = {k: v for k, v in dt.to_dict().items() if data_is_dask(v) and v.attrs.get('allow_compute', True)}";
   "data_objs, = dask.base.compute(data_objs, **kwargs)";
   "for k, v in data_objs.items():";
   "dt[k] = xr.DataTree(v)";
   "self._deserialize_attrs(dt)";
   "self._post_compute()"].
Proof. reflexivity. Qed.

(* xeofs/base_model.py: BaseModel._post_compute *)
Lemma text_C14_BaseModel__post_compute_frozen : text_C14_BaseModel__post_compute =
  ["pass"].
Proof. reflexivity. Qed.

(* xeofs/base_model.py: BaseModel.get_params *)
Lemma text_C14_BaseModel_get_params_frozen : text_C14_BaseModel_get_params =
  ["return self._params"].
Proof. reflexivity. Qed.

Definition all_frozen : Prop :=
  text_C14_ComplexEOF_components_amplitude = ["amplitudes = abs(self.data['components'])";
   "if not normalized:";
   "amplitudes = amplitudes * self.data['norms']";
   "amplitudes.name = 'components_amplitude'";
   "return self.preprocessor.inverse_transform_components(amplitudes)"] /\
  text_C14_ComplexEOF_components_phase = ["comps = self.data['components']";
   "comp_phase = xr.apply_ufunc(np.angle, comps, dask='allowed', keep_attrs=True)";
   "comp_phase.name = 'components_phase'";
   "return self.preprocessor.inverse_transform_components(comp_phase)"] /\
  text_C14_ComplexEOF_scores_amplitude = ["scores = self.data['scores'].copy()";
   "if normalized:";
   "scores = scores / self.data['norms']";
   "amplitudes = abs(scores)";
   "amplitudes.name = 'scores_amplitude'";
   "return self.preprocessor.inverse_transform_scores(amplitudes)"] /\
  text_C14_ComplexEOF_scores_phase = ["scores = self.data['scores']";
   "phases = xr.apply_ufunc(np.angle, scores, dask='allowed', keep_attrs=True)";
   "phases.name = 'scores_phase'";
   "return self.preprocessor.inverse_transform_scores(phases)"] /\
  text_C14_DataContainer_add = ["data = data.copy(deep=False)";
   "data.name = name";
   "super().__setitem__(name, data)";
   "self._allow_compute[name] = True if allow_compute else False"] /\
  text_C14_DataContainer___setitem__ = ["super().__setitem__(__key, __value)";
   "self._allow_compute[__key] = self._allow_compute.get(__key, True)"] /\
  text_C14_DataContainer___getitem__ = ["try:";
   "return super().__getitem__(__key)";
   "raise KeyError(f'Cannot find data '{__key}'. Please fit the model first by calling .fit().')"] /\
  text_C14_DataContainer_compute = ["computed_data = {k: v for k, v in self.items() if self._allow_compute[k]}";
   "computed_data, = dask.compute(computed_data, **kwargs)";
   "for k, v in computed_data.items():";
   "self[k] = v"] /\
  text_C14_BaseModel_compute = ["dt = self.serialize()";
   "data_objs = {k: v for k, v in dt.to_dict().items() if data_is_dask(v) and v.attrs.get('allow_compute', True)}";
   "data_objs, = dask.base.compute(data_objs, **kwargs)";
   "for k, v in data_objs.items():";
   "dt[k] = xr.DataTree(v)";
   "self._deserialize_attrs(dt)";
   "self._post_compute()"] /\
  text_C14_BaseModel__post_compute = ["pass"] /\
  text_C14_BaseModel_get_params = ["return self._params"].

Lemma all_frozen_holds : all_frozen.
Proof. exact (conj text_C14_ComplexEOF_components_amplitude_frozen (conj text_C14_ComplexEOF_components_phase_frozen (conj text_C14_ComplexEOF_scores_amplitude_frozen (conj text_C14_ComplexEOF_scores_phase_frozen (conj text_C14_DataContainer_add_frozen (conj text_C14_DataContainer___setitem___frozen (conj text_C14_DataContainer___getitem___frozen (conj text_C14_DataContainer_compute_frozen (conj text_C14_BaseModel_compute_frozen (conj text_C14_BaseModel__post_compute_frozen text_C14_BaseModel_get_params_frozen)))))))))). Qed.
