(* the delay embedding of Model/Eeof.v is the one of the source (Gen/T5eeof.v) *)
From Coq Require Import ZArith List Bool Lia Arith.
From XV Require Import Base.Scalar Base.Mat Model.Eeof Gen.T5eeof.
Import ListNotations.

(* number of rows kept: size - (embedding - 1) * tau *)
Lemma embed_rows_matches_source n tau e : (1 <= e)%nat ->
  Z.of_nat (embed_rows n tau e) = Z.max 0 (Z.of_nat n - eeof_rows_cut (Z.of_nat e) (Z.of_nat tau)).
Proof. intros He. unfold embed_rows, eeof_rows_cut. nia. Qed.

(* row t of copy j holds row t + j * tau of the data *)
Lemma embed_row_matches_source t j tau : Z.of_nat (t + j * tau) = eeof_copy_row (Z.of_nat t) (eeof_lag (Z.of_nat j) (Z.of_nat tau)).
Proof. unfold eeof_copy_row, eeof_lag. nia. Qed.

Lemma eeof_shape_flags : eeof_copies_concatenated_along_new_dim_then_first_rows_kept = true /\
  eeof_inner_eof_follows_center_only = true /\ eeof_pca_scores_are_embedded = true.
Proof. repeat split; reflexivity. Qed.

(* the variant of a seeded change (embedding * tau - 1 rows cut) differs already for one copy and tau = 3 *)
Example other_cut_refuted : (1 * 3 - 1 <> eeof_rows_cut 1 3)%Z.
Proof. vm_compute. discriminate. Qed.
