(* C01 — Eckart-Young for complex data, by realification: a complex vector of C^p is a real vector of R^(2p), a
   complex-orthonormal family {q_j} gives the real-orthonormal family {q_j, i q_j}, and the real theorem's core
   (Proofs/C01_ey_abs.v) applies to the doubled data. *)
From Coq Require Import ZArith List Bool Reals Lra Lia Arith.
From Coquelicot Require Import Complex.
From XV Require Import Base.Scalar Base.Sum Base.Mat Base.MatAlg Base.RInst Base.CInst Model.Eof Proofs.C01_proofs Proofs.C01_order
  Proofs.C01_ey Proofs.C01_ey_abs.
Import ListNotations.
Open Scope R_scope.

Notation re := (@fst R R).
Notation im := (@snd R R).

(* ---------- sums of complex numbers, componentwise ---------- *)
Lemma csum_re n (f : nat -> C) : re (sum OCR n f) = rsum n (fun i => re (f i)).
Proof. induction n as [|n IH]; [reflexivity|]. cbn [sum fadd OCR OR]. rewrite <- IH. reflexivity. Qed.
Lemma csum_im n (f : nat -> C) : im (sum OCR n f) = rsum n (fun i => im (f i)).
Proof. induction n as [|n IH]; [reflexivity|]. cbn [sum fadd OCR OR]. rewrite <- IH. reflexivity. Qed.

(* Hermitian inner product sum_l x_l conj(y_l): real part Pp, imaginary part Qq *)
Definition Pp (p : nat) (x y : nat -> C) : R := rsum p (fun l => re (x l) * re (y l) + im (x l) * im (y l)).
Definition Qq (p : nat) (x y : nat -> C) : R := rsum p (fun l => im (x l) * re (y l) - re (x l) * im (y l)).
Definition cdot (p : nat) (x y : nat -> C) : C := sum OCR p (fun l => Cmult (x l) (Cconj (y l))).

Lemma cdot_re p x y : re (cdot p x y) = Pp p x y.
Proof. unfold cdot, Pp. rewrite csum_re. apply rsum_ext. intros l Hl. destruct (x l), (y l). cbn. ring. Qed.
Lemma cdot_im p x y : im (cdot p x y) = Qq p x y.
Proof. unfold cdot, Qq. rewrite csum_im. apply rsum_ext. intros l Hl. destruct (x l), (y l). cbn. ring. Qed.

(* ---------- realification ---------- *)
Definition rl (p : nat) (z : nat -> C) : nat -> R := fun l => if Nat.ltb l p then re (z l) else im (z (l - p)%nat).
Definition irl (p : nat) (z : nat -> C) : nat -> R := fun l => if Nat.ltb l p then - im (z l) else re (z (l - p)%nat).

Lemma dot_halves p f g : dot (p + p) f g = rsum p (fun l => f l * g l) + rsum p (fun l => f (p + l)%nat * g (p + l)%nat).
Proof. unfold dot. apply rsum_split. Qed.

Ltac halves := rewrite dot_halves; unfold rl, irl, Pp, Qq; rewrite <- ?rsum_plus, <- ?rsum_minus;
  try (rewrite <- (Ropp_involutive (rsum _ _)), <- rsum_scal);
  apply rsum_ext; intros l Hl;
  replace (Nat.ltb l _) with true by (symmetry; apply Nat.ltb_lt; lia);
  replace (Nat.ltb (_ + l) _) with false by (symmetry; apply Nat.ltb_ge; lia);
  replace (_ + l - _)%nat with l by lia.

Lemma dot_rl_rl p x y : dot (p + p) (rl p x) (rl p y) = Pp p x y.
Proof. rewrite dot_halves. unfold rl, Pp. rewrite <- rsum_plus. apply rsum_ext. intros l Hl.
  replace (Nat.ltb l p) with true by (symmetry; apply Nat.ltb_lt; lia).
  replace (Nat.ltb (p + l) p) with false by (symmetry; apply Nat.ltb_ge; lia). replace (p + l - p)%nat with l by lia. ring. Qed.
Lemma dot_irl_irl p x y : dot (p + p) (irl p x) (irl p y) = Pp p x y.
Proof. rewrite dot_halves. unfold irl, Pp. rewrite <- rsum_plus. apply rsum_ext. intros l Hl.
  replace (Nat.ltb l p) with true by (symmetry; apply Nat.ltb_lt; lia).
  replace (Nat.ltb (p + l) p) with false by (symmetry; apply Nat.ltb_ge; lia). replace (p + l - p)%nat with l by lia. ring. Qed.
Lemma dot_rl_irl p x y : dot (p + p) (rl p x) (irl p y) = Qq p x y.
Proof. rewrite dot_halves. unfold rl, irl, Qq. rewrite <- rsum_plus. apply rsum_ext. intros l Hl.
  replace (Nat.ltb l p) with true by (symmetry; apply Nat.ltb_lt; lia).
  replace (Nat.ltb (p + l) p) with false by (symmetry; apply Nat.ltb_ge; lia). replace (p + l - p)%nat with l by lia. ring. Qed.
Lemma dot_irl_rl p x y : dot (p + p) (irl p x) (rl p y) = - Qq p x y.
Proof. rewrite dot_sym, dot_rl_irl. unfold Qq. rewrite <- (Rmult_1_l (rsum p _)) at 1.
  replace (- rsum p (fun l => im (x l) * re (y l) - re (x l) * im (y l))) with ((-1) * rsum p (fun l => im (x l) * re (y l) - re (x l) * im (y l))) by ring.
  rewrite <- !rsum_scal. apply rsum_ext. intros; ring. Qed.

(* ---------- interleaved real family of a complex family: q_0, i q_0, q_1, i q_1, ... ---------- *)
Definition il (p : nat) (f : nat -> nat -> C) : nat -> nat -> R :=
  fun a => if Nat.even a then rl p (f (Nat.div2 a)) else irl p (f (Nat.div2 a)).

Definition c_orthonormal (p K : nat) (f : nat -> nat -> C) : Prop :=
  forall a b, (a < K)%nat -> (b < K)%nat -> Pp p (f a) (f b) = (if Nat.eqb a b then 1 else 0) /\ Qq p (f a) (f b) = 0.

Lemma div2_lt a K : (a < K + K)%nat -> (Nat.div2 a < K)%nat.
Proof. intros H. pose proof (Nat.div2_odd a) as E. destruct (Nat.odd a); cbn in E; lia. Qed.

Lemma idx_eq a b : Nat.eqb a b = (Nat.eqb (Nat.div2 a) (Nat.div2 b) && Bool.eqb (Nat.even a) (Nat.even b))%bool.
Proof. pose proof (Nat.div2_odd a) as Ea. pose proof (Nat.div2_odd b) as Eb. rewrite <- !Nat.negb_odd.
  destruct (Nat.eqb_spec a b) as [->|Hne].
  - rewrite Nat.eqb_refl. destruct (Nat.odd b); reflexivity.
  - destruct (Nat.eqb_spec (Nat.div2 a) (Nat.div2 b)) as [E|E]; [|reflexivity]. cbn [andb].
    destruct (Nat.odd a) eqn:Oa, (Nat.odd b) eqn:Ob; cbn in *; try reflexivity; exfalso; apply Hne; lia. Qed.

Lemma il_orthonormal p K f : c_orthonormal p K f -> orthonormal (p + p) (K + K) (il p f).
Proof. intros H a b Ha Hb. unfold il. rewrite idx_eq.
  destruct (H (Nat.div2 a) (Nat.div2 b) (div2_lt a K Ha) (div2_lt b K Hb)) as [HP HQ].
  destruct (Nat.even a) eqn:Ea, (Nat.even b) eqn:Eb; cbn [Bool.eqb];
    rewrite ?dot_rl_rl, ?dot_irl_irl, ?dot_rl_irl, ?dot_irl_rl, ?HP, ?HQ, ?andb_true_r, ?andb_false_r; try reflexivity; lra. Qed.

Lemma rsum_double K (g : nat -> R) : rsum (K + K) g = rsum K (fun a => g (2 * a)%nat + g (2 * a + 1)%nat).
Proof. induction K as [|K IH]; [reflexivity|]. replace (S K + S K)%nat with (S (S (K + K))) by lia. rewrite !rsum_S, IH.
  replace (2 * K)%nat with (K + K)%nat by lia. replace (K + K + 1)%nat with (S (K + K)) by lia. lra. Qed.

Lemma il_even p f a : il p f (2 * a) = rl p (f a).
Proof. unfold il. rewrite Nat.even_mul. cbn [Nat.even orb]. rewrite Nat.div2_double. reflexivity. Qed.
Lemma il_odd p f a : il p f (2 * a + 1) = irl p (f a).
Proof. unfold il. replace (2 * a + 1)%nat with (S (2 * a)) by lia. rewrite Nat.even_succ, Nat.odd_mul. cbn [Nat.odd Nat.even negb andb].
  rewrite Nat.div2_succ_double. reflexivity. Qed.

(* ---------- complex combinations, realified ---------- *)
Definition gi (g : nat -> C) : nat -> R := fun a => if Nat.even a then re (g (Nat.div2 a)) else im (g (Nat.div2 a)).
Lemma gi_even g a : gi g (2 * a) = re (g a).
Proof. unfold gi. rewrite Nat.even_mul. cbn [Nat.even orb]. rewrite Nat.div2_double. reflexivity. Qed.
Lemma gi_odd g a : gi g (2 * a + 1) = im (g a).
Proof. unfold gi. replace (2 * a + 1)%nat with (S (2 * a)) by lia. rewrite Nat.even_succ, Nat.odd_mul. cbn [Nat.odd Nat.even negb andb].
  rewrite Nat.div2_succ_double. reflexivity. Qed.

Definition ccomb (K : nat) (g : nat -> C) (u : nat -> nat -> C) : nat -> C := fun i => sum OCR K (fun a => Cmult (g a) (u a i)).
Definition cabs2 (z : C) : R := re z * re z + im z * im z.

Lemma rl_ccomb n K g u l : (l < n + n)%nat -> rl n (ccomb K g u) l = rsum (K + K) (fun a => gi g a * il n u a l).
Proof. intros Hl. rewrite rsum_double. unfold rl, ccomb. destruct (Nat.ltb_spec l n) as [Hlt|Hge].
  - rewrite csum_re. apply rsum_ext. intros a Ha. rewrite gi_even, gi_odd, il_even, il_odd. unfold rl, irl.
    replace (Nat.ltb l n) with true by (symmetry; apply Nat.ltb_lt; lia). destruct (g a), (u a l). cbn. ring.
  - rewrite csum_im. apply rsum_ext. intros a Ha. rewrite gi_even, gi_odd, il_even, il_odd. unfold rl, irl.
    replace (Nat.ltb l n) with false by (symmetry; apply Nat.ltb_ge; lia). destruct (g a), (u a (l - n)%nat). cbn. ring. Qed.

Lemma Pp_self n z : Pp n z z = rsum n (fun i => cabs2 (z i)).
Proof. unfold Pp, cabs2. reflexivity. Qed.

(* |sum_a g_a u_a|^2 = sum_a |g_a|^2 for complex-orthonormal u *)
Lemma c_isometry n K u g : c_orthonormal n K u -> rsum n (fun i => cabs2 (ccomb K g u i)) = rsum K (fun a => cabs2 (g a)).
Proof. intros ON. rewrite <- Pp_self, <- dot_rl_rl.
  rewrite (dot_ext (n + n) _ (fun l => rsum (K + K) (fun a => gi g a * il n u a l)) _ (fun l => rsum (K + K) (fun a => gi g a * il n u a l)))
    by (intros l Hl; apply rl_ccomb; exact Hl).
  rewrite (isometry (n + n) (K + K) (il n u) (gi g) (il_orthonormal n K u ON)). rewrite rsum_double.
  apply rsum_ext. intros a Ha. rewrite gi_even, gi_odd. reflexivity. Qed.

(* ---------- the complex SVD, realified ---------- *)
Section ComplexEY.
Variables (n p r : nat) (X U Vt : list (list C)) (s : list C).
Hypothesis OK : svd_ok OCR n p r X (U, s, Vt).

Definition cxrow (i : nat) : nat -> C := fun l => get OCR X i l.
Definition cvrow (a : nat) : nat -> C := fun l => get OCR Vt a l.
Definition cucol (a : nat) : nat -> C := fun i => get OCR U i a.
Definition sg (a : nat) : R := re (vget OCR s a).

Lemma delta_re a b : re (delta OCR a b) = if Nat.eqb a b then 1 else 0.
Proof. unfold delta. destruct (Nat.eqb a b); reflexivity. Qed.
Lemma delta_im a b : im (delta OCR a b) = 0.
Proof. unfold delta. destruct (Nat.eqb a b); reflexivity. Qed.

Lemma cvrow_orthonormal : c_orthonormal p r cvrow.
Proof. destruct OK as (_ & _ & _ & _ & _ & _ & HVV & _). intros a b Ha Hb.
  unfold unitary_rows in HVV. apply (f_equal (fun M => get OCR M a b)) in HVV.
  unfold mmul, mH, mI in HVV. rewrite !get_tab in HVV by assumption.
  assert (E : cdot p (cvrow a) (cvrow b) = delta OCR a b).
  { rewrite <- HVV. unfold cdot, cvrow. apply (sum_ext OCR). intros l Hl. rewrite get_tab by assumption. reflexivity. }
  rewrite <- cdot_re, <- cdot_im, E. split; [apply delta_re|apply delta_im]. Qed.

Lemma cucol_orthonormal : c_orthonormal n r cucol.
Proof. destruct OK as (_ & _ & _ & _ & _ & HUU & _ & _). intros a b Ha Hb.
  unfold unitary_cols in HUU. apply (f_equal (fun M => get OCR M b a)) in HUU.
  unfold mmul, mH, mI in HUU. rewrite !get_tab in HUU by assumption.
  assert (E : cdot n (cucol a) (cucol b) = delta OCR b a).
  { rewrite <- HUU. unfold cdot, cucol. apply (sum_ext OCR). intros i Hi. rewrite get_tab by assumption. cbn [fmul fconj OCR]. apply Cmult_comm. }
  rewrite <- cdot_re, <- cdot_im, E. rewrite delta_re, delta_im, (Nat.eqb_sym b a). split; reflexivity. Qed.

Lemma s_real a : (a < r)%nat -> im (vget OCR s a) = 0.
Proof. intros Ha. destruct OK as (_ & _ & _ & _ & _ & _ & _ & Hreal). specialize (Hreal a Ha). cbn [fconj OCR] in Hreal.
  unfold Cconj in Hreal. apply (f_equal snd) in Hreal. cbn in Hreal. lra. Qed.

Lemma cxrow_expand i l : (i < n)%nat -> (l < p)%nat ->
  cxrow i l = sum OCR r (fun a => Cmult (Cmult (cucol a i) (vget OCR s a)) (cvrow a l)).
Proof. intros Hi Hl. destruct OK as (_ & _ & _ & _ & Hfac & _ & _ & _). unfold cxrow. rewrite Hfac at 1.
  rewrite (mmul_diag_r OCR OCR_FieldLaws). unfold mmul, colscale. rewrite get_tab by assumption.
  apply (sum_ext OCR). intros a Ha. rewrite get_tab by assumption. reflexivity. Qed.

(* a real vector of R^(2p) is the realification of a complex one *)
Definition cof (y : nat -> R) : nat -> C := fun l => (y l, y (p + l)%nat).
Lemma rl_cof y l : (l < p + p)%nat -> rl p (cof y) l = y l.
Proof. intros Hl. unfold rl, cof. destruct (Nat.ltb_spec l p); cbn; [reflexivity|]. f_equal. lia. Qed.

Lemma cabs2_cdot q x y : cabs2 (cdot q x y) = Pp q x y * Pp q x y + Qq q x y * Qq q x y.
Proof. unfold cabs2. rewrite cdot_re, cdot_im. reflexivity. Qed.

(* energy of the doubled rows in a real direction y *)
Lemma c_energy (y : nat -> R) :
  rsum (n + n) (fun i => dot (p + p) (il p cxrow i) y * dot (p + p) (il p cxrow i) y) =
  rsum (r + r) (fun a => (sg (Nat.div2 a) * sg (Nat.div2 a)) * (dot (p + p) (il p cvrow a) y * dot (p + p) (il p cvrow a) y)).
Proof.
  assert (Hy : forall z, dot (p + p) z y = dot (p + p) z (rl p (cof y))) by (intros z; apply dot_ext; [reflexivity|intros l Hl; rewrite rl_cof by exact Hl; reflexivity]).
  rewrite !rsum_double.
  (* left: sum_i |<x_i, y~>|^2 *)
  rewrite (rsum_ext n _ (fun i => cabs2 (cdot p (cxrow i) (cof y)))).
  2:{ intros i Hi. rewrite il_even, il_odd, !Hy, dot_rl_rl, dot_irl_rl, cabs2_cdot. ring. }
  (* <x_i, y~> = sum_a g_a U_ia *)
  set (g := fun a => Cmult (vget OCR s a) (cdot p (cvrow a) (cof y))).
  rewrite (rsum_ext n _ (fun i => cabs2 (ccomb r g cucol i))).
  2:{ intros i Hi. f_equal. unfold cdot, ccomb.
      rewrite (sum_ext OCR p _ (fun l => sum OCR r (fun a => Cmult (Cmult (Cmult (cucol a i) (vget OCR s a)) (cvrow a l)) (Cconj (cof y l))))).
      2:{ intros l Hl. rewrite cxrow_expand by assumption. rewrite <- (sum_scale_r OCR OCR_FieldLaws). reflexivity. }
      rewrite (sum_swap OCR OCR_FieldLaws). apply (sum_ext OCR). intros a Ha. unfold g, cdot.
      rewrite <- (sum_scale_l OCR OCR_FieldLaws). cbn [fmul OCR]. rewrite <- (sum_scale_r OCR OCR_FieldLaws). cbn [fmul OCR].
      apply (sum_ext OCR). intros l Hl. cbn [fmul OCR]. ring. }
  rewrite (c_isometry n r cucol g cucol_orthonormal).
  apply rsum_ext. intros a Ha. rewrite il_even, il_odd, !Hy, dot_rl_rl, dot_irl_rl.
  replace (Nat.div2 (2 * a)) with a by (symmetry; apply Nat.div2_double).
  replace (Nat.div2 (2 * a + 1)) with a by (replace (2 * a + 1)%nat with (S (2 * a)) by lia; symmetry; apply Nat.div2_succ_double).
  unfold g, cabs2, sg. pose proof (s_real a Ha) as Hs. rewrite <- cdot_re, <- cdot_im.
  destruct (vget OCR s a) as [sa sb]. cbn in Hs. subst sb. destruct (cdot p (cvrow a) (cof y)) as [ca cb]. cbn. ring. Qed.
End ComplexEY.

Lemma frob2_re n p (M : list (list C)) : re (frob2 OCR n p M) = rsum n (fun i => Pp p (fun l => get OCR M i l) (fun l => get OCR M i l)).
Proof. unfold frob2. rewrite csum_re. apply rsum_ext. intros i Hi. rewrite csum_re. unfold Pp. apply rsum_ext. intros l Hl.
  cbn [fmul fconj OCR]. destruct (get OCR M i l). cbn. ring. Qed.

Lemma irl_rl_i p z l : irl p z l = rl p (fun t => Cmult Ci (z t)) l.
Proof. unfold irl, rl. destruct (Nat.ltb l p); [destruct (z l)|destruct (z (l - p)%nat)]; cbn; ring. Qed.

Lemma ccomb_scale K c g u i : Cmult c (ccomb K g u i) = ccomb K (fun a => Cmult c (g a)) u i.
Proof. unfold ccomb. rewrite <- (sum_scale_l OCR OCR_FieldLaws). apply (sum_ext OCR). intros a Ha. cbn [fmul OCR]. ring. Qed.

Section ComplexEY2.
Variables (n p r k : nat) (X U Vt : list (list C)) (s : list C) (A B : list (list C)).
Hypothesis OK : svd_ok OCR n p r X (U, s, Vt).
Hypothesis Hpos : forall a, (a < r)%nat -> 0 <= sg s a.
Hypothesis Hdesc : forall a b, (a <= b)%nat -> (b < r)%nat -> sg s b <= sg s a.
Hypothesis Hk : (k <= r)%nat.

Definition wdup (a : nat) : R := sg s (Nat.div2 a) * sg s (Nat.div2 a).

Lemma wdup_sum m : rsum (m + m) wdup = 2 * rsum m (fun a => sg s a * sg s a).
Proof. rewrite rsum_double, <- rsum_scal. apply rsum_ext. intros a Ha. unfold wdup.
  replace (Nat.div2 (2 * a)) with a by (symmetry; apply Nat.div2_double).
  replace (Nat.div2 (2 * a + 1)) with a by (replace (2 * a + 1)%nat with (S (2 * a)) by lia; symmetry; apply Nat.div2_succ_double). ring. Qed.

Lemma c_total : rsum (n + n) (fun i => dot (p + p) (il p (cxrow X) i) (il p (cxrow X) i)) = rsum (r + r) wdup.
Proof. rewrite wdup_sum, rsum_double.
  rewrite (rsum_ext n _ (fun i => 2 * Pp p (cxrow X i) (cxrow X i))) by (intros i Hi; rewrite il_even, il_odd, dot_rl_rl, dot_irl_irl; ring).
  rewrite rsum_scal. f_equal. unfold cxrow. rewrite <- (frob2_re n p X).
  rewrite (frob2_X OCR OCR_FieldLaws n p r X U Vt s OK). rewrite csum_re. apply rsum_ext. intros a Ha.
  pose proof (s_real n p r X U Vt s OK a Ha) as Hs. unfold sg. cbn [fmul OCR]. destruct (vget OCR s a) as [sa sb]. cbn in *. subst sb. ring. Qed.

Lemma div2_mono a b : (a <= b)%nat -> (Nat.div2 a <= Nat.div2 b)%nat.
Proof. intros H. pose proof (Nat.div2_odd a) as Ea. pose proof (Nat.div2_odd b) as Eb.
  destruct (Nat.odd a), (Nat.odd b); cbn in *; lia. Qed.

Theorem eckart_young_complex :
  re (frob2 OCR n p (msub OCR n p X (eof_inverse OCR n p k (eof_fit OCR n p r k X (U, s, Vt)) (e_scores (eof_fit OCR n p r k X (U, s, Vt)))))) <=
  re (frob2 OCR n p (msub OCR n p X (mmul OCR n k p A B))).
Proof.
  eapply Rle_trans; [apply Req_le; exact (f_equal re (fit_recon_error OCR OCR_FieldLaws n p r k X U Vt s OK Hk))|]. rewrite csum_re.
  (* left: sum over the discarded modes *)
  assert (HL : rsum r (fun i => re (if Nat.ltb i k then f0 OCR else fmul OCR (vget OCR s i) (vget OCR s i))) =
               rsum r (fun a => sg s a * sg s a) - rsum k (fun a => sg s a * sg s a)).
  { replace r with (k + (r - k))%nat at 1 2 by lia. rewrite !rsum_split.
    rewrite (rsum_ext k _ (fun _ => 0)) by (intros i Hi; replace (Nat.ltb i k) with true by (symmetry; apply Nat.ltb_lt; lia); reflexivity).
    rewrite rsum_const.
    rewrite (rsum_ext (r - k) (fun i => re (if Nat.ltb (k + i) k then f0 OCR else fmul OCR (vget OCR s (k + i)) (vget OCR s (k + i)))) (fun i => sg s (k + i) * sg s (k + i))).
    - lra.
    - intros i Hi. replace (Nat.ltb (k + i) k) with false by (symmetry; apply Nat.ltb_ge; lia).
      pose proof (s_real n p r X U Vt s OK (k + i)%nat ltac:(lia)) as Hs. unfold sg. cbn [fmul OCR]. destruct (vget OCR s (k + i)) as [sa sb]. cbn in *. subst sb. ring. }
  eapply Rle_trans; [apply Req_le; exact HL|]. clear HL.
  (* right: doubled rows of X - A B as residuals against an orthonormal family *)
  set (cw := fun j l => get OCR B j l).
  destruct (gram_schmidt (p + p) (k + k) (il p cw)) as (K' & q & T & HK' & ON & HB).
  set (ca := fun i j => if Nat.even i then get OCR A (Nat.div2 i) j else Cmult Ci (get OCR A (Nat.div2 i) j)).
  set (cA := fun i m => rsum (k + k) (fun j => gi (ca i) j * T j m)).
  set (d := fun i l => get OCR (msub OCR n p X (mmul OCR n k p A B)) i l).
  assert (Hrow : forall i l, (i < n + n)%nat -> (l < p + p)%nat -> resid q (cA i) (il p (cxrow X) i) K' l = il p d i l).
  { intros i l Hi Hl. rewrite resid_eq.
    assert (Hb : rsum K' (fun m => cA i m * q m l) = rl p (ccomb k (ca i) cw) l).
    { rewrite rl_ccomb by exact Hl. unfold cA.
      rewrite (rsum_ext K' _ (fun m => rsum (k + k) (fun j => gi (ca i) j * T j m * q m l))) by (intros m Hm; rewrite (Rmult_comm _ (q m l)), <- rsum_scal; apply rsum_ext; intros; ring).
      rewrite rsum_swap. apply rsum_ext. intros j Hj. rewrite (HB j l Hj Hl). rewrite <- rsum_scal. apply rsum_ext. intros; ring. }
    rewrite Hb. assert (Hi2 : (Nat.div2 i < n)%nat) by (apply div2_lt; exact Hi).
    assert (Hd : forall t, (t < p)%nat -> d (Nat.div2 i) t = Cminus (cxrow X (Nat.div2 i) t) (ccomb k (fun j => get OCR A (Nat.div2 i) j) cw t)).
    { intros t Ht. unfold d, msub, mmul, cxrow, ccomb, cw. rewrite !get_tab by assumption. reflexivity. }
    unfold il, ca. destruct (Nat.even i).
    - unfold rl. destruct (Nat.ltb_spec l p) as [Hlt|Hge].
      + rewrite Hd by exact Hlt. destruct (cxrow X (Nat.div2 i) l), (ccomb k (fun j => get OCR A (Nat.div2 i) j) cw l). cbn. ring.
      + rewrite Hd by lia. destruct (cxrow X (Nat.div2 i) (l - p)%nat), (ccomb k (fun j => get OCR A (Nat.div2 i) j) cw (l - p)%nat). cbn. ring.
    - rewrite !irl_rl_i. unfold rl. destruct (Nat.ltb_spec l p) as [Hlt|Hge].
      + rewrite Hd by exact Hlt. rewrite <- ccomb_scale. destruct (cxrow X (Nat.div2 i) l), (ccomb k (fun j => get OCR A (Nat.div2 i) j) cw l). cbn. ring.
      + rewrite Hd by lia. rewrite <- ccomb_scale. destruct (cxrow X (Nat.div2 i) (l - p)%nat), (ccomb k (fun j => get OCR A (Nat.div2 i) j) cw (l - p)%nat). cbn. ring. }
  assert (HR : 2 * re (frob2 OCR n p (msub OCR n p X (mmul OCR n k p A B))) =
               rsum (n + n) (fun i => dot (p + p) (resid q (cA i) (il p (cxrow X) i) K') (resid q (cA i) (il p (cxrow X) i) K'))).
  { rewrite frob2_re. fold d. rewrite <- rsum_scal. rewrite rsum_double. apply rsum_ext. intros i Hi.
    rewrite (dot_ext (p + p) _ (il p d (2 * i)) _ (il p d (2 * i))) by (intros l Hl; apply Hrow; lia).
    rewrite (dot_ext (p + p) (resid q (cA (2 * i + 1)%nat) _ K') (il p d (2 * i + 1)) (resid q (cA (2 * i + 1)%nat) _ K') (il p d (2 * i + 1))) by (intros l Hl; apply Hrow; lia).
    rewrite il_even, il_odd, dot_rl_rl, dot_irl_irl. unfold d. ring. }
  pose proof (abstract_factor_bound (n + n) (p + p) (r + r) K' (k + k) (il p (cxrow X)) (il p (cvrow Vt)) wdup q cA HK' ltac:(lia)
                (il_orthonormal p r (cvrow Vt) (cvrow_orthonormal n p r X U Vt s OK)) ON) as HAB.
  assert (Hw1 : forall a, (a < r + r)%nat -> 0 <= wdup a) by (intros a Ha; unfold wdup; apply Rle_0_sqr).
  assert (Hw2 : forall a b, (a <= b)%nat -> (b < r + r)%nat -> wdup b <= wdup a).
  { intros a b Hab Hb. unfold wdup. pose proof (div2_mono a b Hab) as Hm. pose proof (div2_lt b r Hb) as Hlt.
    assert (0 <= sg s (Nat.div2 b)) by (apply Hpos; lia). assert (sg s (Nat.div2 b) <= sg s (Nat.div2 a)) by (apply Hdesc; lia). nra. }
  specialize (HAB Hw1 Hw2 (c_energy n p r X U Vt s OK) c_total). rewrite !wdup_sum in HAB. lra. Qed.
End ComplexEY2.

(* non-vacuity: a genuinely complex matrix with a valid SVD answer *)
Example c_svd_ok_example :
  svd_ok OCR 2 1 1 [[(0, 3)]; [(4, 0)]] ([[(0, 3 / 5)]; [(4 / 5, 0)]], [(5, 0)], [[(1, 0)]]) /\
  (forall a, (a < 1)%nat -> 0 <= sg [(5, 0)] a) /\ (forall a b, (a <= b)%nat -> (b < 1)%nat -> sg [(5, 0)] b <= sg [(5, 0)] a).
Proof. unfold svd_ok, unitary_cols, unitary_rows, real_vec, wf, vwf, sg.
  repeat split; try reflexivity;
  try (unfold mmul, mH, mI, mdiag, tab, vtab; cbn [map seq sum get vget nth fmul fadd f0 f1 fconj OCR delta Nat.eqb];
       unfold Cmult, Cplus, Cconj, RtoC; cbn [fst snd]; repeat (f_equal; try lra)).
  - intros i Hi. destruct i as [|i]; [|lia]. cbn [vget nth fconj OCR]. unfold Cconj. cbn. f_equal. lra.
  - intros a Ha. destruct a as [|a]; [|lia]. cbn. lra.
  - intros a b Hab Hb. destruct b as [|b]; [|lia]. destruct a as [|a]; [|lia]. cbn. lra.
Qed.
