(* C16 — the premises of the whitening theorems are satisfiable: a concrete real instance
   (two samples, one feature, X = (2, -2)^T, so C = 4, and full whitening d = 1/2). *)
From Coq Require Import ZArith List Bool Reals Lra Lia.
From XV Require Import Base.Scalar Base.Sum Base.Mat Base.RInst Model.Eof Model.Whiten.
Import ListNotations.
Open Scope R_scope.

Definition exX : list (list R) := [[2]; [-2]].
Definition exV : list (list R) := [[1]].
Definition exlam : list R := [4].
Definition exd : list R := [/ 2].
Definition exdinv : list R := [2].
Definition exeps : R := / 4503599627370496.

Ltac one i Hi := intros i Hi; assert (i = 0%nat) by lia; subst i.

Lemma example_premises :
  (1 < 2)%nat /\
  eig_ok OR 1 (whiten_cov OR 2 1 exX) exV exlam /\
  (forall i, (i < 1)%nat -> whiten_keep OR (vget OR exlam i) exeps = true) /\
  real_vec OR 1 exd /\
  (forall i, (i < 1)%nat -> (vget OR exd i * vget OR exdinv i = 1)) /\
  (forall i, (i < 1)%nat -> (vget OR exd i * vget OR exd i * vget OR exlam i = 1)).
Proof.
  split; [lia|]. split.
  - unfold eig_ok. repeat split; try reflexivity.
    + unfold whiten_cov, sandwich, mmul, mH, mdiag, tab, get, vget, exX, exV, exlam, whiten_divisor. cbn.
      f_equal. f_equal. unfold delta. cbn. lra.
    + unfold mmul, mH, mI, tab, get, exV, delta. cbn. f_equal. f_equal. lra.
    + unfold mmul, mH, mI, tab, get, exV, delta. cbn. f_equal. f_equal. lra.
  - split; [|split; [|split]].
    + one i Hi. unfold whiten_keep, exlam, exeps. cbn. apply negb_true_iff. apply Rleb_false. lra.
    + one i Hi. reflexivity.
    + one i Hi. unfold exd, exdinv. cbn. lra.
    + one i Hi. unfold exd, exlam. cbn. lra.
Qed.
