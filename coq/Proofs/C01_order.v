(* C01 — order-dependent part, at the real instance: descending non-negative explained
   variances, ratios in [0,1] summing to one over all modes. *)
From Coq Require Import ZArith List Bool Reals Lra Lia Arith.
From XV Require Import Base.Scalar Base.Sum Base.Mat Base.MatAlg Base.RInst Model.Eof Proofs.C01_proofs.
Import ListNotations.
Open Scope R_scope.

Definition desc_nonneg (r : nat) (s : list R) : Prop :=
  (forall i, (i < r)%nat -> 0 <= vget OR s i) /\
  (forall i j, (i <= j)%nat -> (j < r)%nat -> vget OR s j <= vget OR s i).

Lemma sum_R_nonneg n f : (forall i, (i < n)%nat -> 0 <= f i) -> 0 <= sum OR n f.
Proof. induction n as [|n IH]; intros H; cbn [sum f0 fadd OR]; [lra|].
  assert (0 <= sum OR n f) by (apply IH; intros; apply H; lia). specialize (H n ltac:(lia)). lra. Qed.

Lemma sum_R_term_le n f i : (forall j, (j < n)%nat -> 0 <= f j) -> (i < n)%nat -> f i <= sum OR n f.
Proof. induction n as [|n IH]; intros H Hi; [lia|]. cbn [sum fadd OR].
  destruct (Nat.eq_dec i n) as [->|Hne].
  - assert (0 <= sum OR n f) by (apply sum_R_nonneg; intros; apply H; lia). lra.
  - assert (f i <= sum OR n f) by (apply IH; [intros; apply H; lia|lia]). specialize (H n ltac:(lia)). lra. Qed.

Section Order.
Variables (n p r k : nat) (X U Vt : list (list R)) (s sg : list R).
Hypothesis OK : svd_ok OR n p r X (U, s, Vt).
Hypothesis Hord : desc_nonneg r s.
Hypothesis Hk : (k <= r)%nat.
Hypothesis Hn : (2 <= n)%nat.

Let nn1_pos : 0 < IZR (Z.of_nat n - 1).
Proof. apply IZR_lt. lia. Qed.

Notation out := (eof_fit_sg OR n p r k X (U, s, Vt) sg).

Lemma expvar_get i : (i < k)%nat -> vget OR (e_expvar out) i = vget OR s i * vget OR s i / IZR (Z.of_nat n - 1).
Proof. intros Hi. unfold eof_fit_sg. cbn [e_expvar]. unfold vmap, vfirstn, sq_over. rewrite !vget_vtab by lia. reflexivity. Qed.

Lemma expvar_desc_nonneg : desc_nonneg k (e_expvar out).
Proof. destruct Hord as [Hp Hd]. split.
  - intros i Hi. rewrite expvar_get by exact Hi. specialize (Hp i ltac:(lia)).
    apply Rmult_le_pos; [nra|]. left. apply Rinv_0_lt_compat. exact nn1_pos.
  - intros i j Hij Hj. rewrite !expvar_get by lia.
    assert (0 <= vget OR s j) by (apply Hp; lia). assert (vget OR s j <= vget OR s i) by (apply Hd; lia).
    apply Rmult_le_compat_r; [left; apply Rinv_0_lt_compat; exact nn1_pos|nra]. Qed.

Lemma norms_are_singular_values i : (i < k)%nat -> vget OR (e_norms out) i = vget OR s i.
Proof. intros Hi. unfold eof_fit_sg. cbn [e_norms]. unfold vfirstn. rewrite vget_vtab by exact Hi. reflexivity. Qed.

(* ratios against the total variance of the same (centred) matrix *)
Hypothesis Hc : forall j, (j < p)%nat -> colsum OR n X j = 0.

Lemma totvar_is_sum : e_totvar out = sum OR r (fun i => vget OR s i * vget OR s i / IZR (Z.of_nat n - 1)).
Proof. unfold eof_fit_sg. cbn [e_totvar].
  rewrite (totvar_centred OR OR_FieldLaws n p r X U Vt s OK).
  - reflexivity.
  - cbn. apply not_0_IZR. lia.
  - cbn. apply not_0_IZR. lia.
  - exact Hc. Qed.

Lemma ratio_bounds i : (i < k)%nat -> 0 < e_totvar out ->
  0 <= vget OR (e_expvar out) i / e_totvar out <= 1.
Proof. intros Hi Hpos. destruct expvar_desc_nonneg as [Hp _]. specialize (Hp i Hi).
  assert (Hle : vget OR (e_expvar out) i <= e_totvar out).
  { rewrite totvar_is_sum, expvar_get by exact Hi.
    apply (sum_R_term_le r (fun i => vget OR s i * vget OR s i / IZR (Z.of_nat n - 1)) i); [|lia].
    intros j Hj. destruct Hord as [Hp' _]. specialize (Hp' j Hj).
    apply Rmult_le_pos; [nra|left; apply Rinv_0_lt_compat; exact nn1_pos]. }
  split.
  - apply Rmult_le_pos; [exact Hp|left; apply Rinv_0_lt_compat; exact Hpos].
  - apply (Rmult_le_reg_r (e_totvar out)); [exact Hpos|]. unfold Rdiv. rewrite Rmult_assoc, Rinv_l by lra. lra. Qed.

End Order.

(* with all r modes kept the ratios sum to one *)
Lemma ratios_sum_to_one n p r X U Vt s sg :
  svd_ok OR n p r X (U, s, Vt) -> (2 <= n)%nat ->
  (forall j, (j < p)%nat -> colsum OR n X j = 0) ->
  let out := eof_fit_sg OR n p r r X (U, s, Vt) sg in
  e_totvar out <> 0 ->
  sum OR r (fun i => vget OR (e_expvar out) i / e_totvar out) = 1.
Proof. intros OK Hn Hc out Hnz.
  assert (H : sum OR r (fun i => vget OR (e_expvar out) i) = e_totvar out).
  { subst out. etransitivity; [|symmetry; apply (totvar_is_sum n p r r X U Vt s sg OK (le_n r) Hn Hc)].
    apply (sum_ext OR). intros i Hi. apply expvar_get; [apply le_n|exact Hn|exact Hi]. }
  unfold Rdiv. rewrite (sum_scale_r OR OR_FieldLaws).
  replace (sum OR r (vget OR (e_expvar out))) with (e_totvar out) by (symmetry; exact H).
  generalize dependent (e_totvar out). intros t Hnz _. cbn [fmul OR]. field. exact Hnz. Qed.

(* non-vacuity: a concrete matrix with a valid SVD answer meets the premises *)
Example svd_ok_example :
  svd_ok OR 3 2 2 [[3;0];[0;2];[0;0]] ([[1;0];[0;1];[0;0]], [3;2], [[1;0];[0;1]]) /\ desc_nonneg 2 [3;2].
Proof. unfold svd_ok, unitary_cols, unitary_rows, real_vec, desc_nonneg, wf, vwf.
  repeat split; try reflexivity;
  try (unfold mmul, mH, mI, mdiag, tab, vtab; cbn [map seq sum get vget nth fmul fadd f0 f1 fconj OR delta Nat.eqb];
       repeat (f_equal; try lra)).
  - intros i Hi. destruct i as [|[|]]; cbn [vget nth]; try lra; lia.
  - intros i j Hij Hj. destruct j as [|[|]]; destruct i as [|[|]]; cbn [vget nth]; try lra; lia.
Qed.

(* ---- Eckart-Young, partial: among all reconstructions that keep ANY k of the r modes, keeping the
   first k attains the smallest Frobenius error ---- *)
Fixpoint count_true (r : nat) (b : nat -> bool) : nat :=
  match r with O => O | S r' => (if b r' then 1 else 0) + count_true r' b end.

Lemma masked_sum_le_leading (a : nat -> R) (b : nat -> bool) : forall r k,
  (forall i, (i < r)%nat -> 0 <= a i) -> (forall i j, (i <= j)%nat -> (j < r)%nat -> a j <= a i) ->
  count_true r b = k ->
  sum OR r (fun i => if b i then a i else 0) <= sum OR k a.
Proof. induction r as [|r IH]; intros k Hpos Hdesc Hc; cbn [count_true] in Hc.
  - subst k. cbn. lra.
  - cbn [sum fadd OR]. destruct (b r) eqn:Eb.
    + destruct k as [|k]; [lia|]. assert (Hk : count_true r b = k) by lia.
      assert (Hkr : (k <= r)%nat).
      { clear -Hk. revert k Hk. induction r as [|r IHr]; intros k Hk; cbn [count_true] in Hk; [lia|]. destruct (b r); [destruct k; [lia|]; specialize (IHr k ltac:(lia)); lia | specialize (IHr k Hk); lia]. }
      specialize (IH k (fun i Hi => Hpos i ltac:(lia)) (fun i j Hij Hj => Hdesc i j Hij ltac:(lia)) Hk).
      cbn [sum fadd OR]. assert (a r <= a k) by (apply Hdesc; lia). lra.
    + specialize (IH k (fun i Hi => Hpos i ltac:(lia)) (fun i j Hij Hj => Hdesc i j Hij ltac:(lia)) ltac:(lia)). lra. Qed.

Lemma count_true_min r k : count_true r (fun i => Nat.ltb i k) = Nat.min r k.
Proof. induction r as [|r IH]; cbn [count_true]; [reflexivity|]. rewrite IH. destruct (Nat.ltb_spec r k); lia. Qed.

Lemma count_true_leading r k : (k <= r)%nat -> count_true r (fun i => Nat.ltb i k) = k.
Proof. intros Hk. rewrite count_true_min. lia. Qed.

Section EckartYoungSubsets.
Variables (n p r k : nat) (X U Vt : list (list R)) (s : list R).
Hypothesis OK : svd_ok OR n p r X (U, s, Vt).
Hypothesis Hord : desc_nonneg r s.

(* reconstruction that keeps the modes selected by the mask b (zero-padded diagonal) *)
Definition recon_mask (b : nat -> bool) : list (list R) :=
  mmul OR n r p (mmul OR n r r U (mdiag OR r (vtab r (fun i => if b i then vget OR s i else 0)))) Vt.

Lemma error_mask (b : nat -> bool) :
  frob2 OR n p (msub OR n p X (recon_mask b)) = sum OR r (fun i => if b i then 0 else vget OR s i * vget OR s i).
Proof. destruct OK as (HX & HU & HVt & Hs & Hfac & HUU & HVV & Hreal). unfold recon_mask.
  rewrite Hfac at 1. rewrite <- (mmul_msub_l OR OR_FieldLaws). rewrite <- (mmul_msub_r OR OR_FieldLaws).
  assert (Hd : msub OR r r (mdiag OR r s) (mdiag OR r (vtab r (fun i => if b i then vget OR s i else 0)))
               = mdiag OR r (vtab r (fun i => if b i then 0 else vget OR s i))).
  { unfold msub, mdiag. apply tab_ext. intros i j Hi Hj. rewrite !get_tab by assumption. rewrite !vget_vtab by assumption.
    cbn [fsub fmul OR]. destruct (b i); ring. }
  rewrite Hd. rewrite (frob2_UeVt OR OR_FieldLaws n p r X U Vt s OK).
  - apply (sum_ext OR). intros i Hi. rewrite vget_vtab by exact Hi. cbn [fmul OR]. destruct (b i); ring.
  - intros i Hi. reflexivity. Qed.

Theorem eckart_young_subsets (b : nat -> bool) : (k <= r)%nat -> count_true r b = k ->
  frob2 OR n p (msub OR n p X (recon_mask (fun i => Nat.ltb i k))) <= frob2 OR n p (msub OR n p X (recon_mask b)).
Proof. intros Hk Hc. rewrite !error_mask. destruct Hord as [Hpos Hdesc].
  set (a := fun i => vget OR s i * vget OR s i).
  assert (Hap : forall i, (i < r)%nat -> 0 <= a i) by (intros i Hi; unfold a; specialize (Hpos i Hi); nra).
  assert (Had : forall i j, (i <= j)%nat -> (j < r)%nat -> a j <= a i).
  { intros i j Hij Hj. unfold a. assert (0 <= vget OR s j) by (apply Hpos; lia). assert (vget OR s j <= vget OR s i) by (apply Hdesc; lia). nra. }
  (* error(b) = total - kept(b) *)
  assert (Hsplit : forall c : nat -> bool, sum OR r (fun i => if c i then 0 else a i) = sum OR r a - sum OR r (fun i => if c i then a i else 0)).
  { intros c. rewrite <- (sum_sub OR OR_FieldLaws). apply (sum_ext OR). intros i Hi. cbn [fsub OR]. destruct (c i); lra. }
  change (sum OR r (fun i => if Nat.ltb i k then 0 else a i) <= sum OR r (fun i => if b i then 0 else a i)).
  rewrite (Hsplit b), (Hsplit (fun i => Nat.ltb i k)). cbn [fsub OR].
  pose proof (masked_sum_le_leading a b r k Hap Had Hc) as H1.
  assert (H2 : sum OR r (fun i => if Nat.ltb i k then a i else 0) = sum OR k a).
  { rewrite (sum_trunc OR OR_FieldLaws k r) by (try exact Hk; intros i H3 H4; replace (Nat.ltb i k) with false by (symmetry; apply Nat.ltb_ge; lia); reflexivity).
    apply (sum_ext OR). intros i Hi. replace (Nat.ltb i k) with true by (symmetry; apply Nat.ltb_lt; lia). reflexivity. }
  rewrite H2. lra. Qed.
End EckartYoungSubsets.
