(* written by tools/mk_text_tie.py: the source text against which the hand-written model parts of C02 were last validated *)
From Coq Require Import String List.
From XV Require Import Gen.T9text.
Import ListNotations.
Open Scope string_scope.

(* xeofs/preprocessing/stacker.py: Stacker._stack *)
Lemma text_C02_Stacker__stack_frozen : text_C02_Stacker__stack =
  ["sample_name = self.sample_name";
   "feature_name = self.feature_name";
   "if len(sample_dims) > 1:";
   "X = X.stack({sample_name: sample_dims})";
   "if len(sample_dims) == 1:";
   "if sample_dims[0] != sample_name:";
   "X = X.rename({sample_dims[0]: sample_name})";
   "pass";
   "raise ValueError('Sample dimension must not be empty.')";
   "match X:";
   "if len(feature_dims) > 1:";
   "X = X.stack({feature_name: feature_dims})";
   "if len(feature_dims) == 1:";
   "if feature_dims[0] != feature_name:";
   "X = X.rename({feature_dims[0]: feature_name})";
   "pass";
   "raise ValueError('Feature dimension must not be empty.')";
   "X = X.to_stacked_array(new_dim=feature_name, sample_dims=(self.sample_name,))";
   "raise TypeError(f'Invalid data type {type(X)}.')";
   "if X.dims == (feature_name, sample_name):";
   "X = X.transpose(sample_name, feature_name)";
   "return X"].
Proof. reflexivity. Qed.

(* xeofs/preprocessing/stacker.py: Stacker._unstack_to_dataarray *)
Lemma text_C02_Stacker__unstack_to_dataarray_frozen : text_C02_Stacker__unstack_to_dataarray =
  ["sample_name = self.sample_name";
   "feature_name = self.feature_name";
   "has_only_one_sample_dim = len(self.dims_mapping[sample_name]) == 1";
   "has_only_one_feature_dim = len(self.dims_mapping[feature_name]) == 1";
   "if sample_name in X.dims:";
   "if has_only_one_sample_dim:";
   "if self.dims_mapping[sample_name][0] != sample_name:";
   "X = X.rename({sample_name: self.dims_mapping[sample_name][0]})";
   "X = X.unstack(sample_name)";
   "if feature_name in X.dims:";
   "if has_only_one_feature_dim:";
   "if self.dims_mapping[feature_name][0] != feature_name:";
   "X = X.rename({feature_name: self.dims_mapping[feature_name][0]})";
   "X = X.unstack(feature_name)";
   "pass";
   "X = self._reorder_dims(X)";
   "return X"].
Proof. reflexivity. Qed.

(* xeofs/preprocessing/stacker.py: Stacker._unstack_to_dataset_data *)
Lemma text_C02_Stacker__unstack_to_dataset_data_frozen : text_C02_Stacker__unstack_to_dataset_data =
  ["sample_name = self.sample_name";
   "feature_name = self.feature_name";
   "has_only_one_sample_dim = len(self.dims_mapping[sample_name]) == 1";
   "if has_only_one_sample_dim and sample_name in X.dims:";
   "X = X.rename({sample_name: self.dims_mapping[sample_name][0]})";
   "ds: DataSet = X.to_unstacked_dataset(feature_name, 'variable')";
   "ds = self._restore_squeezed_dims(ds, X).unstack()";
   "ds = self._restore_unit_feature_dims(ds)";
   "ds = self._reorder_dims(ds)";
   "return ds"].
Proof. reflexivity. Qed.

(* xeofs/preprocessing/stacker.py: Stacker._unstack_to_dataset_components *)
Lemma text_C02_Stacker__unstack_to_dataset_components_frozen : text_C02_Stacker__unstack_to_dataset_components =
  ["feature_name = self.feature_name";
   "ds: DataSet = data.to_unstacked_dataset(feature_name, 'variable')";
   "ds = self._restore_squeezed_dims(ds, data).unstack()";
   "ds = self._restore_unit_feature_dims(ds)";
   "ds = self._reorder_dims(ds)";
   "return ds"].
Proof. reflexivity. Qed.

(* xeofs/preprocessing/stacker.py: Stacker._restore_squeezed_dims *)
Lemma text_C02_Stacker__restore_squeezed_dims_frozen : text_C02_Stacker__restore_squeezed_dims =
  ["for dim in X.dims:";
   "if dim == self.feature_name or dim in ds.dims:";
   "continue";
   "index = X.indexes.get(dim)";
   "if isinstance(index, pd.MultiIndex):";
   "coords = xr.Coordinates.from_pandas_multiindex(index, dim)";
   "ds = ds.expand_dims(dim).assign_coords(coords)";
   "if dim in X.coords:";
   "ds = ds.expand_dims({dim: X[dim].values})";
   "ds = ds.expand_dims(dim)";
   "return ds"].
Proof. reflexivity. Qed.

(* xeofs/preprocessing/stacker.py: Stacker._restore_unit_feature_dims *)
Lemma text_C02_Stacker__restore_unit_feature_dims_frozen : text_C02_Stacker__restore_unit_feature_dims =
  ["for dim in self.dims_mapping[self.feature_name]:";
   "coord = self.coords_in.get(dim)";
   "shared = all((dim in dims for dims in self.vars_in.values()))";
   "if coord is not None and coord.size == 1 and (dim not in ds.dims) and shared:";
   "ds = ds.drop_vars(dim, errors='ignore').expand_dims({dim: coord.values})";
   "return ds"].
Proof. reflexivity. Qed.

(* xeofs/preprocessing/stacker.py: Stacker._reorder_dims *)
Lemma text_C02_Stacker__reorder_dims_frozen : text_C02_Stacker__reorder_dims =
  ["order_input_dims = [valid_dim for valid_dim in self.dims_in if valid_dim in X.dims]";
   "if order_input_dims != X.dims:";
   "X = X.transpose(..., *order_input_dims)";
   "return X"].
Proof. reflexivity. Qed.

(* xeofs/preprocessing/stacker.py: Stacker._match_variables *)
Lemma text_C02_Stacker__match_variables_frozen : text_C02_Stacker__match_variables =
  ["if isinstance(X, xr.Dataset) and self.vars_in:";
   "if set(X.data_vars) != set(self.vars_in):";
   "raise ValueError('Data to be transformed has different variables than the data used to fit.')";
   "X = X[list(self.vars_in)].map(lambda var: var.transpose(*self.vars_in[var.name]), keep_attrs=True)";
   "return X"].
Proof. reflexivity. Qed.

(* xeofs/preprocessing/stacker.py: Stacker.fit *)
Lemma text_C02_Stacker_fit_frozen : text_C02_Stacker_fit =
  ["self._sanity_check(X, sample_dims, feature_dims)";
   "self.data_type = self._type_name(X)";
   "self.sample_dims = sample_dims";
   "self.feature_dims = feature_dims";
   "self.dims_mapping.update({self.sample_name: sample_dims, self.feature_name: feature_dims})";
   "self.dims_in = tuple(X.dims)";
   "self.coords_in = {dim: X.coords[dim] for dim in X.dims}";
   "self.vars_in = {name: tuple(X[name].dims) for name in X.data_vars} if isinstance(X, xr.Dataset) else {}";
   "return self"].
Proof. reflexivity. Qed.

(* xeofs/preprocessing/stacker.py: Stacker.transform *)
Lemma text_C02_Stacker_transform_frozen : text_C02_Stacker_transform =
  ["self._validate_transform_dimensions(X)";
   "self._validate_transform_feature_coords(X)";
   "X = self._match_variables(X)";
   "sample_dims = self.dims_mapping[self.sample_name]";
   "feature_dims = self.dims_mapping[self.feature_name]";
   "da: DataArray = self._stack(X, sample_dims=sample_dims, feature_dims=feature_dims)";
   "self.coords_out.update({self.sample_name: da.coords[self.sample_name], self.feature_name: da.coords[self.feature_name]})";
   "return da"].
Proof. reflexivity. Qed.

(* xeofs/preprocessing/stacker.py: Stacker.inverse_transform_data *)
Lemma text_C02_Stacker_inverse_transform_data_frozen : text_C02_Stacker_inverse_transform_data =
  ["match self.data_type:";
   "return self._unstack_to_dataarray(X)";
   "return self._unstack_to_dataset_data(X)";
   "raise TypeError(f'Invalid data type {self._type_name(X)}.')"].
Proof. reflexivity. Qed.

(* xeofs/preprocessing/stacker.py: Stacker.inverse_transform_components *)
Lemma text_C02_Stacker_inverse_transform_components_frozen : text_C02_Stacker_inverse_transform_components =
  ["match self.data_type:";
   "return self._unstack_to_dataarray(X)";
   "return self._unstack_to_dataset_components(X)";
   "raise TypeError(f'Invalid data type {self._type_name(X)}.')"].
Proof. reflexivity. Qed.

(* xeofs/preprocessing/stacker.py: Stacker.inverse_transform_scores *)
Lemma text_C02_Stacker_inverse_transform_scores_frozen : text_C02_Stacker_inverse_transform_scores =
  ["return self._unstack_to_dataarray(X)"].
Proof. reflexivity. Qed.

(* xeofs/preprocessing/stacker.py: Stacker.inverse_transform_scores_unseen *)
Lemma text_C02_Stacker_inverse_transform_scores_unseen_frozen : text_C02_Stacker_inverse_transform_scores_unseen =
  ["return self.inverse_transform_scores(X)"].
Proof. reflexivity. Qed.

Definition all_frozen : Prop :=
  text_C02_Stacker__stack = ["sample_name = self.sample_name";
   "feature_name = self.feature_name";
   "if len(sample_dims) > 1:";
   "X = X.stack({sample_name: sample_dims})";
   "if len(sample_dims) == 1:";
   "if sample_dims[0] != sample_name:";
   "X = X.rename({sample_dims[0]: sample_name})";
   "pass";
   "raise ValueError('Sample dimension must not be empty.')";
   "match X:";
   "if len(feature_dims) > 1:";
   "X = X.stack({feature_name: feature_dims})";
   "if len(feature_dims) == 1:";
   "if feature_dims[0] != feature_name:";
   "X = X.rename({feature_dims[0]: feature_name})";
   "pass";
   "raise ValueError('Feature dimension must not be empty.')";
   "X = X.to_stacked_array(new_dim=feature_name, sample_dims=(self.sample_name,))";
   "raise TypeError(f'Invalid data type {type(X)}.')";
   "if X.dims == (feature_name, sample_name):";
   "X = X.transpose(sample_name, feature_name)";
   "return X"] /\
  text_C02_Stacker__unstack_to_dataarray = ["sample_name = self.sample_name";
   "feature_name = self.feature_name";
   "has_only_one_sample_dim = len(self.dims_mapping[sample_name]) == 1";
   "has_only_one_feature_dim = len(self.dims_mapping[feature_name]) == 1";
   "if sample_name in X.dims:";
   "if has_only_one_sample_dim:";
   "if self.dims_mapping[sample_name][0] != sample_name:";
   "X = X.rename({sample_name: self.dims_mapping[sample_name][0]})";
   "X = X.unstack(sample_name)";
   "if feature_name in X.dims:";
   "if has_only_one_feature_dim:";
   "if self.dims_mapping[feature_name][0] != feature_name:";
   "X = X.rename({feature_name: self.dims_mapping[feature_name][0]})";
   "X = X.unstack(feature_name)";
   "pass";
   "X = self._reorder_dims(X)";
   "return X"] /\
  text_C02_Stacker__unstack_to_dataset_data = ["sample_name = self.sample_name";
   "feature_name = self.feature_name";
   "has_only_one_sample_dim = len(self.dims_mapping[sample_name]) == 1";
   "if has_only_one_sample_dim and sample_name in X.dims:";
   "X = X.rename({sample_name: self.dims_mapping[sample_name][0]})";
   "ds: DataSet = X.to_unstacked_dataset(feature_name, 'variable')";
   "ds = self._restore_squeezed_dims(ds, X).unstack()";
   "ds = self._restore_unit_feature_dims(ds)";
   "ds = self._reorder_dims(ds)";
   "return ds"] /\
  text_C02_Stacker__unstack_to_dataset_components = ["feature_name = self.feature_name";
   "ds: DataSet = data.to_unstacked_dataset(feature_name, 'variable')";
   "ds = self._restore_squeezed_dims(ds, data).unstack()";
   "ds = self._restore_unit_feature_dims(ds)";
   "ds = self._reorder_dims(ds)";
   "return ds"] /\
  text_C02_Stacker__restore_squeezed_dims = ["for dim in X.dims:";
   "if dim == self.feature_name or dim in ds.dims:";
   "continue";
   "index = X.indexes.get(dim)";
   "if isinstance(index, pd.MultiIndex):";
   "coords = xr.Coordinates.from_pandas_multiindex(index, dim)";
   "ds = ds.expand_dims(dim).assign_coords(coords)";
   "if dim in X.coords:";
   "ds = ds.expand_dims({dim: X[dim].values})";
   "ds = ds.expand_dims(dim)";
   "return ds"] /\
  text_C02_Stacker__restore_unit_feature_dims = ["for dim in self.dims_mapping[self.feature_name]:";
   "coord = self.coords_in.get(dim)";
   "shared = all((dim in dims for dims in self.vars_in.values()))";
   "if coord is not None and coord.size == 1 and (dim not in ds.dims) and shared:";
   "ds = ds.drop_vars(dim, errors='ignore').expand_dims({dim: coord.values})";
   "return ds"] /\
  text_C02_Stacker__reorder_dims = ["order_input_dims = [valid_dim for valid_dim in self.dims_in if valid_dim in X.dims]";
   "if order_input_dims != X.dims:";
   "X = X.transpose(..., *order_input_dims)";
   "return X"] /\
  text_C02_Stacker__match_variables = ["if isinstance(X, xr.Dataset) and self.vars_in:";
   "if set(X.data_vars) != set(self.vars_in):";
   "raise ValueError('Data to be transformed has different variables than the data used to fit.')";
   "X = X[list(self.vars_in)].map(lambda var: var.transpose(*self.vars_in[var.name]), keep_attrs=True)";
   "return X"] /\
  text_C02_Stacker_fit = ["self._sanity_check(X, sample_dims, feature_dims)";
   "self.data_type = self._type_name(X)";
   "self.sample_dims = sample_dims";
   "self.feature_dims = feature_dims";
   "self.dims_mapping.update({self.sample_name: sample_dims, self.feature_name: feature_dims})";
   "self.dims_in = tuple(X.dims)";
   "self.coords_in = {dim: X.coords[dim] for dim in X.dims}";
   "self.vars_in = {name: tuple(X[name].dims) for name in X.data_vars} if isinstance(X, xr.Dataset) else {}";
   "return self"] /\
  text_C02_Stacker_transform = ["self._validate_transform_dimensions(X)";
   "self._validate_transform_feature_coords(X)";
   "X = self._match_variables(X)";
   "sample_dims = self.dims_mapping[self.sample_name]";
   "feature_dims = self.dims_mapping[self.feature_name]";
   "da: DataArray = self._stack(X, sample_dims=sample_dims, feature_dims=feature_dims)";
   "self.coords_out.update({self.sample_name: da.coords[self.sample_name], self.feature_name: da.coords[self.feature_name]})";
   "return da"] /\
  text_C02_Stacker_inverse_transform_data = ["match self.data_type:";
   "return self._unstack_to_dataarray(X)";
   "return self._unstack_to_dataset_data(X)";
   "raise TypeError(f'Invalid data type {self._type_name(X)}.')"] /\
  text_C02_Stacker_inverse_transform_components = ["match self.data_type:";
   "return self._unstack_to_dataarray(X)";
   "return self._unstack_to_dataset_components(X)";
   "raise TypeError(f'Invalid data type {self._type_name(X)}.')"] /\
  text_C02_Stacker_inverse_transform_scores = ["return self._unstack_to_dataarray(X)"] /\
  text_C02_Stacker_inverse_transform_scores_unseen = ["return self.inverse_transform_scores(X)"].

Lemma all_frozen_holds : all_frozen.
Proof. exact (conj text_C02_Stacker__stack_frozen (conj text_C02_Stacker__unstack_to_dataarray_frozen (conj text_C02_Stacker__unstack_to_dataset_data_frozen (conj text_C02_Stacker__unstack_to_dataset_components_frozen (conj text_C02_Stacker__restore_squeezed_dims_frozen (conj text_C02_Stacker__restore_unit_feature_dims_frozen (conj text_C02_Stacker__reorder_dims_frozen (conj text_C02_Stacker__match_variables_frozen (conj text_C02_Stacker_fit_frozen (conj text_C02_Stacker_transform_frozen (conj text_C02_Stacker_inverse_transform_data_frozen (conj text_C02_Stacker_inverse_transform_components_frozen (conj text_C02_Stacker_inverse_transform_scores_frozen text_C02_Stacker_inverse_transform_scores_unseen_frozen))))))))))))). Qed.
